------------------------------ MODULE SignalTrace ------------------------------
(* X06: Abs oracle for iora::core::Signal / ScopedConnection as a trace specification (P1..P7 of Signal.tla).                *)
(* State: the abstract slot list `slots` (sequence of [id, w]); connect / disconnect / disconnectAll / connectionCount /      *)
(* setExceptionHandler take effect (Lin) at one instant between Call and Ret; an emit x takes ONE snapshot of the list         *)
(* (Snap(x)) between its Call and its first slot, then must invoke exactly the slots of that snapshot, in order, skipping a     *)
(* weak slot iff its target has expired by its turn, before it returns.  Nested calls (a slot body calling the signal) are     *)
(* ordinary calls of the same thread: operations are keyed by a call id `c`, emits by `x`, not by thread.                      *)
(*   Begin                                                                                                                     *)
(*   Call{t, c, op: connect|disconnect|disconnectAll|count|sethandler, id, g, w, on}   Ret{t, c, op, id, n}                     *)
(*       ScopedConnection (handle h): sconn = connect + own the id; sdrop (destructor) / sreset (reset()) = disconnect what is   *)
(*       owned; srel (release()) = give up ownership, return the id, NO disconnect now or later; smove (h2 = std::move(h)) =     *)
(*       disconnect what h2 owned, h2 owns what h owned, h owns nothing                                                          *)
(*   EmitCall{t, x}  Slot{t, x, g | w, thr}  Handler{t, x}  EmitRet{t, x}      g: tag given at connect (w: weak target);        *)
(*                                                                             thr = 1: the slot body throws after logging      *)
(*   Expire{w}   the weak target w has been destroyed          End{outcome}                                                     *)
(* Accepted and reported: <<"OBS", "CallAfterDisconnect", line>> - a slot ran although a disconnect() of its id had already       *)
(* RETURNED (snapshot semantics: the emit had taken its snapshot before).                                                       *)
EXTENDS TraceBase, FiniteSets, Integers
VARIABLES slots, nid, alive, handler, pend, em, gone, own
vars == <<l, slots, nid, alive, handler, pend, em, gone, own>>
CallIds == {Log[i].c : i \in {j \in 1..Len(Log) : "c" \in DOMAIN Log[j]}}
EmitIds == {Log[i].x : i \in {j \in 1..Len(Log) : "x" \in DOMAIN Log[j]}}
Weak == {Log[i].w : i \in {j \in 1..Len(Log) : "w" \in DOMAIN Log[j]}} \ {0}
Hs == ({Log[i].h : i \in {j \in 1..Len(Log) : "h" \in DOMAIN Log[j]}} \cup {Log[i].h2 : i \in {j \in 1..Len(Log) : "h2" \in DOMAIN Log[j]}}) \ {""}
Own0 == [h \in Hs |-> 0]
Idle == [st |-> "idle", op |-> "-", id |-> 0, g |-> 0, w |-> 0, n |-> 0, on |-> FALSE, rm |-> {}, h |-> "", h2 |-> ""]
NoEm == [st |-> "idle", snap |-> <<>>, pos |-> 0, saw |-> FALSE, pruned |-> FALSE, overlap |-> FALSE, h |-> FALSE, hs |-> FALSE, owe |-> FALSE]
Fresh == [c \in CallIds |-> Idle]
FreshEm == [x \in EmitIds |-> NoEm]
Init == l = 1 /\ slots = <<>> /\ nid = 1 /\ alive = Weak /\ handler = FALSE /\ pend = Fresh /\ em = FreshEm /\ gone = {} /\ own = Own0
Clean == slots' = <<>> /\ nid' = 1 /\ alive' = Weak /\ handler' = FALSE /\ pend' = Fresh /\ em' = FreshEm /\ gone' = {} /\ own' = Own0
EvBegin == IsEv("Begin") /\ Clean
EvReset == IsEv("Reset") /\ Clean
Active == {x \in EmitIds : em[x].st \in {"called", "iter"}}
Expired(sl) == sl.w # 0 /\ sl.w \notin alive

EvCall == /\ IsEv("Call") /\ pend[Ev.c].st = "idle"
          /\ pend' = [pend EXCEPT ![Ev.c] = [st |-> "called", op |-> Ev.op, id |-> Fld("id", 0), g |-> Fld("g", 0), w |-> Fld("w", 0), n |-> 0, on |-> Fld("on", 0) = 1, rm |-> {}, h |-> Fld("h", ""), h2 |-> Fld("h2", "")]]
          /\ UNCHANGED <<slots, nid, alive, handler, em, gone, own>>
Lin(c) ==
    /\ pend[c].st = "called" /\ UNCHANGED <<l, alive, em, gone>>   \* (own: per case)
    /\ LET p == pend[c] IN
       CASE p.op \in {"connect", "sconn"} ->
                /\ slots' = Append(slots, [id |-> nid, g |-> p.g, w |-> p.w]) /\ nid' = nid + 1
                /\ pend' = [pend EXCEPT ![c] = [p EXCEPT !.st = "lin", !.id = nid]] /\ UNCHANGED handler
                /\ own' = IF p.op = "sconn" THEN [own EXCEPT ![p.h] = nid] ELSE own       \* a scoped connection owns its id
         \* ScopedConnection: destructor and reset() disconnect what is owned; release() only gives it up (and returns it);
         \* move-assignment disconnects what the target owned and transfers ownership
         [] p.op \in {"sdrop", "sreset"} ->
                /\ slots' = SelectSeq(slots, LAMBDA sl : sl.id # own[p.h]) /\ own' = [own EXCEPT ![p.h] = 0]
                /\ pend' = [pend EXCEPT ![c] = [p EXCEPT !.st = "lin", !.rm = {own[p.h]} \ {0}, !.id = 0]] /\ UNCHANGED <<nid, handler>>
         [] p.op = "srel" ->
                /\ own' = [own EXCEPT ![p.h] = 0] /\ pend' = [pend EXCEPT ![c] = [p EXCEPT !.st = "lin", !.id = own[p.h]]]
                /\ UNCHANGED <<slots, nid, handler>>
         [] p.op = "smove" ->
                /\ slots' = SelectSeq(slots, LAMBDA sl : sl.id # own[p.h2]) /\ own' = [own EXCEPT ![p.h2] = own[p.h], ![p.h] = 0]
                /\ pend' = [pend EXCEPT ![c] = [p EXCEPT !.st = "lin", !.rm = {own[p.h2]} \ {0}, !.id = own[p.h]]] /\ UNCHANGED <<nid, handler>>
         [] p.op = "disconnect" -> /\ slots' = SelectSeq(slots, LAMBDA sl : sl.id # p.id)
                                   /\ pend' = [pend EXCEPT ![c] = [p EXCEPT !.st = "lin", !.rm = {p.id}]] /\ UNCHANGED <<nid, handler, own>>
         [] p.op = "disconnectAll" -> /\ slots' = <<>>
                                      /\ pend' = [pend EXCEPT ![c] = [p EXCEPT !.st = "lin", !.rm = {slots[i].id : i \in 1..Len(slots)}]]
                                      /\ UNCHANGED <<nid, handler, own>>
         [] p.op = "count" -> pend' = [pend EXCEPT ![c] = [p EXCEPT !.st = "lin", !.n = Len(slots)]] /\ UNCHANGED <<slots, nid, handler, own>>
         [] p.op = "sethandler" -> handler' = p.on /\ pend' = [pend EXCEPT ![c].st = "lin"] /\ UNCHANGED <<slots, nid, own>>
         [] OTHER -> FALSE
EvRet == /\ IsEv("Ret") /\ pend[Ev.c].st = "lin" /\ pend[Ev.c].op = Ev.op
         /\ (Ev.op \in {"connect", "sconn"}) => (Ev.id = pend[Ev.c].id /\ Ev.id # 0)
         /\ (Ev.op \in {"srel", "sreset", "smove"}) => Ev.id = pend[Ev.c].id     \* release() returns the id; id() afterwards
         /\ (Ev.op = "count") => Ev.n = pend[Ev.c].n
         /\ gone' = gone \cup pend[Ev.c].rm        \* ids whose disconnect / disconnectAll has RETURNED
         /\ pend' = [pend EXCEPT ![Ev.c] = Idle] /\ UNCHANGED <<slots, nid, alive, handler, em, own>>
EvExpire == IsEv("Expire") /\ alive' = alive \ {Ev.w} /\ UNCHANGED <<slots, nid, handler, pend, em, gone, own>>

\* ---- emit
EvEmitCall == /\ IsEv("EmitCall") /\ em[Ev.x].st = "idle"
              /\ em' = [y \in EmitIds |-> IF y = Ev.x THEN [NoEm EXCEPT !.st = "called", !.overlap = Active # {}]
                                          ELSE IF y \in Active THEN [em[y] EXCEPT !.overlap = TRUE] ELSE em[y]]
              /\ UNCHANGED <<slots, nid, alive, handler, pend, gone, own>>
Snap(x) == /\ em[x].st = "called" /\ em' = [em EXCEPT ![x] = [@ EXCEPT !.st = "iter", !.snap = slots]]
           /\ UNCHANGED <<l, slots, nid, alive, handler, pend, gone, own>>
\* the handler is loaded right after the list (a second atomic load)
SnapH(x) == /\ em[x].st = "iter" /\ ~em[x].hs /\ em[x].pos = 0 /\ em' = [em EXCEPT ![x] = [@ EXCEPT !.hs = TRUE, !.h = handler]]
            /\ UNCHANGED <<l, slots, nid, alive, handler, pend, gone, own>>
\* an expired weak slot is passed over at its turn
Skip(x) == /\ em[x].st = "iter" /\ em[x].hs /\ ~em[x].owe /\ em[x].pos < Len(em[x].snap) /\ Expired(em[x].snap[em[x].pos + 1])
           /\ em' = [em EXCEPT ![x] = [@ EXCEPT !.pos = @ + 1, !.saw = TRUE]]
           /\ UNCHANGED <<l, slots, nid, alive, handler, pend, gone, own>>
EvSlot == /\ IsEv("Slot") /\ em[Ev.x].st = "iter" /\ em[Ev.x].hs /\ ~em[Ev.x].owe /\ em[Ev.x].pos < Len(em[Ev.x].snap)
          /\ LET sl == em[Ev.x].snap[em[Ev.x].pos + 1] IN
             /\ (IF Fld("w", 0) # 0 THEN sl.w = Ev.w ELSE sl.g = Ev.g) /\ ~Expired(sl)
             /\ (sl.id \in gone) => PrintT(<<"OBS", "CallAfterDisconnect", l>>)
          /\ em' = [em EXCEPT ![Ev.x] = [@ EXCEPT !.pos = @ + 1, !.owe = (Fld("thr", 0) = 1 /\ em[Ev.x].h)]]
          /\ UNCHANGED <<slots, nid, alive, handler, pend, gone, own>>
EvHandler == /\ IsEv("Handler") /\ em[Ev.x].st = "iter" /\ em[Ev.x].owe /\ em' = [em EXCEPT ![Ev.x].owe = FALSE]
             /\ UNCHANGED <<slots, nid, alive, handler, pend, gone, own>>
\* the emit that met an expired slot removes the expired slots (unless another emit is pruning at the same time)
Prune(x) == /\ em[x].st = "iter" /\ em[x].hs /\ ~em[x].owe /\ em[x].pos = Len(em[x].snap) /\ em[x].saw /\ ~em[x].pruned
            /\ slots' = SelectSeq(slots, LAMBDA sl : ~Expired(sl)) /\ em' = [em EXCEPT ![x].pruned = TRUE]
            /\ UNCHANGED <<l, nid, alive, handler, pend, gone, own>>
EvEmitRet == /\ IsEv("EmitRet") /\ em[Ev.x].st = "iter" /\ ~em[Ev.x].owe /\ em[Ev.x].pos = Len(em[Ev.x].snap)
             /\ (em[Ev.x].saw /\ ~em[Ev.x].overlap) => em[Ev.x].pruned
             /\ em' = [em EXCEPT ![Ev.x].st = "done"]
             /\ UNCHANGED <<slots, nid, alive, handler, pend, gone, own>>
EvEnd == /\ IsEv("End") /\ Ev.outcome = "done" /\ Active = {} /\ \A c \in CallIds : pend[c].st = "idle"
         /\ UNCHANGED <<slots, nid, alive, handler, pend, em, gone, own>>
Next == EvBegin \/ EvReset \/ EvCall \/ EvRet \/ EvExpire \/ EvEmitCall \/ EvSlot \/ EvHandler \/ EvEmitRet \/ EvEnd
        \/ \E c \in CallIds : Lin(c)
        \/ \E x \in EmitIds : Snap(x) \/ SnapH(x) \/ Skip(x) \/ Prune(x)
Spec == Init /\ [][Next]_vars
===============================================================================
