------------------------------ MODULE MCMustache ------------------------------
(* A small exhaustive configuration of Mustache.tla, run with coverage by checks/X17.py (which generates the same kind  *)
(* of module with all its lexeme families for the case generation): all templates of up to 2 lexemes over               *)
(*   {{#o}} {{/o}} {{#a}} {{/a}} {{^a}} {{#l}} {{/l}} {{s}} {{k}} {{t}} {{.}} x                                          *)
EXTENDS Mustache
MCFamilies == [sections |-> [a |-> {"Oo", "Co", "Oa", "Ca", "Ia", "Ol", "Cl", "Vs", "Vk", "Vt", "Vdot", "X"}, n |-> 2, r |-> {TRUE}]]
=============================================================================
