----------------------------- MODULE LoggerTrace -----------------------------
(* Abs oracle of extra X20 (iora::core::Logger).  The driver serializes the real threads (deterministic scheduler), so   *)
(* the order of the log is the real order.  Every driver event is preceded by an observation of the sinks (file and      *)
(* console buffer): each line found since the previous observation is a W event, in file order; the external handler     *)
(* logs H (entry) / HEnd (exit) itself.  Only ONE thread at a time issues configuration calls (init, setLevel,           *)
(* set/clearExternalHandler, shutdown) - a restriction of the generator, used below.                                     *)
(*                                                                                                                       *)
(* Demanded (weakest reading):                                                                                           *)
(*   AtMostOnce   no message id is put out twice (W or H);                  LevelTag: it carries the level it was logged  *)
(*   LevelFilter  a message below every level that can be current at its call is never put out; one at or above every   *)
(*                such level is `must`                                                                                   *)
(*   Sync         synchronous mode: a `must` message is out when its log() returns                                       *)
(*   Flush        at FlushRet(t): every `must` message whose LogRet precedes FlushCall(t) is out - stream path: all;      *)
(*                handler path: all but at most one per OTHER thread that can hold one in flight (worker, other          *)
(*                flushers)  -> reported as OBS FlushInflight                                                            *)
(*   Shutdown     at ShutRet(t): the same with the worker's allowance gone;  AfterShut: with the worker joined, output    *)
(*                appears only from a thread inside flush()/shutdown() or inside its own synchronous log()               *)
(*   Order        stream output of one producer is in call order; handler output too unless the two deliveries were     *)
(*                made by different threads (OBS HandlerReorder)                                                         *)
(*   TearOut      H only for a handler that can be installed; at Clr/SetHRet no invocation of a removed handler is in   *)
(*                progress; after ClrHRet no H at all                                                                    *)
(* Exempt from Flush/Shutdown (accepted, reported as OBS when it really happens):                                        *)
(*   lossy = "clear"  : possibly in the raw queue when clearExternalHandler() began   (OBS Stranded, OBS WorkerSpin)      *)
(*   lossy = "reinit" : outstanding when a re-init() began (init() empties both queues) (OBS ReinitDrops)                *)
(*   lossy = "dead"   : logged in async mode while no worker exists                                                      *)
(* OBS ConsoleAfterHandler: with a file configured, output appears on the console after set+clearExternalHandler (the    *)
(* stream was closed by setExternalHandler and rotateLogFileIfNeeded does not reopen it the same day).                   *)
EXTENDS TraceBase, FiniteSets, Integers
VARIABLES ids, M, lvls, modes, alive, hposs, hact, hEver, inFlush, snap, inLog, cfgp, clrActive, initActive, swapSeen, setActive, file
vars == <<l, ids, M, lvls, modes, alive, hposs, hact, hEver, inFlush, snap, inLog, cfgp, clrActive, initActive, swapSeen, setActive, file>>

MaxOf(S) == CHOOSE x \in S : \A y \in S : y <= x
MinOf(S) == CHOOSE x \in S : \A y \in S : x <= y
Clean(f) == /\ ids' = {} /\ M' = <<>> /\ lvls' = {2} /\ modes' = {FALSE} /\ alive' = "no" /\ hposs' = {} /\ hact' = [h \in 1..2 |-> 0]
            /\ hEver' = FALSE /\ inFlush' = {} /\ snap' = <<>> /\ inLog' = {} /\ cfgp' = [lv |-> 2, as |-> FALSE, h |-> 0]
            /\ clrActive' = FALSE /\ initActive' = FALSE /\ swapSeen' = {} /\ setActive' = FALSE /\ file' = f
Init == /\ l = 1 /\ ids = {} /\ M = <<>> /\ lvls = {2} /\ modes = {FALSE} /\ alive = "no" /\ hposs = {} /\ hact = [h \in 1..2 |-> 0]
        /\ hEver = FALSE /\ inFlush = {} /\ snap = <<>> /\ inLog = {} /\ cfgp = [lv |-> 2, as |-> FALSE, h |-> 0]
        /\ clrActive = FALSE /\ initActive = FALSE /\ swapSeen = {} /\ setActive = FALSE /\ file = FALSE
EvBegin == IsEv("Begin") /\ Clean(Ev.file)
EvReset == IsEv("Reset") /\ Clean(FALSE)
Same(v) == UNCHANGED v

Upd(f(_)) == [i \in ids |-> f(i)]
Pending == {i \in ids : ~M[i].out}

EvLogCall == /\ IsEv("LogCall") /\ Ev.id \notin ids
             /\ ids' = ids \cup {Ev.id} /\ inLog' = inLog \cup {Ev.id}
             /\ M' = (Ev.id :> [t |-> Ev.t, lv |-> Ev.lv, must |-> Ev.lv >= MaxOf(lvls), may |-> Ev.lv >= MinOf(lvls), ret |-> FALSE,
                                out |-> FALSE, kind |-> "-", by |-> "-", sync |-> (modes = {FALSE}) /\ ~initActive, raw |-> hposs # {},
                                lossy |-> IF initActive THEN "reinit" ELSE IF clrActive /\ hposs # {} THEN "clear"
                                          ELSE IF alive = "no" /\ TRUE \in modes THEN "dead" ELSE "-"]) @@ M
             /\ Same(<<lvls, modes, alive, hposs, hact, hEver, inFlush, snap, cfgp, clrActive, initActive, swapSeen, setActive, file>>)
EvLogRet == /\ IsEv("LogRet") /\ Ev.id \in inLog
            /\ (M[Ev.id].sync /\ M[Ev.id].must /\ M[Ev.id].lossy = "-") => M[Ev.id].out
            /\ M' = [M EXCEPT ![Ev.id].ret = TRUE] /\ inLog' = inLog \ {Ev.id}
            /\ Same(<<ids, lvls, modes, alive, hposs, hact, hEver, inFlush, snap, cfgp, clrActive, initActive, swapSeen, setActive, file>>)

LaterOut(i, kind) == {j \in ids : M[j].t = M[i].t /\ j > i /\ M[j].out /\ M[j].kind = kind}
EvW == /\ IsEv("W") /\ Ev.id \in ids /\ M[Ev.id].may /\ ~M[Ev.id].out /\ Ev.lv = M[Ev.id].lv
       /\ LaterOut(Ev.id, "W") = {}
       /\ (alive = "no") => (inFlush # {} \/ Ev.id \in inLog)
       /\ (Ev.s = "c" /\ file) => (hEver /\ PrintT(<<"OBS", "ConsoleAfterHandler", l>>))
       /\ M' = [M EXCEPT ![Ev.id].out = TRUE, ![Ev.id].kind = "W"]
       /\ Same(<<ids, lvls, modes, alive, hposs, hact, hEver, inFlush, snap, inLog, cfgp, clrActive, initActive, swapSeen, setActive, file>>)
EvH == /\ IsEv("H") /\ Ev.id \in ids /\ M[Ev.id].may /\ ~M[Ev.id].out /\ Ev.lv = M[Ev.id].lv
       /\ Ev.h \in hposs
       /\ \A j \in LaterOut(Ev.id, "H") : M[j].by # Ev.by
       /\ (LaterOut(Ev.id, "H") # {}) => PrintT(<<"OBS", "HandlerReorder", l>>)
       /\ IF Ev.w THEN alive = "yes" ELSE (Ev.by \in inFlush \/ (Ev.id \in inLog /\ Ev.by = M[Ev.id].t))
       /\ M' = [M EXCEPT ![Ev.id].out = TRUE, ![Ev.id].kind = "H", ![Ev.id].by = Ev.by]
       /\ hact' = [hact EXCEPT ![Ev.h] = @ + 1]
       /\ Same(<<ids, lvls, modes, alive, hposs, hEver, inFlush, snap, inLog, cfgp, clrActive, initActive, swapSeen, setActive, file>>)
EvHEnd == /\ IsEv("HEnd") /\ hact[Ev.h] > 0 /\ hact' = [hact EXCEPT ![Ev.h] = @ - 1]
          /\ Same(<<ids, M, lvls, modes, alive, hposs, hEver, inFlush, snap, inLog, cfgp, clrActive, initActive, swapSeen, setActive, file>>)

EvDrainCall == /\ (IsEv("FlushCall") \/ IsEv("ShutCall")) /\ Ev.t \notin inFlush
               /\ inFlush' = inFlush \cup {Ev.t} /\ snap' = (Ev.t :> {i \in ids : M[i].ret}) @@ snap
               /\ swapSeen' = IF setActive THEN swapSeen \cup {Ev.t} ELSE swapSeen \ {Ev.t}
               /\ Same(<<ids, M, lvls, modes, alive, hposs, hact, hEver, inLog, cfgp, clrActive, initActive, setActive, file>>)
\* a flush that overlapped a handler swap (setExternalHandler closes the gate while it drains the old handler) cannot deliver the
\* raw queue: those messages wait for the new handler (OBS FlushDuringSwap)
Owed(t) == {i \in snap[t] : M[i].must /\ ~M[i].out /\ M[i].lossy = "-" /\ ~(t \in swapSeen /\ M[i].raw)}
Swapped(t) == {i \in snap[t] : M[i].must /\ ~M[i].out /\ M[i].lossy = "-" /\ t \in swapSeen /\ M[i].raw}
DrainOk(t, bound) == /\ \A i \in Owed(t) : M[i].raw
                     /\ Cardinality(Owed(t)) <= bound
                     /\ (Owed(t) # {}) => PrintT(<<"OBS", "FlushInflight", l>>)
                     /\ (Swapped(t) # {}) => PrintT(<<"OBS", "FlushDuringSwap", l>>)
EvFlushRet == /\ IsEv("FlushRet") /\ Ev.t \in inFlush
              /\ DrainOk(Ev.t, (IF alive = "yes" THEN 1 ELSE 0) + Cardinality(inFlush \ {Ev.t}))
              /\ inFlush' = inFlush \ {Ev.t}
              /\ Same(<<ids, M, lvls, modes, alive, hposs, hact, hEver, snap, inLog, cfgp, clrActive, initActive, swapSeen, setActive, file>>)
LostBy(t, why) == {i \in snap[t] : M[i].must /\ ~M[i].out /\ M[i].lossy = why}
EvShutRet == /\ IsEv("ShutRet") /\ Ev.t \in inFlush
             /\ DrainOk(Ev.t, Cardinality(inFlush \ {Ev.t}))
             /\ (LostBy(Ev.t, "clear") # {}) => PrintT(<<"OBS", "Stranded", l>>)
             /\ (LostBy(Ev.t, "reinit") # {}) => PrintT(<<"OBS", "ReinitDrops", l>>)
             /\ inFlush' = inFlush \ {Ev.t} /\ alive' = "no"
             /\ Same(<<ids, M, lvls, modes, hposs, hact, hEver, snap, inLog, cfgp, clrActive, initActive, swapSeen, setActive, file>>)

EvInitCall == /\ IsEv("InitCall") /\ lvls' = lvls \cup {Ev.lv} /\ modes' = modes \cup {Ev.as}
              /\ cfgp' = [cfgp EXCEPT !.lv = Ev.lv, !.as = Ev.as] /\ initActive' = TRUE
              /\ M' = Upd(LAMBDA i : IF M[i].out THEN M[i] ELSE [M[i] EXCEPT !.sync = FALSE, !.lossy = IF @ = "-" THEN "reinit" ELSE @])
              /\ Same(<<ids, alive, hposs, hact, hEver, inFlush, snap, inLog, clrActive, swapSeen, setActive, file>>)
EvInitRet == /\ IsEv("InitRet") /\ lvls' = {cfgp.lv} /\ modes' = {cfgp.as} /\ initActive' = FALSE
             /\ alive' = IF cfgp.as THEN "yes" ELSE alive
             /\ Same(<<ids, M, hposs, hact, hEver, inFlush, snap, inLog, cfgp, clrActive, swapSeen, setActive, file>>)
EvLevelCall == /\ IsEv("LevelCall") /\ lvls' = lvls \cup {Ev.lv} /\ cfgp' = [cfgp EXCEPT !.lv = Ev.lv]
               /\ Same(<<ids, M, modes, alive, hposs, hact, hEver, inFlush, snap, inLog, clrActive, initActive, swapSeen, setActive, file>>)
EvLevelRet == /\ IsEv("LevelRet") /\ lvls' = {cfgp.lv}
              /\ Same(<<ids, M, modes, alive, hposs, hact, hEver, inFlush, snap, inLog, cfgp, clrActive, initActive, swapSeen, setActive, file>>)
EvSetHCall == /\ IsEv("SetHCall") /\ hposs' = hposs \cup {Ev.h} /\ cfgp' = [cfgp EXCEPT !.h = Ev.h]
              /\ setActive' = TRUE /\ swapSeen' = swapSeen \cup inFlush
              /\ M' = Upd(LAMBDA i : IF i \in inLog THEN [M[i] EXCEPT !.raw = TRUE] ELSE M[i])
              /\ Same(<<ids, lvls, modes, alive, hact, hEver, inFlush, snap, inLog, clrActive, initActive, file>>)
EvSetHRet == /\ IsEv("SetHRet") /\ \A h \in hposs \ {cfgp.h} : hact[h] = 0
             /\ hposs' = {cfgp.h} /\ hEver' = TRUE /\ setActive' = FALSE
             /\ Same(<<ids, M, lvls, modes, alive, hact, inFlush, snap, inLog, cfgp, clrActive, initActive, swapSeen, file>>)
EvClrHCall == /\ IsEv("ClrHCall") /\ clrActive' = TRUE
              /\ M' = Upd(LAMBDA i : IF ~M[i].out /\ M[i].raw /\ M[i].lossy = "-" THEN [M[i] EXCEPT !.lossy = "clear"] ELSE M[i])
              /\ Same(<<ids, lvls, modes, alive, hposs, hact, hEver, inFlush, snap, inLog, cfgp, initActive, swapSeen, setActive, file>>)
EvClrHRet == /\ IsEv("ClrHRet") /\ \A h \in 1..2 : hact[h] = 0
             /\ hposs' = {} /\ clrActive' = FALSE
             /\ Same(<<ids, M, lvls, modes, alive, hact, hEver, inFlush, snap, inLog, cfgp, initActive, swapSeen, setActive, file>>)
StrandedNow == {i \in ids : ~M[i].out /\ M[i].lossy = "clear"}
EvIdle == /\ IsEv("Idle")
          /\ (~Ev.parked) => (StrandedNow # {} /\ PrintT(<<"OBS", "WorkerSpin", l>>))
          /\ Same(<<ids, M, lvls, modes, alive, hposs, hact, hEver, inFlush, snap, inLog, cfgp, clrActive, initActive, swapSeen, setActive, file>>)
EvEnd == /\ IsEv("End")
         /\ \/ Ev.outcome = "done"
            \/ Ev.outcome = "steplimit" /\ StrandedNow # {} /\ PrintT(<<"OBS", "WorkerSpin", l>>)
         /\ Same(<<ids, M, lvls, modes, alive, hposs, hact, hEver, inFlush, snap, inLog, cfgp, clrActive, initActive, swapSeen, setActive, file>>)

Next == EvBegin \/ EvReset \/ EvLogCall \/ EvLogRet \/ EvW \/ EvH \/ EvHEnd \/ EvDrainCall \/ EvFlushRet \/ EvShutRet
        \/ EvInitCall \/ EvInitRet \/ EvLevelCall \/ EvLevelRet \/ EvSetHCall \/ EvSetHRet \/ EvClrHCall \/ EvClrHRet \/ EvIdle \/ EvEnd
Spec == Init /\ [][Next]_vars
===============================================================================
