------------------------------ MODULE LeaseTrace ------------------------------
(* Abs oracle of extra X09 for executions recorded from the real HttpClientPool (mode "pool": the resources are the N      *)
(* clients, an acquisition gets ANY free one) and from HttpClient's per-host connection lease (mode "host": the resource   *)
(* is named by the caller).  The log is totally ordered (the scheduler runs one thread at a time).  Only the properties:   *)
(*   - a granted resource is not held by anybody at that moment (the holder gives it up when its release BEGINS);          *)
(*     in pool mode it is one of 1..N  => at most N concurrent leases, no client handed to two holders                     *)
(*   - a release gives back something the releasing thread holds (exactly once: afterwards it no longer holds it)          *)
(*   - an acquisition that BEGAN after close()/cleanup() had RETURNED fails, and a resource whose release began after      *)
(*     close()/cleanup() had returned is never granted again (close wakes the blocked acquirers: they fail)                *)
(*   - failures are justified: tryGet - at some instant of the call nothing was free (counting other acquisitions in        *)
(*     flight as possibly holding one) or close had begun; get(timeout) - the same and (close had begun or at least the    *)
(*     timeout of VIRTUAL time passed: never early); get() - only because close had begun; host acquire - "closing" only     *)
(*     after cleanup began, "timeout" only with a timeout configured, not early, and the host was busy                      *)
(*   - available()/inUse() add up to N and lie within what the leases in the log allow                                      *)
(*   - Final (pool, all threads finished): what can still be taken is exactly the clients nobody holds, each once          *)
(*     (a lost return or a double return shows here); nothing can be taken from a closed pool                              *)
(*   - the execution ends with every thread finished (End.outcome = "done"): no blocked acquirer is left behind although    *)
(*     the programs release everything they acquire and/or close the pool                                                   *)
EXTENDS TraceBase, FiniteSets, Integers
VARIABLES mode, n, tmo, held, pend, closeBegun, closeDone, stale
vars == <<l, mode, n, tmo, held, pend, closeBegun, closeDone, stale>>

Thr == {Log[i].t : i \in {j \in 1..Len(Log) : "t" \in DOMAIN Log[j]}}
AcqOps == {"get", "getT", "tryGet", "acq"}
RelOps == {"rel", "mv"}
CloseOps == {"close", "cleanup"}
Idle == [st |-> "idle", op |-> "-", k |-> 0, late |-> FALSE, full |-> FALSE]
Fresh == [t \in Thr |-> Idle]
HeldRes(h) == {x[1] : x \in h}

\* could every resource acquisition u asks for be taken right now?  (others' acquisitions in flight may already hold one
\* and a release in flight may not have given its resource back yet)
Busy(p, h, u) == IF mode = "pool"
                 THEN Cardinality(h) + Cardinality({v \in Thr \ {u} : p[v].st = "acq" \/ (p[v].st = "rel" /\ p[v].k # 0)}) >= n
                 ELSE p[u].k \in HeldRes(h) \/ \E v \in Thr \ {u} : p[v].st \in {"acq", "rel"} /\ p[v].k = p[u].k
Refresh(p, h, cb) == [u \in Thr |-> IF p[u].st = "acq" THEN [p[u] EXCEPT !.full = @ \/ cb \/ Busy(p, h, u)] ELSE p[u]]

Init == l = 1 /\ mode = "-" /\ n = 0 /\ tmo = 0 /\ held = {} /\ pend = Fresh /\ closeBegun = FALSE /\ closeDone = FALSE /\ stale = {}
Clear == held' = {} /\ pend' = Fresh /\ closeBegun' = FALSE /\ closeDone' = FALSE /\ stale' = {}
EvBegin == IsEv("Begin") /\ mode' = Ev.mode /\ n' = Ev.n /\ tmo' = Ev.tmo /\ Clear
EvReset == IsEv("Reset") /\ mode' = "-" /\ n' = 0 /\ tmo' = 0 /\ Clear

EvCallAcq == /\ IsEv("Call") /\ Ev.op \in AcqOps /\ pend[Ev.t].st = "idle"
             /\ pend' = Refresh([pend EXCEPT ![Ev.t] = [st |-> "acq", op |-> Ev.op, k |-> Ev.k, late |-> closeDone, full |-> FALSE]],
                                held, closeBegun)
             /\ UNCHANGED <<mode, n, tmo, held, closeBegun, closeDone, stale>>
EvRetAcqOk == /\ IsEv("Ret") /\ Ev.op \in AcqOps /\ Ev.ok /\ pend[Ev.t].st = "acq" /\ pend[Ev.t].op = Ev.op
              /\ ~pend[Ev.t].late
              /\ IF mode = "pool" THEN Ev.r \in 1..n ELSE Ev.r = pend[Ev.t].k
              /\ Ev.r \notin HeldRes(held)
              /\ Ev.r \notin stale
              /\ held' = held \cup {<<Ev.r, Ev.t>>}
              /\ pend' = Refresh([pend EXCEPT ![Ev.t] = Idle], held', closeBegun)
              /\ UNCHANGED <<mode, n, tmo, closeBegun, closeDone, stale>>
EvRetAcqFail == /\ IsEv("Ret") /\ Ev.op \in AcqOps /\ ~Ev.ok /\ pend[Ev.t].st = "acq" /\ pend[Ev.t].op = Ev.op
                /\ CASE Ev.op = "tryGet" -> pend[Ev.t].full
                     [] Ev.op = "getT"   -> pend[Ev.t].full /\ (closeBegun \/ Ev.el >= tmo)
                     [] Ev.op = "get"    -> closeBegun
                     [] Ev.op = "acq"    -> \/ Ev.why = "closing" /\ closeBegun
                                            \/ Ev.why = "timeout" /\ tmo > 0 /\ Ev.el >= tmo /\ pend[Ev.t].full
                /\ pend' = Refresh([pend EXCEPT ![Ev.t] = Idle], held, closeBegun)
                /\ UNCHANGED <<mode, n, tmo, held, closeBegun, closeDone, stale>>
EvCallRel == /\ IsEv("Call") /\ Ev.op \in RelOps /\ pend[Ev.t].st = "idle"
             /\ IF Ev.k = 0 THEN UNCHANGED held
                ELSE <<Ev.k, Ev.t>> \in held /\ held' = held \ {<<Ev.k, Ev.t>>}
             /\ pend' = Refresh([pend EXCEPT ![Ev.t] = [Idle EXCEPT !.st = "rel", !.op = Ev.op, !.k = Ev.k]], held', closeBegun)
             /\ stale' = IF closeDone /\ Ev.k # 0 THEN stale \cup {Ev.k} ELSE stale
             /\ UNCHANGED <<mode, n, tmo, closeBegun, closeDone>>
EvRetRel == /\ IsEv("Ret") /\ Ev.op \in RelOps /\ pend[Ev.t].st = "rel" /\ Ev.ok
            /\ pend' = [pend EXCEPT ![Ev.t] = Idle]
            /\ UNCHANGED <<mode, n, tmo, held, closeBegun, closeDone, stale>>
EvCallClose == /\ IsEv("Call") /\ Ev.op \in CloseOps /\ pend[Ev.t].st = "idle"
               /\ closeBegun' = TRUE
               /\ pend' = Refresh([pend EXCEPT ![Ev.t] = [Idle EXCEPT !.st = "close", !.op = Ev.op]], held, TRUE)
               /\ UNCHANGED <<mode, n, tmo, held, closeDone, stale>>
EvRetClose == /\ IsEv("Ret") /\ Ev.op \in CloseOps /\ pend[Ev.t].st = "close"
              /\ closeDone' = TRUE /\ pend' = [pend EXCEPT ![Ev.t] = Idle]
              /\ UNCHANGED <<mode, n, tmo, held, closeBegun, stale>>
InFlight == Cardinality({v \in Thr : pend[v].st \in {"acq", "rel"}})
EvCallStat == /\ IsEv("Call") /\ Ev.op = "stat" /\ pend[Ev.t].st = "idle"
              /\ UNCHANGED <<mode, n, tmo, held, pend, closeBegun, closeDone, stale>>
Adjacent == Log[l-1].e = "Call" /\ Log[l-1].t = Ev.t /\ Log[l-1].op = "stat"
EvRetStat == /\ IsEv("Ret") /\ Ev.op = "stat"
             /\ Ev.r + Ev.el = n /\ Ev.r >= 0 /\ Ev.r <= n
             \* exact bounds only when nothing else was logged during the call (the read then saw this very state)
             /\ Adjacent => /\ Ev.r <= n - Cardinality(held)
                            /\ Ev.r >= n - Cardinality(held) - InFlight
             /\ UNCHANGED <<mode, n, tmo, held, pend, closeBegun, closeDone, stale>>
\* NAMED DEVIATION (observation, accepted and reported): after close() a returned client is destroyed instead of re-queued,
\* but inUse() is computed as capacity - available, so it keeps counting leases that no longer exist
DevInUseCountsDroppedClients ==
             /\ IsEv("Ret") /\ Ev.op = "stat" /\ closeBegun
             /\ Ev.r + Ev.el = n /\ Ev.r >= 0 /\ Adjacent
             /\ Ev.r < n - Cardinality(held) - InFlight
             /\ PrintT(<<"DEV", "InUseCountsDroppedClients", l>>)
             /\ UNCHANGED <<mode, n, tmo, held, pend, closeBegun, closeDone, stale>>
SeqSet(s) == {s[i] : i \in 1..Len(s)}
EvFinal == /\ IsEv("Final") /\ \A t \in Thr : pend[t].st = "idle"
           /\ IF closeBegun THEN Ev.ids = <<>>
              ELSE /\ Len(Ev.ids) = Cardinality(SeqSet(Ev.ids))
                   /\ SeqSet(Ev.ids) = (1..n) \ HeldRes(held)
           /\ UNCHANGED <<mode, n, tmo, held, pend, closeBegun, closeDone, stale>>
EvEnd == IsEv("End") /\ Ev.outcome = "done" /\ UNCHANGED <<mode, n, tmo, held, pend, closeBegun, closeDone, stale>>
Next == EvBegin \/ EvReset \/ EvCallAcq \/ EvRetAcqOk \/ EvRetAcqFail \/ EvCallRel \/ EvRetRel \/ EvCallClose \/ EvRetClose
        \/ EvCallStat \/ EvRetStat \/ DevInUseCountsDroppedClients \/ EvFinal \/ EvEnd
Spec == Init /\ [][Next]_vars
\* at most N leases at any time (pool) / at most one lease per host
AtMostN == (mode = "pool" => Cardinality(held) <= n) /\ Cardinality(HeldRes(held)) = Cardinality(held)
===============================================================================
