---- MODULE MCServiceRegistry ----
(* exhaustive configuration of ServiceRegistry.tla (X22): 2 threads x 2 handles, 2 interface types, modules m1 m2 + core, *)
(* at most 3 implementations, 5 operations per behaviour (6 in the thorough tier, set by checks/X22.py)                   *)
EXTENDS ServiceRegistry
====
