------------------------------- MODULE WsAbs -------------------------------
(* C18 - definitions shared by the Impl specification (WsFraming.tla) and the trace specification              *)
(* (WsFramingTrace.tla): RFC 6455 frame geometry, the frame facts, and the property-level oracle `Judge`:      *)
(* what a stream of frames obliges a receiving endpoint to deliver and to answer.                              *)
(*                                                                                                             *)
(* A frame fact record:                                                                                        *)
(*   op   opcode (0 continuation, 1 text, 2 binary, 8 close, 9 ping, 10 pong, others reserved; -1 = opaque junk bytes, *)
(*        -2 = a flood of non-final continuation frames, len bytes in all)                                     *)
(*   fin, rsv (0 or not), enc (7/16/64: which length encoding is on the wire), masked is a property of the run *)
(*   lc   length class (string), len = its concrete value (payload bytes present on the wire; -1: a giant      *)
(*        declared length whose payload is of course absent)                                                   *)
(*   pc   payload class (how the payload bytes are rendered; for text: what they contribute to UTF-8 validity) *)
(*   h,bl polynomial hash of the payload and Base^len, both mod P, so that the hash of a joined message can be *)
(*        recombined from its fragments:  H(a \o b) = (H(a) * Base^|b| + H(b)) % P                             *)
EXTENDS Integers, Sequences, FiniteSets

P == 32749

IsCtl(op) == op \in {8, 9, 10}
IsKnown(op) == op \in {0, 1, 2, 8, 9, 10}

MinEnc(n) == IF n <= 125 THEN 7 ELSE IF n <= 65535 THEN 16 ELSE 64
ExtLen(enc) == IF enc = 7 THEN 0 ELSE IF enc = 16 THEN 2 ELSE 8
HdrLen(enc, masked) == 2 + ExtLen(enc) + (IF masked THEN 4 ELSE 0)

GiantClasses == {"2p32", "2p63", "all1"}            \* declared lengths 2^32, 2^63, 2^64-1: header only
Giant(lc) == lc \in GiantClasses
LenOf(lc, max) ==
  CASE lc = "0" -> 0 [] lc = "1" -> 1 [] lc = "2" -> 2 [] lc = "3" -> 3 [] lc = "4" -> 4 [] lc = "5" -> 5 [] lc = "7" -> 7
    [] lc = "125" -> 125 [] lc = "126" -> 126 [] lc = "127" -> 127 [] lc = "65535" -> 65535 [] lc = "65536" -> 65536
    [] lc = "Max" -> max [] lc = "Max1" -> max + 1
    [] OTHER -> -1

(* ---- UTF-8 at the level of payload classes -------------------------------------------------------------- *)
(* A fragment contributes a piece [pc, n] (class, length > 0).  What matters for validity of the joined message  *)
(* is how a piece starts and ends relative to the 3-byte character E2 82 AC that the split classes cut:          *)
(*   H1/H2  the payload ENDS with the first 1/2 bytes of the character (then it still owes 2/1 continuation      *)
(*          bytes), T2/T1 it STARTS with 2/1 continuation bytes (T1 of length 1 is the lone continuation byte),  *)
(*   the bad_* classes contain a sequence that is invalid wherever it stands (0xFF, an overlong form, a          *)
(*   surrogate, a code point beyond U+10FFFF); everything else starts and ends at character boundaries.          *)
(* Any continuation byte may follow E2, so continuation bytes are only counted.                                  *)
BadClasses == {"bad_ff", "bad_overlong", "bad_surr", "bad_big", "bin"}
TextOk == {"ascii", "u2", "u3", "u4"}
AllTextClasses == TextOk \cup {"H1", "H2", "T2", "T1"} \cup (BadClasses \ {"bin"})
MinLen(pc) == CASE pc \in {"u2", "H2", "T2", "bad_overlong"} -> 2 [] pc \in {"u3", "bad_surr"} -> 3 [] pc \in {"u4", "bad_big"} -> 4
                [] pc \in {"H1", "T1", "bad_ff"} -> 1 [] OTHER -> 0
Lead(pc) == IF pc = "T2" THEN 2 ELSE IF pc = "T1" THEN 1 ELSE 0          \* continuation bytes the piece starts with
Owes(pc) == IF pc = "H1" THEN 2 ELSE IF pc = "H2" THEN 1 ELSE 0          \* continuation bytes missing at its end

RECURSIVE Utf8Scan(_, _)
Utf8Scan(ps, owed) ==             \* ps: pieces of the non-empty fragments of one text message, in order
  IF ps = <<>> THEN owed = 0
  ELSE LET p == Head(ps)
           more == p.n > Lead(p.pc)        \* something follows the leading continuation bytes
       IN
       /\ p.pc \notin BadClasses
       /\ Lead(p.pc) <= owed               \* else: a continuation byte nobody asked for
       /\ IF Lead(p.pc) < owed
          THEN ~more /\ Utf8Scan(Tail(ps), owed - Lead(p.pc))     \* only continuation bytes: still owing (else: cut short)
          ELSE Utf8Scan(Tail(ps), IF more THEN Owes(p.pc) ELSE 0)
Utf8Ok(ps) == Utf8Scan(ps, 0)

(* ---- the oracle ------------------------------------------------------------------------------------------ *)
(* Walk the frames as RFC 6455 section 5.4 prescribes.  Result:                                                       *)
(*   msgs   the complete messages [k, n, h] in order (a text message that is not UTF-8 is not one of them)     *)
(*   pongs  [n, h] of every ping, in order                                                                     *)
(*   cut, pcut   -1, or the number of messages / pongs that precede the first point at which the endpoint may  *)
(*          fail the connection (invalid UTF-8): from there on it may stop (RFC 6455 section 8.1) or go on             *)
(*   judged FALSE as soon as the stream is not a stream of valid frames (reserved bits or opcodes, non-minimal *)
(*          or oversized lengths, fragmented or long control frames, continuation without a start, a start     *)
(*          inside a fragmented message, anything after a close, a message longer than the configured maximum):*)
(*          then only the robustness clauses apply                                                            *)
St0 == [open |-> FALSE, k |-> "-", n |-> 0, h |-> 0, pcs |-> <<>>, msgs |-> <<>>, pongs |-> <<>>, cut |-> -1, pcut |-> -1,
        closed |-> FALSE, judged |-> TRUE]

Piece(f) == IF f.len > 0 THEN <<[pc |-> f.pc, n |-> f.len]>> ELSE <<>>

Complete(st, max) ==
  LET clear == [st EXCEPT !.open = FALSE, !.k = "-", !.n = 0, !.h = 0, !.pcs = <<>>] IN
  IF st.n > max THEN [clear EXCEPT !.judged = FALSE]
  ELSE IF st.k = "t" /\ ~Utf8Ok(st.pcs)
       THEN IF st.cut = -1 THEN [clear EXCEPT !.cut = Len(st.msgs), !.pcut = Len(st.pongs)] ELSE clear
       ELSE [clear EXCEPT !.msgs = Append(st.msgs, [k |-> st.k, n |-> st.n, h |-> st.h])]

FrameOk(f) == /\ f.rsv = 0 /\ IsKnown(f.op) /\ f.len >= 0 /\ f.enc = MinEnc(f.len)
              /\ IsCtl(f.op) => (f.fin /\ f.len <= 125)

RECURSIVE Walk(_, _, _, _)
Walk(frames, i, st, max) ==
  IF i > Len(frames) \/ ~st.judged THEN st
  ELSE LET f == frames[i] IN
    IF st.closed \/ ~FrameOk(f) THEN [st EXCEPT !.judged = FALSE]
    ELSE CASE f.op \in {1, 2} ->
                IF st.open THEN [st EXCEPT !.judged = FALSE]
                ELSE LET s1 == [st EXCEPT !.open = TRUE, !.k = IF f.op = 1 THEN "t" ELSE "b", !.n = f.len, !.h = f.h, !.pcs = Piece(f)] IN
                     Walk(frames, i + 1, IF f.fin THEN Complete(s1, max) ELSE s1, max)
           [] f.op = 0 ->
                IF ~st.open THEN [st EXCEPT !.judged = FALSE]
                ELSE LET s1 == [st EXCEPT !.n = st.n + f.len, !.h = (st.h * f.bl + f.h) % P, !.pcs = st.pcs \o Piece(f)] IN
                     Walk(frames, i + 1, IF f.fin THEN Complete(s1, max) ELSE s1, max)
           [] f.op = 9 -> Walk(frames, i + 1, [st EXCEPT !.pongs = Append(st.pongs, [n |-> f.len, h |-> f.h])], max)
           [] f.op = 10 -> Walk(frames, i + 1, st, max)
           [] OTHER -> Walk(frames, i + 1, [st EXCEPT !.closed = TRUE], max)     \* close

Judge(frames, max) == Walk(frames, 1, St0, max)

IsPrefixOf(a, b) == Len(a) <= Len(b) /\ a = SubSeq(b, 1, Len(a))
\* observed is what the oracle lists; after a permitted failure point any prefix that contains everything before it
InRange(obs, exp, cut) == IF cut = -1 THEN obs = exp ELSE Len(obs) >= cut /\ IsPrefixOf(obs, exp)

\* frames an endpoint put on the wire, as read by a strict RFC 6455 peer: [op, fin, n, h, m(asked), code]
NoDataAfterClose(outs) == \A i, j \in 1..Len(outs) : (i < j /\ outs[i].op = 8) => outs[j].op \notin {0, 1, 2}
MaskOk(ep, outs) == \A i \in 1..Len(outs) : outs[i].m = (ep = "c")       \* RFC 6455 section 5.1: client masks, server does not
PongsOf(outs) == LET S == SelectSeq(outs, LAMBDA o : o.op = 10) IN [i \in 1..Len(S) |-> [n |-> S[i].n, h |-> S[i].h]]

\* the receive path may hold a few copies of (one maximal message + one read), never an amount driven by the peer
Bound(max, maxseg) == 8 * (max + maxseg) + 262144
==============================================================================
