\* reference configuration (profile "shape", quick tier); checks/C18.py generates one configuration per profile and tier
SPECIFICATION Spec
CONSTANTS
  MaxFrames = 3
  MaxCuts = 99
  MaxMsg = 1024
  Emit = FALSE
  DataOps = {1, 2}
  DataLens = {"1"}
  TextClasses = {"ascii"}
  CtlOps = {8, 9, 10}
  CtlLens = {"1"}
  Fragments = TRUE
  BadKinds = {}
  JunkLen = 0
  JunkSeg = 16384
  Eps = {"s", "c"}
  Dev_LenOverflowThrows = FALSE
  Dev_UnboundedSessionBuffer = FALSE
  Dev_ControlLen126Stalls = FALSE
  Dev_ClientNoUtf8Check = FALSE
  Dev_RsvSwallows = FALSE
  Dev_OversizeKeepsSession = FALSE
INVARIANT InvDelivers
INVARIANT InvNoThrow
INVARIANT InvNoDataAfterClose
INVARIANT InvBounded
INVARIANT InvGenValid
VIEW ViewNoHist
CHECK_DEADLOCK FALSE
