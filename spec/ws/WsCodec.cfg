SPECIFICATION Spec
CONSTANTS
  Emit = FALSE
  MaxMsg = 1024
  SerT7 = 125
  SerT16 = 65535
  Dev_LenOverflowThrows = FALSE
INVARIANT RoundTrip
INVARIANT Robust
CHECK_DEADLOCK FALSE
