SPECIFICATION Spec
CONSTANT AllowDev = TRUE
INVARIANT TraceChk
POSTCONDITION TracePost
CHECK_DEADLOCK FALSE
