------------------------------ MODULE WsCodec ------------------------------
(* C18 - Impl specification of WebSocketFrame::serialize / ::parse over frame FACTS (no bytes), and generator of  *)
(* the codec and raw-parse cases.  Every reachable state is one case:                                             *)
(*   kind "codec": a frame the library is asked to serialise: [op, fin, masked, lc/len, pc]; the model serialises *)
(*                 it (SerModel: the encoding chosen by the thresholds 125 / 65535 of serialize(), l.153-173) and *)
(*                 parses the result back (ParseModel: the decision sequence of parse(), l.49-137) for the whole  *)
(*                 wire image, for the image followed by other bytes and for every cut class inside it            *)
(*   kind "parse": header bytes nobody serialises: giant declared lengths, lengths beyond the bytes present, non- *)
(*                 minimal encodings, reserved bits, long / fragmented control frames, reserved opcodes, each     *)
(*                 with and without mask and with 0 / some payload bytes present                                  *)
(* Invariant RoundTrip is the property on the model; the cases are printed as JSON (Emit) and executed on the real*)
(* code, where WsFramingTrace.tla judges them.                                                                    *)
EXTENDS WsAbs, TLC, Json

CONSTANTS Emit, MaxMsg,
          SerT7, SerT16,               \* serialize(): largest length written with the 7-bit / 16-bit encoding (125 / 65535)
          Dev_LenOverflowThrows        \* F-18a

VARIABLE c
vars == <<c>>

Ops == {0, 1, 2, 8, 9, 10}
CodecLens == {"0", "1", "125", "126", "127", "65535", "65536"}
PcFor(op) == IF op = 1 THEN {"ascii", "u2", "u3", "u4", "bad_ff"} ELSE IF op = 8 THEN {"ctl"} ELSE {"bin"}

CodecCases == {[kind |-> "codec", op |-> op, fin |-> fin, masked |-> m, lc |-> lc, len |-> LenOf(lc, MaxMsg), pc |-> p] :
                 op \in Ops, fin \in BOOLEAN, m \in BOOLEAN, lc \in CodecLens, p \in {"ascii", "u2", "u3", "u4", "bad_ff", "ctl", "bin"}}
Codec == {x \in CodecCases : x.pc \in PcFor(x.op) /\ x.len >= MinLen(x.pc)}

\* raw headers: declared length class, encoding on the wire, bytes of payload present
ParseCases == {[kind |-> "parse", op |-> op, fin |-> fin, masked |-> m, rsv |-> r, enc |-> e, lc |-> lc, len |-> LenOf(lc, MaxMsg),
                have |-> hv] :
                 op \in {1, 2, 9, 8, 3, 11}, fin \in BOOLEAN, m \in BOOLEAN, r \in {0, 4}, e \in {7, 16, 64},
                 lc \in {"0", "1", "125", "126", "65535", "65536", "2p32", "2p63", "all1"}, hv \in {"none", "some", "all"}}
EncHolds(e, lc) == CASE e = 7 -> lc \in {"0", "1", "125"}
                     [] e = 16 -> lc \in {"0", "1", "125", "126", "65535"}
                     [] OTHER -> TRUE
Raw == {x \in ParseCases : /\ EncHolds(x.enc, x.lc)
                           /\ Giant(x.lc) => x.have # "all"
                           /\ (x.len = 0) => x.have = "all"
                           /\ (x.len \in {65535, 65536}) => x.have # "some" \/ x.op = 2
                           \* keep the product small: reserved bits / reserved opcodes only with the short forms
                           /\ (x.rsv # 0 \/ x.op \in {3, 11}) => (x.enc = 7 /\ x.lc = "1" /\ x.fin)}

Init == c \in Codec \cup Raw
Next == UNCHANGED c
Spec == Init /\ [][Next]_vars

(* ---- the model of serialize() and parse() --------------------------------------------------------------- *)
SerEnc(n) == IF n <= SerT7 THEN 7 ELSE IF n <= SerT16 THEN 16 ELSE 64
\* what the chosen encoding can express: a length that does not fit is truncated by the casts in serialize()
SerDeclared(n) == LET e == SerEnc(n) IN IF e = 7 THEN (IF n <= 127 THEN n ELSE n % 128) ELSE IF e = 16 THEN n % 65536 ELSE n
WireLen(x) == HdrLen(SerEnc(x.len), x.masked) + x.len

\* parse() applied to `avail` bytes that start with a header [op, fin, rsv, code7, ext, masked] declaring `decl` bytes:
\* "incomplete" | "frame" (consumed = hdr + decl) | "swallow" (reserved bits) | "throw"
ParseModel(op, fin, rsv, code7, decl, giant, all1, masked, avail) ==
  LET e == IF code7 = 126 THEN 16 ELSE IF code7 = 127 THEN 64 ELSE 7
      hdr == HdrLen(e, masked) IN
  IF avail < 2 THEN [r |-> "incomplete", consumed |-> 0]
  ELSE IF rsv # 0 THEN [r |-> "swallow", consumed |-> avail]
  ELSE IF IsCtl(op) /\ (code7 > 125 \/ ~fin) THEN [r |-> "incomplete", consumed |-> 0]
  ELSE IF avail < 2 + ExtLen(e) THEN [r |-> "incomplete", consumed |-> 0]
  ELSE IF avail < hdr THEN [r |-> "incomplete", consumed |-> 0]
  ELSE IF all1 /\ Dev_LenOverflowThrows THEN [r |-> "throw", consumed |-> 0]
  ELSE IF giant \/ avail - hdr < decl THEN [r |-> "incomplete", consumed |-> 0]
  ELSE [r |-> "frame", consumed |-> hdr + decl]

Code7(e, n) == IF e = 7 THEN n ELSE IF e = 16 THEN 126 ELSE 127
Back(x, avail) == LET e == SerEnc(x.len) IN
                  ParseModel(x.op, x.fin, 0, Code7(e, SerDeclared(x.len)), SerDeclared(x.len), FALSE, FALSE, x.masked, avail)
Legal(x) == IsCtl(x.op) => (x.fin /\ x.len <= 125)

\* the property on the model, for every codec case
RoundTrip == (c.kind = "codec" /\ Legal(c)) =>
               /\ SerEnc(c.len) = MinEnc(c.len)
               /\ Back(c, WireLen(c)) = [r |-> "frame", consumed |-> WireLen(c)]
               /\ Back(c, WireLen(c) + 3) = [r |-> "frame", consumed |-> WireLen(c)]
               /\ \A k \in {0, 1, 2, 3, 4, 9, 10, 13, 14, WireLen(c) - 1} : k < WireLen(c) => Back(c, k).r = "incomplete"
\* raw headers: never a throw, never more consumed than present
RawHave(x) == IF x.have = "all" THEN x.len ELSE IF x.have = "some" THEN (IF x.len > 1 THEN x.len \div 2 ELSE 0) ELSE 0
RawAvail(x) == HdrLen(x.enc, x.masked) + RawHave(x)
RawModel(x) == ParseModel(x.op, x.fin, x.rsv, Code7(x.enc, IF x.enc = 7 THEN x.len ELSE 0), IF Giant(x.lc) THEN 0 ELSE x.len,
                          Giant(x.lc), x.lc = "all1", x.masked, RawAvail(x))
Robust == (c.kind = "parse") => (RawModel(c).r # "throw" /\ RawModel(c).consumed <= RawAvail(c))

CaseOf == IF c.kind = "codec" THEN [c EXCEPT !.kind = "codec"] @@ [wire |-> WireLen(c), legal |-> Legal(c)]
          ELSE c @@ [avail |-> RawAvail(c), havelen |-> RawHave(c), pred |-> RawModel(c).r]
InvEmit == Emit => PrintT(ToJson(CaseOf))
==============================================================================
