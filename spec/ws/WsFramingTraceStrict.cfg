SPECIFICATION Spec
CONSTANT AllowDev = FALSE
INVARIANT TraceChk
POSTCONDITION TracePost
CHECK_DEADLOCK FALSE
