-------------------------- MODULE WsFramingTrace --------------------------
(* C18 - Abs trace specification.  Judges what harness/drv_ws.cpp recorded from the real WebSocketFrame,          *)
(* WebSocketServer and WebSocketClient against the property statement only:                                       *)
(*   Codec   parse(serialize(f)) = f, consuming exactly its own bytes (RFC 6455 section 5.2 geometry: minimal length  *)
(*           encoding, mask bit), also with bytes following it; every proper prefix is "incomplete"               *)
(*   Parse   arbitrary / mutated / giant headers: no throw, nothing consumed beyond the input, no allocation      *)
(*           driven by the declared length                                                                        *)
(*   Run     one segmentation of the case's stream fed to one endpoint: the delivered messages and the pongs are  *)
(*           those WsAbs!Judge derives from the frame facts (whatever the cuts, the same for server and client),  *)
(*           text that is not UTF-8 is not delivered, no exception, buffered bytes bounded by the configured      *)
(*           maximum, what the endpoint put on the wire is readable by a strict RFC 6455 peer, no data frame      *)
(*           after its own close frame                                                                            *)
(*   Script  close-handshake scripts (application sends racing / following the close): no data frame after the    *)
(*           endpoint's own close frame                                                                            *)
(* Choices where the statement is silent (weaker reading): after a text message that is not UTF-8 the endpoint    *)
(* may fail the connection or go on (both accepted); what an endpoint does with a stream that is not a stream of  *)
(* valid frames is not judged beyond the robustness clauses; the close echo and error callbacks are not judged.   *)
(* "Equal frame / its own bytes" and "matching pongs" are judged as a strict RFC 6455 peer sees them: minimal     *)
(* length encoding, reserved bits clear, client frames masked, server frames not.                                 *)
(*                                                                                                                *)
(* Deviations: when exactly one clause fails in one of the recognised ways, the Dev* action accepts the event and *)
(* prints <<"DEV", line, action, args>>; checks/C18.py turns every such line into ck.classify(signature): a       *)
(* KNOWN-FINDING only if known_findings.json lists exactly that action with those arguments, else a VIOLATION.    *)
(* With AllowDev = FALSE the deviation actions are disabled (the event is then simply not matched).               *)
EXTENDS TraceBase, WsAbs

CONSTANT AllowDev

VARIABLES case, ref
vars == <<l, case, ref>>

NoCase == [k |-> "none"]
NoRef == [set |-> FALSE, msgs |-> <<>>]
Init == l = 1 /\ case = NoCase /\ ref = NoRef

EvReset == IsEv("Reset") /\ case' = NoCase /\ ref' = NoRef
EvCase == IsEv("Case") /\ case' = Ev /\ ref' = NoRef
\* harness-level events: reported by the check itself (Infra = exit 2, Crashed = violation), transparent here
EvHarness == (IsEv("Infra") \/ IsEv("Crashed") \/ IsEv("HarnessTimeout")) /\ UNCHANGED <<case, ref>>

Dev(action, args) == AllowDev /\ PrintT(<<"DEV", l, action, args>>)

(* ------------------------------------------------------------------------------------------------ codec -- *)
CodecLegal == IsCtl(case.op) => (case.fin /\ case.len <= 125)       \* RFC 6455 section 5.5; others are not "valid frames"
CodecWire == /\ ~Ev.sthrow
             /\ Ev.wire = HdrLen(MinEnc(case.len), case.masked) + case.len
             /\ Ev.enc = MinEnc(case.len) /\ Ev.mbit = case.masked /\ Ev.opw = case.op /\ Ev.finw = case.fin /\ Ev.rsvw = 0
             /\ Ev.hread                                             \* the harness' own RFC reader reads the same frame
CodecBack == /\ Ev.st = "frame" /\ Ev.consumed = Ev.wire /\ Ev.eq
             /\ Ev.tst = "frame" /\ Ev.tconsumed = Ev.wire /\ Ev.teq  \* followed by other bytes: exactly its own bytes
             /\ Ev.pfxinc = Ev.pfx                                    \* every proper prefix: incomplete, nothing consumed
CodecRobust == Ev.st # "throw" /\ Ev.tst # "throw" /\ Ev.alloc <= 2 * Ev.wire + 4096
EvCodec == /\ IsEv("Codec") /\ case.k = "codec"
           /\ CodecWire /\ CodecRobust /\ (CodecLegal => CodecBack)
           /\ UNCHANGED <<case, ref>>

(* ------------------------------------------------------------------------------------------------ parse -- *)
ParseNoThrow == Ev.st # "throw" /\ Ev.pfxbad = 0
ParseRest == /\ Ev.consumed <= Ev.avail
             /\ (Ev.st = "frame") => Ev.plen <= Ev.avail
             /\ Ev.alloc <= 2 * Ev.avail + 4096
EvParse == /\ IsEv("Parse") /\ case.k = "parse"
           /\ ParseNoThrow /\ ParseRest
           /\ UNCHANGED <<case, ref>>
DevParseThrows == /\ IsEv("Parse") /\ case.k = "parse" /\ ~ParseNoThrow /\ ParseRest
                  /\ Dev("Dev_LenOverflowThrows", [where |-> "parse", lc |-> case.lc])
                  /\ UNCHANGED <<case, ref>>

(* ------------------------------------------------------------------------------------------------ run ---- *)
J == Judge(case.fr, Ev.max)
\* the first frame that is not a valid frame (or makes a message too long) decides what kind of hostile input this is
RECURSIVE FirstBad(_, _)
FirstBad(frames, i) ==
  IF i > Len(frames) THEN "none"
  ELSE LET f == frames[i] IN
       IF f.op = -1 THEN "junk"
       ELSE IF f.op = -2 THEN "message_size"          \* a flood of continuation frames
       ELSE IF f.rsv # 0 THEN "rsv"
       ELSE IF IsCtl(f.op) /\ (f.enc # 7 \/ ~f.fin) THEN "control_header"
       ELSE IF f.len < 0 \/ f.len > Ev.max THEN "declared_length"
       ELSE IF ~FrameOk(f) THEN "other"
       ELSE FirstBad(frames, i + 1)
Cause == LET c == FirstBad(case.fr, 1) IN IF c = "none" /\ ~J.judged THEN "message_size" ELSE c

RunNoThrow == ~Ev.thrown
RunBounded == Ev.feed = "d" => (Ev.peak <= Bound(Ev.max, Ev.maxseg) /\ Ev.alloc <= Bound(Ev.max, Ev.maxseg))
\* (quantified predicates are compared with TRUE so that TLC evaluates them as values; as conjuncts of an action it would
\* expand the quantifiers recursively, one stack frame per element)
RunWire == ~Ev.unreadable /\ Ev.strict /\ (MaskOk(Ev.ep, Ev.outs) = TRUE) /\ Ev.acc
RunClose == NoDataAfterClose(Ev.outs) = TRUE
RunMsgs == (J.judged => InRange(Ev.msgs, J.msgs, J.cut)) = TRUE
RunPongs == (J.judged => InRange(PongsOf(Ev.outs), J.pongs, J.pcut)) = TRUE
\* the same sequence for every segmentation and for both endpoints (only where the oracle leaves no latitude)
RunSame == (J.judged /\ J.cut = -1 /\ ref.set) => Ev.msgs = ref.msgs
KeepRef == ref' = IF J.judged /\ J.cut = -1 /\ ~ref.set THEN [set |-> TRUE, msgs |-> Ev.msgs] ELSE ref

IsRun == IsEv("Run") /\ case.k = "stream"
EvRun == /\ IsRun /\ RunNoThrow /\ RunBounded /\ RunWire /\ RunClose /\ RunMsgs /\ RunPongs /\ RunSame
         /\ KeepRef /\ UNCHANGED case

\* F-18a on an endpoint: the all-ones length makes the receive path throw
DevRunThrows == /\ IsRun /\ ~RunNoThrow /\ RunWire /\ RunClose /\ RunMsgs /\ RunPongs
                /\ Cause = "declared_length"
                /\ Dev("Dev_LenOverflowThrows", [where |-> Ev.ep, lc |-> "all1"])
                /\ UNCHANGED <<case, ref>>
\* F-18b / F-18c: hostile header, the endpoint buffers what follows without bound
DevRunUnbounded == /\ IsRun /\ RunNoThrow /\ ~RunBounded /\ RunWire /\ RunClose /\ RunMsgs /\ RunPongs
                   /\ Cause \in {"declared_length", "control_header", "message_size"}
                   /\ Dev("Dev_UnboundedBuffer", [ep |-> Ev.ep, cause |-> Cause])
                   /\ UNCHANGED <<case, ref>>
\* F-18d: text that is not UTF-8 is delivered: everything else as demanded, and the messages are exactly those of the
\* oracle without the UTF-8 check
JNoUtf8 == Judge([i \in 1..Len(case.fr) |-> [case.fr[i] EXCEPT !.pc = IF @ = "bin" THEN "bin" ELSE "ascii"]], Ev.max)
DevRunNoUtf8 == /\ IsRun /\ RunNoThrow /\ RunBounded /\ RunWire /\ RunClose /\ ~RunMsgs
                /\ J.judged /\ J.cut # -1 /\ Ev.msgs = JNoUtf8.msgs
                /\ Dev("Dev_NoUtf8Check", [ep |-> Ev.ep])
                /\ UNCHANGED <<case, ref>>

(* ------------------------------------------------------------------------------------------------ script - *)
IsScript == IsEv("Script") /\ case.k = "script"
ScriptRest == ~Ev.thrown /\ ~Ev.unreadable /\ Ev.strict /\ (MaskOk(Ev.ep, Ev.outs) = TRUE)
ScriptClose == NoDataAfterClose(Ev.outs) = TRUE
EvScript == /\ IsScript /\ ScriptRest /\ ScriptClose
            /\ UNCHANGED <<case, ref>>
\* which step made the endpoint send its first close frame: the application's own close (C, D) or the echo of the peer's
RECURSIVE FirstCloser(_, _)
FirstCloser(steps, i) == IF i > Len(steps) THEN "none"
                         ELSE IF steps[i] \in {"C", "D"} THEN "user_close"
                         ELSE IF steps[i] \in {"rC", "rCg"} THEN "peer_close"
                         ELSE FirstCloser(steps, i + 1)
DevScriptDataAfterClose == /\ IsScript /\ ScriptRest /\ ~ScriptClose
                           /\ Dev("Dev_DataAfterClose", [ep |-> Ev.ep, after |-> FirstCloser(Ev.steps, 1)])
                           /\ UNCHANGED <<case, ref>>

Next == \/ EvReset \/ EvCase \/ EvHarness \/ EvCodec \/ EvParse \/ EvRun \/ EvScript
        \/ DevParseThrows \/ DevRunThrows \/ DevRunUnbounded \/ DevRunNoUtf8 \/ DevScriptDataAfterClose
Spec == Init /\ [][Next]_vars
==============================================================================
