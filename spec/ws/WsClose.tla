------------------------------ MODULE WsClose ------------------------------
(* C18 - Impl specification of the send side around the close handshake: "after an endpoint has sent a close     *)
(* frame it sends no further data frame", in every interleaving of application sends with the close handshake.   *)
(*                                                                                                                *)
(* Shaped like websocket_server.hpp l.80-139 / l.335-350 (and the client after the F-18e repair):                 *)
(*   sendText/sendBinary/sendPing  one critical section under the send mutex: re-check closeSent, then hand the   *)
(*                                 frame to the transport (the order of these hand-overs is the wire order)       *)
(*   sendClose                     two steps: set closeSent under the mutex, then hand over the close frame       *)
(*   inbound close (I/O thread)    one critical section: if not closeSent, set it and hand over the echo          *)
(*   disconnect() (client)         close frame if connected, then the transport is gone (no later send)           *)
(* Threads run programs of API calls; TLC explores every interleaving of the steps.  Deviations:                  *)
(*   Dev_NoRecheck           the data send does not look at closeSent at all                                      *)
(*   Dev_CheckOutsideLock    the check and the hand-over are two critical sections                                *)
(*   Dev_UserCloseNoFlag     F-18e (client before the repair): the application's own sendClose() sets nothing     *)
(*   Dev_EchoNoFlag          the echo of the peer's close sets nothing (client before the repair: only the later  *)
(*                           state change to CLOSED stops sends - a window)                                       *)
(* With one thread (Threads = {"a"}) the behaviours are the sequential scripts that harness/drv_ws.cpp executes   *)
(* deterministically (Emit prints them with the predicted wire image); with several threads the interleavings    *)
(* are executed by harness/drv_s_wsclose.cpp under the deterministic scheduler.                                   *)
EXTENDS Integers, Sequences, FiniteSets, TLC, Json

CONSTANTS Threads, ProgChoices,    \* ProgChoices[t]: the set of programs thread t may run; a program is a sequence of calls:
                                   \* "T" "B" "P" (sendText/Binary/Ping) "C" (sendClose) "rC" (inbound close) "rP" (inbound ping)
                                   \* "D" (client disconnect())
          Ep,                      \* "s" | "c"
          Emit,
          Dev_NoRecheck, Dev_CheckOutsideLock, Dev_UserCloseNoFlag, Dev_EchoNoFlag

VARIABLES echoed, connected,   \* client only: the one-shot echo gate (_closeEchoed) and "state is CONNECTED"
          prog,      \* prog[t]: the program chosen for thread t
          ip,        \* ip[t]: index of the call thread t is in
          st,        \* st[t]: "idle" | "checked" (data send passed its check, hand-over pending) | "flagged" (sendClose set the flag)
                     \*        | "echoed" (client: echo handed over, state change pending)
          closeSent, gone, wire, script
vars == <<echoed, connected, prog, ip, st, closeSent, gone, wire, script>>
cl == <<echoed, connected>>

Init == /\ prog \in [Threads -> UNION {ProgChoices[t] : t \in Threads}] /\ \A t \in Threads : prog[t] \in ProgChoices[t]
        /\ ip = [t \in Threads |-> 1] /\ st = [t \in Threads |-> "idle"]
        /\ closeSent = FALSE /\ gone = FALSE /\ wire = <<>> /\ script = <<>> /\ echoed = FALSE /\ connected = TRUE

Call(t) == prog[t][ip[t]]
Active(t) == ip[t] <= Len(prog[t])
Done(t) == ip' = [ip EXCEPT ![t] = @ + 1] /\ st' = [st EXCEPT ![t] = "idle"] /\ prog' = prog
Emitw(x) == wire' = IF gone THEN wire ELSE Append(wire, x)
Log(t) == script' = Append(script, Call(t))
IsSend(c) == c \in {"T", "B", "P"}
Kind(c) == IF c = "P" THEN "ctl" ELSE "data"

\* sendText / sendBinary / sendPing: check and hand-over in one critical section
SendAtomic(t) == /\ Active(t) /\ IsSend(Call(t)) /\ st[t] = "idle" /\ ~Dev_CheckOutsideLock
                 /\ IF (closeSent /\ ~Dev_NoRecheck) \/ (Ep = "c" /\ ~connected) THEN wire' = wire ELSE Emitw(Kind(Call(t)))
                 /\ Done(t) /\ Log(t) /\ UNCHANGED <<closeSent, gone>> /\ UNCHANGED cl
\* deviation: check ...
SendCheck(t) == /\ Active(t) /\ IsSend(Call(t)) /\ st[t] = "idle" /\ Dev_CheckOutsideLock
                /\ IF (closeSent /\ ~Dev_NoRecheck) \/ (Ep = "c" /\ ~connected) THEN Done(t) ELSE ip' = ip /\ st' = [st EXCEPT ![t] = "checked"] /\ prog' = prog
                /\ Log(t) /\ UNCHANGED <<closeSent, gone, wire>> /\ UNCHANGED cl
\* ... and hand-over later
SendEmit(t) == /\ Active(t) /\ st[t] = "checked"
               /\ Emitw(Kind(Call(t))) /\ Done(t) /\ UNCHANGED <<closeSent, gone, script>> /\ UNCHANGED cl

CloseSetFlag(t) == /\ Active(t) /\ Call(t) = "C" /\ st[t] = "idle"
                   /\ closeSent' = (closeSent \/ ~Dev_UserCloseNoFlag)
                   /\ st' = [st EXCEPT ![t] = "flagged"] /\ Log(t) /\ UNCHANGED <<prog, ip, gone, wire>> /\ UNCHANGED cl
CloseEmit(t) == /\ Active(t) /\ Call(t) = "C" /\ st[t] = "flagged"
                /\ Emitw("close") /\ Done(t) /\ UNCHANGED <<closeSent, gone, script>> /\ UNCHANGED cl

\* the server echoes unless it already sent a close and drops the session (later reads and sends find nothing); the
\* client echoes the first close it receives (one-shot gate) and, in a second step, becomes CLOSED
EchoClose(t) == /\ Active(t) /\ Call(t) = "rC" /\ st[t] = "idle"
                /\ IF Ep = "s"
                   THEN /\ IF closeSent THEN wire' = wire /\ closeSent' = closeSent
                           ELSE Emitw("close") /\ closeSent' = ~Dev_EchoNoFlag
                        /\ gone' = TRUE /\ UNCHANGED cl /\ Done(t)
                   ELSE /\ IF echoed THEN wire' = wire /\ closeSent' = closeSent
                           ELSE Emitw("close") /\ closeSent' = (closeSent \/ ~Dev_EchoNoFlag)
                        /\ echoed' = TRUE /\ connected' = connected /\ gone' = gone
                        /\ st' = [st EXCEPT ![t] = "echoed"] /\ UNCHANGED <<ip, prog>>
                /\ Log(t)
EchoSetClosed(t) == /\ Active(t) /\ Call(t) = "rC" /\ st[t] = "echoed"
                    /\ connected' = FALSE /\ Done(t) /\ UNCHANGED <<echoed, closeSent, gone, wire, script>>
\* inbound ping: answered with a pong (a control frame, allowed after a close frame) while the session exists
InPing(t) == /\ Active(t) /\ Call(t) = "rP" /\ st[t] = "idle"
             /\ Emitw("ctl") /\ Done(t) /\ Log(t) /\ UNCHANGED <<closeSent, gone>> /\ UNCHANGED cl

\* disconnect(): a courtesy close frame while CONNECTED, then the transport is gone
Disconnect(t) == /\ Active(t) /\ Call(t) = "D" /\ st[t] = "idle"
                 /\ (IF connected /\ ~gone THEN Emitw("close") ELSE wire' = wire)
                 /\ closeSent' = TRUE /\ gone' = TRUE /\ connected' = FALSE /\ echoed' = echoed
                 /\ Done(t) /\ Log(t)

Next == \E t \in Threads : SendAtomic(t) \/ SendCheck(t) \/ SendEmit(t) \/ CloseSetFlag(t) \/ CloseEmit(t) \/ EchoClose(t) \/ EchoSetClosed(t) \/ InPing(t) \/ Disconnect(t)
Spec == Init /\ [][Next]_vars

NoDataAfterClose == \A i, j \in 1..Len(wire) : (i < j /\ wire[i] = "close") => wire[j] # "data"
Finished == \A t \in Threads : ~Active(t)
InvEmit == (Emit /\ Finished) => PrintT(ToJson([ep |-> Ep, steps |-> script, wire |-> wire]))
==============================================================================
