----------------------------- MODULE WsFraming -----------------------------
(* C18 - Impl specification of the WebSocket receive path of iora (websocket_frame.hpp parse(), the buffer-move *)
(* parse loop of WebSocketServer::onUpgradedData / WebSocketClient::handleData, reassembly, size limit, UTF-8    *)
(* check, ping->pong, close echo), driven by a protocol-aware frame generator and by every segmentation of the  *)
(* resulting byte stream.                                                                                       *)
(*                                                                                                              *)
(* The specification is at the same time                                                                        *)
(*   - a model that TLC checks exhaustively: for every stream the generator can build (<= MaxFrames frames from *)
(*     the configured alphabets) and EVERY segmentation at the structural cut points (VIEW without the history) *)
(*     the receiver delivers what the oracle WsAbs!Judge demands, never throws, never keeps more unparsed bytes *)
(*     than one maximal frame, and                                                                              *)
(*   - the case generator of the conformance step: with the history kept (segs) and at most MaxCuts cuts, every *)
(*     terminal state is one case (stream, endpoint, segment sizes) with the model's prediction, printed as JSON*)
(*     (Emit = TRUE) and executed on the real endpoints by checks/C18.py + harness/drv_ws.cpp.                  *)
(*                                                                                                              *)
(* Known/possible deviations of the code from this design are actions guarded by Dev_* constants (all FALSE in  *)
(* the design that must satisfy the invariants; checks/C18.py shows for each flag that TLC sees the violation). *)
EXTENDS WsAbs, TLC, Json

CONSTANTS
  MaxFrames,        \* frames per stream (junk excluded)
  MaxCuts,          \* at most this many cuts are chosen freely (then the rest is fed whole)
  MaxMsg,           \* configured maximum message size of the endpoint
  Emit,             \* print terminal states as JSON cases
  DataOps,          \* subset of {1, 2}
  DataLens,         \* length classes of data frames
  TextClasses,      \* payload classes of text frames
  CtlOps,           \* subset of {8, 9, 10}
  CtlLens,          \* length classes of ping/pong payloads
  Fragments,        \* TRUE: fragmented messages are generated
  BadKinds,         \* kinds of invalid frames that may end a stream (robustness part)
  JunkLen,          \* bytes of opaque junk that may follow an invalid frame (0: none)
  JunkSeg,          \* the junk is fed in reads of this size
  Eps,              \* endpoints: subset of {"s", "c"}
  Dev_LenOverflowThrows,        \* F-18a parse(): pos + payloadLen wraps for an all-ones length, resize throws
  Dev_UnboundedSessionBuffer,   \* F-18b a declared length beyond the maximum is buffered, not refused
  Dev_ControlLen126Stalls,      \* F-18c long / fragmented control frame = "incomplete" for ever
  Dev_ClientNoUtf8Check,        \* F-18d the client delivers text that is not UTF-8
  Dev_RsvSwallows,              \* reserved bits: the frame "consumes" everything that was read with it (framing is lost,
                                \* but nothing the property forbids happens: no invariant fails with this flag alone)
  Dev_OversizeKeepsSession      \* a message beyond the maximum is answered with 1009 but the session and the
                                \* fragment buffer stay (it keeps growing with further continuation frames)

VARIABLES
  phase,      \* "gen" | "feed"
  stream,     \* sequence of frame facts (WsAbs), the last one possibly junk (op = -1)
  gopen, gkind, gend,     \* generator: fragmented message open / its kind / nothing valid may follow
  ep,         \* "s": the stream is fed to the server (frames masked), "c": to the client (not masked)
  fedp, cons, \* bytes handed to the endpoint / bytes consumed by its parser (unparsed buffer = fedp - cons)
  nf,         \* index of the frame that starts at cons
  segs,       \* history: segment sizes
  pc,         \* "idle" (waiting for a read) | "parse" (inside the parse loop) | "handle" (frame cur parsed)
  frag,       \* reassembly: [open, k, n, h, pcs]
  delivered,  \* messages handed to the application [k, n, h]
  outs,       \* frames the endpoint sent [op, fin, n, h, m, code]
  gone,       \* the endpoint dropped the session (close handled / connection failed): reads are discarded
  closeSent, thrown, stalled, lost

vars == <<phase, stream, gopen, gkind, gend, ep, fedp, cons, nf, segs, pc, frag, delivered, outs, gone, closeSent, thrown,
          stalled, lost>>
genVars == <<stream, gopen, gkind, gend>>
rxVars == <<fedp, cons, nf, segs, pc, frag, delivered, outs, gone, closeSent, thrown, stalled, lost>>

Frag0 == [open |-> FALSE, k |-> "-", n |-> 0, h |-> 0, pcs |-> <<>>]

Init == /\ phase = "gen" /\ stream = <<>> /\ gopen = FALSE /\ gkind = "-" /\ gend = FALSE /\ ep = "-"
        /\ fedp = 0 /\ cons = 0 /\ nf = 1 /\ segs = <<>> /\ pc = "idle" /\ frag = Frag0 /\ delivered = <<>> /\ outs = <<>>
        /\ gone = FALSE /\ closeSent = FALSE /\ thrown = FALSE /\ stalled = FALSE /\ lost = FALSE

(* ------------------------------------------------------------------------------------------- generator --- *)
\* model-level payload identity: h = position in the stream, bl = 7 (the check substitutes the real hash facts)
Fr(op, fin, lc, enc, rsv, pcl, kind) ==
  [op |-> op, fin |-> fin, lc |-> lc, len |-> LenOf(lc, MaxMsg), enc |-> enc, rsv |-> rsv, pc |-> pcl, kind |-> kind,
   h |-> Len(stream) + 1, bl |-> IF LenOf(lc, MaxMsg) > 0 THEN 7 ELSE 1]
Valid(op, fin, lc, pcl) == Fr(op, fin, lc, MinEnc(LenOf(lc, MaxMsg)), 0, pcl, "ok")
Room == phase = "gen" /\ ~gend /\ Len(stream) < MaxFrames
Fins == IF Fragments THEN BOOLEAN ELSE {TRUE}

GenStart == /\ Room /\ ~gopen
            /\ \E op \in DataOps, fin \in Fins, lc \in DataLens :
                 \E pcl \in (IF op = 1 THEN TextClasses ELSE {"bin"}) :
                   /\ LenOf(lc, MaxMsg) >= MinLen(pcl)
                   /\ stream' = Append(stream, Valid(op, fin, lc, pcl))
                   /\ gopen' = ~fin /\ gkind' = IF op = 1 THEN "t" ELSE "b"
            /\ UNCHANGED <<gend, phase, ep>> /\ UNCHANGED rxVars

GenCont == /\ Room /\ gopen
           /\ \E fin \in BOOLEAN, lc \in DataLens :
                \E pcl \in (IF gkind = "t" THEN TextClasses ELSE {"bin"}) :
                  /\ LenOf(lc, MaxMsg) >= MinLen(pcl)
                  /\ stream' = Append(stream, Valid(0, fin, lc, pcl))
                  /\ gopen' = ~fin
           /\ UNCHANGED <<gkind, gend, phase, ep>> /\ UNCHANGED rxVars

GenCtl == /\ Room
          /\ \E op \in CtlOps \ {8}, lc \in CtlLens : stream' = Append(stream, Valid(op, TRUE, lc, "ctl"))
          /\ UNCHANGED <<gopen, gkind, gend, phase, ep>> /\ UNCHANGED rxVars

GenClose == /\ Room /\ 8 \in CtlOps
            /\ stream' = Append(stream, Valid(8, TRUE, "2", "code1000"))
            /\ gend' = TRUE
            /\ UNCHANGED <<gopen, gkind, phase, ep>> /\ UNCHANGED rxVars

\* one invalid frame ends the valid part of a stream
BadFrame(kind) ==
  CASE kind = "rsv"        -> Fr(1, TRUE, "1", 7, 1, "ascii", kind)
    [] kind = "ctl126"     -> Fr(9, TRUE, "126", 16, 0, "ctl", kind)
    [] kind = "ctl127"     -> Fr(9, TRUE, "1", 64, 0, "ctl", kind)
    [] kind = "ctlfrag"    -> Fr(9, FALSE, "1", 7, 0, "ctl", kind)
    [] kind = "closefrag"  -> Fr(8, FALSE, "2", 7, 0, "code1000", kind)
    [] kind = "giant_all1" -> Fr(2, TRUE, "all1", 64, 0, "bin", kind)
    [] kind = "giant_2p63" -> Fr(2, TRUE, "2p63", 64, 0, "bin", kind)
    [] kind = "giant_2p32" -> Fr(1, FALSE, "2p32", 64, 0, "ascii", kind)
    [] kind = "over"       -> Fr(2, TRUE, "Max1", MinEnc(MaxMsg + 1), 0, "bin", kind)
    [] kind = "nonmin16"   -> Fr(1, TRUE, "1", 16, 0, "ascii", kind)
    [] kind = "nonmin64"   -> Fr(2, TRUE, "126", 64, 0, "bin", kind)
    [] kind = "contnostart"-> Fr(0, TRUE, "1", 7, 0, "ascii", kind)
    [] kind = "startopen"  -> Fr(1, TRUE, "1", 7, 0, "ascii", kind)
    [] kind = "unknown3"   -> Fr(3, TRUE, "1", 7, 0, "ascii", kind)
    [] kind = "unknown11"  -> Fr(11, TRUE, "0", 7, 0, "ascii", kind)
    [] kind = "afterclose" -> Fr(1, TRUE, "1", 7, 0, "ascii", kind)

GenBad == /\ phase = "gen" /\ Len(stream) < MaxFrames
          /\ \E kind \in BadKinds \ {"flood"} :
               /\ (kind = "contnostart") => ~gopen /\ ~gend
               /\ (kind = "startopen") => gopen /\ ~gend
               /\ (kind = "afterclose") => gend /\ stream # <<>> /\ stream[Len(stream)].op = 8 /\ stream[Len(stream)].kind = "ok"
               /\ (kind \notin {"afterclose"}) => ~gend
               /\ stream' = Append(stream, BadFrame(kind))
          /\ gend' = TRUE
          /\ UNCHANGED <<gopen, gkind, phase, ep>> /\ UNCHANGED rxVars

\* opaque bytes after an invalid frame: what a peer that wants the endpoint to buffer for ever keeps sending
GenJunk == /\ phase = "gen" /\ JunkLen > 0 /\ stream # <<>> /\ stream[Len(stream)].kind \notin {"ok", "junk", "flood"}
           /\ stream' = Append(stream, [op |-> -1, fin |-> FALSE, lc |-> "junk", len |-> JunkLen, enc |-> 7, rsv |-> 0,
                                         pc |-> "junk", kind |-> "junk", h |-> 0, bl |-> 1])
           /\ UNCHANGED <<gopen, gkind, gend, phase, ep>> /\ UNCHANGED rxVars

\* a flood of valid continuation frames (not final, 1000 bytes each): a fragmented message that never ends
GenFlood == /\ phase = "gen" /\ JunkLen > 0 /\ "flood" \in BadKinds /\ ~gend /\ Len(stream) < MaxFrames
            /\ stream' = Append(stream, [op |-> -2, fin |-> FALSE, lc |-> "flood", len |-> JunkLen, enc |-> 16, rsv |-> 0,
                                          pc |-> "flood", kind |-> "flood", h |-> 0, bl |-> 1])
            /\ gend' = TRUE
            /\ UNCHANGED <<gopen, gkind, phase, ep>> /\ UNCHANGED rxVars

Seal == /\ phase = "gen" /\ stream # <<>>
        /\ \E e \in Eps : ep' = e
        /\ phase' = "feed"
        /\ UNCHANGED genVars /\ UNCHANGED rxVars

(* ------------------------------------------------------------------------------------------- geometry ---- *)
Masked == ep = "s"
IsJunk(f) == f.op < 0                      \* opaque bytes (-1) or a flood of continuation frames (-2): no structure of their own
Hdr(f) == IF IsJunk(f) THEN 0 ELSE HdrLen(f.enc, Masked)
Body(f) == IF Giant(f.lc) THEN 0 ELSE f.len              \* payload bytes really present
Size(f) == Hdr(f) + Body(f)
RECURSIVE StartOf(_)
StartOf(i) == IF i = 1 THEN 0 ELSE StartOf(i - 1) + Size(stream[i - 1])
Total == StartOf(Len(stream) + 1)

\* structural cut points of frame i (absolute offsets)
FrameCuts(i) ==
  LET f == stream[i]  s == StartOf(i)  H == Hdr(f)  L == Body(f)  x == ExtLen(f.enc) IN
  IF IsJunk(f) THEN {}
  ELSE {s + 1, s + 2}
       \cup (IF x > 0 THEN {s + 3, s + 2 + x} ELSE {})
       \cup (IF x = 8 THEN {s + 9} ELSE {})
       \cup (IF Masked THEN {s + 2 + x + 1, s + 2 + x + 3} ELSE {})
       \cup {s + H}
       \cup (IF L > 1 THEN {s + H + 1, s + H + L - 1} ELSE {})
       \cup (IF L > 3 THEN {s + H + (L \div 2)} ELSE {})
       \cup {s + H + L}
CutPoints == {c \in UNION {FrameCuts(i) : i \in 1..Len(stream)} : c > 0 /\ c < Total}
HasJunk == stream # <<>> /\ IsJunk(stream[Len(stream)])

(* ------------------------------------------------------------------------------------------- receiver ---- *)
Avail == fedp - cons
Cur == stream[nf]
More == nf <= Len(stream)

Out(op, n, h, code) == [op |-> op, fin |-> TRUE, n |-> n, h |-> h, m |-> (ep = "c"), code |-> code]

\* a read: the next segment is appended to the session buffer and the parse loop starts (server l.257-273,
\* client l.691-698).  A session that is gone discards the bytes.  Junk is always fed in JunkSeg reads (its purpose is to
\* measure buffering, not to vary the cuts) and starts at a read boundary.
JunkStart == IF HasJunk THEN StartOf(Len(stream)) ELSE Total
Feed == /\ phase = "feed" /\ pc = "idle" /\ fedp < Total
        /\ LET target == IF fedp < JunkStart THEN JunkStart ELSE IF fedp + JunkSeg < Total THEN fedp + JunkSeg ELSE Total
               choices == IF fedp < JunkStart /\ Len(segs) < MaxCuts
                          THEN {c \in CutPoints : c > fedp /\ c < JunkStart} \cup {target} ELSE {target} IN
           \E c \in choices :
             /\ fedp' = c
             /\ segs' = Append(segs, c - fedp)
             /\ IF gone \/ lost THEN cons' = c /\ pc' = "idle" ELSE cons' = cons /\ pc' = "parse"
        /\ UNCHANGED <<phase, ep, nf, frag, delivered, outs, gone, closeSent, thrown, stalled, lost>> /\ UNCHANGED genVars

Idle == pc' = "idle" /\ UNCHANGED <<phase, ep, fedp, cons, nf, segs, frag, delivered, outs, gone, closeSent, thrown, stalled, lost>> /\ UNCHANGED genVars

\* fail the connection: close frame with the code (once), session and buffers dropped, later reads discarded
FailWith(code) ==
  /\ outs' = IF closeSent THEN outs ELSE Append(outs, Out(8, 2, 0, code))
  /\ closeSent' = TRUE /\ gone' = TRUE /\ cons' = fedp /\ frag' = Frag0 /\ pc' = "idle"
  /\ UNCHANGED <<phase, ep, fedp, nf, segs, delivered, thrown, stalled, lost>> /\ UNCHANGED genVars

InParse == phase = "feed" /\ pc = "parse" /\ ~stalled

\* nothing left in the buffer, or everything of the stream consumed
ParseDrained == InParse /\ (Avail = 0 \/ ~More) /\ Idle
\* junk reached while the session is alive: junk is 'a' bytes = FIN clear, RSV set: a reserved-bits error
ParseJunk == /\ InParse /\ More /\ Avail > 0 /\ Cur.op = -1
             /\ IF Dev_RsvSwallows THEN /\ lost' = TRUE /\ cons' = fedp /\ pc' = "idle"
                                        /\ UNCHANGED <<phase, ep, fedp, nf, segs, frag, delivered, outs, gone, closeSent, thrown, stalled>>
                                        /\ UNCHANGED genVars
                ELSE IF Avail < 2 THEN Idle ELSE FailWith(1002)

\* the flood: every read holds several continuation frames; they are appended to the fragment buffer (also when no
\* message was started: the code accumulates them all the same) until the size check refuses the message
ParseFlood == /\ InParse /\ More /\ Avail > 0 /\ Cur.op = -2
              /\ IF Dev_OversizeKeepsSession
                 THEN /\ frag' = [frag EXCEPT !.n = @ + Avail] /\ cons' = fedp /\ pc' = "idle"
                      /\ outs' = Append(outs, Out(8, 2, 0, 1009)) /\ closeSent' = TRUE
                      /\ UNCHANGED <<phase, ep, fedp, nf, segs, delivered, gone, thrown, stalled, lost>> /\ UNCHANGED genVars
                 ELSE FailWith(1009)

InFrame == InParse /\ More /\ Avail > 0 /\ ~IsJunk(Cur)

ParseNeedBase == InFrame /\ Avail < 2 /\ Idle                                         \* frame.hpp l.53
ParseRsv == /\ InFrame /\ Avail >= 2 /\ Cur.rsv # 0                                     \* l.64-73
            /\ IF Dev_RsvSwallows
               THEN /\ lost' = TRUE /\ cons' = fedp /\ pc' = "idle"      \* consumed = data.size(): framing is lost from here on
                    /\ UNCHANGED <<phase, ep, fedp, nf, segs, frag, delivered, outs, gone, closeSent, thrown, stalled>>
                    /\ UNCHANGED genVars
               ELSE FailWith(1002)
CtlViolation(f) == IsCtl(f.op) /\ (f.enc # 7 \/ ~f.fin)
ParseCtlViolation == /\ InFrame /\ Avail >= 2 /\ Cur.rsv = 0 /\ CtlViolation(Cur)        \* l.82-88
                     /\ IF Dev_ControlLen126Stalls
                        THEN /\ stalled' = TRUE /\ pc' = "idle"           \* nullopt = "incomplete": never resolved
                             /\ UNCHANGED <<phase, ep, fedp, cons, nf, segs, frag, delivered, outs, gone, closeSent, thrown, lost>>
                             /\ UNCHANGED genVars
                        ELSE FailWith(1002)
HeaderSane == InFrame /\ Avail >= 2 /\ Cur.rsv = 0 /\ ~CtlViolation(Cur)
ParseNeedExt == HeaderSane /\ Avail < 2 + ExtLen(Cur.enc) /\ Idle                      \* l.92, l.98
Declared(f) == IF Giant(f.lc) THEN MaxMsg + 1000000 ELSE f.len                          \* only compared with MaxMsg
Want(f) == IF Giant(f.lc) THEN 1073741824 ELSE Size(f)                                  \* bytes needed before the frame is complete
LimitAtHeader == ~Dev_UnboundedSessionBuffer
HeaderRead == HeaderSane /\ Avail >= 2 + ExtLen(Cur.enc)
\* a declared length beyond the configured maximum is refused as soon as it can be read
ParseTooLarge == HeaderRead /\ LimitAtHeader /\ Declared(Cur) > MaxMsg /\ FailWith(1009)
Fits == HeaderRead /\ (Declared(Cur) <= MaxMsg \/ ~LimitAtHeader)
ParseNeedMask == Fits /\ Avail < Hdr(Cur) /\ Idle                                      \* l.106
Overflows == Cur.lc = "all1" /\ Dev_LenOverflowThrows
ParseNeedPayload == Fits /\ Avail >= Hdr(Cur) /\ Avail < Want(Cur) /\ ~Overflows /\ Idle  \* l.114
\* F-18a: pos + payloadLen wraps, the completeness test passes, payload.resize(2^64-1) throws std::length_error
ParseOverflowThrows == /\ Fits /\ Avail >= Hdr(Cur) /\ Overflows
                       /\ thrown' = TRUE /\ pc' = "idle"
                       /\ UNCHANGED <<phase, ep, fedp, cons, nf, segs, frag, delivered, outs, gone, closeSent, stalled, lost>>
                       /\ UNCHANGED genVars
ParseFrame == /\ Fits /\ Avail >= Want(Cur)                                            \* l.119-136: consumed = its own bytes
              /\ cons' = cons + Size(Cur) /\ pc' = "handle"
              /\ UNCHANGED <<phase, ep, fedp, nf, segs, frag, delivered, outs, gone, closeSent, thrown, stalled, lost>>
              /\ UNCHANGED genVars

\* ---- handleFrame / handleDataFrame for the frame just parsed (stream[nf]); afterwards the loop goes on
Handled == nf' = nf + 1 /\ pc' = "parse"
InHandle == phase = "feed" /\ pc = "handle"

Utf8Checked == ~(ep = "c" /\ Dev_ClientNoUtf8Check)

\* message complete: size limit, UTF-8 check, delivery (server l.409-459, client l.892-919)
Finish(fr) ==
  IF fr.n > MaxMsg
  THEN IF Dev_OversizeKeepsSession
       THEN /\ outs' = Append(outs, Out(8, 2, 0, 1009)) /\ closeSent' = TRUE /\ frag' = fr /\ Handled
            /\ UNCHANGED <<phase, ep, fedp, cons, segs, delivered, gone, thrown, stalled, lost>> /\ UNCHANGED genVars
       ELSE FailWith(1009)
  ELSE IF fr.k = "t" /\ Utf8Checked /\ ~Utf8Ok(fr.pcs)
       THEN /\ outs' = Append(outs, Out(8, 2, 0, 1007)) /\ closeSent' = TRUE /\ frag' = Frag0 /\ Handled     \* 1007, goes on
            /\ UNCHANGED <<phase, ep, fedp, cons, segs, delivered, gone, thrown, stalled, lost>> /\ UNCHANGED genVars
       ELSE /\ delivered' = IF fr.k \in {"t", "b"} THEN Append(delivered, [k |-> fr.k, n |-> fr.n, h |-> fr.h]) ELSE delivered
            /\ frag' = Frag0 /\ Handled
            /\ UNCHANGED <<phase, ep, fedp, cons, segs, outs, gone, closeSent, thrown, stalled, lost>> /\ UNCHANGED genVars
Keep(fr) ==
  IF fr.n > MaxMsg /\ ~Dev_OversizeKeepsSession THEN FailWith(1009)
  ELSE /\ frag' = fr /\ Handled
       /\ outs' = IF fr.n > MaxMsg THEN Append(outs, Out(8, 2, 0, 1009)) ELSE outs
       /\ closeSent' = (closeSent \/ fr.n > MaxMsg)
       /\ UNCHANGED <<phase, ep, fedp, cons, segs, delivered, gone, thrown, stalled, lost>> /\ UNCHANGED genVars

HandleStart == /\ InHandle /\ Cur.op \in {1, 2}
               /\ LET fr == [open |-> TRUE, k |-> IF Cur.op = 1 THEN "t" ELSE "b", n |-> Cur.len, h |-> Cur.h, pcs |-> Piece(Cur)] IN
                  IF Cur.fin THEN Finish(fr) ELSE Keep(fr)
HandleCont == /\ InHandle /\ Cur.op = 0
              /\ LET fr == [frag EXCEPT !.n = @ + Cur.len, !.h = (@ * Cur.bl + Cur.h) % P, !.pcs = @ \o Piece(Cur)] IN
                 IF Cur.fin THEN Finish(fr) ELSE Keep(fr)
HandlePing == /\ InHandle /\ Cur.op = 9
              /\ outs' = Append(outs, Out(10, Cur.len, Cur.h, 0)) /\ Handled
              /\ UNCHANGED <<phase, ep, fedp, cons, segs, frag, delivered, gone, closeSent, thrown, stalled, lost>> /\ UNCHANGED genVars
HandlePong == /\ InHandle /\ Cur.op = 10 /\ Handled
              /\ UNCHANGED <<phase, ep, fedp, cons, segs, frag, delivered, outs, gone, closeSent, thrown, stalled, lost>> /\ UNCHANGED genVars
\* inbound close: echoed once, session dropped (server l.335-363); the client keeps its transport but is CLOSED
HandleClose == /\ InHandle /\ Cur.op = 8
               /\ outs' = IF closeSent THEN outs ELSE Append(outs, Out(8, 2, 0, 1000))
               /\ closeSent' = TRUE /\ gone' = (ep = "s") /\ nf' = nf + 1
               /\ IF ep = "s" THEN cons' = fedp /\ pc' = "idle" /\ frag' = Frag0 ELSE cons' = cons /\ pc' = "parse" /\ frag' = frag
               /\ UNCHANGED <<phase, ep, fedp, segs, delivered, thrown, stalled, lost>> /\ UNCHANGED genVars
\* reserved opcode: the server answers 1002 and goes on, the client ignores it
HandleUnknown == /\ InHandle /\ ~IsKnown(Cur.op)
                 /\ outs' = IF ep = "s" THEN Append(outs, Out(8, 2, 0, 1002)) ELSE outs
                 /\ closeSent' = (closeSent \/ ep = "s") /\ Handled
                 /\ UNCHANGED <<phase, ep, fedp, cons, segs, frag, delivered, gone, thrown, stalled, lost>> /\ UNCHANGED genVars

\* a stalled parser never makes progress again: every later read is appended and handed back
ParseStalled == /\ phase = "feed" /\ pc = "parse" /\ stalled /\ Idle

Rx == \/ Feed \/ ParseDrained \/ ParseJunk \/ ParseFlood \/ ParseNeedBase \/ ParseRsv \/ ParseCtlViolation \/ ParseNeedExt \/ ParseTooLarge
      \/ ParseNeedMask \/ ParseNeedPayload \/ ParseOverflowThrows \/ ParseFrame \/ ParseStalled
      \/ HandleStart \/ HandleCont \/ HandlePing \/ HandlePong \/ HandleClose \/ HandleUnknown
Gen == GenStart \/ GenCont \/ GenCtl \/ GenClose \/ GenBad \/ GenJunk \/ GenFlood \/ Seal
Next == Gen \/ Rx
Spec == Init /\ [][Next]_vars

(* ------------------------------------------------------------------------------------------- properties -- *)
Final == phase = "feed" /\ fedp = Total /\ pc = "idle"
J == Judge(stream, MaxMsg)

\* the property on the model: whatever the segmentation, the endpoint delivers and answers what the oracle demands
InvDelivers == (Final /\ J.judged) => /\ InRange(delivered, J.msgs, J.cut)
                                      /\ InRange(PongsOf(outs), J.pongs, J.pcut)
InvNoThrow == ~thrown
InvNoDataAfterClose == NoDataAfterClose(outs)
\* between two reads the endpoint holds less than one maximal frame of unparsed bytes and at most one maximal message
InvBounded == (phase = "feed" /\ pc = "idle") => (fedp - cons < 14 + MaxMsg + 1 /\ frag.n <= MaxMsg)
\* the generator is protocol aware: without invalid kinds every stream is judged
InvGenValid == (phase = "feed" /\ BadKinds = {}) => J.judged

\* view for the exhaustive run: the history of cuts does not influence the future
ViewNoHist == <<phase, stream, ep, fedp, cons, nf, pc, frag, delivered, outs, gone, closeSent, thrown, stalled, lost, gopen, gkind, gend>>

\* the case a terminal state stands for (conformance step)
CaseOf == [prof |-> "stream", ep |-> ep, max |-> MaxMsg, fr |-> stream, segs |-> segs, judged |-> J.judged,
           pmsgs |-> [i \in 1..Len(delivered) |-> [k |-> delivered[i].k, n |-> delivered[i].n]],
           pouts |-> [i \in 1..Len(outs) |-> [op |-> outs[i].op, code |-> outs[i].code]],
           gone |-> gone, stalled |-> stalled, lost |-> lost, thrown |-> thrown]
InvEmit == (Emit /\ Final) => PrintT(ToJson(CaseOf))
==============================================================================
