\* exhaustive configuration of the quick tier (checks/C19.py generates the same with N = 5 for the thorough tier)
SPECIFICATION Spec
CONSTANTS
  N = 4
  Cuts = {0, 1}
  NameLimit = 254
  Dev_NoVisited = FALSE
  Dev_PtrBoundOffByOne = FALSE
INVARIANT Refines
INVARIANT Terminates
INVARIANT Emit
CHECK_DEADLOCK FALSE
