------------------------------ MODULE DnsRecords ------------------------------
(* C19, message decoding.  Generator specification: its terminal states are the conformance cases.            *)
(*                                                                                                            *)
(* A response is built record by record the way a compressing name server writes it: `avail` is the set of    *)
(* name suffixes that already have a literal occurrence in the message (the compressor's table), a name may   *)
(* be written with `lit` literal labels followed by one pointer iff the remaining suffix is in `avail`.       *)
(* AddRR enumerates record type x section x owner form x RDATA name form x value class; Finish picks the      *)
(* malformation ("exact" = well-formed; header count too large / too small; RDLENGTH 0 / too big / one short; *)
(* a self-pointing or out-of-range pointer in place of the owner name or of the first RDATA name).            *)
(* Query plans (kind = "query") are enumerated by Init directly; so is the depth family (kind = "chain"): one  *)
(* response per k in ChainDepths whose k owner names form a compression chain k pointers deep.                *)
(* The check renders every plan with the driver's own encoder and compressor, runs DnsMessage::parse on it    *)
(* (ASan+UBSan, exact-size buffer, every truncation, seeded byte mutations) and TLC judges the recorded        *)
(* results with DnsRecordsTrace.tla.  Invariants here: Realizable (every pointer of a plan has a target) and  *)
(* SectionsOrdered; Emit prints the cases.                                                                    *)
EXTENDS DnsRecordsOps, TLC, Json

CONSTANTS MaxRR,       \* 1 or 2 records per response (enumerated family)
          ChainDepths  \* depths k of the generated owner-name chains (family "chain")

VARIABLES kind,      \* "resp" | "chain" | "query"
          rrs, avail, mm,        \* response under construction; mm = "open" until Finish
          qplan                  \* the query plan (kind = "query")
vars == <<kind, rrs, avail, mm, qplan>>

InitialAvail == SuffixesFrom(NQ, 3)

OwnerForms == {<<NQ, 3>>, <<NQ, 0>>, <<NQ, 1>>, <<NZ, 0>>, <<NO, 2>>, <<NO, 0>>, <<NR, 0>>, <<NMAX, 4>>}
RdataForms == {<<NM, 3>>, <<NM, 1>>, <<NM, 0>>, <<NZ, 0>>, <<NO, 2>>, <<NO, 0>>, <<NO, 1>>, <<NR, 0>>, <<NMAX, 4>>}
SoaRnameForms == {<<NM, 3>>, <<NZ, 0>>, <<NM, 1>>}

\* RDATA variants of a record type: [nums, names, lits, strs, ttls]
OneName(nums, strs) == {[nums |-> nums, names |-> <<f[1]>>, lits |-> <<f[2]>>, strs |-> strs, ttls |-> {300}] : f \in RdataForms}
Values(ty) ==
    CASE ty = "A"     -> {[nums |-> <<>>, names |-> <<>>, lits |-> <<>>, strs |-> <<c>>,
                           ttls |-> IF c = 1 THEN {0, 300, 2147483647} ELSE {300}] : c \in {1, 2, 3}}
      [] ty = "AAAA"  -> {[nums |-> <<>>, names |-> <<>>, lits |-> <<>>, strs |-> <<c>>, ttls |-> {300}] : c \in {1, 2, 3}}
      [] ty = "TXT"   -> {[nums |-> <<>>, names |-> <<>>, lits |-> <<>>, strs |-> s, ttls |-> {300}] :
                              s \in {<<10>>, <<11, 12>>, <<13>>, <<14>>, <<0>>}}
      [] ty \in {"CNAME", "NS", "PTR"} -> OneName(<<>>, <<>>)
      [] ty = "MX"    -> OneName(<<10>>, <<>>)
      [] ty = "SRV"   -> OneName(<<1, 2, 5060>>, <<>>)
      [] ty = "NAPTR" -> OneName(<<100, 10>>, <<1, 2, 0>>) \cup OneName(<<100, 10>>, <<1, 2, 3>>)
      [] ty = "SOA"   -> {[nums |-> <<7, 3600, 600, 86400, 60>>, names |-> <<f[1], g[1]>>, lits |-> <<f[2], g[2]>>,
                           strs |-> <<>>, ttls |-> {300}] : f \in RdataForms, g \in SoaRnameForms}
Types == {"A", "AAAA", "CNAME", "NS", "PTR", "MX", "SRV", "SOA", "TXT", "NAPTR"}

\* thread the compressor's table through the names of one record (owner first, then RDATA names in wire order)
RECURSIVE NamesOk(_, _, _, _)
NamesOk(names, lits, i, av) ==
    IF i > Len(names) THEN TRUE
    ELSE CanWrite(names[i], lits[i], av) /\ NamesOk(names, lits, i + 1, av \cup SuffixesFrom(names[i], lits[i]))
RECURSIVE AvailAfter(_, _, _, _)
AvailAfter(names, lits, i, av) ==
    IF i > Len(names) THEN av ELSE AvailAfter(names, lits, i + 1, av \cup SuffixesFrom(names[i], lits[i]))
AllNames(r) == <<r.own>> \o r.names
AllLits(r) == <<r.olit>> \o r.lits

\* some pointer of r targets a suffix that is not in the question: it points into an earlier RECORD
UsesEarlierRecord(r) == \E i \in 1..Len(AllNames(r)) :
    LET n == AllNames(r)[i]  k == AllLits(r)[i] IN k < Len(n) /\ SubSeq(n, k + 1, Len(n)) \notin InitialAvail

LastSec == IF Len(rrs) = 0 THEN 1 ELSE rrs[Len(rrs)].sec

\* ---- depth family: what a compressing server emits for a deep subdomain tree.  Record i (an A record in the answer
\* section) is owned by  d<i>.d<i-1>. ... .d1.example.com  written as ONE literal label followed by a pointer to the
\* owner of record i-1, which is itself label + pointer, ... down to the question's example.com: decoding the owner of
\* record k follows k compression pointers.  A final CNAME record points with a bare pointer at the deepest owner
\* (k + 1 jumps, through the RDATA path).  All of it is well-formed: RFC 1035 bounds a name by 255 octets / 127 labels,
\* not by the number of pointers.
ChainOwner(i) == [j \in 1..i |-> 100 + i - j + 1] \o NZ
ChainRR(i) == [ty |-> "A", sec |-> 1, own |-> ChainOwner(i), olit |-> 1, ttl |-> 300, nums |-> <<>>, names |-> <<>>,
               lits |-> <<>>, strs |-> <<1>>]
ChainRRs(k) == [i \in 1..k |-> ChainRR(i)] \o
               <<[ty |-> "CNAME", sec |-> 1, own |-> NQ, olit |-> 0, ttl |-> 300, nums |-> <<>>,
                  names |-> <<ChainOwner(k)>>, lits |-> <<0>>, strs |-> <<>>]>>

Init == \/ /\ kind = "resp" /\ rrs = <<>> /\ avail = InitialAvail /\ mm = "open" /\ qplan = <<>>
        \/ /\ kind = "chain" /\ avail = {} /\ mm = "exact" /\ qplan = <<>>
           /\ \E k \in ChainDepths : rrs = ChainRRs(k)
        \/ /\ kind = "query" /\ rrs = <<>> /\ avail = {} /\ mm = "query"
           /\ \E first \in {[name |-> n, form |-> f, qt |-> t, qc |-> c] :
                                n \in {NQ, NZ, NR, NMAX}, f \in {"plain", "dot", "upper"}, t \in {1, 33, 255}, c \in {1, 3}},
                 rest \in {<<>>, <<[name |-> NM, form |-> "plain", qt |-> 28, qc |-> 1]>>,
                           <<[name |-> NQ, form |-> "upper", qt |-> 1, qc |-> 1]>>,
                           <<[name |-> NR, form |-> "plain", qt |-> 2, qc |-> 255]>>},
                 rd \in BOOLEAN, qid \in {0, 4660} :
                 qplan = [qs |-> <<first>> \o rest, rd |-> rd, qid |-> qid]

FirstOfTwoOk == IF Len(rrs) # 1 THEN TRUE ELSE rrs[1].sec = 1 /\ <<rrs[1].own, rrs[1].olit>> \in {<<NQ, 0>>, <<NO, 2>>}

AddRR(ty, sec, of, v, ttl) ==
    /\ kind = "resp" /\ mm = "open" /\ Len(rrs) < MaxRR
    /\ FirstOfTwoOk
    /\ sec >= LastSec
    /\ LET r == [ty |-> ty, sec |-> sec, own |-> of[1], olit |-> of[2], ttl |-> ttl, nums |-> v.nums,
                 names |-> v.names, lits |-> v.lits, strs |-> v.strs] IN
       /\ NamesOk(AllNames(r), AllLits(r), 1, avail)
       \* a second record is only interesting when it points into the first one; the first one then sits in the
       \* answer section with the two commonest owner forms (keeps the enumeration in the 10^4..10^5 range)
       /\ (Len(rrs) = 1 => UsesEarlierRecord(r) /\ of \in {<<NQ, 0>>, <<NO, 0>>, <<NO, 2>>})
       /\ rrs' = Append(rrs, r)
       /\ avail' = AvailAfter(AllNames(r), AllLits(r), 1, avail)
    /\ UNCHANGED <<kind, mm, qplan>>

Finish(m) ==
    /\ kind = "resp" /\ mm = "open" /\ Len(rrs) >= 1
    /\ (Len(rrs) = 2 => m = "exact")
    /\ (m \in {"rloop", "roor"} => Len(rrs[Len(rrs)].names) >= 1)
    /\ mm' = m
    /\ UNCHANGED <<kind, rrs, avail, qplan>>

Next == \/ \E ty \in Types, sec \in 1..3, of \in OwnerForms : \E v \in Values(ty) : \E ttl \in v.ttls :
             AddRR(ty, sec, of, v, ttl)
        \/ \E m \in {"exact"} \cup Malformations : Finish(m)
Spec == Init /\ [][Next]_vars

\* every pointer the plan asks for has an earlier literal occurrence to point at (checked again on the finished plan)
RECURSIVE PlanOk(_, _, _)
PlanOk(rs, i, av) == IF i > Len(rs) THEN TRUE
                     ELSE /\ NamesOk(AllNames(rs[i]), AllLits(rs[i]), 1, av)
                          /\ PlanOk(rs, i + 1, AvailAfter(AllNames(rs[i]), AllLits(rs[i]), 1, av))
Realizable == kind \in {"resp", "chain"} => PlanOk(rrs, 1, InitialAvail)
SectionsOrdered == \A i \in 1..Len(rrs) - 1 : rrs[i].sec <= rrs[i + 1].sec
Emit == CASE mm = "open" -> TRUE
          [] mm = "query" -> PrintT(ToJson([kind |-> "query", plan |-> qplan]))
          [] OTHER -> PrintT(ToJson([kind |-> "resp", plan |-> [q |-> NQ, qt |-> 1, rrs |-> rrs, mm |-> mm, fam |-> kind]]))
=============================================================================
