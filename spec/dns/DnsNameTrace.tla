------------------------------ MODULE DnsNameTrace ------------------------------
(* Abs oracle of C19 (name decoding) as a trace specification.  One event per layout run on the real decoder:  *)
(*   {"e":"Name","cut":c,"start":s,"cells":[...],"res":"ok"|"err"|"crash"|"hang","name":[[letter,len],...],"end":n} *)
(* `name` is the decoded name as the list of (letter id of the label = DnsNameOps.Lid(cell), label length) - the  *)
(* driver recovers it from the decoded labels; a label that is not one repeated letter is logged as [0, len].    *)
(* Enumerated layouts start at cell 1; the generated deep compression chains start at their last link.           *)
(* The event is accepted iff the result is one the Abs classification of the layout allows (DnsNameOps):         *)
(* exact name and end offset for well-formed layouts, an error for pointer loops and out-of-range pointers,      *)
(* never a crash (sanitizer report, signal) or a hang.                                                           *)
EXTENDS TraceBase, DnsNameOps

vars == <<l>>
Init == l = 1
\* The events are independent of each other, so a result the oracle does not allow does not stop the validation:
\* it is reported as <<"BAD", line>> and the check turns every BAD line into a violation (all of them in one pass).
Judge(ok) == IF ok THEN TRUE ELSE PrintT(<<"BAD", l>>)
\* "skipped": the driver gave up on the rest of a shard after several crashed / hung cases; not judged (the check
\* counts them and never reports a clean result while there are any)
EvName == /\ IsEv("Name")
          /\ IF Ev.res = "skipped" THEN PrintT(<<"SKIP", l>>)
             ELSE Judge(Allowed(AbsClass(Ev.cells, Ev.cut, Ev.start), Ev.res, Ev.name, Ev.end))
EvReset == IsEv("Reset")
Next == EvName \/ EvReset
Spec == Init /\ [][Next]_vars
=================================================================================
