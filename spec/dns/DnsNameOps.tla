------------------------------ MODULE DnsNameOps ------------------------------
(* Pure operators shared by DnsName.tla (generator / Impl) and DnsNameTrace.tla (Abs oracle).              *)
(*                                                                                                          *)
(* A *layout* is a sequence of cells; every cell renders to a fixed byte string, the buffer handed to the   *)
(* decoder is the concatenation of the cells with `cut` bytes chopped off its end (cut in {0,1}).            *)
(*   0        End      00                                                                                    *)
(*   1,2,3    Label    len (1, 2, 63) followed by len bytes (the letter of the cell: Lid(cell index) in a-z0-9A-Z)  *)
(*   4        Junk     40 + cell index   (a length octet with the reserved 01 prefix: "oversize label")       *)
(*   10 + k   Ptr      C0xx -> first byte of cell k (1 <= k <= 9)                                             *)
(*   20       PtrSize  C0xx -> offset = size of the (cut) buffer : the smallest out-of-range pointer          *)
(*   21       PtrFar   FFFF -> offset 16383                                                                   *)
(*   1000 + k Ptr      C0xx -> first byte of cell k (any k; used by the generated deep-chain layouts)                *)
(* Decoding starts at the first byte of cell `start` (1 for the enumerated layouts).                          *)
EXTENDS Integers, Sequences, FiniteSets

CE == 0
CJ == 4
IsPtr(c) == c >= 10
IsLabel(c) == c \in {1, 2, 3}
LabLen(c) == CASE c = 1 -> 1 [] c = 2 -> 2 [] c = 3 -> 63 [] OTHER -> 0
Sz(c) == IF IsPtr(c) THEN 2 ELSE IF IsLabel(c) THEN LabLen(c) + 1 ELSE 1
Codes(n) == {0, 1, 2, 3, 4, 20, 21} \cup {10 + k : k \in 1..n}
\* the letter a label cell is filled with, as an id (1 = 'a' ... 62 = 'Z' of a-z0-9A-Z): cell index modulo 62
Lid(k) == ((k - 1) % 62) + 1

\* Offs(cells)[k] = byte offset of cell k, Offs(cells)[Len + 1] = size of the whole buffer
\* (sum by halving: the recursion stays logarithmic also for the 254-cell chain layouts)
RECURSIVE SumSz(_, _, _)
SumSz(cells, a, b) == IF a > b THEN 0 ELSE IF a = b THEN Sz(cells[a])
                      ELSE LET m == (a + b) \div 2 IN SumSz(cells, a, m) + SumSz(cells, m + 1, b)
\* built strictly as a tuple (a lazily evaluated function [k \in .. |-> SumSz(..)] would be recomputed at every use)
RECURSIVE OffsRange(_, _, _, _)
OffsRange(cells, a, b, base) == IF a > b THEN <<>> ELSE IF a = b THEN <<base>>
                                ELSE LET m == (a + b) \div 2 IN
                                     OffsRange(cells, a, m, base) \o OffsRange(cells, m + 1, b, base + SumSz(cells, a, m))
Offs(cells) == OffsRange(cells, 1, Len(cells), 0) \o <<SumSz(cells, 1, Len(cells))>>
SizeO(offs, cut) == offs[Len(offs)] - cut
\* pointer codes: 10 + k (k <= 9) or 1000 + k : first byte of cell k; 20 : offset = size; 21 : offset 16383
TargetO(offs, cut, c) == IF c = 20 THEN SizeO(offs, cut) ELSE IF c = 21 THEN 16383
                         ELSE IF c >= 1000 THEN offs[c - 1000] ELSE offs[c - 10]
CellAtO(offs, off) == CHOOSE k \in 1..(Len(offs) - 1) : offs[k] = off        \* off is a cell start < full size

MaxWire == 255      \* RFC 1035: a name is at most 255 octets on the wire (length octets and root included)

(* ---- Abs: what the layout denotes.  The walk follows the RFC 1035 reading of the bytes.  The first anomaly *)
(* met in walk order decides the class:                                                                      *)
(*   loop   a compression pointer is followed a second time                -> MUST be reported as an error    *)
(*   range  a pointer whose target is >= size                              -> MUST be reported as an error    *)
(*   wf     terminator reached through backward pointers only, every label complete, name <= 255 octets       *)
(*                                                                         -> MUST decode to exactly `name`,  *)
(*                                                                            consuming exactly `end` bytes   *)
(*   fwd    as wf but some pointer points forward (no RFC 1035 compressor emits that): error, or exactly name *)
(*   mal    anything else (reserved label type, label or pointer cut by the end of the buffer, name that runs *)
(*          off the end without terminator, oversize name): the statement demands only termination without    *)
(*          reading outside the buffer, "ending in a decoded message or a reported error"                     *)
Mal == [c |-> "mal", name |-> <<>>, end |-> 0]
RECURSIVE Walk(_, _, _, _, _, _, _, _, _)
Walk(cells, offs, cut, off, followed, labels, total, fwd, end) ==
    LET size == SizeO(offs, cut) IN
    IF off >= size THEN Mal
    ELSE LET k == CellAtO(offs, off)
             c == cells[k] IN
         CASE c = CE -> IF total + 1 > MaxWire THEN Mal
                        ELSE [c |-> IF fwd THEN "fwd" ELSE "wf", name |-> labels, end |-> IF end < 0 THEN off + 1 ELSE end]
           [] c = CJ -> Mal
           [] IsLabel(c) -> IF off + 1 + LabLen(c) > size THEN Mal
                            ELSE Walk(cells, offs, cut, off + 1 + LabLen(c), followed, Append(labels, <<Lid(k), LabLen(c)>>),
                                      total + 1 + LabLen(c), fwd, end)
           [] OTHER -> \* pointer
                IF off + 2 > size THEN Mal
                ELSE LET t == TargetO(offs, cut, c) IN
                     IF t >= size THEN [c |-> "range", name |-> <<>>, end |-> 0]
                     ELSE IF k \in followed THEN [c |-> "loop", name |-> <<>>, end |-> 0]
                     ELSE Walk(cells, offs, cut, t, followed \cup {k}, labels, total, fwd \/ t >= off,
                               IF end < 0 THEN off + 2 ELSE end)
\* decoding starts at the first byte of cell `start`; the number of pointers followed is NOT a criterion: RFC 1035
\* bounds a name by 255 octets (at most 127 labels), so a well-formed name may need up to 126 jumps
AbsClass(cells, cut, start) == LET o == Offs(cells) IN Walk(cells, o, cut, o[start], {}, <<>>, 0, FALSE, -1)

\* res in {"ok", "err"}; anything else the driver may report ("crash", "hang") is never allowed
Allowed(cls, res, name, end) ==
    CASE cls.c \in {"loop", "range"} -> res = "err"
      [] cls.c = "wf"  -> res = "ok" /\ name = cls.name /\ end = cls.end
      [] cls.c = "fwd" -> res = "err" \/ (res = "ok" /\ name = cls.name /\ end = cls.end)
      [] OTHER         -> res \in {"ok", "err"}
===============================================================================
