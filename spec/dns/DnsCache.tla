------------------------------ MODULE DnsCache ------------------------------
(* C19, cache part.  Impl specification of iora::network::dns::DnsCache over util::ExpiringCache                *)
(* (include/iora/network/dns/dns_cache.hpp, include/iora/util/expiring_cache.hpp) with the property as an        *)
(* invariant, and generator of operation sequences (hist) for the conformance replay.                            *)
(*                                                                                                              *)
(* Time is counted in ticks of half a second (Tick = 2 ticks per second of TTL) so that a get can be placed       *)
(* strictly before, exactly at and after every expiry instant.  A question is <<name, case variant, type, class>>;*)
(* the key the code derives from it lower-cases the name: Key(q) drops the case variant.                         *)
(*   Put(q, ttls)      min over every TTL found in the result; none -> the default TTL; expiry = now + ttl       *)
(*   PutNeg(q, kind)   explicit TTL | min(SOA.MINIMUM, SOA ttl) | default when there is no SOA                    *)
(*   Get(q)            hit iff entry present and expiry > now, otherwise the stale entry is erased               *)
(*   Remove(q), Clear, Advance(d)                                                                               *)
(* Deviations (default FALSE):                                                                                  *)
(*   Dev_TtlZeroCachedForDefault  ExpiringCache::set treats a TTL of 0 as "use the default TTL" (F-19a)           *)
(*   Dev_CaseSensitiveKey, Dev_MaxTtl, Dev_HitAtExpiry   exist only so that the self-test can show that the       *)
(*                                invariant and the trace oracle notice these classes of defect                  *)
(* Ghost `truth` is the Abs map of Appendix A: key -> [val, dl] with dl = insert + smallest TTL (or negative TTL). *)
EXTENDS Integers, Sequences, FiniteSets, TLC, Json

CONSTANTS Questions,     \* set of <<name, case, type, class>>
          TtlLists,      \* set of sequences of TTLs in seconds (<<>>: a result without records)
          NegKinds,      \* set of <<"e", ttl, 0>> | <<"s", soaMinimum, soaTtl>> | <<"n", 0, 0>>
          Advances,      \* set of tick counts
          DefaultTtl,    \* seconds
          MaxOps,
          Dev_TtlZeroCachedForDefault, Dev_CaseSensitiveKey, Dev_MaxTtl, Dev_HitAtExpiry

Tick == 2
Inf == 1000000

VARIABLES entries,   \* Impl: key -> [val, exp]
          truth,     \* Abs ghost: key -> [val, dl]
          now, hist, hit
vars == <<entries, truth, now, hist, hit>>

Key(q) == IF Dev_CaseSensitiveKey THEN q ELSE <<q[1], 0, q[3], q[4]>>
AbsKey(q) == <<q[1], 0, q[3], q[4]>>
Keys == {Key(q) : q \in Questions} \cup {AbsKey(q) : q \in Questions}

MinOf(s) == CHOOSE x \in {s[i] : i \in 1..Len(s)} : \A j \in 1..Len(s) : x <= s[j]
MaxOf(s) == CHOOSE x \in {s[i] : i \in 1..Len(s)} : \A j \in 1..Len(s) : x >= s[j]
Min2(a, b) == IF a < b THEN a ELSE b

\* the TTL the property speaks of (seconds; Inf: the statement gives no bound for a result without records)
TrueTtl(ttls) == IF Len(ttls) = 0 THEN Inf ELSE MinOf(ttls)
TrueNegTtl(k) == CASE k[1] = "e" -> k[2] [] k[1] = "s" -> Min2(k[2], k[3]) [] OTHER -> DefaultTtl
\* the TTL the code computes
CodeTtl(ttls) == IF Len(ttls) = 0 THEN DefaultTtl ELSE IF Dev_MaxTtl THEN MaxOf(ttls) ELSE MinOf(ttls)

Drop(f, k) == [x \in DOMAIN f \ {k} |-> f[x]]
Store(f, k, v) == [x \in DOMAIN f \cup {k} |-> IF x = k THEN v ELSE f[x]]

Init == entries = <<>> /\ truth = <<>> /\ now = 0 /\ hist = <<>> /\ hit = FALSE

Go == Len(hist) < MaxOps
Val == Len(hist) + 1           \* every put stores a fresh value: the index of the operation

\* ExpiringCache::set: customTtl > 0 ? customTtl : default.  The repaired DnsCache does not store a TTL-0 answer
\* (and drops the entry it supersedes).
ImplStore(k, ttl) ==
    IF ttl = 0 /\ ~Dev_TtlZeroCachedForDefault THEN entries' = Drop(entries, k)
    ELSE entries' = Store(entries, k, [val |-> Val, exp |-> now + Tick * (IF ttl = 0 THEN DefaultTtl ELSE ttl)])

Put(q, ttls) ==
    /\ Go
    /\ ImplStore(Key(q), CodeTtl(ttls))
    /\ truth' = Store(truth, AbsKey(q), [val |-> Val, dl |-> now + Tick * TrueTtl(ttls)])
    /\ hist' = Append(hist, [op |-> "P", q |-> q, ttls |-> ttls, val |-> Val])
    /\ hit' = FALSE /\ UNCHANGED now
PutNeg(q, k) ==
    /\ Go
    /\ ImplStore(Key(q), TrueNegTtl(k))
    /\ truth' = Store(truth, AbsKey(q), [val |-> Val, dl |-> now + Tick * TrueNegTtl(k)])
    /\ hist' = Append(hist, [op |-> "N", q |-> q, kind |-> k, val |-> Val])
    /\ hit' = FALSE /\ UNCHANGED now
Live(k) == k \in DOMAIN entries /\ (IF Dev_HitAtExpiry THEN entries[k].exp >= now ELSE entries[k].exp > now)
GetHit(q) ==
    /\ Go /\ Live(Key(q))
    /\ hist' = Append(hist, [op |-> "G", q |-> q, hit |-> TRUE, val |-> entries[Key(q)].val])
    /\ hit' = TRUE /\ UNCHANGED <<entries, truth, now>>
GetMiss(q) ==
    /\ Go /\ ~Live(Key(q))
    /\ entries' = IF Key(q) \in DOMAIN entries THEN Drop(entries, Key(q)) ELSE entries    \* stale entry erased
    /\ hist' = Append(hist, [op |-> "G", q |-> q, hit |-> FALSE, val |-> 0])
    /\ hit' = FALSE /\ UNCHANGED <<truth, now>>
Remove(q) ==
    /\ Go
    /\ entries' = IF Key(q) \in DOMAIN entries THEN Drop(entries, Key(q)) ELSE entries
    /\ truth' = IF AbsKey(q) \in DOMAIN truth THEN Drop(truth, AbsKey(q)) ELSE truth
    /\ hist' = Append(hist, [op |-> "R", q |-> q])
    /\ hit' = FALSE /\ UNCHANGED now
Clear ==
    /\ Go /\ entries' = <<>> /\ truth' = <<>>
    /\ hist' = Append(hist, [op |-> "C"])
    /\ hit' = FALSE /\ UNCHANGED now
Advance(d) ==
    /\ Go /\ now' = now + d
    /\ hist' = Append(hist, [op |-> "A", d |-> d])
    /\ hit' = FALSE /\ UNCHANGED <<entries, truth>>

Next == \/ \E q \in Questions : \/ \E t \in TtlLists : Put(q, t)
                                \/ \E k \in NegKinds : PutNeg(q, k)
                                \/ GetHit(q) \/ GetMiss(q) \/ Remove(q)
        \/ Clear
        \/ \E d \in Advances : Advance(d)
Spec == Init /\ [][Next]_vars

\* ---- the property: a hit only for the same question, with the answer stored for it, strictly before its deadline
LastOp == hist[Len(hist)]
HitOk == hit => LET k == AbsKey(LastOp.q) IN
                /\ k \in DOMAIN truth
                /\ LastOp.val = truth[k].val
                /\ now < truth[k].dl
\* the model never serves later than the code's own expiry either (sanity of the Impl part)
ImplNeverLate == hit => now < entries[Key(LastOp.q)].exp \/ Dev_HitAtExpiry

\* state view of the exhaustive run: the history is a ghost (only its length and last operation matter)
View == <<entries, truth, now, Len(hist), hit, IF hist = <<>> THEN <<>> ELSE LastOp>>

\* generator: one line per complete operation sequence
Emit == Len(hist) < MaxOps \/ PrintT(ToJson(hist))
=============================================================================
