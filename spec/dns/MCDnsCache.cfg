\* exhaustive configuration of the quick tier (MaxOps = 5 in the thorough tier)
SPECIFICATION Spec
CONSTANTS
  Questions <- MCQuestions
  TtlLists <- MCTtlLists
  NegKinds <- MCNegKinds
  Advances <- MCAdvances
  DefaultTtl = 2
  MaxOps = 4
  Dev_TtlZeroCachedForDefault = FALSE
  Dev_CaseSensitiveKey = FALSE
  Dev_MaxTtl = FALSE
  Dev_HitAtExpiry = FALSE
INVARIANT HitOk
INVARIANT ImplNeverLate
VIEW View
CHECK_DEADLOCK FALSE
