------------------------------ MODULE DnsRecordsOps ------------------------------
(* Pure operators shared by DnsRecords.tla (generator) and DnsRecordsTrace.tla (Abs oracle).                  *)
(*                                                                                                            *)
(* Names are sequences of label ids (the driver owns the id -> text table), e.g. <<1,2,3>> = www.example.com.  *)
(* A response plan is  [q, qt, rrs, mm]  with rrs a sequence of records                                        *)
(*   [ty, sec, own, olit, ttl, nums, names, lits, strs]                                                        *)
(*     ty    "A" "AAAA" "CNAME" "NS" "PTR" "MX" "SRV" "SOA" "TXT" "NAPTR"                                       *)
(*     sec   1 answer, 2 authority, 3 additional (non-decreasing along rrs)                                    *)
(*     own   owner name; olit = number of leading labels written literally, the rest is ONE compression        *)
(*           pointer to the first earlier literal occurrence of that suffix (olit = Len(own): no compression)  *)
(*     names the domain names inside RDATA in wire order, lits their literal-label counts                      *)
(*     nums  the integers of RDATA in wire order;  strs  ids of addresses / character strings                  *)
(*     mm    "exact": well-formed;  otherwise one malformation applied to the LAST record / the header counts  *)
EXTENDS Integers, Sequences, FiniteSets

NQ == <<1, 2, 3>>          \* www.example.com   (always the question name)
NZ == <<2, 3>>             \* example.com
NM == <<4, 2, 3>>          \* mail.example.com
NO == <<6, 7>>             \* other.org
NR == <<>>                 \* the root
NMAX == <<10, 11, 12, 13>> \* 63.63.63.61 octets: 255 octets on the wire, the longest legal name

NameTypes == {"CNAME", "NS", "PTR", "MX", "SRV", "SOA", "NAPTR"}
TypedTypes == {"A", "AAAA", "CNAME", "PTR", "MX", "SRV", "SOA", "TXT", "NAPTR"}   \* NS: raw record only
Malformations == {"more", "less", "rdlen0", "rdbig", "rdshort", "rloop", "roor", "oloop", "ooor"}

SuffixesFrom(n, upto) == {SubSeq(n, i, Len(n)) : i \in 1..upto}
CanWrite(n, lit, avail) == lit = Len(n) \/ (lit < Len(n) /\ SubSeq(n, lit + 1, Len(n)) \in avail)

\* ---- Abs: what a plan denotes ---------------------------------------------------------------------------
ExpRaw(rrs) == [i \in 1..Len(rrs) |-> <<rrs[i].sec, rrs[i].ty, rrs[i].own, rrs[i].ttl>>]
TypedOf(r) == <<r.ty, r.own, r.ttl, r.nums, r.names, r.strs>>
ExpTyped(rrs, t) == LET S == SelectSeq(rrs, LAMBDA r : r.ty = t) IN [i \in 1..Len(S) |-> TypedOf(S[i])]
GotTyped(typed, t) == SelectSeq(typed, LAMBDA x : x[1] = t)

\* the address class the repository's A-record heuristic (validateRdataSecurity) mistakes for a compression
\* pointer: first octet >= 0xC0, second < 64, last two zero.  Known finding, see checks/C19.meta.json
PtrLikeA(r) == r.ty = "A" /\ r.strs = <<3>>

Exact(plan, ev) ==
    /\ ev.res = "ok"
    /\ ev.ques = << <<plan.q, plan.qt, 1>> >>
    /\ ev.raw = ExpRaw(plan.rrs)
    /\ \A t \in TypedTypes : GotTyped(ev.typed, t) = ExpTyped(plan.rrs, t)
    /\ \A i \in 1..Len(ev.typed) : ev.typed[i][1] \in TypedTypes

Last(plan) == plan.rrs[Len(plan.rrs)]
\* a looping / out-of-range pointer in an RDATA name: the parse fails, or (weaker reading, chosen) the message is
\* returned WITHOUT a typed record built from that name
RdataPtrRejected(plan, ev) ==
    \/ ev.res = "err"
    \/ /\ ev.res = "ok"
       /\ Len(GotTyped(ev.typed, Last(plan).ty)) < Len(ExpTyped(plan.rrs, Last(plan).ty))

AllowedRec(plan, ev) ==
    /\ ev.res \in {"ok", "err"}
    /\ CASE plan.mm = "exact" -> Exact(plan, ev)
         [] plan.mm \in {"oloop", "ooor"} -> ev.res = "err"
         [] plan.mm \in {"rloop", "roor"} /\ Last(plan).ty \in NameTypes \ {"NS"} -> RdataPtrRejected(plan, ev)
         [] OTHER -> TRUE

\* ---- queries --------------------------------------------------------------------------------------------
\* a query plan is [qs, rd, qid] with qs a sequence of [name, form, qt, qc]; form "plain" | "dot" | "upper"
ExpQues(qs) == [i \in 1..Len(qs) |-> <<qs[i].name, qs[i].qt, qs[i].qc>>]
AllowedQuery(plan, ev) ==
    \/ ev.res = "refused"        \* buildQuery threw: no query exists, nothing to decode (weaker reading)
    \/ /\ ev.res = "ok"
       /\ ev.ques = ExpQues(plan.qs)
       /\ ev.counts = <<Len(plan.qs), 0, 0, 0>>
       /\ ev.rd = plan.rd /\ ev.qr = FALSE
       /\ (plan.qid # 0 => ev.id = plan.qid)
==================================================================================
