------------------------------ MODULE DnsCacheTrace ------------------------------
(* Abs oracle of C19 (cache part) as a trace specification: the map of Appendix A.                              *)
(*   m[key] = [val, dl]   key = <<name, type, class>> (name compared without regard to letter case: the logged  *)
(*                        question is <<name id, case variant, type, class>> and the variant is dropped),        *)
(*                        val = the answer stored last for that question, dl = insert time + its TTL in ticks    *)
(* Events (one execution = one fresh DnsCache, virtual monotonic clock, half-second ticks):                      *)
(*   Begin{dflt}  Put{q, ttls, val}  PutNeg{q, kind, val}  Get{q, hit, val}  Remove{q}  Clear  Adv{d}  Reset      *)
(* The only judged event is Get: a HIT must be for a question that has an entry, return the answer stored for    *)
(* it, and happen strictly before dl (smallest record TTL; the explicit negative TTL; min(SOA.MINIMUM, SOA ttl); *)
(* the configured default when a negative answer carries no SOA; no bound for a positive answer without any      *)
(* record, about which the statement says nothing).  A miss is always allowed (a cache may forget).              *)
(* A Get the oracle does not allow is reported as <<"BAD", line>> (<<"DEV", "Dev_TtlZeroCachedForDefault", line>> *)
(* when exactly that named deviation explains it); validation continues (the state is unaffected).               *)
EXTENDS TraceBase, Integers

VARIABLES m, now, dflt
vars == <<l, m, now, dflt>>

Tick == 2
Inf == 1000000
Key(q) == <<q[1], q[3], q[4]>>
MinOf(s) == CHOOSE x \in {s[i] : i \in 1..Len(s)} : \A j \in 1..Len(s) : x <= s[j]
Min2(a, b) == IF a < b THEN a ELSE b
PosTtl(ttls) == IF Len(ttls) = 0 THEN Inf ELSE MinOf(ttls)
NegTtl(k) == CASE k[1] = "e" -> k[2] [] k[1] = "s" -> Min2(k[2], k[3]) [] OTHER -> dflt
Drop(f, k) == [x \in DOMAIN f \ {k} |-> f[x]]
Store(f, k, v) == [x \in DOMAIN f \cup {k} |-> IF x = k THEN v ELSE f[x]]

Init == l = 1 /\ m = <<>> /\ now = 0 /\ dflt = 0

EvBegin == IsEv("Begin") /\ m' = <<>> /\ now' = 0 /\ dflt' = Ev.dflt
EvReset == IsEv("Reset") /\ m' = <<>> /\ now' = 0 /\ dflt' = 0
Entry(val, ttl) == [val |-> val, dl |-> now + Tick * ttl, zero |-> ttl = 0, ins |-> now]
EvPut == /\ IsEv("Put")
         /\ m' = Store(m, Key(Ev.q), Entry(Ev.val, PosTtl(Ev.ttls)))
         /\ UNCHANGED <<now, dflt>>
EvPutNeg == /\ IsEv("PutNeg")
            /\ m' = Store(m, Key(Ev.q), Entry(Ev.val, NegTtl(Ev.kind)))
            /\ UNCHANGED <<now, dflt>>
HitAllowed(q, val) == LET k == Key(q) IN k \in DOMAIN m /\ m[k].val = val /\ now < m[k].dl
\* the named deviation F-19a: exactly "a TTL of 0 is stored with the default TTL" explains the forbidden hit
Dev_TtlZeroCachedForDefault(q, val) ==
    LET k == Key(q) IN k \in DOMAIN m /\ m[k].val = val /\ m[k].zero /\ now < m[k].ins + Tick * dflt
EvGet == /\ IsEv("Get")
         /\ IF Ev.hit /\ ~HitAllowed(Ev.q, Ev.val)
            THEN IF Dev_TtlZeroCachedForDefault(Ev.q, Ev.val) THEN PrintT(<<"DEV", "Dev_TtlZeroCachedForDefault", l>>)
                 ELSE PrintT(<<"BAD", l>>)
            ELSE TRUE
         /\ UNCHANGED <<m, now, dflt>>
EvRemove == IsEv("Remove") /\ m' = Drop(m, Key(Ev.q)) /\ UNCHANGED <<now, dflt>>
EvClear == IsEv("Clear") /\ m' = <<>> /\ UNCHANGED <<now, dflt>>
EvAdv == IsEv("Adv") /\ now' = now + Ev.d /\ UNCHANGED <<m, dflt>>
\* a crashed or hung execution is never acceptable
EvFail == /\ IsEv("CacheFail")
          /\ (IF Ev.what = "skipped" THEN PrintT(<<"SKIP", l>>) ELSE PrintT(<<"BAD", l>>))
          /\ UNCHANGED <<m, now, dflt>>

Next == EvBegin \/ EvReset \/ EvPut \/ EvPutNeg \/ EvGet \/ EvRemove \/ EvClear \/ EvAdv \/ EvFail
Spec == Init /\ [][Next]_vars
==================================================================================
