\* the depth family: one generated compression chain per depth (open and closed into a loop), both tiers
SPECIFICATION Spec
CONSTANTS
  Family = "chain"
  N = 0
  Cuts = {0}
  Depths = {1, 2, 9, 10, 11, 12, 63, 126}
  NameLimit = 254
  Dev_NoVisited = FALSE
  Dev_PtrBoundOffByOne = FALSE
  Dev_MaxPointerJumps = FALSE
INVARIANT Refines
INVARIANT Terminates
INVARIANT Emit
CHECK_DEADLOCK FALSE
