\* generator configuration (both tiers; the quick tier executes a seeded sample of the emitted plans)
SPECIFICATION Spec
CONSTANTS
  MaxRR = 2
  ChainDepths = {1, 2, 9, 10, 11, 12, 25, 40}
INVARIANT Realizable
INVARIANT SectionsOrdered
INVARIANT Emit
CHECK_DEADLOCK FALSE
