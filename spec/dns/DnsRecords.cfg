\* generator configuration (both tiers; the quick tier executes a seeded sample of the emitted plans)
SPECIFICATION Spec
CONSTANTS
  MaxRR = 2
INVARIANT Realizable
INVARIANT SectionsOrdered
INVARIANT Emit
CHECK_DEADLOCK FALSE
