------------------------------ MODULE DnsRecordsTrace ------------------------------
(* Abs oracle of C19 (message decoding) as a trace specification.  Events recorded by harness/drv_dns.cpp:      *)
(*   Rec   {plan, len, res, ques, raw, typed}   one response plan rendered and parsed by DnsMessage::parse       *)
(*   Trunc {len, r}     the same well-formed message cut at every length 0..len-1: r[i] = 1 decoded, 0 error     *)
(*   Mut   {n, ok, err} n seeded single-byte mutations of it                                                     *)
(*   Query {plan, res, id, rd, qr, counts, ques} DnsMessage::buildQuery output fed back into parse              *)
(*   E2E   {plan, res, exc, answers}  the rendered plan answered over UDP to a real DnsTransport::query           *)
(* res = "crash" (signal, sanitizer report: a read outside the exact-size buffer) or "hang" is never accepted.   *)
(* A well-formed plan must decode to exactly its question, its records per section (owner, type, TTL) and its    *)
(* typed records (every RDATA field, names expanded); DnsRecordsOps.AllowedRec has the rules for malformations. *)
(* Known deviation (accepted, reported through a DEV line so that the check classifies it): a well-formed        *)
(* response is rejected because an A record's address looks like a compression pointer (PtrLikeA).               *)
EXTENDS TraceBase, DnsRecordsOps

vars == <<l>>
Init == l = 1

\* The events are independent of each other, so a result the oracle does not allow does not stop the validation:
\* it is reported as <<"BAD", line>> (or <<"DEV", deviation, line>> when exactly a named deviation explains it) and
\* the check turns every BAD line into a violation and classifies every DEV line against known_findings.json.
Judge(ok) == IF ok THEN TRUE ELSE PrintT(<<"BAD", l>>)
Dev_ARdataLooksLikePointer(plan, ev) ==
    /\ plan.mm = "exact" /\ ev.res = "err"
    /\ \E i \in 1..Len(plan.rrs) : PtrLikeA(plan.rrs[i])
\* "skipped": the driver gave up on the rest of a shard after several crashed / hung cases; not judged
EvRec == /\ IsEv("Rec")
         /\ IF Ev.res = "skipped" THEN PrintT(<<"SKIP", l>>)
            ELSE IF AllowedRec(Ev.plan, Ev) THEN TRUE
            ELSE IF Dev_ARdataLooksLikePointer(Ev.plan, Ev) THEN PrintT(<<"DEV", "Dev_ARdataLooksLikePointer", l>>)
            ELSE PrintT(<<"BAD", l>>)
EvTrunc == IsEv("Trunc") /\ Judge(Len(Ev.r) = Ev.len /\ \A i \in 1..Len(Ev.r) : Ev.r[i] \in {0, 1})
EvMut == IsEv("Mut") /\ Judge(Ev.ok + Ev.err = Ev.n)
EvQuery == IsEv("Query") /\ (IF Ev.res = "skipped" THEN PrintT(<<"SKIP", l>>) ELSE Judge(AllowedQuery(Ev.plan, Ev)))
\* end to end: the plan was served over loopback UDP to a real DnsTransport::query, which returned ("ok", with `answers`
\* records in the answer section) or threw ("err"); a crash or a query that never completes ("hang") is never accepted
AllowedE2E(plan, ev) ==
    /\ ev.res \in {"ok", "err"}
    /\ (plan.mm = "exact" => ev.res = "ok" /\ ev.answers = Len(SelectSeq(plan.rrs, LAMBDA r : r.sec = 1)))
    /\ (plan.mm \in {"oloop", "ooor"} => ev.res = "err")
EvE2E == /\ IsEv("E2E")
         /\ IF Ev.res = "skipped" THEN PrintT(<<"SKIP", l>>)
            ELSE IF AllowedE2E(Ev.plan, Ev) THEN TRUE
            ELSE IF Dev_ARdataLooksLikePointer(Ev.plan, Ev) THEN PrintT(<<"DEV", "Dev_ARdataLooksLikePointer", l>>)
            ELSE PrintT(<<"BAD", l>>)
EvReset == IsEv("Reset")
Next == EvRec \/ EvTrunc \/ EvMut \/ EvQuery \/ EvE2E \/ EvReset
Spec == Init /\ [][Next]_vars
====================================================================================
