---- MODULE MCDnsCache ----
(* constants of the exhaustive DnsCache run (cfg files cannot hold tuples); checks/C19.py generates the same module *)
EXTENDS DnsCache
MCQuestions == {<<1, 1, 1, 1>>, <<1, 2, 1, 1>>, <<1, 1, 28, 1>>, <<1, 1, 1, 3>>, <<2, 1, 1, 1>>}
MCTtlLists == {<<0>>, <<1>>, <<2, 1>>, <<1, 2>>, <<>>}
MCNegKinds == {<<"e", 0, 0>>, <<"e", 1, 0>>, <<"s", 1, 2>>, <<"s", 2, 1>>, <<"n", 0, 0>>}
MCAdvances == {1, 2}
====
