------------------------------ MODULE DnsName ------------------------------
(* C19, name decoding.  Generator + Impl specification of DnsMessage::decodeNameWithLoopDetection          *)
(* (include/iora/network/dns/dns_message.hpp).                                                              *)
(*                                                                                                          *)
(* Two families of layouts (constant Family):                                                               *)
(*   "all"    Init enumerates EVERY layout of N cells (see DnsNameOps) and every cut; decoding starts at     *)
(*            cell 1.  Breadth: every combination of label / terminator / junk / pointer target.             *)
(*   "chain"  generated, one layout per k in Depths (x closed or not): the compression chain a server        *)
(*            produces for a deep subdomain tree,                                                            *)
(*               T0 = Label End,   Ti = Label Ptr(-> Ti-1)  for i = 1..k,   decoding starts at Tk,            *)
(*            so that k pointers are followed and the name has k + 1 one-octet labels (k = 126: 127 labels,  *)
(*            255 octets on the wire - the longest chain a legal name can need).  "closed": the terminator   *)
(*            of T0 is replaced by a pointer to Tk - a loop of k + 1 pointers, which must be an error.       *)
(*            Depth: the number of jumps is no criterion of well-formedness.                                 *)
(* The actions walk the layout one decision of the decoder at a time (bounds check before each read, visited *)
(* set of pointer targets, label and name limits).  A terminal state (res # "run") is one conformance case:  *)
(* the invariant Emit prints it together with the result the Impl model predicts; the check renders it to    *)
(* bytes, runs the real decoder (ASan+UBSan, exact-size buffers) and TLC validates the recorded results      *)
(* against DnsNameTrace.tla.                                                                                 *)
(* Invariants: Refines (the Impl result is one the Abs classification allows) and Terminates.                *)
(* Deviations (default FALSE) make the specification able to see the corresponding code defects:            *)
(*   Dev_NoVisited        the visited-pointer set is not consulted        -> walks for ever on a loop         *)
(*   Dev_PtrBoundOffByOne pointer > size instead of pointer >= size       -> pointer == size accepted         *)
(*   Dev_MaxPointerJumps  a "hardening" cap: error once more than JumpCap pointers were followed for one     *)
(*                        name -> rejects well-formed deep chains (family "chain", k > JumpCap)               *)
EXTENDS DnsNameOps, TLC, Json

CONSTANTS Family, N, Cuts, Depths, NameLimit, Dev_NoVisited, Dev_PtrBoundOffByOne, Dev_MaxPointerJumps

JumpCap == 10

VARIABLES cells, offs, cut, start, off, visited, labels, total, jumped, orig, steps, res
vars == <<cells, offs, cut, start, off, visited, labels, total, jumped, orig, steps, res>>

StepBound == Len(cells) * Len(cells) + 2 * Len(cells) + 2
size == SizeO(offs, cut)

\* T0 occupies cells 1, 2; Ti cells 2i + 1 (label), 2i + 2 (pointer to the label of Ti-1 = cell 2i - 1)
Chain(k, closed) == [j \in 1..(2 * k + 2) |->
                        IF j % 2 = 1 THEN 1
                        ELSE IF j = 2 THEN (IF closed THEN 1000 + 2 * k + 1 ELSE 0)
                        ELSE 1000 + j - 3]

Init == /\ \/ /\ Family = "all" /\ cells \in [1..N -> Codes(N)] /\ cut \in Cuts /\ start = 1
           \/ /\ Family = "chain" /\ cut = 0
              /\ \E k \in Depths, closed \in BOOLEAN : cells = Chain(k, closed) /\ start = 2 * k + 1
        /\ offs = Offs(cells)
        /\ off = offs[start]
        /\ visited = {} /\ labels = <<>> /\ total = 0 /\ jumped = FALSE /\ orig = 0 /\ steps = 0
        /\ res = "run"

Running == res = "run" /\ steps < StepBound
Cur == cells[CellAtO(offs, off)]
Keep == UNCHANGED <<cells, offs, cut, start>>
Finish(r) == /\ res' = r /\ steps' = steps + 1
             /\ UNCHANGED <<off, visited, labels, total, jumped, orig>> /\ Keep

\* while (offset < size) fails: the loop simply ends, the name read so far is returned (no terminator needed)
OffEnd == Running /\ off >= size /\ Finish("ok")

PtrOk == Running /\ off < size /\ IsPtr(Cur) /\ off + 2 <= size
PtrTruncated == Running /\ off < size /\ IsPtr(Cur) /\ off + 2 > size /\ Finish("err")          \* checkBounds(offset, 2)
PtrRange == /\ PtrOk
            /\ LET t == TargetO(offs, cut, Cur) IN IF Dev_PtrBoundOffByOne THEN t > size ELSE t >= size
            /\ Finish("err")
PtrLoop == /\ PtrOk
           /\ LET t == TargetO(offs, cut, Cur) IN t < size /\ t \in visited /\ ~Dev_NoVisited
           /\ Finish("err")
Followable == LET t == TargetO(offs, cut, Cur) IN
              /\ IF Dev_PtrBoundOffByOne THEN t <= size ELSE t < size
              /\ (t \notin visited \/ Dev_NoVisited)
\* the deviation: a cap on the number of pointers followed for one name
PtrCap == /\ PtrOk /\ Followable /\ Dev_MaxPointerJumps /\ Cardinality(visited) >= JumpCap
          /\ Finish("err")
PtrFollow == /\ PtrOk /\ Followable /\ ~(Dev_MaxPointerJumps /\ Cardinality(visited) >= JumpCap)
             /\ LET t == TargetO(offs, cut, Cur) IN visited' = visited \cup {t} /\ off' = t
             /\ jumped' = TRUE /\ orig' = IF jumped THEN orig ELSE off + 2
             /\ steps' = steps + 1
             /\ UNCHANGED <<labels, total, res>> /\ Keep
EndOfName == /\ Running /\ off < size /\ Cur = CE
             /\ off' = off + 1 /\ res' = "ok" /\ steps' = steps + 1
             /\ UNCHANGED <<visited, labels, total, jumped, orig>> /\ Keep
LabelTooLong == Running /\ off < size /\ Cur = CJ /\ Finish("err")
LabelTruncated == Running /\ off < size /\ IsLabel(Cur) /\ off + 1 + LabLen(Cur) > size /\ Finish("err")
Label == /\ Running /\ off < size /\ IsLabel(Cur) /\ off + 1 + LabLen(Cur) <= size
         /\ labels' = Append(labels, <<Lid(CellAtO(offs, off)), LabLen(Cur)>>)
         /\ off' = off + 1 + LabLen(Cur)
         /\ total' = total + 1 + LabLen(Cur)
         /\ res' = IF total + 1 + LabLen(Cur) > NameLimit THEN "err" ELSE "run"
         /\ steps' = steps + 1
         /\ UNCHANGED <<visited, jumped, orig>> /\ Keep
Hang == res = "run" /\ steps >= StepBound /\ res' = "hang"
        /\ UNCHANGED <<off, visited, labels, total, jumped, orig, steps>> /\ Keep

Next == OffEnd \/ PtrTruncated \/ PtrRange \/ PtrLoop \/ PtrCap \/ PtrFollow \/ EndOfName \/ LabelTooLong
        \/ LabelTruncated \/ Label \/ Hang
Spec == Init /\ [][Next]_vars

EndOff == IF jumped THEN orig ELSE off
Refines == res # "run" => Allowed(AbsClass(cells, cut, start), res, labels, EndOff)
Terminates == res # "hang"
\* one line per terminal state = one conformance case with the result the Impl model predicts and the Abs class
Emit == res = "run" \/ PrintT(ToJson([cut |-> cut, start |-> start, cells |-> cells, res |-> res, name |-> labels,
                                        end |-> EndOff, cls |-> AbsClass(cells, cut, start).c,
                                        jumps |-> Cardinality(visited)]))
=============================================================================
