------------------------------ MODULE DnsName ------------------------------
(* C19, name decoding.  Generator + Impl specification of DnsMessage::decodeNameWithLoopDetection          *)
(* (include/iora/network/dns/dns_message.hpp).                                                              *)
(*                                                                                                          *)
(* Init enumerates EVERY layout of N cells (see DnsNameOps) and every cut; the actions walk the layout one   *)
(* decision of the decoder at a time (bounds check before each read, visited set of pointer targets, label   *)
(* and name limits).  A terminal state (res # "run") is one conformance case: the invariant Emit prints it   *)
(* together with the result the Impl model predicts; the check renders it to bytes, runs the real decoder    *)
(* (ASan+UBSan, exact-size heap buffer) and TLC validates the recorded results against DnsNameTrace.tla.      *)
(* Invariants: Refines (the Impl result is one the Abs classification allows) and Terminates.                *)
(* Deviations (default FALSE) make the specification able to see the corresponding code defects:            *)
(*   Dev_NoVisited        the visited-pointer set is not consulted        -> walks for ever on a loop         *)
(*   Dev_PtrBoundOffByOne pointer > size instead of pointer >= size       -> pointer == size accepted         *)
EXTENDS DnsNameOps, TLC, Json

CONSTANTS N, Cuts, NameLimit, Dev_NoVisited, Dev_PtrBoundOffByOne

VARIABLES cells, cut, off, visited, labels, total, jumped, orig, steps, res
vars == <<cells, cut, off, visited, labels, total, jumped, orig, steps, res>>

StepBound == N * N + 2 * N + 2
size == Size(cells, cut)

Init == /\ cells \in [1..N -> Codes(N)]
        /\ cut \in Cuts
        /\ off = 0 /\ visited = {} /\ labels = <<>> /\ total = 0 /\ jumped = FALSE /\ orig = 0 /\ steps = 0
        /\ res = "run"

Running == res = "run" /\ steps < StepBound
Cur == cells[CellAt(cells, off)]
Finish(r) == /\ res' = r /\ steps' = steps + 1
             /\ UNCHANGED <<cells, cut, off, visited, labels, total, jumped, orig>>

\* while (offset < size) fails: the loop simply ends, the name read so far is returned (no terminator needed)
OffEnd == Running /\ off >= size /\ Finish("ok")

PtrTruncated == Running /\ off < size /\ IsPtr(Cur) /\ off + 2 > size /\ Finish("err")          \* checkBounds(offset, 2)
PtrRange == /\ Running /\ off < size /\ IsPtr(Cur) /\ off + 2 <= size
            /\ LET t == Target(cells, cut, Cur) IN IF Dev_PtrBoundOffByOne THEN t > size ELSE t >= size
            /\ Finish("err")
PtrLoop == /\ Running /\ off < size /\ IsPtr(Cur) /\ off + 2 <= size
           /\ LET t == Target(cells, cut, Cur) IN t < size /\ t \in visited /\ ~Dev_NoVisited
           /\ Finish("err")
PtrFollow == /\ Running /\ off < size /\ IsPtr(Cur) /\ off + 2 <= size
             /\ LET t == Target(cells, cut, Cur) IN
                /\ IF Dev_PtrBoundOffByOne THEN t <= size ELSE t < size
                /\ (t \notin visited \/ Dev_NoVisited)
                /\ visited' = visited \cup {t}
                /\ off' = t
             /\ jumped' = TRUE /\ orig' = IF jumped THEN orig ELSE off + 2
             /\ steps' = steps + 1
             /\ UNCHANGED <<cells, cut, labels, total, res>>
EndOfName == /\ Running /\ off < size /\ Cur = CE
             /\ off' = off + 1 /\ res' = "ok" /\ steps' = steps + 1
             /\ UNCHANGED <<cells, cut, visited, labels, total, jumped, orig>>
LabelTooLong == Running /\ off < size /\ Cur = CJ /\ Finish("err")
LabelTruncated == Running /\ off < size /\ IsLabel(Cur) /\ off + 1 + LabLen(Cur) > size /\ Finish("err")
Label == /\ Running /\ off < size /\ IsLabel(Cur) /\ off + 1 + LabLen(Cur) <= size
         /\ labels' = Append(labels, <<CellAt(cells, off), LabLen(Cur)>>)
         /\ off' = off + 1 + LabLen(Cur)
         /\ total' = total + 1 + LabLen(Cur)
         /\ res' = IF total + 1 + LabLen(Cur) > NameLimit THEN "err" ELSE "run"
         /\ steps' = steps + 1
         /\ UNCHANGED <<cells, cut, visited, jumped, orig>>
Hang == res = "run" /\ steps >= StepBound /\ res' = "hang" /\ UNCHANGED <<cells, cut, off, visited, labels, total, jumped, orig, steps>>

Next == OffEnd \/ PtrTruncated \/ PtrRange \/ PtrLoop \/ PtrFollow \/ EndOfName \/ LabelTooLong \/ LabelTruncated
        \/ Label \/ Hang
Spec == Init /\ [][Next]_vars

EndOff == IF jumped THEN orig ELSE off
Refines == res # "run" => Allowed(AbsClass(cells, cut), res, labels, EndOff)
Terminates == res # "hang"
\* one line per terminal state = one conformance case with the result the Impl model predicts and the Abs class
Emit == res = "run" \/ PrintT(ToJson([cut |-> cut, cells |-> cells, res |-> res, name |-> labels, end |-> EndOff,
                                        cls |-> AbsClass(cells, cut).c]))
=============================================================================
