CONSTANTS Cap = 2 NPush = 3 NPop = 3 Batch = 1
  PushTailAcq = TRUE PushHeadRel = TRUE PopHeadAcq = TRUE PopTailRel = TRUE PushPublishLast = TRUE PopPublishLast = TRUE
SPECIFICATION Spec
INVARIANT NoDataRace
INVARIANT FifoExactlyOnce
INVARIANT CapOk
INVARIANT IndexOk
CHECK_DEADLOCK FALSE
