SPECIFICATION Spec
INVARIANT TraceChk
INVARIANT CapInv
POSTCONDITION TracePost
CHECK_DEADLOCK FALSE
