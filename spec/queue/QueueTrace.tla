------------------------------ MODULE QueueTrace ------------------------------
(* Abs oracle of C10 (blocking queue) as a trace specification.                                            *)
(* State: the abstract FIFO `q`, its capacity, the closed flag, and per thread the call in flight.         *)
(* A call is two recorded events, Call and Ret; its effect (Lin) takes place at some instant in between -  *)
(* TLC searches for a linearization.  Everything the property demands is in the enabling conditions:       *)
(*   - an item is appended only while Len(q) < cap and the queue is open   (capacity, refuse after close)  *)
(*   - a take returns exactly Head(q)                                       (FIFO, exactly once, lossless) *)
(*   - a blocking take fails only on an empty closed queue; a put fails only when closed (or full for the  *)
(*     non-blocking / timed forms)                                                                         *)
(*   - End{outcome=stuck}: every thread left blocked must be blocked legitimately (its operation cannot    *)
(*     take effect in the final abstract state) - "no caller stays blocked while its condition holds"      *)
EXTENDS TraceBase, FiniteSets

VARIABLES cap, q, closed, pend
vars == <<l, cap, q, closed, pend>>

AllThreads == {Log[i].t : i \in {j \in 1..Len(Log) : "t" \in DOMAIN Log[j]}}
Idle == [st |-> "idle", op |-> "-", v |-> 0, vs |-> <<>>, ok |-> FALSE, rv |-> 0, rvs |-> <<>>]
Fresh == [t \in AllThreads |-> Idle]
MinOf(a, b) == IF a < b THEN a ELSE b

Init == l = 1 /\ cap = 0 /\ q = <<>> /\ closed = FALSE /\ pend = Fresh

EvBegin == IsEv("Begin") /\ cap' = Ev.cap /\ q' = <<>> /\ closed' = FALSE /\ pend' = Fresh
EvReset == IsEv("Reset") /\ cap' = 0 /\ q' = <<>> /\ closed' = FALSE /\ pend' = Fresh

EvCall == /\ IsEv("Call") /\ pend[Ev.t].st = "idle"
          /\ pend' = [pend EXCEPT ![Ev.t] = [st |-> "called", op |-> Ev.op, v |-> Ev.v, vs |-> Fld("vs", <<>>),
                                                ok |-> FALSE, rv |-> 0, rvs |-> <<>>]]
          /\ UNCHANGED <<cap, q, closed>>

Done(t, ok, rv) == pend' = [pend EXCEPT ![t] = [@ EXCEPT !.st = "lin", !.ok = ok, !.rv = rv]]
Push(t) == q' = Append(q, pend[t].v) /\ Done(t, TRUE, 0) /\ UNCHANGED closed
Pop(t) == q' = Tail(q) /\ Done(t, TRUE, Head(q)) /\ UNCHANGED closed
Fail(t) == Done(t, FALSE, 0) /\ UNCHANGED <<q, closed>>

\* the abstract effect of the call thread t has in flight
Lin(t) ==
    /\ pend[t].st = "called"
    /\ LET o == pend[t].op IN
       CASE o = "queue"      -> IF closed THEN Fail(t) ELSE Len(q) < cap /\ Push(t)
         [] o = "tryQueue"   -> IF closed \/ Len(q) >= cap THEN Fail(t) ELSE Push(t)
         [] o = "tryQueueT"  -> IF closed \/ Len(q) >= cap THEN Fail(t) ELSE Push(t)
         [] o = "dequeue"    -> IF q # <<>> THEN Pop(t) ELSE closed /\ Fail(t)
         [] o = "tryDequeue" -> IF q # <<>> THEN Pop(t) ELSE Fail(t)
         [] o = "dequeueT"   -> IF q # <<>> THEN Pop(t) ELSE Fail(t)
         [] o = "close"      -> closed' = TRUE /\ Done(t, TRUE, 0) /\ UNCHANGED q
         [] o = "size"       -> Done(t, TRUE, Len(q)) /\ UNCHANGED <<q, closed>>
         [] o = "peek"       -> IF q # <<>> THEN Done(t, TRUE, Head(q)) /\ UNCHANGED <<q, closed>> ELSE Fail(t)
         \* batch forms of the ring buffers: any prefix that fits / any available prefix, in order
         [] o = "pushBatch"  -> \E k \in 0..MinOf(Len(pend[t].vs), cap - Len(q)) :
                                   /\ q' = q \o SubSeq(pend[t].vs, 1, k) /\ Done(t, TRUE, k) /\ UNCHANGED closed
         [] o = "popBatch"   -> \E k \in 0..MinOf(pend[t].v, Len(q)) :
                                   /\ q' = SubSeq(q, k + 1, Len(q)) /\ UNCHANGED closed
                                   /\ pend' = [pend EXCEPT ![t] = [@ EXCEPT !.st = "lin", !.ok = TRUE, !.rv = k, !.rvs = SubSeq(q, 1, k)]]
         [] OTHER            -> FALSE
    /\ UNCHANGED <<l, cap>>

ReturnsValue(o) == o \in {"dequeue", "tryDequeue", "dequeueT", "size", "peek", "pushBatch", "popBatch"}
EvRet == /\ IsEv("Ret") /\ pend[Ev.t].st = "lin" /\ pend[Ev.t].op = Ev.op
         /\ pend[Ev.t].ok = Ev.ok
         /\ (Ev.ok /\ ReturnsValue(Ev.op)) => pend[Ev.t].rv = Ev.v
         /\ (Ev.op = "popBatch") => pend[Ev.t].rvs = Ev.vs
         /\ pend' = [pend EXCEPT ![Ev.t] = Idle]
         /\ UNCHANGED <<cap, q, closed>>

\* DynamicRingBuffer::resize (documented: requires quiescence, keeps the most recent items when shrinking and
\* returns the number dropped); linearized at its return, where the new capacity is known
EvRetResize == /\ IsEv("Ret") /\ Ev.op = "resize" /\ pend[Ev.t].st = "called" /\ pend[Ev.t].op = "resize"
               /\ Ev.cap >= pend[Ev.t].v /\ Ev.cap >= 1
               /\ LET dropped == IF Len(q) > Ev.cap THEN Len(q) - Ev.cap ELSE 0 IN
                  /\ Ev.v = dropped
                  /\ q' = SubSeq(q, dropped + 1, Len(q))
               /\ cap' = Ev.cap
               /\ pend' = [pend EXCEPT ![Ev.t] = Idle]
               /\ UNCHANGED closed

\* could the blocked call of t take effect now?  (then t has no business being blocked)
CanProceed(t) == LET o == pend[t].op IN
    CASE o = "queue"   -> closed \/ Len(q) < cap
      [] o = "dequeue" -> closed \/ q # <<>>
      [] OTHER         -> TRUE

EvEnd == /\ IsEv("End")
         /\ LET S == {Ev.stuck[i] : i \in 1..Len(Ev.stuck)} IN
            CASE Ev.outcome = "done"  -> \A t \in AllThreads : pend[t].st = "idle"
              [] Ev.outcome = "stuck" -> /\ \A t \in S : pend[t].st = "called" /\ ~CanProceed(t)
                                         /\ \A t \in AllThreads \ S : pend[t].st = "idle"
              [] OTHER -> TRUE       \* steplimit / external: inconclusive, counted by the check, not judged
         /\ UNCHANGED <<cap, q, closed, pend>>

Next == EvBegin \/ EvReset \/ EvCall \/ EvRet \/ EvRetResize \/ EvEnd \/ \E t \in AllThreads : Lin(t)
Spec == Init /\ [][Next]_vars

\* evaluated on every state of every recorded execution
CapInv == cap > 0 => Len(q) <= cap
===============================================================================
