------------------------------ MODULE SpscRing ------------------------------
(* Impl-level specification of iora::core::RingBuffer / DynamicRingBuffer (single producer, single        *)
(* consumer) over an explicit release/acquire fragment of the C++11 memory model.                          *)
(*                                                                                                          *)
(* Each atomic (head, tail) has a modification order: a sequence of writes, each carrying the vector clock  *)
(* the writer released with it (Zero for a relaxed store).  A load may return ANY write that is not older   *)
(* than the newest one the loading thread has already observed (stale reads are allowed); an acquire load   *)
(* joins the clock of the write it reads, a relaxed load does not.  The slot accesses are plain (non-atomic) *)
(* reads and writes: each is checked against the previous conflicting accesses for happens-before ordering; *)
(* an unordered pair is a data race (`race` becomes TRUE).                                                   *)
(*                                                                                                          *)
(* The four memory orders that matter are CONSTANTS.  The check extracts them from ring_buffer.hpp          *)
(* (tools/mo_extract.py: the weakest order used by any push-type / pop-type member function of either class) *)
(* so that a one-token change of a memory order in the source changes what TLC checks.                      *)
EXTENDS Naturals, Sequences, FiniteSets, TLC

CONSTANTS Cap,          \* slots (power of two in the code; any value here)
          NPush, NPop,  \* number of push / pop attempts that may succeed or fail
          Batch,        \* items per push / pop attempt (1 = tryPush/tryPop, >1 = tryPushBatch/tryPopBatch)
          PushTailAcq,  \* producer loads the consumer index with acquire
          PushHeadRel,  \* producer publishes its index with release
          PopHeadAcq,   \* consumer loads the producer index with acquire
          PopTailRel,   \* consumer publishes its index with release
          PushPublishLast, \* producer stores its index AFTER it has written the slots (textual order in the source)
          PopPublishLast   \* consumer stores its index AFTER it has moved the items out

T == {"P", "C"}
Max(a, b) == IF a > b THEN a ELSE b
Min(a, b) == IF a < b THEN a ELSE b
Join(v, w) == [t \in T |-> Max(v[t], w[t])]
Zero == [t \in T |-> 0]

VARIABLES hist,    \* hist[a] : modification order of atomic a \in {"head","tail"}: sequence of [val, vc]
          view,    \* view[t][a] : index into hist[a] of the newest write thread t has observed
          vc,      \* vector clock of each thread
          pc, reg, \* program counter / registers
          slot,    \* slot[s] = [val, w |-> epoch of the last plain write, rd |-> set of read epochs since]
          attempts,\* attempts made so far per thread
          pushed, popped, \* ghost: number of values accepted / sequence of values taken out
          race

vars == <<hist, view, vc, pc, reg, slot, attempts, pushed, popped, race>>

Init == /\ hist = [a \in {"head", "tail"} |-> << [val |-> 0, vc |-> Zero] >>]
        /\ view = [t \in T |-> [a \in {"head", "tail"} |-> 1]]
        /\ vc = [t \in T |-> Zero]
        /\ pc = [t \in T |-> "idle"]
        /\ reg = [t \in T |-> [own |-> 0, other |-> 0, n |-> 0, i |-> 0]]
        /\ slot = [s \in 0..(Cap-1) |-> [val |-> 0, w |-> [t |-> "P", c |-> 0], rd |-> {}]]
        /\ attempts = [t \in T |-> 0]
        /\ pushed = 0 /\ popped = <<>> /\ race = FALSE

Tick(t) == [vc EXCEPT ![t][t] = @ + 1]
HB(e, t) == e.c <= vc[t][e.t]       \* the access with epoch e happens-before thread t's current point

\* atomic load of `a` by t: any write at or after the newest one t has seen
LoadOther(t, a, acq, nextpc) == \E i \in view[t][a]..Len(hist[a]) :
      /\ view' = [view EXCEPT ![t][a] = i]
      /\ reg' = [reg EXCEPT ![t].other = hist[a][i].val]
      /\ vc' = IF acq THEN [vc EXCEPT ![t] = Join(@, hist[a][i].vc)] ELSE vc
      /\ pc' = [pc EXCEPT ![t] = nextpc]
      /\ UNCHANGED <<hist, slot, attempts, pushed, popped, race>>

Store(t, a, v, rel) == LET nvc == Tick(t) IN
      /\ hist' = [hist EXCEPT ![a] = Append(@, [val |-> v, vc |-> IF rel THEN nvc[t] ELSE Zero])]
      /\ view' = [view EXCEPT ![t][a] = Len(hist[a]) + 1]
      /\ vc' = nvc

\* ---- producer: tryPush / tryPushBatch ------------------------------------------------------------------
\* own index: the producer is the only writer of head, so its (relaxed) load returns its own latest store
PBegin == /\ pc["P"] = "idle" /\ attempts["P"] < NPush
          /\ attempts' = [attempts EXCEPT !["P"] = @ + 1]
          /\ reg' = [reg EXCEPT !["P"].own = hist["head"][Len(hist["head"])].val]
          /\ pc' = [pc EXCEPT !["P"] = "loadOther"]
          /\ UNCHANGED <<hist, view, vc, slot, pushed, popped, race>>
PLoad == pc["P"] = "loadOther" /\ LoadOther("P", "tail", PushTailAcq, "decide")
PDecide == /\ pc["P"] = "decide"
           /\ LET avail == Cap - (reg["P"].own - reg["P"].other)
                  n == Min(Batch, avail) IN
              /\ reg' = [reg EXCEPT !["P"].n = n, !["P"].i = 0]
              /\ pc' = [pc EXCEPT !["P"] = IF n = 0 THEN (IF Batch = 1 THEN "idle" ELSE "publish")
                                            ELSE IF PushPublishLast THEN "write" ELSE "publish"]
           /\ UNCHANGED <<hist, view, vc, slot, attempts, pushed, popped, race>>
PWrite == /\ pc["P"] = "write"
          /\ LET s == (reg["P"].own + reg["P"].i) % Cap
                 nvc == Tick("P") IN
             /\ race' = (race \/ ~HB(slot[s].w, "P") \/ \E e \in slot[s].rd : ~HB(e, "P"))
             /\ slot' = [slot EXCEPT ![s] = [val |-> pushed + 1, w |-> [t |-> "P", c |-> nvc["P"]["P"]], rd |-> {}]]
             /\ vc' = nvc
             /\ pushed' = pushed + 1
             /\ reg' = [reg EXCEPT !["P"].i = @ + 1]
             /\ pc' = [pc EXCEPT !["P"] = IF reg["P"].i + 1 = reg["P"].n THEN (IF PushPublishLast THEN "publish" ELSE "idle") ELSE "write"]
          /\ UNCHANGED <<hist, view, attempts, popped>>
PPublish == /\ pc["P"] = "publish"
            /\ Store("P", "head", reg["P"].own + reg["P"].n, PushHeadRel)
            /\ pc' = [pc EXCEPT !["P"] = IF PushPublishLast \/ reg["P"].n = 0 THEN "idle" ELSE "write"]
            /\ UNCHANGED <<reg, slot, attempts, pushed, popped, race>>

\* ---- consumer: tryPop / tryPopBatch --------------------------------------------------------------------
CBegin == /\ pc["C"] = "idle" /\ attempts["C"] < NPop
          /\ attempts' = [attempts EXCEPT !["C"] = @ + 1]
          /\ reg' = [reg EXCEPT !["C"].own = hist["tail"][Len(hist["tail"])].val]
          /\ pc' = [pc EXCEPT !["C"] = "loadOther"]
          /\ UNCHANGED <<hist, view, vc, slot, pushed, popped, race>>
CLoad == pc["C"] = "loadOther" /\ LoadOther("C", "head", PopHeadAcq, "decide")
CDecide == /\ pc["C"] = "decide"
           /\ LET avail == IF reg["C"].other > reg["C"].own THEN reg["C"].other - reg["C"].own ELSE 0
                  n == Min(Batch, avail) IN
              /\ reg' = [reg EXCEPT !["C"].n = n, !["C"].i = 0]
              /\ pc' = [pc EXCEPT !["C"] = IF n = 0 THEN (IF Batch = 1 THEN "idle" ELSE "publish")
                                            ELSE IF PopPublishLast THEN "read" ELSE "publish"]
           /\ UNCHANGED <<hist, view, vc, slot, attempts, pushed, popped, race>>
CRead == /\ pc["C"] = "read"
         /\ LET s == (reg["C"].own + reg["C"].i) % Cap
                nvc == Tick("C") IN
            \* `out = std::move(slot)` reads (and for non-trivial T writes) the slot: treated as a conflicting access
            /\ race' = (race \/ ~HB(slot[s].w, "C"))
            /\ slot' = [slot EXCEPT ![s].rd = @ \cup {[t |-> "C", c |-> nvc["C"]["C"]]}]
            /\ vc' = nvc
            /\ popped' = Append(popped, slot[s].val)
            /\ reg' = [reg EXCEPT !["C"].i = @ + 1]
            /\ pc' = [pc EXCEPT !["C"] = IF reg["C"].i + 1 = reg["C"].n THEN (IF PopPublishLast THEN "publish" ELSE "idle") ELSE "read"]
         /\ UNCHANGED <<hist, view, attempts, pushed>>
CPublish == /\ pc["C"] = "publish"
            /\ Store("C", "tail", reg["C"].own + reg["C"].n, PopTailRel)
            /\ pc' = [pc EXCEPT !["C"] = IF PopPublishLast \/ reg["C"].n = 0 THEN "idle" ELSE "read"]
            /\ UNCHANGED <<reg, slot, attempts, pushed, popped, race>>

Next == PBegin \/ PLoad \/ PDecide \/ PWrite \/ PPublish \/ CBegin \/ CLoad \/ CDecide \/ CRead \/ CPublish
Spec == Init /\ [][Next]_vars

\* ---- properties ----------------------------------------------------------------------------------------
NoDataRace == ~race
\* FIFO, exactly once, lossless: the k-th value taken out is the k-th value accepted
FifoExactlyOnce == \A k \in 1..Len(popped) : popped[k] = k
\* capacity: never more accepted-and-not-yet-taken values than slots (counting a value as taken once read)
CapOk == pushed - Len(popped) <= Cap
\* published indices never run past each other
IndexOk == LET h == hist["head"][Len(hist["head"])].val
               tl == hist["tail"][Len(hist["tail"])].val IN tl <= h /\ h - tl <= Cap
=============================================================================
