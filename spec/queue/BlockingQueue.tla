------------------------------ MODULE BlockingQueue ------------------------------
(* Impl-level specification of iora::core::BlockingQueue (include/iora/core/blocking_queue.hpp).        *)
(*                                                                                                        *)
(* Grain: one action = "thread t performs the synchronisation operation it is parked at and runs up to   *)
(* its next synchronisation operation".  The synchronisation operations are exactly the calls the        *)
(* conformance scheduler (harness/vf/sched.cpp) interposes: mutex lock/unlock, condition wait, signal,   *)
(* broadcast, plus the explicit schedule point the driver places in front of every API call.  A TLC      *)
(* behaviour is therefore a list of thread names (with "!" for a timed wait that times out) that the      *)
(* scheduler can replay on the real object step by step.                                                  *)
(*                                                                                                        *)
(* Condition variables: a waiter releases the mutex and parks in ONE step (that is what pthread          *)
(* guarantees); notify_one leaves a token that any thread parked on that variable *at that moment* may    *)
(* consume (late choice - equivalent to choosing the woken thread at notify time because a woken thread   *)
(* does nothing observable before it re-acquires the mutex); notify_all marks all current waiters.        *)
(* A predicate wait is `while (!pred()) wait(lock)`, so the predicate is evaluated in the step that       *)
(* acquired the mutex and the wait itself is a later step: a state change made WITHOUT the mutex can slip *)
(* in between - the lost wake-up of close() (CloseTakesMutex = FALSE is the code before the fix).         *)
EXTENDS Naturals, Sequences, FiniteSets, TLC

CONSTANTS Cap,              \* capacity
          Threads,          \* set of thread names
          Prog,             \* Prog[t] : sequence of [op |-> ..., v |-> ...]
          CloseTakesMutex   \* TRUE: close() sets the flag under the mutex (the repaired code)

\* op in {"queue", "tryQueue", "tryQueueT", "dequeue", "tryDequeue", "dequeueT", "close", "size"}
Free == "free"
NoCv == "-"

VARIABLES q,        \* the deque
          closed,
          mutex,    \* Free or owner
          pc,       \* pending synchronisation operation of each thread
          ip,       \* index of the current API call in Prog[t]
          res,      \* result of the current call once decided: "none" | "ok" | "fail"
          parked,   \* parked[t] \in {NoCv, "NE", "NF"}
          notified, \* threads marked by a notify_all
          tokens,   \* sequence of [cv, el]: pending notify_one tokens
          inq, out  \* ghost: values in acceptance order / values in removal order

vars == <<q, closed, mutex, pc, ip, res, parked, notified, tokens, inq, out>>

Op(t) == Prog[t][ip[t]]
IsEnq(o) == o \in {"queue", "tryQueue", "tryQueueT"}
IsDeq(o) == o \in {"dequeue", "tryDequeue", "dequeueT"}
Blocking(o) == o \in {"queue", "dequeue"}
Timed(o) == o \in {"tryQueueT", "dequeueT"}
CvOf(o) == IF IsEnq(o) THEN "NF" ELSE "NE"

Init == /\ q = <<>> /\ closed = FALSE /\ mutex = Free
        /\ pc = [t \in Threads |-> IF Len(Prog[t]) = 0 THEN "done" ELSE "call"]
        /\ ip = [t \in Threads |-> 1]
        /\ res = [t \in Threads |-> "none"]
        /\ parked = [t \in Threads |-> NoCv]
        /\ notified = {} /\ tokens = <<>>
        /\ inq = <<>> /\ out = <<>>

\* ---- helpers -----------------------------------------------------------------------------------------
Return(t) == \* the call returns: move to the next API call (its schedule point) or finish
    /\ ip' = [ip EXCEPT ![t] = @ + 1]
    /\ pc' = [pc EXCEPT ![t] = IF ip[t] + 1 > Len(Prog[t]) THEN "done" ELSE "call"]
    /\ res' = [res EXCEPT ![t] = "none"]

DropFromTokens(t, tk) == \* t leaves every eligible set; empty tokens vanish
    SelectSeq([i \in 1..Len(tk) |-> [cv |-> tk[i].cv, el |-> tk[i].el \ {t}]], LAMBDA k : k.el # {})

FirstTokenIdx(t) == CHOOSE i \in 1..Len(tokens) :
                       /\ t \in tokens[i].el
                       /\ \A j \in 1..(i-1) : t \notin tokens[j].el
HasToken(t) == \E i \in 1..Len(tokens) : t \in tokens[i].el
RemoveAt(s, i) == SubSeq(s, 1, i-1) \o SubSeq(s, i+1, Len(s))

\* The code that runs right after thread t acquired the mutex inside an enqueue/dequeue-type call.
\* timedOut: the wait_for ended by timeout, so the predicate's value is returned without waiting again.
AfterAcquire(t, timedOut) ==
    LET o == Op(t).op IN
    IF IsEnq(o) THEN
        LET predTrue == Len(q) < Cap \/ closed IN
        IF o = "tryQueue" THEN
            IF closed \/ Len(q) >= Cap
            THEN /\ res' = [res EXCEPT ![t] = "fail"] /\ pc' = [pc EXCEPT ![t] = "unlock"] /\ UNCHANGED <<q, inq, out>>
            ELSE /\ q' = Append(q, Op(t).v) /\ inq' = Append(inq, Op(t).v) /\ UNCHANGED out
                 /\ res' = [res EXCEPT ![t] = "ok"] /\ pc' = [pc EXCEPT ![t] = "unlock"]
        ELSE IF predTrue THEN
            IF closed
            THEN /\ res' = [res EXCEPT ![t] = "fail"] /\ pc' = [pc EXCEPT ![t] = "unlock"] /\ UNCHANGED <<q, inq, out>>
            ELSE /\ q' = Append(q, Op(t).v) /\ inq' = Append(inq, Op(t).v) /\ UNCHANGED out
                 /\ res' = [res EXCEPT ![t] = "ok"] /\ pc' = [pc EXCEPT ![t] = "unlock"]
        ELSE IF timedOut
            THEN /\ res' = [res EXCEPT ![t] = "fail"] /\ pc' = [pc EXCEPT ![t] = "unlock"] /\ UNCHANGED <<q, inq, out>>
            ELSE /\ pc' = [pc EXCEPT ![t] = "cvwait"] /\ UNCHANGED <<q, inq, out, res>>
    ELSE \* dequeue family
        LET predTrue == q # <<>> \/ closed IN
        IF o = "tryDequeue" \/ predTrue \/ timedOut THEN
            IF q = <<>>
            THEN /\ res' = [res EXCEPT ![t] = "fail"] /\ pc' = [pc EXCEPT ![t] = "unlock"] /\ UNCHANGED <<q, inq, out>>
            ELSE /\ q' = Tail(q) /\ out' = Append(out, Head(q)) /\ UNCHANGED inq
                 /\ res' = [res EXCEPT ![t] = "ok"] /\ pc' = [pc EXCEPT ![t] = "unlock"]
        ELSE /\ pc' = [pc EXCEPT ![t] = "cvwait"] /\ UNCHANGED <<q, inq, out, res>>

\* ---- actions -----------------------------------------------------------------------------------------
\* the driver's schedule point in front of the API call; close() without the mutex sets the flag right here
Call(t) ==
    /\ pc[t] = "call"
    /\ IF Op(t).op = "close" /\ ~CloseTakesMutex
       THEN IF closed
            THEN Return(t) /\ UNCHANGED closed                      \* already closed: returns at once
            ELSE closed' = TRUE /\ pc' = [pc EXCEPT ![t] = "bcastNE"] /\ UNCHANGED <<ip, res>>
       ELSE pc' = [pc EXCEPT ![t] = "lock"] /\ UNCHANGED <<closed, ip, res>>
    /\ UNCHANGED <<q, mutex, parked, notified, tokens, inq, out>>

Lock(t) ==
    /\ pc[t] = "lock" /\ mutex = Free
    /\ mutex' = t
    /\ LET o == Op(t).op IN
       IF o = "close" THEN       \* CloseTakesMutex: exchange under the mutex
            /\ IF closed THEN res' = [res EXCEPT ![t] = "fail"] /\ UNCHANGED closed
                         ELSE res' = [res EXCEPT ![t] = "ok"] /\ closed' = TRUE
            /\ pc' = [pc EXCEPT ![t] = "unlock"] /\ UNCHANGED <<q, inq, out>>
       ELSE IF o = "size" THEN
            /\ res' = [res EXCEPT ![t] = "fail"] /\ pc' = [pc EXCEPT ![t] = "unlock"] /\ UNCHANGED <<q, inq, out, closed>>
       ELSE AfterAcquire(t, FALSE) /\ UNCHANGED closed
    /\ UNCHANGED <<ip, parked, notified, tokens>>

CvWait(t) ==
    /\ pc[t] = "cvwait" /\ mutex = t
    /\ mutex' = Free
    /\ parked' = [parked EXCEPT ![t] = CvOf(Op(t).op)]
    /\ pc' = [pc EXCEPT ![t] = "parked"]
    /\ UNCHANGED <<q, closed, ip, res, notified, tokens, inq, out>>

Wake(t) ==
    /\ pc[t] = "parked" /\ mutex = Free
    /\ (t \in notified \/ HasToken(t))
    /\ mutex' = t
    /\ parked' = [parked EXCEPT ![t] = NoCv]
    /\ IF t \in notified
       THEN notified' = notified \ {t} /\ tokens' = DropFromTokens(t, tokens)
       ELSE notified' = notified /\ tokens' = DropFromTokens(t, RemoveAt(tokens, FirstTokenIdx(t)))
    /\ \/ AfterAcquire(t, FALSE)
       \/ Timed(Op(t).op) /\ AfterAcquire(t, TRUE)     \* the deadline may have passed meanwhile
    /\ UNCHANGED <<closed, ip>>

Timeout(t) ==
    /\ pc[t] = "parked" /\ mutex = Free /\ Timed(Op(t).op)
    /\ mutex' = t
    /\ parked' = [parked EXCEPT ![t] = NoCv]
    /\ notified' = notified \ {t} /\ tokens' = DropFromTokens(t, tokens)
    /\ AfterAcquire(t, TRUE)
    /\ UNCHANGED <<closed, ip>>

Unlock(t) ==
    /\ pc[t] = "unlock" /\ mutex = t
    /\ mutex' = Free
    /\ LET o == Op(t).op IN
       IF res[t] = "ok"
       THEN pc' = [pc EXCEPT ![t] = IF o = "close" THEN "bcastNE" ELSE "signal"] /\ UNCHANGED <<ip, res>>
       ELSE Return(t)
    /\ UNCHANGED <<q, closed, parked, notified, tokens, inq, out>>

Signal(t) == \* notify_one on the opposite condition
    /\ pc[t] = "signal"
    /\ LET cv == IF IsEnq(Op(t).op) THEN "NE" ELSE "NF"
           el == {u \in Threads : parked[u] = cv /\ u \notin notified}
       IN tokens' = IF el = {} THEN tokens ELSE Append(tokens, [cv |-> cv, el |-> el])
    /\ Return(t)
    /\ UNCHANGED <<q, closed, mutex, parked, notified, inq, out>>

BcastNE(t) ==
    /\ pc[t] = "bcastNE"
    /\ notified' = notified \cup {u \in Threads : parked[u] = "NE"}
    /\ pc' = [pc EXCEPT ![t] = "bcastNF"]
    /\ UNCHANGED <<q, closed, mutex, ip, res, parked, tokens, inq, out>>

BcastNF(t) ==
    /\ pc[t] = "bcastNF"
    /\ notified' = notified \cup {u \in Threads : parked[u] = "NF"}
    /\ Return(t)
    /\ UNCHANGED <<q, closed, mutex, parked, tokens, inq, out>>

Next == \E t \in Threads :
          Call(t) \/ Lock(t) \/ CvWait(t) \/ Wake(t) \/ Timeout(t) \/ Unlock(t) \/ Signal(t) \/ BcastNE(t) \/ BcastNF(t)

Spec == Init /\ [][Next]_vars

\* ---- properties --------------------------------------------------------------------------------------
CapOk == Len(q) <= Cap
\* lossless, exactly once, FIFO in acceptance order: what came out, followed by what is still inside, is what went in
Fifo == out \o q = inq
\* no caller stays blocked while its condition holds: in a state where nothing can move, whoever is still
\* parked is parked legitimately (queue full / empty and not closed)
LegitBlocked(t) == /\ pc[t] = "parked" /\ ~closed
                   /\ IF IsEnq(Op(t).op) THEN Len(q) >= Cap ELSE q = <<>>
NoStuck == (~ENABLED Next) => \A t \in Threads : pc[t] = "done" \/ LegitBlocked(t)
\* after a close has returned nobody may remain parked once the system is quiescent
ClosedWakesAll == (~ENABLED Next /\ closed) => \A t \in Threads : pc[t] = "done"
==================================================================================
