------------------------------- MODULE KvMap -------------------------------
(* C12 - Impl specification of iora::storage::KVStore as a map with expiry (storage/kvstore.hpp +           *)
(* core/timing_wheel.hpp), checked against the Abs reference map of KvAbs.tla as a refinement INVARIANT.     *)
(*                                                                                                          *)
(* Impl state (one action per API call - each runs under the store mutex - and per background step):        *)
(*   kv, expiry[k] = [exp, tid]     _kv and _expiry (exp = Inf: no entry); tid = generation of the armed timer *)
(*   cache[k] = [val, exp]          bounded read cache carrying the absolute expiry; when full the code erases *)
(*                                  "the first" entry of an unordered_map: any victim                          *)
(*   timers, queue                  wheel timers [tid, k] that are armed / have fired and wait for the single  *)
(*                                  eviction worker.  A timer may fire at ANY time (the wheel clamps long       *)
(*                                  delays and may fire early; the store must tolerate it)                     *)
(*   snap, dlog                     persisted image: snapshot map + log records S/E/X/D with ABSOLUTE expiries *)
(*   now                            wall clock; TimePasses(d) of any size, also while the store is closed      *)
(*   Fire, WorkerStale / WorkerReArm / WorkerEvict    the eviction path (generation-guarded)                   *)
(*   Compact (drops expired), Close, Reopen (replay; drops expired; arms survivors)                            *)
(* Abs state: m (KvAbs), updated by AbsEff with the same operation.                                            *)
(*                                                                                                          *)
(* Refinement (Inv_Reads): in every reachable state with the store open, for every key and every read path - *)
(* get through the cache fast path, get / exists / getBatch / keys / keysWithPrefix through _kv + _expiry,     *)
(* size(), ttl() - the Impl answer equals the Abs answer at `now`.                                             *)
(*                                                                                                          *)
(* Deviations (default FALSE = the repaired code):                                                          *)
(*   Dev_ExpiredKeyResurrected  F-12a: persist()/expireAt() test only _kv.find(key); on a key whose expiry has*)
(*                              passed but which the worker has not evicted yet they succeed: the key REAPPEARS*)
(*   Dev_ReplayDropsPerRecord   F-12b: load() compares each snapshot entry / 'E' / 'X' record with the clock    *)
(*                              AT LOAD TIME while replaying: a key whose first expiry has passed by the time  *)
(*                              of the restart is dropped although a later expireAt/persist had extended it     *)
(*                              (the 'X' record is then an orphan and is ignored): a live key is lost.          *)
(*   Dev_SnapshotDropsExpired   (seeded-change class, the snapshot half of F-12b alone): load() materialises a  *)
(*                              snapshot entry only if its expiry is later than the clock at load time; a key    *)
(*                              compacted with a TTL and extended / made permanent AFTER the compaction ('X' in  *)
(*                              the journal) is lost once the ORIGINAL deadline has passed by the restart.       *)
(*   Dev_PrefixStopsAtNul       (seeded-change class): keysWithPrefix() - and removeWithPrefix() built on it -    *)
(*                              compares C strings (strncmp): the comparison stops at an embedded NUL byte, keys  *)
(*                              that agree with the prefix up to the NUL match, also keys SHORTER than the prefix.*)
(*   Dev_CacheFillOutsideLock   (seeded-change class, not in the code): get() on a cache miss copies the value *)
(*                              under _mutex, RELEASES it, and only then fills the cache.  The code today does   *)
(*                              copy + fill under one _mutex hold, so Get(k) is ONE action; with the flag it is  *)
(*                              two (GetRead, GetFill) with the reader's private copy in `pendFill` (at most     *)
(*                              NReaders reader processes in that window).  Any writer action or worker step on  *)
(*                              the same key may run in between; the late fill re-installs the OLD value+expiry  *)
(*                              and every later get() is served from the cache fast path.                         *)
(*   Dev_EvictJournalOutsideLock (seeded-change class, not in the code): the eviction callback erases the expired*)
(*                              key from memory under _mutex, RELEASES it, and journals the 'D' tombstone        *)
(*                              afterwards.  WorkerEvict is then two actions (WorkerEvictErase, WorkerJournal with*)
(*                              the key in `pendD`); a writer that re-creates the key in between gets its 'S'/'E' *)
(*                              record in FRONT of the tombstone: every read of the running process is right, but *)
(*                              after close + reopen the live key is gone (the restart half of Inv_Reads).        *)
(* Concurrency reading: every API call of the code holds _mutex for its whole body, so concurrent callers are    *)
(* interleavings of these atomic actions (writers, readers, eviction worker); only a flag that splits a critical  *)
(* section adds interleavings.                                                                                     *)
(* Keys are byte strings: KU selects the key universe of KvAbs.tla (key ids -> bytes, six prefixes); "has prefix" *)
(* is decided on the bytes.  RmpPfx = the prefix ids removeWithPrefix is called with.                             *)
(* Generator mode (Emit, background steps off): prints every maximal history as a driver case line.  A reopen is *)
(* printed as `open 1` when it is SENSITIVE: the persisted image at that moment (snapshot + journal + clock)      *)
(* distinguishes the load orders - sweeping the snapshot before the replay, or dropping per record, would load a   *)
(* different map than replay-then-sweep.  EmitSens = TRUE prints only histories with a sensitive reopen.           *)
EXTENDS KvAbs, TLC

CONSTANTS NK, NV, MaxTime, MaxTtl, MaxOps, CacheMax,
          OpKinds, WorkerOn,
          Dev_ExpiredKeyResurrected, Dev_ReplayDropsPerRecord,
          Dev_CacheFillOutsideLock, NReaders, Dev_EvictJournalOutsideLock,
          Emit,
          KU, RmpPfx, Dev_SnapshotDropsExpired, Dev_PrefixStopsAtNul, EmitSens

Keys == 1..NK
Vals == 1..NV
NoExp == [exp |-> Inf, tid |-> 0]
NoC == [val |-> 0, exp |-> 0]
AbsentL == [val |-> 0, exp |-> Inf]
Pfxs == 1..NPfx
ImplHasPrefix(k, p) == IF Dev_PrefixStopsAtNul THEN CStrPrefix(PfxStr(KU, p), KeyStr(KU, k)) ELSE HasPrefix(KU, k, p)
MaxTid == MaxOps + 2 * NK + 2

VARIABLES kv, expiry, cache, timers, queue, snap, dlog, now, up, m, nops, hist,
          pendFill,     \* Dev_CacheFillOutsideLock: value copies of readers that have released _mutex and not yet filled the cache
          pendD         \* Dev_EvictJournalOutsideLock: keys erased by the eviction worker whose 'D' record is not yet journalled
vars == <<kv, expiry, cache, timers, queue, snap, dlog, now, up, m, nops, hist, pendFill, pendD>>

O(op, k, v, d, t) == [op |-> op, k |-> k, v |-> v, d |-> d, t |-> t, ks |-> <<>>, vs |-> <<>>, u |-> KU]
OB(op, ks, vs, d) == [op |-> op, k |-> 0, v |-> 0, d |-> d, t |-> 0, ks |-> ks, vs |-> vs, u |-> KU]
R(op, k, v, e) == [op |-> op, k |-> k, v |-> v, e |-> e]

DiskOn == "close" \in OpKinds             \* without restarts the log is not observable: not recorded (smaller state space)
LogApp(lg, recs) == IF DiskOn THEN lg \o recs ELSE lg
HasExp(k) == expiry[k].exp # Inf
Expired(k) == HasExp(k) /\ expiry[k].exp <= now                   \* the lazy-read backstop of every read path
UsedTids(ts, q, ex) == {t.tid : t \in ts} \cup {q[i].tid : i \in 1..Len(q)} \cup {ex[k].tid : k \in Keys}
Fresh(used) == CHOOSE i \in 1..MaxTid : i \notin used
Cancel(ts, k) == {t \in ts : ~(t.k = k /\ t.tid = expiry[k].tid)}       \* cancelTimerLocked: only a still armed timer

CachedKeys(c) == {j \in Keys : c[j].val # 0}
CacheUpd(c, k, v, e) ==            \* updateCache: set of possible results (victim choice); CacheMax = 0: cache disabled
    IF CacheMax = 0 THEN {c}
    ELSE IF Cardinality(CachedKeys(c)) >= CacheMax
    THEN {[[c EXCEPT ![vic] = NoC] EXCEPT ![k] = [val |-> v, exp |-> e]] : vic \in CachedKeys(c)}
    ELSE {[c EXCEPT ![k] = [val |-> v, exp |-> e]]}

Init == /\ kv = [k \in Keys |-> 0] /\ expiry = [k \in Keys |-> NoExp] /\ cache = [k \in Keys |-> NoC]
        /\ timers = {} /\ queue = <<>> /\ snap = [k \in Keys |-> AbsentL] /\ dlog = <<>>
        /\ now = 0 /\ up = TRUE /\ m = [k \in Keys |-> NoKey] /\ nops = 0 /\ hist = <<>> /\ pendFill = {} /\ pendD = {}

(* bookkeeping common to all controllable steps: Abs effect, step count, history *)
Did(o) == /\ m' = AbsEff(o, m, now, FALSE)
          /\ nops' = nops + 1
          /\ hist' = (IF Emit THEN Append(hist, o) ELSE hist)
          /\ UNCHANGED <<pendFill, pendD>>
Can(kind) == up /\ nops < MaxOps /\ kind \in OpKinds

(* ------------------------------------------------------------------ writes *)
Set(k, v) ==
    /\ Can("set")
    /\ timers' = Cancel(timers, k)
    /\ expiry' = [expiry EXCEPT ![k] = NoExp]
    /\ kv' = [kv EXCEPT ![k] = v]
    /\ cache' \in CacheUpd(cache, k, v, Inf)
    /\ dlog' = LogApp(dlog, <<R("S", k, v, Inf)>>)
    /\ Did(O("set", k, v, 0, 0))
    /\ UNCHANGED <<queue, snap, now, up>>

SetTtl(k, v, d) ==
    /\ Can("setttl")
    /\ LET tid == Fresh(UsedTids(timers, queue, expiry)) IN
       /\ timers' = Cancel(timers, k) \cup {[tid |-> tid, k |-> k]}
       /\ expiry' = [expiry EXCEPT ![k] = [exp |-> now + d, tid |-> tid]]
    /\ kv' = [kv EXCEPT ![k] = v]
    /\ cache' \in CacheUpd(cache, k, v, now + d)
    /\ dlog' = LogApp(dlog, <<R("E", k, v, now + d)>>)
    /\ Did(O("setttl", k, v, d, 0))
    /\ UNCHANGED <<queue, snap, now, up>>

Remove(k) ==
    /\ Can("rm")
    /\ IF kv[k] # 0
       THEN /\ timers' = Cancel(timers, k)
            /\ kv' = [kv EXCEPT ![k] = 0] /\ expiry' = [expiry EXCEPT ![k] = NoExp]
            /\ cache' = [cache EXCEPT ![k] = NoC]
            /\ dlog' = LogApp(dlog, <<R("D", k, 0, Inf)>>)
       ELSE UNCHANGED <<timers, kv, expiry, cache, dlog>>
    /\ Did(O("rm", k, 0, 0, 0))
    /\ UNCHANGED <<queue, snap, now, up>>

(* setBatch over keys 1,2 (values vs), plain (d = 0) or with one TTL for all *)
SetBatch(vs, d) ==
    /\ Can("batch") /\ NK >= 2
    /\ LET e    == IF d = 0 THEN Inf ELSE now + d
           ts0  == Cancel(Cancel(timers, 1), 2)
           ex0  == [expiry EXCEPT ![1] = NoExp, ![2] = NoExp]
           t1   == Fresh(UsedTids(ts0, queue, ex0))
           t2   == Fresh(UsedTids(ts0, queue, ex0) \cup {t1}) IN
       /\ IF d = 0 THEN timers' = ts0 /\ expiry' = ex0
                   ELSE /\ timers' = ts0 \cup {[tid |-> t1, k |-> 1], [tid |-> t2, k |-> 2]}
                        /\ expiry' = [ex0 EXCEPT ![1] = [exp |-> e, tid |-> t1], ![2] = [exp |-> e, tid |-> t2]]
       /\ kv' = [kv EXCEPT ![1] = vs[1], ![2] = vs[2]]
       /\ \E c1 \in CacheUpd(cache, 1, vs[1], e) : cache' \in CacheUpd(c1, 2, vs[2], e)
       /\ dlog' = LogApp(dlog, <<R(IF d = 0 THEN "S" ELSE "E", 1, vs[1], e), R(IF d = 0 THEN "S" ELSE "E", 2, vs[2], e)>>)
    /\ Did(OB("batch", <<1, 2>>, vs, d))
    /\ UNCHANGED <<queue, snap, now, up>>

ExpireAt(k, t) ==
    /\ Can("exp")
    /\ IF kv[k] # 0 /\ (Dev_ExpiredKeyResurrected \/ ~Expired(k))
       THEN /\ LET tid == Fresh(UsedTids(timers, queue, expiry)) IN
               /\ timers' = Cancel(timers, k) \cup {[tid |-> tid, k |-> k]}
               /\ expiry' = [expiry EXCEPT ![k] = [exp |-> t, tid |-> tid]]
            /\ cache' = [cache EXCEPT ![k] = NoC]                       \* invalidateCache
            /\ dlog' = LogApp(dlog, <<R("X", k, 0, t)>>)
       ELSE UNCHANGED <<timers, expiry, cache, dlog>>
    /\ Did(O("exp", k, 0, 0, t))
    /\ UNCHANGED <<kv, queue, snap, now, up>>

Persist(k) ==
    /\ Can("per")
    /\ IF kv[k] # 0 /\ HasExp(k) /\ (Dev_ExpiredKeyResurrected \/ ~Expired(k))
       THEN /\ timers' = Cancel(timers, k)
            /\ expiry' = [expiry EXCEPT ![k] = NoExp]
            /\ cache' = [cache EXCEPT ![k] = NoC]
            /\ dlog' = LogApp(dlog, <<R("X", k, 0, Inf)>>)
       ELSE UNCHANGED <<timers, expiry, cache, dlog>>
    /\ Did(O("per", k, 0, 0, 0))
    /\ UNCHANGED <<kv, queue, snap, now, up>>

RECURSIVE DelRecs(_)
DelRecs(ks) == IF ks = {} THEN <<>> ELSE LET k == CHOOSE x \in ks : TRUE IN <<R("D", k, 0, Inf)>> \o DelRecs(ks \ {k})

Clear ==
    /\ Can("clear")
    /\ dlog' = LogApp(dlog, DelRecs({k \in Keys : kv[k] # 0}))
    /\ timers' = {t \in timers : t.tid # expiry[t.k].tid}
    /\ kv' = [k \in Keys |-> 0] /\ expiry' = [k \in Keys |-> NoExp] /\ cache' = [k \in Keys |-> NoC]
    /\ Did(OB("clear", <<>>, <<>>, 0))
    /\ UNCHANGED <<queue, snap, now, up>>

(* removeWithPrefix(p) = keysWithPrefix(p) (live keys whose bytes start with the prefix's bytes) + remove each *)
RemovePrefix(p) ==
    /\ Can("rmp")
    /\ LET victims == {k \in Keys : ImplHasPrefix(k, p) /\ kv[k] # 0 /\ ~Expired(k)} IN
       /\ dlog' = LogApp(dlog, DelRecs(victims))
       /\ timers' = {t \in timers : ~(t.k \in victims /\ t.tid = expiry[t.k].tid)}
       /\ kv' = [k \in Keys |-> IF k \in victims THEN 0 ELSE kv[k]]
       /\ expiry' = [k \in Keys |-> IF k \in victims THEN NoExp ELSE expiry[k]]
       /\ cache' = [k \in Keys |-> IF k \in victims THEN NoC ELSE cache[k]]
    /\ Did(O("rmp", p, 0, 0, 0))
    /\ UNCHANGED <<queue, snap, now, up>>

(* ------------------------------------------------------------------ get(): the only read that changes state *)
Get(k) ==
    /\ Can("get") /\ ~Dev_CacheFillOutsideLock
    /\ IF cache[k].val # 0 /\ cache[k].exp > now
       THEN UNCHANGED cache                                           \* fast path: answered from the cache
       ELSE IF kv[k] # 0 /\ ~Expired(k)
            THEN cache' \in CacheUpd(cache, k, kv[k], expiry[k].exp)  \* slow path: copy + cache fill under ONE _mutex hold
            ELSE UNCHANGED cache
    /\ Did(O("get", k, 0, 0, 0))
    /\ UNCHANGED <<kv, expiry, timers, queue, snap, dlog, now, up>>

(* Dev_CacheFillOutsideLock: the same call as two critical sections *)
GetRead(k) ==
    /\ Can("get") /\ Dev_CacheFillOutsideLock
    /\ IF ~(cache[k].val # 0 /\ cache[k].exp > now) /\ kv[k] # 0 /\ ~Expired(k) /\ Cardinality(pendFill) < NReaders
       THEN pendFill' = pendFill \cup {[k |-> k, val |-> kv[k], exp |-> expiry[k].exp]}     \* copy taken, _mutex released
       ELSE UNCHANGED pendFill
    /\ m' = m /\ nops' = nops + 1 /\ hist' = (IF Emit THEN Append(hist, O("get", k, 0, 0, 0)) ELSE hist)
    /\ UNCHANGED <<kv, expiry, cache, timers, queue, snap, dlog, now, up, pendD>>
GetFill(r) ==
    /\ up /\ Dev_CacheFillOutsideLock /\ r \in pendFill
    /\ cache' \in CacheUpd(cache, r.k, r.val, r.exp)                                       \* ... filled later, without it
    /\ pendFill' = pendFill \ {r}
    /\ UNCHANGED <<kv, expiry, timers, queue, snap, dlog, now, up, m, nops, hist, pendD>>

(* ------------------------------------------------------------------ time, eviction path *)
TimePasses(d) ==
    /\ nops < MaxOps /\ "tick" \in OpKinds /\ now + d <= MaxTime
    /\ now' = now + d
    /\ nops' = nops + 1 /\ hist' = (IF Emit THEN Append(hist, O("tick", 0, 0, d, 0)) ELSE hist)
    /\ UNCHANGED <<kv, expiry, cache, timers, queue, snap, dlog, up, m, pendFill, pendD>>

Fire(t) == /\ WorkerOn /\ up /\ t \in timers
           /\ timers' = timers \ {t} /\ queue' = Append(queue, t)
           /\ UNCHANGED <<kv, expiry, cache, snap, dlog, now, up, m, nops, hist, pendFill, pendD>>

Job == Head(queue)
WorkerStale == /\ WorkerOn /\ up /\ queue # <<>>
               /\ (~HasExp(Job.k) \/ expiry[Job.k].tid # Job.tid)
               /\ queue' = Tail(queue)
               /\ UNCHANGED <<kv, expiry, cache, timers, snap, dlog, now, up, m, nops, hist, pendFill, pendD>>
WorkerReArm == /\ WorkerOn /\ up /\ queue # <<>>
               /\ HasExp(Job.k) /\ expiry[Job.k].tid = Job.tid /\ expiry[Job.k].exp > now
               /\ LET tid == Fresh(UsedTids(timers, queue, expiry)) IN
                  /\ timers' = timers \cup {[tid |-> tid, k |-> Job.k]}
                  /\ expiry' = [expiry EXCEPT ![Job.k].tid = tid]
               /\ queue' = Tail(queue)
               /\ UNCHANGED <<kv, cache, snap, dlog, now, up, m, nops, hist, pendFill, pendD>>
WorkerEvict == /\ WorkerOn /\ up /\ queue # <<>> /\ ~Dev_EvictJournalOutsideLock
               /\ HasExp(Job.k) /\ expiry[Job.k].tid = Job.tid /\ expiry[Job.k].exp <= now
               /\ kv' = [kv EXCEPT ![Job.k] = 0] /\ expiry' = [expiry EXCEPT ![Job.k] = NoExp]
               /\ cache' = [cache EXCEPT ![Job.k] = NoC]
               /\ dlog' = LogApp(dlog, <<R("D", Job.k, 0, Inf)>>)          \* erase + journal under ONE _mutex hold
               /\ queue' = Tail(queue)
               /\ UNCHANGED <<timers, snap, now, up, m, nops, hist, pendFill, pendD>>
(* Dev_EvictJournalOutsideLock: the same step as two critical sections *)
WorkerEvictErase == /\ WorkerOn /\ up /\ queue # <<>> /\ Dev_EvictJournalOutsideLock
                    /\ HasExp(Job.k) /\ expiry[Job.k].tid = Job.tid /\ expiry[Job.k].exp <= now
                    /\ kv' = [kv EXCEPT ![Job.k] = 0] /\ expiry' = [expiry EXCEPT ![Job.k] = NoExp]
                    /\ cache' = [cache EXCEPT ![Job.k] = NoC]
                    /\ pendD' = pendD \cup {Job.k}                            \* _mutex released, tombstone still to be written
                    /\ queue' = Tail(queue)
                    /\ UNCHANGED <<timers, snap, dlog, now, up, m, nops, hist, pendFill>>
WorkerJournal(k) == /\ WorkerOn /\ up /\ Dev_EvictJournalOutsideLock /\ k \in pendD
                    /\ dlog' = LogApp(dlog, <<R("D", k, 0, Inf)>>)
                    /\ pendD' = pendD \ {k}
                    /\ UNCHANGED <<kv, expiry, cache, timers, queue, snap, now, up, m, nops, hist, pendFill>>

(* ------------------------------------------------------------------ compaction, close, reopen *)
Compact ==
    /\ Can("compact")
    /\ LET dropped == {k \in Keys : kv[k] # 0 /\ Expired(k)} IN
       /\ snap' = [k \in Keys |-> IF kv[k] # 0 /\ k \notin dropped THEN [val |-> kv[k], exp |-> expiry[k].exp] ELSE AbsentL]
       /\ dlog' = <<>>
       /\ timers' = {t \in timers : ~(t.k \in dropped /\ t.tid = expiry[t.k].tid)}
       /\ kv' = [k \in Keys |-> IF k \in dropped THEN 0 ELSE kv[k]]
       /\ expiry' = [k \in Keys |-> IF k \in dropped THEN NoExp ELSE expiry[k]]
       /\ cache' = [k \in Keys |-> IF k \in dropped THEN NoC ELSE cache[k]]
    /\ Did(O("compact", 0, 0, 0, 0))
    /\ UNCHANGED <<queue, now, up>>

(* orderly shutdown: the worker drains its queue first (its steps are the Worker* actions), pending timers are *)
(* cancelled, memory is gone                                                                                  *)
Close ==
    /\ Can("close") /\ queue = <<>> /\ pendFill = {} /\ pendD = {}      \* shutdown joins the worker first
    /\ up' = FALSE /\ timers' = {}
    /\ kv' = [k \in Keys |-> 0] /\ expiry' = [k \in Keys |-> NoExp] /\ cache' = [k \in Keys |-> NoC]
    /\ Did(O("close", 0, 0, 0, 0))
    /\ UNCHANGED <<queue, snap, dlog, now>>

(* load(): T = the clock at load time *)
Erase(s, k) == [s EXCEPT ![k] = AbsentL]
ApplyAsFound(s, r, T) ==        \* Dev_ReplayDropsPerRecord: every record is compared with the clock of the restart
    CASE r.op = "S" -> [s EXCEPT ![r.k] = [val |-> r.v, exp |-> Inf]]
      [] r.op = "E" -> IF r.e > T THEN [s EXCEPT ![r.k] = [val |-> r.v, exp |-> r.e]] ELSE Erase(s, r.k)
      [] r.op = "X" -> IF s[r.k].val = 0 THEN s                                   \* orphan 'X': ignored
                       ELSE IF r.e = Inf \/ r.e > T THEN [s EXCEPT ![r.k].exp = r.e] ELSE Erase(s, r.k)
      [] OTHER      -> Erase(s, r.k)
ApplyAll(s, r) ==               \* repaired: replay is independent of the clock ...
    CASE r.op = "S" -> [s EXCEPT ![r.k] = [val |-> r.v, exp |-> Inf]]
      [] r.op = "E" -> [s EXCEPT ![r.k] = [val |-> r.v, exp |-> r.e]]
      [] r.op = "X" -> IF s[r.k].val = 0 THEN s ELSE [s EXCEPT ![r.k].exp = r.e]
      [] OTHER      -> Erase(s, r.k)
RECURSIVE ReplayF(_, _, _), ReplayA(_, _)
ReplayF(s, lg, T) == IF lg = <<>> THEN s ELSE ReplayF(ApplyAsFound(s, Head(lg), T), Tail(lg), T)
ReplayA(s, lg) == IF lg = <<>> THEN s ELSE ReplayA(ApplyAll(s, Head(lg)), Tail(lg))
Sweep(s, T) == [k \in Keys |-> IF s[k].val # 0 /\ s[k].exp <= T THEN AbsentL ELSE s[k]]   \* ... expired keys dropped at the end
LoadGood == Sweep(ReplayA(snap, dlog), now)
LoadPerRecord == ReplayF(Sweep(snap, now), dlog, now)
LoadSnapSwept == Sweep(ReplayA(Sweep(snap, now), dlog), now)
LoadJournalPerRecord == Sweep(ReplayF(snap, dlog, now), now)
Loaded == IF Dev_ReplayDropsPerRecord THEN LoadPerRecord ELSE IF Dev_SnapshotDropsExpired THEN LoadSnapSwept ELSE LoadGood
SensitiveImage == LoadSnapSwept # LoadGood \/ LoadJournalPerRecord # LoadGood

RECURSIVE ArmAll(_, _)          \* postLoadArm: a fresh wheel, one timer per surviving TTL key
ArmAll(ks, n) == IF ks = {} THEN {} ELSE LET k == CHOOSE x \in ks : TRUE IN {[tid |-> n, k |-> k]} \cup ArmAll(ks \ {k}, n + 1)
Reopen ==
    /\ ~up
    /\ LET s == Loaded
           armed == ArmAll({k \in Keys : s[k].val # 0 /\ s[k].exp # Inf}, 1) IN
       /\ kv' = [k \in Keys |-> s[k].val]
       /\ expiry' = [k \in Keys |-> IF s[k].val # 0 /\ s[k].exp # Inf
                                    THEN [exp |-> s[k].exp, tid |-> (CHOOSE t \in armed : t.k = k).tid] ELSE NoExp]
       /\ timers' = armed
    /\ up' = TRUE /\ queue' = <<>>
    /\ hist' = (IF Emit THEN Append(hist, O("open", 0, 0, IF SensitiveImage THEN 1 ELSE 0, 0)) ELSE hist)
    /\ UNCHANGED <<cache, snap, dlog, now, m, nops, pendFill, pendD>>

Next == \/ \E k \in Keys, v \in Vals : Set(k, v)
        \/ \E k \in Keys, v \in Vals, d \in 1..MaxTtl : SetTtl(k, v, d)
        \/ \E k \in Keys : Remove(k) \/ Persist(k) \/ Get(k) \/ GetRead(k)
        \/ \E k \in Keys, v \in Vals, e \in (0..(MaxTime + MaxTtl + 1)) \cup {Inf} : GetFill([k |-> k, val |-> v, exp |-> e])
        \/ \E k \in Keys, t \in 0..(MaxTime + 1) : ExpireAt(k, t)
        \/ \E a \in Vals, d \in {0, 1} : SetBatch(<<a, NV>>, d)
        \/ \E p \in RmpPfx : RemovePrefix(p)
        \/ Clear \/ Compact \/ Close \/ Reopen
        \/ \E d \in 1..MaxTime : TimePasses(d)
        \/ \E k \in Keys, i \in 1..MaxTid : Fire([tid |-> i, k |-> k])
        \/ WorkerStale \/ WorkerReArm \/ WorkerEvict \/ WorkerEvictErase
        \/ \E k \in Keys : WorkerJournal(k)
Spec == Init /\ [][Next]_vars

(* ------------------------------------------------------------------ refinement: every read path, every state *)
SlowGet(k) == IF kv[k] # 0 /\ ~Expired(k) THEN kv[k] ELSE 0          \* get slow path, exists, getBatch, keys
ImplPfx(p) == {k \in Keys : ImplHasPrefix(k, p) /\ SlowGet(k) # 0}   \* keysWithPrefix: byte comparison + the same backstop
FastGet(k) == IF cache[k].val # 0 /\ cache[k].exp > now THEN cache[k].val ELSE SlowGet(k)
ImplSize == Cardinality({k \in Keys : kv[k] # 0}) - Cardinality({k \in Keys : HasExp(k) /\ expiry[k].exp <= now})
ImplTtl(k) == IF kv[k] # 0 /\ HasExp(k) /\ ~Expired(k) THEN expiry[k].exp - now ELSE -1

Inv_Reads == up => /\ \A k \in Keys : /\ FastGet(k) = AbsGet(m, k, now, FALSE)
                                      /\ SlowGet(k) = AbsGet(m, k, now, FALSE)
                                      /\ ImplTtl(k) = AbsTtl(m, k, now, FALSE)
                   /\ ImplSize = Cardinality(AbsKeys(m, now, FALSE))
(* the prefix scan, for every prefix of the key universe (a separate invariant: checked in the byte-string-key      *)
(* configurations; elsewhere prefix membership is a fixed table and the scan is SlowGet restricted to it)            *)
Inv_Prefix == up => \A p \in Pfxs : ImplPfx(p) = AbsPfx(m, KU, p, now, FALSE)
Inv_Struct == /\ \A k \in Keys : HasExp(k) => kv[k] # 0                 \* _expiry only for keys of _kv
              /\ Cardinality(CachedKeys(cache)) <= CacheMax
              /\ \A t \in timers : t.tid \in 1..MaxTid

(* ------------------------------------------------------------------ generator *)
N(x) == ToString(x)
OpStr(o) ==
    CASE o.op = "set"    -> "set " \o N(o.k) \o " " \o N(o.v)
      [] o.op = "setttl" -> "setttl " \o N(o.k) \o " " \o N(o.v) \o " " \o N(o.d)
      [] o.op = "rm"     -> "rm " \o N(o.k)
      [] o.op = "exp"    -> "exp " \o N(o.k) \o " " \o N(o.t)
      [] o.op = "per"    -> "per " \o N(o.k)
      [] o.op = "get"    -> "get " \o N(o.k)
      [] o.op = "batch"  -> "batch " \o N(o.d) \o " 1:" \o N(o.vs[1]) \o ",2:" \o N(o.vs[2])
      [] o.op = "tick"   -> "tick " \o N(o.d)
      [] o.op = "rmp"    -> "rmp " \o N(o.k)
      [] o.op = "open"   -> IF o.d = 1 THEN "open 1" ELSE "open"
      [] OTHER           -> o.op             \* clear, compact, close, open
RECURSIVE JoinOps(_)
JoinOps(s) == IF s = <<>> THEN "" ELSE OpStr(Head(s)) \o (IF Len(s) > 1 THEN ";" ELSE "") \o JoinOps(Tail(s))
HasSens == \E i \in 1..Len(hist) : hist[i].op = "open" /\ hist[i].d = 1
EmitInv == (Emit /\ up /\ nops = MaxOps /\ (EmitSens => HasSens)) => PrintT("HIST " \o JoinOps(hist))
=============================================================================
