------------------------------- MODULE JsonFile -------------------------------
(* C11, second clause - Impl specification of iora::storage::JsonFileStore (storage/json_file_store.hpp).     *)
(* set/remove change memory only and mark the store dirty; flush() (also run by the destructor and by the     *)
(* background thread) rewrites the file when dirty.  The file is an abstract value: none | ok(map) | empty |  *)
(* torn.  The constructor parses the file; a file that does not parse makes the store start EMPTY, silently.   *)
(*   saveToFile as repaired:  OpenTmp ; WriteTmp ; Rename(tmp -> file)                                          *)
(*   Dev_JsonSaveTruncatesInPlace (F-11b, the code as found):  OpenTrunc(file) ; Write(file)                   *)
(* The process may be killed between any two file operations and inside a write (torn contents).               *)
(* Property (Inv_Recovered): a reopen shows the contents of the last completed flush (`dur`), or of the flush   *)
(* that was in progress (`fl`) - never anything else, in particular never an empty store after a flush.        *)
(* The background flusher is a second actor: BgStart (history step `jbg`) = tryFlushIfDirty() takes the store  *)
(* mutex, serialises the map (`bimg`) and then issues the same three file operations (BgOpenTmp ; BgWriteTmp ;  *)
(* BgRename); as built it holds the mutex for all of them, so the application thread cannot run a set / remove / *)
(* flush in between.  Dev_BgWritesOutsideLock (seeded-change class): the flusher releases the mutex after the    *)
(* serialisation - an explicit set + flush() completes in between and the flusher then renames its OLDER image   *)
(* over the newer completed flush (or the two flushes share the temporary file).  Ghost `bok`: no flush has      *)
(* completed since the flusher serialised, i.e. its image is still "the flush in progress"; a flusher whose      *)
(* image is older than a completed flush must not reach the store file.                                          *)
(* Generator mode (Emit): every maximal history is printed as a driver case line.                               *)
EXTENDS Integers, Sequences, TLC

CONSTANTS NK, NV, MaxOps, MaxCrash, Dev_JsonSaveTruncatesInPlace, Dev_BgWritesOutsideLock, Emit

Keys == 1..NK
Vals == 1..NV
EmptyMap == [k \in Keys |-> 0]
F(st, m) == [st |-> st, m |-> m]
NoFile == F("none", EmptyMap)

VARIABLES file, tmpf, mem, dirty, cur, pc, fl, up, dur, nops, ncrash, ok, hist,
          bpc, bimg, bok, bcr        \* background flusher: remaining file operations, its image, ghost (see above), in flight at the crash
vars == <<file, tmpf, mem, dirty, cur, pc, fl, up, dur, nops, ncrash, ok, hist, bpc, bimg, bok, bcr>>
bgv == <<bpc, bimg, bok, bcr>>

Init == /\ file = NoFile /\ tmpf = NoFile /\ mem = EmptyMap /\ dirty = FALSE /\ cur = "none" /\ pc = <<>>
        /\ fl = EmptyMap /\ up = TRUE /\ dur = EmptyMap /\ nops = 0 /\ ncrash = 0 /\ ok = TRUE /\ hist = <<>>
        /\ bpc = <<>> /\ bimg = EmptyMap /\ bok = FALSE /\ bcr = FALSE

MutexFree == Dev_BgWritesOutsideLock \/ bpc = <<>>       \* as built the flusher holds the store mutex for its whole flush
Idle == up /\ cur = "none" /\ pc = <<>> /\ nops < MaxOps /\ MutexFree
Log(s) == hist' = (IF Emit THEN Append(hist, s) ELSE hist)

JSet(k, v) == /\ Idle /\ mem' = [mem EXCEPT ![k] = v] /\ dirty' = TRUE /\ nops' = nops + 1
              /\ Log("jset " \o ToString(k) \o " " \o ToString(v))
              /\ UNCHANGED <<file, tmpf, cur, pc, fl, up, dur, ncrash, ok>> /\ UNCHANGED bgv
JRm(k) == /\ Idle /\ mem' = [mem EXCEPT ![k] = 0] /\ dirty' = (dirty \/ mem[k] # 0) /\ nops' = nops + 1
          /\ Log("jrm " \o ToString(k))
          /\ UNCHANGED <<file, tmpf, cur, pc, fl, up, dur, ncrash, ok>> /\ UNCHANGED bgv

CallFlush == /\ Idle /\ cur' = "flush" /\ fl' = mem
             /\ pc' = IF ~dirty THEN <<>>
                      ELSE IF Dev_JsonSaveTruncatesInPlace THEN <<"OpenTrunc", "Write">>
                      ELSE <<"OpenTmp", "WriteTmp", "Rename">>
             /\ UNCHANGED <<file, tmpf, mem, dirty, up, dur, nops, ncrash, ok, hist>> /\ UNCHANGED bgv
RetFlush == /\ up /\ cur = "flush" /\ pc = <<>>
            /\ dur' = mem /\ dirty' = FALSE /\ cur' = "none" /\ nops' = nops + 1 /\ Log("jflush")
            /\ bok' = FALSE                     \* a flush completed: an image serialised before it is now out of date
            /\ UNCHANGED <<file, tmpf, mem, pc, fl, up, ncrash, ok, bpc, bimg, bcr>>

Stepping(t) == up /\ pc # <<>> /\ Head(pc) = t /\ pc' = Tail(pc)
               /\ UNCHANGED <<mem, dirty, cur, fl, up, dur, nops, ncrash, ok, hist>> /\ UNCHANGED bgv
StepOpenTrunc == Stepping("OpenTrunc") /\ file' = F("empty", EmptyMap) /\ UNCHANGED tmpf
StepWrite     == Stepping("Write") /\ file' = F("ok", mem) /\ UNCHANGED tmpf
StepOpenTmp   == Stepping("OpenTmp") /\ tmpf' = F("empty", EmptyMap) /\ UNCHANGED file
StepWriteTmp  == Stepping("WriteTmp") /\ tmpf' = F("ok", mem) /\ UNCHANGED file
StepRename    == Stepping("Rename") /\ file' = (IF tmpf.st = "none" THEN file ELSE tmpf) /\ tmpf' = NoFile

(* the background flusher *)
BgStart == /\ up /\ cur = "none" /\ pc = <<>> /\ bpc = <<>> /\ dirty /\ nops < MaxOps       \* tryFlushIfDirty() got the mutex
           /\ bimg' = mem /\ dirty' = FALSE /\ bok' = TRUE /\ bpc' = <<"OpenTmp", "WriteTmp", "Rename">>
           /\ nops' = nops + 1 /\ Log("jbg")
           /\ UNCHANGED <<file, tmpf, mem, cur, pc, fl, up, dur, ncrash, ok, bcr>>
BgStepping(t) == /\ up /\ bpc # <<>> /\ Head(bpc) = t /\ bpc' = Tail(bpc)
                 /\ UNCHANGED <<mem, dirty, cur, pc, fl, up, nops, ncrash, ok, hist, bimg, bcr>>
BgOpenTmp  == BgStepping("OpenTmp") /\ tmpf' = F("empty", EmptyMap) /\ UNCHANGED <<file, dur, bok>>
BgWriteTmp == BgStepping("WriteTmp") /\ tmpf' = F("ok", bimg) /\ UNCHANGED <<file, dur, bok>>
BgRename   == /\ BgStepping("Rename") /\ file' = (IF tmpf.st = "none" THEN file ELSE tmpf) /\ tmpf' = NoFile
              /\ dur' = (IF bok THEN bimg ELSE dur) /\ bok' = FALSE         \* its flush completed

Die == /\ up' = FALSE /\ pc' = <<>> /\ ncrash' = ncrash + 1
       /\ bpc' = <<>> /\ bcr' = (bpc # <<>> /\ bok) /\ bok' = FALSE
       /\ UNCHANGED <<mem, dirty, cur, fl, dur, nops, ok, hist, bimg>>
CrashBetween == up /\ ncrash < MaxCrash /\ Die /\ UNCHANGED <<file, tmpf>>
CrashInWrite == /\ up /\ ncrash < MaxCrash /\ pc # <<>> /\ Head(pc) \in {"Write", "WriteTmp"} /\ Die
                /\ IF Head(pc) = "Write" THEN file' = F("torn", EmptyMap) /\ UNCHANGED tmpf
                                         ELSE tmpf' = F("torn", EmptyMap) /\ UNCHANGED file
CrashInBgWrite == /\ up /\ ncrash < MaxCrash /\ bpc # <<>> /\ Head(bpc) = "WriteTmp" /\ Die
                  /\ tmpf' = F("torn", EmptyMap) /\ UNCHANGED file

CleanClose == /\ Idle /\ ~dirty /\ bpc = <<>> /\ up' = FALSE /\ nops' = nops + 1 /\ Log("reopen")
              /\ UNCHANGED <<file, tmpf, mem, dirty, cur, pc, fl, dur, ncrash, ok>> /\ UNCHANGED bgv

Reopen == /\ ~up
          /\ LET rec == IF file.st = "ok" THEN file.m ELSE EmptyMap IN      \* unparsable / empty / absent: starts empty
             /\ ok' = (ok /\ (rec = dur \/ (cur = "flush" /\ rec = fl) \/ (bcr /\ rec = bimg)))
             /\ mem' = rec /\ dur' = rec
          /\ dirty' = FALSE /\ up' = TRUE
          /\ nops' = IF cur # "none" THEN nops + 1 ELSE nops
          /\ cur' = "none"
          /\ bcr' = FALSE /\ UNCHANGED <<file, tmpf, pc, fl, ncrash, hist, bpc, bimg, bok>>

Next == \/ \E k \in Keys, v \in Vals : JSet(k, v)
        \/ \E k \in Keys : JRm(k)
        \/ CallFlush \/ RetFlush
        \/ StepOpenTrunc \/ StepWrite \/ StepOpenTmp \/ StepWriteTmp \/ StepRename
        \/ BgStart \/ BgOpenTmp \/ BgWriteTmp \/ BgRename \/ CrashInBgWrite
        \/ CrashBetween \/ CrashInWrite \/ CleanClose \/ Reopen
Spec == Init /\ [][Next]_vars

Inv_Recovered == ok
Inv_FileNeverTorn == Dev_JsonSaveTruncatesInPlace \/ Dev_BgWritesOutsideLock \/ file.st \in {"none", "ok"}   \* the store file itself is never torn

RECURSIVE JoinS(_)
JoinS(s) == IF s = <<>> THEN "" ELSE Head(s) \o (IF Len(s) > 1 THEN ";" ELSE "") \o JoinS(Tail(s))
EmitInv == (Emit /\ up /\ cur = "none" /\ nops = MaxOps /\ bpc = <<>>) => PrintT("HIST " \o JoinS(hist))
===============================================================================
