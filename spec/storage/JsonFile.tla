------------------------------- MODULE JsonFile -------------------------------
(* C11, second clause - Impl specification of iora::storage::JsonFileStore (storage/json_file_store.hpp).     *)
(* set/remove change memory only and mark the store dirty; flush() (also run by the destructor and by the     *)
(* background thread) rewrites the file when dirty.  The file is an abstract value: none | ok(map) | empty |  *)
(* torn.  The constructor parses the file; a file that does not parse makes the store start EMPTY, silently.   *)
(*   saveToFile as repaired:  OpenTmp ; WriteTmp ; Rename(tmp -> file)                                          *)
(*   Dev_JsonSaveTruncatesInPlace (F-11b, the code as found):  OpenTrunc(file) ; Write(file)                   *)
(* The process may be killed between any two file operations and inside a write (torn contents).               *)
(* Property (Inv_Recovered): a reopen shows the contents of the last completed flush (`dur`), or of the flush   *)
(* that was in progress (`fl`) - never anything else, in particular never an empty store after a flush.        *)
(* Generator mode (Emit): every maximal history is printed as a driver case line.                               *)
EXTENDS Integers, Sequences, TLC

CONSTANTS NK, NV, MaxOps, MaxCrash, Dev_JsonSaveTruncatesInPlace, Emit

Keys == 1..NK
Vals == 1..NV
EmptyMap == [k \in Keys |-> 0]
F(st, m) == [st |-> st, m |-> m]
NoFile == F("none", EmptyMap)

VARIABLES file, tmpf, mem, dirty, cur, pc, fl, up, dur, nops, ncrash, ok, hist
vars == <<file, tmpf, mem, dirty, cur, pc, fl, up, dur, nops, ncrash, ok, hist>>

Init == /\ file = NoFile /\ tmpf = NoFile /\ mem = EmptyMap /\ dirty = FALSE /\ cur = "none" /\ pc = <<>>
        /\ fl = EmptyMap /\ up = TRUE /\ dur = EmptyMap /\ nops = 0 /\ ncrash = 0 /\ ok = TRUE /\ hist = <<>>

Idle == up /\ cur = "none" /\ pc = <<>> /\ nops < MaxOps
Log(s) == hist' = (IF Emit THEN Append(hist, s) ELSE hist)

JSet(k, v) == /\ Idle /\ mem' = [mem EXCEPT ![k] = v] /\ dirty' = TRUE /\ nops' = nops + 1
              /\ Log("jset " \o ToString(k) \o " " \o ToString(v))
              /\ UNCHANGED <<file, tmpf, cur, pc, fl, up, dur, ncrash, ok>>
JRm(k) == /\ Idle /\ mem' = [mem EXCEPT ![k] = 0] /\ dirty' = (dirty \/ mem[k] # 0) /\ nops' = nops + 1
          /\ Log("jrm " \o ToString(k))
          /\ UNCHANGED <<file, tmpf, cur, pc, fl, up, dur, ncrash, ok>>

CallFlush == /\ Idle /\ cur' = "flush" /\ fl' = mem
             /\ pc' = IF ~dirty THEN <<>>
                      ELSE IF Dev_JsonSaveTruncatesInPlace THEN <<"OpenTrunc", "Write">>
                      ELSE <<"OpenTmp", "WriteTmp", "Rename">>
             /\ UNCHANGED <<file, tmpf, mem, dirty, up, dur, nops, ncrash, ok, hist>>
RetFlush == /\ up /\ cur = "flush" /\ pc = <<>>
            /\ dur' = mem /\ dirty' = FALSE /\ cur' = "none" /\ nops' = nops + 1 /\ Log("jflush")
            /\ UNCHANGED <<file, tmpf, mem, pc, fl, up, ncrash, ok>>

Stepping(t) == up /\ pc # <<>> /\ Head(pc) = t /\ pc' = Tail(pc)
               /\ UNCHANGED <<mem, dirty, cur, fl, up, dur, nops, ncrash, ok, hist>>
StepOpenTrunc == Stepping("OpenTrunc") /\ file' = F("empty", EmptyMap) /\ UNCHANGED tmpf
StepWrite     == Stepping("Write") /\ file' = F("ok", mem) /\ UNCHANGED tmpf
StepOpenTmp   == Stepping("OpenTmp") /\ tmpf' = F("empty", EmptyMap) /\ UNCHANGED file
StepWriteTmp  == Stepping("WriteTmp") /\ tmpf' = F("ok", mem) /\ UNCHANGED file
StepRename    == Stepping("Rename") /\ file' = tmpf /\ tmpf' = NoFile

Die == /\ up' = FALSE /\ pc' = <<>> /\ ncrash' = ncrash + 1
       /\ UNCHANGED <<mem, dirty, cur, fl, dur, nops, ok, hist>>
CrashBetween == up /\ ncrash < MaxCrash /\ Die /\ UNCHANGED <<file, tmpf>>
CrashInWrite == /\ up /\ ncrash < MaxCrash /\ pc # <<>> /\ Head(pc) \in {"Write", "WriteTmp"} /\ Die
                /\ IF Head(pc) = "Write" THEN file' = F("torn", EmptyMap) /\ UNCHANGED tmpf
                                         ELSE tmpf' = F("torn", EmptyMap) /\ UNCHANGED file

CleanClose == /\ Idle /\ ~dirty /\ up' = FALSE /\ nops' = nops + 1 /\ Log("reopen")
              /\ UNCHANGED <<file, tmpf, mem, dirty, cur, pc, fl, dur, ncrash, ok>>

Reopen == /\ ~up
          /\ LET rec == IF file.st = "ok" THEN file.m ELSE EmptyMap IN      \* unparsable / empty / absent: starts empty
             /\ ok' = (ok /\ (rec = dur \/ (cur = "flush" /\ rec = fl)))
             /\ mem' = rec /\ dur' = rec
          /\ dirty' = FALSE /\ up' = TRUE
          /\ nops' = IF cur # "none" THEN nops + 1 ELSE nops
          /\ cur' = "none"
          /\ UNCHANGED <<file, tmpf, pc, fl, ncrash, hist>>

Next == \/ \E k \in Keys, v \in Vals : JSet(k, v)
        \/ \E k \in Keys : JRm(k)
        \/ CallFlush \/ RetFlush
        \/ StepOpenTrunc \/ StepWrite \/ StepOpenTmp \/ StepWriteTmp \/ StepRename
        \/ CrashBetween \/ CrashInWrite \/ CleanClose \/ Reopen
Spec == Init /\ [][Next]_vars

Inv_Recovered == ok
Inv_FileNeverTorn == Dev_JsonSaveTruncatesInPlace \/ file.st \in {"none", "ok"}   \* the store file itself is never torn

RECURSIVE JoinS(_)
JoinS(s) == IF s = <<>> THEN "" ELSE Head(s) \o (IF Len(s) > 1 THEN ";" ELSE "") \o JoinS(Tail(s))
EmitInv == (Emit /\ up /\ cur = "none" /\ nops = MaxOps) => PrintT("HIST " \o JoinS(hist))
===============================================================================
