----------------------------- MODULE JsonFileTrace -----------------------------
(* Abs oracle of C11, second clause (JsonFileStore): "the JSON file store reopens to the contents of its last *)
(* completed flush or of the flush in progress, never to an empty or unreadable store once a flush has        *)
(* completed".  State: `dur` = contents of the last completed flush (initially: no file = empty store),      *)
(* `mem` = contents of the running process, `pf` = a flush was in flight when the process was killed.         *)
(*   JOp jset/jrm   change mem only        JOp jflush (completed)   dur' = mem                                *)
(*   Close          the destructor's flush completed: dur' = mem                                              *)
(*   Crash(o)       pf' = (o = jflush)     Recovered(r)   r = dur, or r = mem if pf  - as a WHOLE map         *)
(* Background flusher (second actor, held by the driver at its first file operation):                          *)
(*   JOp jbg (v = 1)  the flusher has serialised the store while the application thread was idle: bimg' = mem,  *)
(*                    bok' = TRUE - its flush is "in progress" until it ends or until another flush completes   *)
(*                    (JOp jflush / Close: bok' = FALSE - an image OLDER than a completed flush is not           *)
(*                    admissible any more: the contents of the last completed flush are never lost)              *)
(*   JOp jbgdone      the application thread saw the flusher's pass end: if bok, its flush is the last completed *)
(*                    one (dur' = bimg).      Recovered(r): r = dur, or r = mem if pf, or r = bimg if bok.        *)
EXTENDS TraceBase, Integers

CONSTANT NK
VARIABLES dur, mem, pf, st, bimg, bok
vars == <<l, dur, mem, pf, st, bimg, bok>>

Keys == 1..NK
Empty == [k \in Keys |-> 0]

Init == l = 1 /\ dur = Empty /\ mem = Empty /\ pf = FALSE /\ st = "idle" /\ bimg = Empty /\ bok = FALSE

EvBegin == IsEv("Begin") /\ Ev.store = "json" /\ dur' = Empty /\ mem' = Empty /\ pf' = FALSE /\ st' = "up" /\ bimg' = Empty /\ bok' = FALSE
EvReset == IsEv("Reset") /\ dur' = Empty /\ mem' = Empty /\ pf' = FALSE /\ st' = "idle" /\ bimg' = Empty /\ bok' = FALSE
EvEnd   == IsEv("End") /\ UNCHANGED <<dur, mem, pf, st, bimg, bok>>

EvJOp == /\ IsEv("JOp") /\ st = "up"
         /\ CASE Ev.op = "jset"   -> mem' = [mem EXCEPT ![Ev.k] = Ev.v] /\ UNCHANGED <<dur, bimg, bok>>
              [] Ev.op = "jrm"    -> mem' = [mem EXCEPT ![Ev.k] = 0] /\ UNCHANGED <<dur, bimg, bok>>
              [] Ev.op = "jflush" -> dur' = mem /\ bok' = FALSE /\ UNCHANGED <<mem, bimg>>
              [] Ev.op = "jbg"    -> IF Ev.v = 1 THEN bimg' = mem /\ bok' = TRUE /\ UNCHANGED <<dur, mem>>
                                                 ELSE UNCHANGED <<dur, mem, bimg, bok>>
              [] Ev.op = "jbgdone" -> dur' = (IF bok THEN bimg ELSE dur) /\ bok' = FALSE /\ UNCHANGED <<mem, bimg>>
              [] OTHER            -> FALSE
         /\ UNCHANGED <<pf, st>>

EvCrash == /\ IsEv("Crash")
           /\ \/ st = "up" /\ pf' = (Ev.op = "jflush")
              \/ st = "down" /\ Ev.op = "nop" /\ UNCHANGED pf
           /\ st' = "down" /\ UNCHANGED <<dur, mem, bimg, bok>>

EvClose == IsEv("Close") /\ st = "up" /\ dur' = mem /\ st' = "down" /\ pf' = FALSE /\ bok' = FALSE /\ UNCHANGED <<mem, bimg>>

EvRecovered ==
    /\ IsEv("Recovered") /\ st = "down"
    /\ Ev.ok /\ Ev.extra = 0 /\ Len(Ev.vals) = NK
    /\ LET rec == [k \in Keys |-> Ev.vals[k]] IN
       /\ rec = dur \/ (pf /\ rec = mem) \/ (bok /\ rec = bimg)
       /\ dur' = rec /\ mem' = rec
    /\ pf' = FALSE /\ st' = "up" /\ bok' = FALSE /\ UNCHANGED bimg

Next == EvBegin \/ EvReset \/ EvEnd \/ EvJOp \/ EvCrash \/ EvClose \/ EvRecovered
Spec == Init /\ [][Next]_vars
================================================================================
