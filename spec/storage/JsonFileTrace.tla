----------------------------- MODULE JsonFileTrace -----------------------------
(* Abs oracle of C11, second clause (JsonFileStore): "the JSON file store reopens to the contents of its last *)
(* completed flush or of the flush in progress, never to an empty or unreadable store once a flush has        *)
(* completed".  State: `dur` = contents of the last completed flush (initially: no file = empty store),      *)
(* `mem` = contents of the running process, `pf` = a flush was in flight when the process was killed.         *)
(*   JOp jset/jrm   change mem only        JOp jflush (completed)   dur' = mem                                *)
(*   Close          the destructor's flush completed: dur' = mem                                              *)
(*   Crash(o)       pf' = (o = jflush)     Recovered(r)   r = dur, or r = mem if pf  - as a WHOLE map         *)
EXTENDS TraceBase, Integers

CONSTANT NK
VARIABLES dur, mem, pf, st
vars == <<l, dur, mem, pf, st>>

Keys == 1..NK
Empty == [k \in Keys |-> 0]

Init == l = 1 /\ dur = Empty /\ mem = Empty /\ pf = FALSE /\ st = "idle"

EvBegin == IsEv("Begin") /\ Ev.store = "json" /\ dur' = Empty /\ mem' = Empty /\ pf' = FALSE /\ st' = "up"
EvReset == IsEv("Reset") /\ dur' = Empty /\ mem' = Empty /\ pf' = FALSE /\ st' = "idle"
EvEnd   == IsEv("End") /\ UNCHANGED <<dur, mem, pf, st>>

EvJOp == /\ IsEv("JOp") /\ st = "up"
         /\ CASE Ev.op = "jset"   -> mem' = [mem EXCEPT ![Ev.k] = Ev.v] /\ UNCHANGED dur
              [] Ev.op = "jrm"    -> mem' = [mem EXCEPT ![Ev.k] = 0] /\ UNCHANGED dur
              [] Ev.op = "jflush" -> dur' = mem /\ UNCHANGED mem
              [] OTHER            -> FALSE
         /\ UNCHANGED <<pf, st>>

EvCrash == /\ IsEv("Crash")
           /\ \/ st = "up" /\ pf' = (Ev.op = "jflush")
              \/ st = "down" /\ Ev.op = "nop" /\ UNCHANGED pf
           /\ st' = "down" /\ UNCHANGED <<dur, mem>>

EvClose == IsEv("Close") /\ st = "up" /\ dur' = mem /\ st' = "down" /\ pf' = FALSE /\ UNCHANGED mem

EvRecovered ==
    /\ IsEv("Recovered") /\ st = "down"
    /\ Ev.ok /\ Ev.extra = 0 /\ Len(Ev.vals) = NK
    /\ LET rec == [k \in Keys |-> Ev.vals[k]] IN
       /\ rec = dur \/ (pf /\ rec = mem)
       /\ dur' = rec /\ mem' = rec
    /\ pf' = FALSE /\ st' = "up"

Next == EvBegin \/ EvReset \/ EvEnd \/ EvJOp \/ EvCrash \/ EvClose \/ EvRecovered
Spec == Init /\ [][Next]_vars
================================================================================
