------------------------------- MODULE KvAbs -------------------------------
(* C12 - the Abs reference: a plain map with a per-key ABSOLUTE expiry, evaluated at the moment of each read. *)
(* Shared by KvMap.tla (Impl, refinement invariant) and KvMapTrace.tla (oracle for recorded executions).      *)
(*                                                                                                            *)
(* A key's state is [val, exp]: val = 0 absent; exp = Inf no expiry, otherwise an absolute instant.           *)
(* Liveness at `now`:  exp > now.  The statement says "a key whose expiry has passed is never observable";    *)
(* whether a key is still visible AT the very instant now = exp is not fixed by it, so the oracle has a        *)
(* parameter bl ("boundary live"): bl = FALSE reads exp > now (what the code does), bl = TRUE reads exp >= now.*)
(* The trace specification picks bl once per execution - ALL read paths have to agree with ONE reading.       *)
(*                                                                                                            *)
(* An expired key is absent for every operation, not only for reads: background eviction may remove it at any *)
(* moment, and the result of expireAt / persist must not depend on whether it already has ("whether or not     *)
(* background eviction has run").  So expireAt / persist on an expired key are no-ops like on an absent key.   *)
(*                                                                                                            *)
(* Operation record o = [op, k, v, d, t, ks, vs, u]:  set k v | setttl k v d (d = TTL) | rm k | exp k t (absolute)*)
(*   | per k | batch ks vs d (d = 0: plain) | clear | rmp k (k = id of a PREFIX of key universe u: every key   *)
(*   whose byte string starts with it) | anything else: no change of the map (compact, reopen, get, tick, ...)  *)
(*                                                                                                            *)
(* Keys are BYTE STRINGS.  The key ids 1..3 of the specifications stand for the byte strings of a "key        *)
(* universe" u (tables below; the driver logs its own tables and the trace specification compares them):       *)
(*   u = 0   "a\0b", "a\xff\xfe\x01", 65535 x 'k' (longest legal key)                                          *)
(*   u = 1   binary keys that are prefixes of each other and differ only AFTER an embedded NUL byte:           *)
(*           "a\0", "a\0b", "a"                                                                                *)
(* and six prefixes per universe (with embedded NUL, empty, equal to a key, longer than every key, agreeing    *)
(* with a key up to the NUL and differing after it).  "k has prefix p" is decided HERE, on the byte strings:   *)
(* length(p) <= length(k) and the first length(p) bytes are equal - every byte value counts, 0x00 included.    *)
(* A byte string is [pre, fill, n]: the bytes of pre, then `fill` repeated up to the length n.                 *)
EXTENDS Integers, Sequences, FiniteSets

Inf == 1000000
NoKey == [val |-> 0, exp |-> 0]
SeqRange(s) == {s[i] : i \in 1..Len(s)}
IdxOf(s, x) == CHOOSE i \in 1..Len(s) : s[i] = x

Str(bytes) == [pre |-> bytes, fill |-> 0, n |-> Len(bytes)]
Rep(b, n) == [pre |-> <<>>, fill |-> b, n |-> n]
ByteAt(s, i) == IF i <= Len(s.pre) THEN s.pre[i] ELSE s.fill
NPfx == 6
KeyStr(u, k) ==
    IF u = 0 THEN CASE k = 1 -> Str(<<97, 0, 98>>) [] k = 2 -> Str(<<97, 255, 254, 1>>) [] OTHER -> Rep(107, 65535)
             ELSE CASE k = 1 -> Str(<<97, 0>>)     [] k = 2 -> Str(<<97, 0, 98>>)       [] OTHER -> Str(<<97>>)
PfxStr(u, p) ==
    IF u = 0 THEN CASE p = 1 -> Str(<<97>>)        [] p = 2 -> Str(<<>>)          [] p = 3 -> Str(<<97, 0>>)
                    [] p = 4 -> Str(<<97, 0, 98, 0>>) [] p = 5 -> Str(<<107, 107>>) [] OTHER -> Str(<<97, 255>>)
             ELSE CASE p = 1 -> Str(<<97, 0>>)     [] p = 2 -> Str(<<97, 0, 98>>) [] p = 3 -> Str(<<97, 0, 99>>)
                    [] p = 4 -> Str(<<97, 0, 98, 0>>) [] p = 5 -> Str(<<0>>)       [] OTHER -> Str(<<97>>)
IsPrefixOf(p, s) == p.n <= s.n /\ \A i \in 1..p.n : ByteAt(p, i) = ByteAt(s, i)
HasPrefix(u, k, p) == IsPrefixOf(PfxStr(u, p), KeyStr(u, k))
(* the deviation class "C string comparison": strncmp(key, prefix, length(prefix)) = 0 - stops at the first NUL of  *)
(* either operand (a string that has ended reads as NUL)                                                          *)
CByte(s, i) == IF i <= s.n THEN ByteAt(s, i) ELSE 0
CStrPrefix(p, s) == \A i \in 1..p.n : (\A j \in 1..(i - 1) : CByte(p, j) = CByte(s, j) /\ CByte(p, j) # 0) => CByte(p, i) = CByte(s, i)

LiveAt(e, now, bl) == e > now \/ (bl /\ e = now)
Live(m, k, now, bl) == m[k].val # 0 /\ LiveAt(m[k].exp, now, bl)

AbsEff(o, m, now, bl) ==
    CASE o.op = "set"    -> [m EXCEPT ![o.k] = [val |-> o.v, exp |-> Inf]]          \* plain overwrite clears the expiry
      [] o.op = "setttl" -> [m EXCEPT ![o.k] = [val |-> o.v, exp |-> now + o.d]]
      [] o.op = "rm"     -> [m EXCEPT ![o.k] = NoKey]
      [] o.op = "exp"    -> IF Live(m, o.k, now, bl) THEN [m EXCEPT ![o.k] = [val |-> m[o.k].val, exp |-> o.t]] ELSE m
      [] o.op = "per"    -> IF Live(m, o.k, now, bl) THEN [m EXCEPT ![o.k] = [val |-> m[o.k].val, exp |-> Inf]] ELSE m
      [] o.op = "batch"  -> [k \in DOMAIN m |-> IF k \in SeqRange(o.ks)
                                THEN [val |-> o.vs[IdxOf(o.ks, k)], exp |-> IF o.d = 0 THEN Inf ELSE now + o.d]
                                ELSE m[k]]
      [] o.op = "clear"  -> [k \in DOMAIN m |-> NoKey]
      [] o.op = "rmp"    -> [k \in DOMAIN m |-> IF HasPrefix(o.u, k, o.k) THEN NoKey ELSE m[k]]
      [] OTHER           -> m

(* the read APIs as projections of {k : Live(k)} *)
AbsGet(m, k, now, bl)  == IF Live(m, k, now, bl) THEN m[k].val ELSE 0
AbsKeys(m, now, bl)    == {k \in DOMAIN m : Live(m, k, now, bl)}
AbsPfx(m, u, p, now, bl) == {k \in AbsKeys(m, now, bl) : HasPrefix(u, k, p)}
AbsTtl(m, k, now, bl)  == IF Live(m, k, now, bl) /\ m[k].exp # Inf THEN m[k].exp - now ELSE -1
=============================================================================
