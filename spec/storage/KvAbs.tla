------------------------------- MODULE KvAbs -------------------------------
(* C12 - the Abs reference: a plain map with a per-key ABSOLUTE expiry, evaluated at the moment of each read. *)
(* Shared by KvMap.tla (Impl, refinement invariant) and KvMapTrace.tla (oracle for recorded executions).      *)
(*                                                                                                            *)
(* A key's state is [val, exp]: val = 0 absent; exp = Inf no expiry, otherwise an absolute instant.           *)
(* Liveness at `now`:  exp > now.  The statement says "a key whose expiry has passed is never observable";    *)
(* whether a key is still visible AT the very instant now = exp is not fixed by it, so the oracle has a        *)
(* parameter bl ("boundary live"): bl = FALSE reads exp > now (what the code does), bl = TRUE reads exp >= now.*)
(* The trace specification picks bl once per execution - ALL read paths have to agree with ONE reading.       *)
(*                                                                                                            *)
(* An expired key is absent for every operation, not only for reads: background eviction may remove it at any *)
(* moment, and the result of expireAt / persist must not depend on whether it already has ("whether or not     *)
(* background eviction has run").  So expireAt / persist on an expired key are no-ops like on an absent key.   *)
(*                                                                                                            *)
(* Operation record o = [op, k, v, d, t, ks, vs]:  set k v | setttl k v d (d = TTL) | rm k | exp k t (absolute)*)
(*   | per k | batch ks vs d (d = 0: plain) | clear | rmp ks (keys having the prefix) | anything else: no      *)
(*   change of the map (compact, reopen, get, tick, ...)                                                       *)
EXTENDS Integers, Sequences, FiniteSets

Inf == 1000000
NoKey == [val |-> 0, exp |-> 0]
SeqRange(s) == {s[i] : i \in 1..Len(s)}
IdxOf(s, x) == CHOOSE i \in 1..Len(s) : s[i] = x

LiveAt(e, now, bl) == e > now \/ (bl /\ e = now)
Live(m, k, now, bl) == m[k].val # 0 /\ LiveAt(m[k].exp, now, bl)

AbsEff(o, m, now, bl) ==
    CASE o.op = "set"    -> [m EXCEPT ![o.k] = [val |-> o.v, exp |-> Inf]]          \* plain overwrite clears the expiry
      [] o.op = "setttl" -> [m EXCEPT ![o.k] = [val |-> o.v, exp |-> now + o.d]]
      [] o.op = "rm"     -> [m EXCEPT ![o.k] = NoKey]
      [] o.op = "exp"    -> IF Live(m, o.k, now, bl) THEN [m EXCEPT ![o.k] = [val |-> m[o.k].val, exp |-> o.t]] ELSE m
      [] o.op = "per"    -> IF Live(m, o.k, now, bl) THEN [m EXCEPT ![o.k] = [val |-> m[o.k].val, exp |-> Inf]] ELSE m
      [] o.op = "batch"  -> [k \in DOMAIN m |-> IF k \in SeqRange(o.ks)
                                THEN [val |-> o.vs[IdxOf(o.ks, k)], exp |-> IF o.d = 0 THEN Inf ELSE now + o.d]
                                ELSE m[k]]
      [] o.op = "clear"  -> [k \in DOMAIN m |-> NoKey]
      [] o.op = "rmp"    -> [k \in DOMAIN m |-> IF k \in SeqRange(o.ks) THEN NoKey ELSE m[k]]
      [] OTHER           -> m

(* the read APIs as projections of {k : Live(k)} *)
AbsGet(m, k, now, bl)  == IF Live(m, k, now, bl) THEN m[k].val ELSE 0
AbsKeys(m, now, bl)    == {k \in DOMAIN m : Live(m, k, now, bl)}
AbsTtl(m, k, now, bl)  == IF Live(m, k, now, bl) /\ m[k].exp # Inf THEN m[k].exp - now ELSE -1
=============================================================================
