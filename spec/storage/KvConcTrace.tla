------------------------------ MODULE KvConcTrace ------------------------------
(* C12, concurrent part - Abs oracle for executions of the real KVStore under the deterministic scheduler:      *)
(* Call/Ret linearizability against the reference map with absolute expiry (KvAbs.tla).  Each call is two        *)
(* recorded events; its effect (Lin) takes place at some instant in between; TLC searches for a linearization.   *)
(* The store's own threads (wheel, eviction worker) are invisible: eviction never changes an Abs answer.         *)
(* Time: the driver uses only two expiry classes, "far past" and "far future", and virtual time drifts by        *)
(* seconds at most, so the map is evaluated at a constant now = 1 with past = 0 and future = 1000 (no boundary   *)
(* instant arises: bl = FALSE).  ttl() is judged by class: -1 none / absent / dead, 1 = has a remaining TTL.     *)
(* Reads: get k -> value id or 0; ex k -> 0/1; ttl k; getb -> value of every key; keys -> the live keys; size.   *)
(* Every concurrent read must be the Abs answer at its linearization point; the sequential read-back after all   *)
(* threads joined (thread "main") is squeezed between its own Call and Ret, i.e. must equal the final map - and    *)
(* so must the second read-back after the store was closed and reopened (event Reopen).                            *)
EXTENDS TraceBase, KvAbs

CONSTANT NK
VARIABLES m, pend
vars == <<l, m, pend>>

Keys == 1..NK
Now == 1
Past == 0
Future == 1000
Empty == [k \in Keys |-> NoKey]
Thr == {Log[i].t : i \in {j \in 1..Len(Log) : "t" \in DOMAIN Log[j]}}
Idle == [st |-> "idle", op |-> "-", k |-> 0, v |-> 0, rv |-> 0, rvs |-> <<>>]
Fresh == [t \in Thr |-> Idle]
B2I(b) == IF b THEN 1 ELSE 0

Init == l = 1 /\ m = Empty /\ pend = Fresh
EvBegin == IsEv("Begin") /\ Ev.nk = NK /\ m' = Empty /\ pend' = Fresh
EvReset == IsEv("Reset") /\ m' = Empty /\ pend' = Fresh

EvCall == /\ IsEv("Call") /\ pend[Ev.t].st = "idle"
          /\ pend' = [pend EXCEPT ![Ev.t] = [st |-> "called", op |-> Ev.op, k |-> Ev.k, v |-> Ev.v, rv |-> 0, rvs |-> <<>>]]
          /\ UNCHANGED m

AO(op, k, v, d, t) == [op |-> op, k |-> k, v |-> v, d |-> d, t |-> t, ks |-> <<>>, vs |-> <<>>]
AbsOp(o, k, v) == CASE o = "set"   -> AO("set", k, v, 0, 0)
                    [] o = "setx"  -> AO("setttl", k, v, Future - Now, 0)
                    [] o = "rm"    -> AO("rm", k, 0, 0, 0)
                    [] o = "expf"  -> AO("exp", k, 0, 0, Future)
                    [] o = "expp"  -> AO("exp", k, 0, 0, Past)
                    [] o = "per"   -> AO("per", k, 0, 0, 0)
                    [] o = "clear" -> AO("clear", 0, 0, 0, 0)
                    [] OTHER       -> AO("nop", 0, 0, 0, 0)          \* compact and all reads
SortedLive(mm) == LET live == AbsKeys(mm, Now, FALSE) IN
                  [i \in 1..Cardinality(live) |-> CHOOSE k \in live : Cardinality({j \in live : j < k}) = i - 1]

Lin(t) == /\ pend[t].st = "called"
          /\ LET o == pend[t].op  k == pend[t].k IN
             /\ m' = AbsEff(AbsOp(o, k, pend[t].v), m, Now, FALSE)
             /\ pend' = [pend EXCEPT ![t] = [@ EXCEPT !.st = "lin",
                           !.rv = CASE o = "get"  -> AbsGet(m, k, Now, FALSE)
                                    [] o = "ex"   -> B2I(Live(m, k, Now, FALSE))
                                    [] o = "ttl"  -> IF AbsTtl(m, k, Now, FALSE) = -1 THEN -1 ELSE 1
                                    [] o = "size" -> Cardinality(AbsKeys(m, Now, FALSE))
                                    [] OTHER      -> 0,
                           !.rvs = CASE o = "getb" -> [j \in Keys |-> AbsGet(m, j, Now, FALSE)]
                                     [] o = "keys" -> SortedLive(m)
                                     [] OTHER      -> <<>>]]
          /\ UNCHANGED l

EvRet == /\ IsEv("Ret") /\ pend[Ev.t].st = "lin" /\ pend[Ev.t].op = Ev.op
         /\ Ev.rv = pend[Ev.t].rv /\ Ev.rvs = pend[Ev.t].rvs
         /\ pend' = [pend EXCEPT ![Ev.t] = Idle] /\ UNCHANGED m

(* clean close + reopen by the main thread after everything joined: the map is untouched - whatever is read back   *)
(* from the reopened store is judged against the map the concurrent phase's linearization produced                *)
EvReopen == IsEv("Reopen") /\ (\A t \in Thr : pend[t].st = "idle") /\ UNCHANGED <<m, pend>>

EvEnd == IsEv("End") /\ Ev.outcome = "done" /\ (\A t \in Thr : pend[t].st = "idle") /\ UNCHANGED <<m, pend>>

Next == EvBegin \/ EvReset \/ EvCall \/ EvRet \/ EvReopen \/ EvEnd \/ \E t \in Thr : Lin(t)
Spec == Init /\ [][Next]_vars
===============================================================================
