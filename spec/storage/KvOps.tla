------------------------------- MODULE KvOps -------------------------------
(* Pure operators shared by the C11 specifications (KvLog = Impl, KvLogTrace = Abs oracle).               *)
(* A key's state is a record [val, exp]: val = 0 means absent, exp = 0 means "no expiry"; an expiry is a    *)
(* small id standing for an absolute instant far in the future (C11 runs under a frozen wall clock, so no  *)
(* key ever expires - expiry is just part of the value that has to be recovered).                          *)
(* An operation is a record [op, k, v, e, ks, vs]:                                                          *)
(*   set k v | setx k v e (set with expiry) | rm k | exp k e (expireAt) | per k (persist)                   *)
(*   batch ks vs e (setBatch, e = 0: plain) | clear | rmp ks (removeWithPrefix; ks = the keys that have    *)
(*   the prefix) | compact | nop                                                                            *)
EXTENDS Integers, Sequences, FiniteSets

NoKey == [val |-> 0, exp |-> 0]
Nop == [op |-> "nop", k |-> 0, v |-> 0, e |-> 0, ks |-> <<>>, vs |-> <<>>]
Op(o, k, v, e) == [op |-> o, k |-> k, v |-> v, e |-> e, ks |-> <<>>, vs |-> <<>>]
OpB(o, ks, vs, e) == [op |-> o, k |-> 0, v |-> 0, e |-> e, ks |-> ks, vs |-> vs]

Present(m, k) == m[k].val # 0
SeqRange(s) == {s[i] : i \in 1..Len(s)}
IdxOf(s, x) == CHOOSE i \in 1..Len(s) : s[i] = x

(* the effect of a COMPLETED operation on the map (the plain reference-map reading of the API) *)
Eff(o, m) ==
    CASE o.op = "set"   -> [m EXCEPT ![o.k] = [val |-> o.v, exp |-> 0]]
      [] o.op = "setx"  -> [m EXCEPT ![o.k] = [val |-> o.v, exp |-> o.e]]
      [] o.op = "rm"    -> [m EXCEPT ![o.k] = NoKey]
      [] o.op = "exp"   -> IF Present(m, o.k) THEN [m EXCEPT ![o.k] = [val |-> m[o.k].val, exp |-> o.e]] ELSE m
      [] o.op = "per"   -> IF Present(m, o.k) THEN [m EXCEPT ![o.k] = [val |-> m[o.k].val, exp |-> 0]] ELSE m
      [] o.op = "batch" -> [k \in DOMAIN m |-> IF k \in SeqRange(o.ks)
                                               THEN [val |-> o.vs[IdxOf(o.ks, k)], exp |-> o.e] ELSE m[k]]
      [] o.op = "clear" -> [k \in DOMAIN m |-> NoKey]
      [] o.op = "rmp"   -> [k \in DOMAIN m |-> IF k \in SeqRange(o.ks) THEN NoKey ELSE m[k]]
      [] OTHER          -> m          \* compact, nop, reopen

(* what a reopen after a crash may show for key k: the last completed effect, or - if k is touched by the *)
(* operation that was in flight - its new state.  Keys are judged independently (the statement says "a key *)
(* touched by the operation in flight may show either its old or its new state").                          *)
Admissible(m, inflight, k) == {m[k], Eff(inflight, m)[k]}
=============================================================================
