------------------------------- MODULE KvOps -------------------------------
(* Pure operators shared by the C11 specifications (KvLog = Impl, KvLogTrace = Abs oracle).               *)
(* A key's state is a record [val, exp]: val = 0 means absent, exp = 0 means "no expiry", otherwise exp is  *)
(* an ABSOLUTE instant on a small clock: the wall clock of the C11 runs has two values, now = 0 ("early")   *)
(* and now = Late = 3 (after one `tick`).  An operation names an expiry by an id e: expireAt(k, e) means    *)
(* the instant 2e, set-with-TTL e means now + 2e - so id 1 set early (instant 2) has passed when the clock  *)
(* is late, id 2 (instant 4) and everything set late has not.  A key whose expiry has passed is ABSENT -    *)
(* for a reopen (Norm) and for expireAt / persist (no-ops on it) - exactly as in C12's reference map.       *)
(* An operation is a record [op, k, v, e, ks, vs]:                                                          *)
(*   set k v | setx k v e (set with TTL) | rm k | exp k e (expireAt) | per k (persist)                       *)
(*   batch ks vs e (setBatch, e = 0: plain) | clear | rmp ks (removeWithPrefix; ks = the keys that have    *)
(*   the prefix) | compact | tick | nop                                                                     *)
EXTENDS Integers, Sequences, FiniteSets

NoKey == [val |-> 0, exp |-> 0]
Nop == [op |-> "nop", k |-> 0, v |-> 0, e |-> 0, ks |-> <<>>, vs |-> <<>>]
Op(o, k, v, e) == [op |-> o, k |-> k, v |-> v, e |-> e, ks |-> <<>>, vs |-> <<>>]
OpB(o, ks, vs, e) == [op |-> o, k |-> 0, v |-> 0, e |-> e, ks |-> ks, vs |-> vs]

Present(m, k) == m[k].val # 0
SeqRange(s) == {s[i] : i \in 1..Len(s)}
IdxOf(s, x) == CHOOSE i \in 1..Len(s) : s[i] = x

Late == 3
Dead(st, now) == st.val # 0 /\ st.exp # 0 /\ st.exp <= now
Norm(st, now) == IF Dead(st, now) THEN NoKey ELSE st
LiveK(m, k, now) == Present(m, k) /\ ~Dead(m[k], now)
Abs2(e) == 2 * e                          \* expireAt(k, id e)
Rel2(e, now) == IF e = 0 THEN 0 ELSE now + 2 * e    \* TTL id e taken at `now`

(* the effect of a COMPLETED operation, called when the clock showed `now`, on the map (the plain reference-map *)
(* reading of the API) *)
EffT(o, m, now) ==
    CASE o.op = "set"   -> [m EXCEPT ![o.k] = [val |-> o.v, exp |-> 0]]
      [] o.op = "setx"  -> [m EXCEPT ![o.k] = [val |-> o.v, exp |-> Rel2(o.e, now)]]
      [] o.op = "rm"    -> [m EXCEPT ![o.k] = NoKey]
      [] o.op = "exp"   -> IF LiveK(m, o.k, now) THEN [m EXCEPT ![o.k] = [val |-> m[o.k].val, exp |-> Abs2(o.e)]] ELSE m
      [] o.op = "per"   -> IF LiveK(m, o.k, now) THEN [m EXCEPT ![o.k] = [val |-> m[o.k].val, exp |-> 0]] ELSE m
      [] o.op = "batch" -> [k \in DOMAIN m |-> IF k \in SeqRange(o.ks)
                                               THEN [val |-> o.vs[IdxOf(o.ks, k)], exp |-> Rel2(o.e, now)] ELSE m[k]]
      [] o.op = "clear" -> [k \in DOMAIN m |-> NoKey]
      [] o.op = "rmp"   -> [k \in DOMAIN m |-> IF k \in SeqRange(o.ks) THEN NoKey ELSE m[k]]
      [] OTHER          -> m          \* compact, tick, nop, reopen

(* what a reopen at clock nowRec may show for key k: the last completed effect, or - if k is touched by the   *)
(* operation that was in flight (called at clock nowCall) - its new state; in both cases absent if that state's *)
(* expiry has passed by nowRec.  Keys are judged independently (the statement says "a key touched by the      *)
(* operation in flight may show either its old or its new state").                                            *)
AdmissibleT(m, inflight, k, nowCall, nowRec) == {Norm(m[k], nowRec), Norm(EffT(inflight, m, nowCall)[k], nowRec)}
=============================================================================
