------------------------------- MODULE KvLog -------------------------------
(* C11 - Impl specification of iora::storage::KVStore persistence (include/iora/storage/kvstore.hpp).       *)
(*                                                                                                          *)
(* The three files are abstract values:                                                                     *)
(*   snap  <path>      absent, or the map a compaction wrote (load() is strict about it)                     *)
(*   log   <path>.log  a list of records; the last ones may be torn by a crash inside an append:             *)
(*                     PartialLen (1-3 bytes of the length prefix), LenOnly, PartialBody, NoCrc              *)
(*   tmp   <path>.tmp  absent | partial | full temporary snapshot                                            *)
(* An API call (Call) updates the in-memory map and expands into the list `pc` of file operations the code  *)
(* issues for it (writeLogEntry = one flushed append per record; compactLocked = WriteTmp ; Rename ;        *)
(* CloseLog ; TruncLog ; OpenAppend).  Every file operation is one action; the process may be killed         *)
(* between any two of them (CrashBetween) and inside an append or the temp-file write (CrashInAppend(kind),  *)
(* CrashInWriteTmp).  Reopen is load() - snapshot, then log records up to the first incomplete one - followed*)
(* by the truncation of the log to the last good offset and the re-open in append mode.                      *)
(*                                                                                                          *)
(* Property (invariant Inv_Recovered): whenever the store is reopened, every key shows the effect of the    *)
(* last COMPLETED operation on it (`base`), or - if it is touched by the operation that was in flight at the *)
(* crash (`cur`) - its new state; the recovered map becomes the new baseline, so the same is demanded again  *)
(* after any continuation (more operations, another crash or a clean close, another reopen).                 *)
(*                                                                                                          *)
(* Deviations (CONSTANT Dev_*, default FALSE):                                                              *)
(*   Dev_TornTailNotTruncated  F-11a: the code as found reopened the log in append mode without cutting off *)
(*                             a torn tail; records acknowledged afterwards sit behind the torn record and   *)
(*                             are swallowed by its length on the NEXT load.                                 *)
(*   Dev_TruncLogBeforeRename  a design mutation used as self-test: compaction resets the log before the    *)
(*                             snapshot rename.                                                              *)
(*   Dev_SnapshotExpiryCheckedEarly  (seeded-change class; F-12b was its general form) load() inserts a     *)
(*                             snapshot entry that carries an expiry only if that expiry is later than the   *)
(*                             clock at load time, while log records are replayed first and judged after:   *)
(*                             a key set with a TTL, compacted into the snapshot and then made permanent     *)
(*                             (persist) or extended (expireAt) by an 'X' record - which carries no value    *)
(*                             and is an orphan once the entry was skipped - is lost by a reopen after the   *)
(*                             ORIGINAL deadline although the acknowledged state is permanent / later.       *)
(*   Dev_CutCountsAppliedOnly  (seeded-change class) load() advances its "good offset" only for the records  *)
(*                             it APPLIED: a record it legitimately skips - an orphan 'X' (expireAt/persist)  *)
(*                             record for a key that a later 'D' deleted, replayed over a NEW snapshot after a *)
(*                             kill between the snapshot rename and the log reset - is not counted, the        *)
(*                             torn-tail cut then removes that many bytes from the END of a healthy log: the   *)
(*                             last record(s) are gone / torn from the SECOND reopen on, and whatever is       *)
(*                             acknowledged after the first reopen sits behind a torn record.                  *)
(*   Dev_CompactInsideAppend   (seeded-change class) the size check maybeCompact() runs inside every          *)
(*                             writeLogEntry().  clear() is LOG-FIRST (one 'D' per key while the map is still  *)
(*                             full, pseudo step MemClear afterwards): a compaction in the middle of it        *)
(*                             snapshots every key and resets the log - the keys deleted so far are back.      *)
(* Size-triggered compaction: MaxLog > 0 is maxLogSizeBytes counted in records (background compaction off):   *)
(* set / set-with-TTL / remove / setBatch / clear call maybeCompact() after their log writes (removeWithPrefix *)
(* is one remove() per key; expireAt / persist never check) and run compactLocked() inline when the log is     *)
(* longer than MaxLog.                                                                                        *)
(* Clock: now = 0, or Late after TimePasses (once; also while the store is down).  Expiries are absolute    *)
(* (KvOps); load() replays everything and drops the keys whose FINAL expiry has passed (Norm).               *)
(* Generator mode (Emit = TRUE, MaxCrash = 0): every maximal history is printed as a driver case line; the   *)
(* driver then crashes the REAL store at every file operation / byte cut of that history.                    *)
(* GenFilter selects a directed family (ghost `mark`): "orphan" = histories with a compaction at whose rename  *)
(* the log holds an 'X' record that a replay over the NEW snapshot skips and that is followed by further       *)
(* records; "clear2" = histories with a clear() of a store holding at least two keys (run by the driver with   *)
(* every log-size limit that falls between two records of the history).                                        *)
EXTENDS KvOps, TLC

CONSTANTS NK, NV, NE,                \* keys 1..NK, values 1..NV, expiry ids 1..NE
          MaxOps, MaxCrash,
          OpKinds,                   \* the operation kinds enabled in this configuration
          Dev_TornTailNotTruncated, Dev_TruncLogBeforeRename, Dev_SnapshotExpiryCheckedEarly,
          Dev_CutCountsAppliedOnly, Dev_CompactInsideAppend,
          MaxLog,                    \* size limit of the log in records (0 = never reached)
          Emit, GenFilter            \* generator mode; "" | "orphan" | "clear2"

Keys == 1..NK
Vals == 1..NV
Exps == 1..NE
EmptyMap == [k \in Keys |-> NoKey]
TornKinds == {"PartialLen", "LenOnly", "PartialBody", "NoCrc"}
PrefixKeys == IF NK >= 2 THEN <<1, 2>> ELSE <<1>>      \* keys 1 and 2 share the prefix, key 3 does not

VARIABLES snap, log, tmp, logOpen,   \* the files (+ whether the append stream is open)
          mem,                       \* in-memory map of the running process (_kv/_expiry)
          cur, pc, cnow,             \* API call in flight, its remaining file operations, the clock when it was called
          now,                       \* wall clock: 0 or Late
          up,                        \* process alive?
          base,                      \* ghost: map after the last completed operation (Abs baseline)
          nops, ncrash, ok,
          hist, fhist,               \* generator mode only: API history and the file operations it issued
          mark                       \* generator mode only: the history belongs to the family GenFilter
vars == <<snap, log, tmp, logOpen, mem, cur, pc, cnow, now, up, base, nops, ncrash, ok, hist, fhist, mark>>

NoRec == [op |-> "-", k |-> 0, v |-> 0, e |-> 0, torn |-> "ok"]
Rec(o, k, v, e) == [op |-> o, k |-> k, v |-> v, e |-> e, torn |-> "ok"]
NoTmp == [st |-> "none", m |-> EmptyMap]
FOp(t, r) == [t |-> t, r |-> r]

(* ------------------------------------------------------------------ load(): replay of the log records *)
ApplyRec(m, r) ==
    CASE r.op = "S" -> [m EXCEPT ![r.k] = [val |-> r.v, exp |-> 0]]
      [] r.op = "E" -> [m EXCEPT ![r.k] = [val |-> r.v, exp |-> r.e]]
      [] r.op = "D" -> [m EXCEPT ![r.k] = NoKey]
      [] r.op = "X" -> IF Present(m, r.k) THEN [m EXCEPT ![r.k] = [val |-> m[r.k].val, exp |-> r.e]] ELSE m
      [] OTHER      -> m
RECURSIVE Replay(_, _)
Replay(m, lg) == IF lg = <<>> THEN m ELSE Replay(ApplyRec(m, Head(lg)), Tail(lg))

(* number of leading complete records: load() stops at the first incomplete one.  When records have been   *)
(* appended BEHIND a torn one (Dev_TornTailNotTruncated) the torn record's length prefix makes the loader   *)
(* read across them: CRC mismatch, skip by length, misaligned garbage - nothing behind it is recovered.     *)
GoodLen(lg) == IF \A i \in 1..Len(lg) : lg[i].torn = "ok" THEN Len(lg)
               ELSE (CHOOSE i \in 1..Len(lg) : lg[i].torn # "ok" /\ \A j \in 1..(i - 1) : lg[j].torn = "ok") - 1

(* load() SKIPS record i (and goes on with the next one): the only such record a healthy store ever writes is  *)
(* an 'X' record whose key is not there when it is replayed (m0 = the snapshot load() started from).            *)
Skipped(m0, lg, i) == lg[i].op = "X" /\ ~Present(Replay(m0, SubSeq(lg, 1, i - 1)), lg[i].k)
SkipsMid(m0, lg) == \E i \in 1..(Len(lg) - 1) : Skipped(m0, lg, i)

(* ------------------------------------------------------------------ the API alphabet *)
AllOps ==
    {Op("set", k, v, 0) : k \in Keys, v \in Vals}
    \cup {Op("setx", k, v, e) : k \in Keys, v \in Vals, e \in Exps}
    \cup {Op("rm", k, 0, 0) : k \in Keys}
    \cup {Op("exp", k, 0, e) : k \in Keys, e \in Exps}
    \cup {Op("per", k, 0, 0) : k \in Keys}
    \cup (IF NK >= 2 THEN {OpB("batch", <<1, 2>>, <<a, b>>, 0) : a \in Vals, b \in Vals \ {1}}
                          \cup {OpB("batch", <<1, 2>>, <<1, NV>>, 1)} ELSE {})
    \cup {OpB("clear", <<>>, <<>>, 0), OpB("rmp", PrefixKeys, <<>>, 0), Op("compact", 0, 0, 0)}
Ops == {o \in AllOps : o.op \in OpKinds}

Orders == {s \in [1..NK -> Keys] : \A i, j \in 1..NK : i # j => s[i] # s[j]}   \* unordered_map iteration orders

CompactSeq ==
    IF Dev_TruncLogBeforeRename
    THEN <<FOp("WriteTmp", NoRec), FOp("CloseLog", NoRec), FOp("TruncLog", NoRec), FOp("Rename", NoRec), FOp("OpenAppend", NoRec)>>
    ELSE <<FOp("WriteTmp", NoRec), FOp("Rename", NoRec), FOp("CloseLog", NoRec), FOp("TruncLog", NoRec), FOp("OpenAppend", NoRec)>>

(* the log records operation o appends when the in-memory map is m (BEFORE the call) *)
Recs(o, m, ord, t) ==
    CASE o.op = "set"   -> <<FOp("Append", Rec("S", o.k, o.v, 0))>>
      [] o.op = "setx"  -> <<FOp("Append", Rec("E", o.k, o.v, Rel2(o.e, t)))>>
      [] o.op = "rm"    -> IF Present(m, o.k) THEN <<FOp("Append", Rec("D", o.k, 0, 0))>> ELSE <<>>
      [] o.op = "exp"   -> IF LiveK(m, o.k, t) THEN <<FOp("Append", Rec("X", o.k, 0, Abs2(o.e)))>> ELSE <<>>
      [] o.op = "per"   -> IF LiveK(m, o.k, t) /\ m[o.k].exp # 0 THEN <<FOp("Append", Rec("X", o.k, 0, 0))>> ELSE <<>>
      [] o.op = "batch" -> LET sel == SelectSeq(ord, LAMBDA k : k \in SeqRange(o.ks)) IN
                           [i \in 1..Len(sel) |->
                               FOp("Append", Rec(IF o.e = 0 THEN "S" ELSE "E", sel[i], o.vs[IdxOf(o.ks, sel[i])], Rel2(o.e, t)))]
      [] o.op = "clear" -> LET sel == SelectSeq(ord, LAMBDA k : Present(m, k)) IN
                           [i \in 1..Len(sel) |-> FOp("Append", Rec("D", sel[i], 0, 0))]
      [] o.op = "rmp"   -> LET sel == SelectSeq(ord, LAMBDA k : k \in SeqRange(o.ks) /\ LiveK(m, k, t)) IN
                           [i \in 1..Len(sel) |-> FOp("Append", Rec("D", sel[i], 0, 0))]
      [] OTHER -> <<>>

(* appends with the size check after each one; n = records in the log before.  -> [ops, n] *)
RECURSIVE Inl(_, _)
Inl(recs, n) == IF recs = <<>> THEN [ops |-> <<>>, n |-> n]
                ELSE IF n + 1 > MaxLog
                     THEN LET r == Inl(Tail(recs), 0) IN [ops |-> <<Head(recs)>> \o CompactSeq \o r.ops, n |-> r.n]
                     ELSE LET r == Inl(Tail(recs), n + 1) IN [ops |-> <<Head(recs)>> \o r.ops, n |-> r.n]

(* file operations (and the pseudo step MemClear) the code issues for operation o; n = Len(log) at the call *)
FileOps(o, m, ord, t, n) ==
    LET recs == Recs(o, m, ord, t)
        post == IF o.op = "clear" THEN <<FOp("MemClear", NoRec)>> ELSE <<>>
        endCheck == o.op \in {"set", "setx", "batch", "clear"} \/ (o.op \in {"rm", "rmp"} /\ recs # <<>>) IN
    IF o.op = "compact" THEN CompactSeq
    ELSE IF MaxLog = 0 THEN recs \o post
    ELSE IF Dev_CompactInsideAppend \/ o.op = "rmp"
         THEN LET r == Inl(recs, n) IN r.ops \o post \o (IF endCheck /\ r.n > MaxLog THEN CompactSeq ELSE <<>>)
         ELSE recs \o post \o (IF endCheck /\ n + Len(recs) > MaxLog THEN CompactSeq ELSE <<>>)

Init == /\ snap = [present |-> FALSE, m |-> EmptyMap] /\ log = <<>> /\ tmp = NoTmp /\ logOpen = TRUE
        /\ mem = EmptyMap /\ cur = Nop /\ pc = <<>> /\ cnow = 0 /\ now = 0 /\ up = TRUE /\ base = EmptyMap
        /\ nops = 0 /\ ncrash = 0 /\ ok = TRUE /\ hist = <<>> /\ fhist = <<>> /\ mark = FALSE

(* ------------------------------------------------------------------ API call / return *)
Call(o, ord) ==
    /\ up /\ cur = Nop /\ pc = <<>> /\ nops < MaxOps
    /\ cur' = o /\ cnow' = now
    /\ mem' = (IF o.op = "clear" THEN mem ELSE EffT(o, mem, now))   \* memory first, then the log - except clear()
    /\ pc' = FileOps(o, mem, ord, now, Len(log))
    /\ (GenFilter = "" \/ pc' # <<>>)      \* directed families: no calls that touch no file
    /\ mark' = (mark \/ (GenFilter = "orphan" /\ o.op = "compact" /\ SkipsMid([k \in Keys |-> Norm(mem[k], now)], log))
                     \/ (GenFilter = "clear2" /\ o.op = "clear" /\ Cardinality({k \in Keys : Present(mem, k)}) >= 2))
    /\ UNCHANGED <<snap, log, tmp, logOpen, now, up, base, nops, ncrash, ok, hist, fhist>>

Ret == /\ up /\ cur # Nop /\ pc = <<>>
       /\ base' = EffT(cur, base, cnow)
       /\ cur' = Nop /\ nops' = nops + 1
       /\ hist' = (IF Emit THEN Append(hist, cur) ELSE hist)
       /\ UNCHANGED <<snap, log, tmp, logOpen, mem, pc, cnow, now, up, ncrash, ok, fhist, mark>>

(* ------------------------------------------------------------------ file operations, one action each *)
SteppingM(t) == /\ up /\ pc # <<>> /\ Head(pc).t = t /\ pc' = Tail(pc)
                /\ fhist' = (IF Emit /\ t # "MemClear" THEN Append(fhist, t) ELSE fhist)
                /\ UNCHANGED <<cur, cnow, now, up, base, nops, ncrash, ok, hist, mark>>
Stepping(t) == SteppingM(t) /\ UNCHANGED mem

StepAppend     == Stepping("Append") /\ logOpen /\ log' = Append(log, Head(pc).r) /\ UNCHANGED <<snap, tmp, logOpen>>
StepWriteTmp   == Stepping("WriteTmp") /\ tmp' = [st |-> "full", m |-> [k \in Keys |-> Norm(mem[k], now)]]   \* survivors only
                  /\ UNCHANGED <<snap, log, logOpen>>
StepRename     == Stepping("Rename") /\ tmp.st = "full"
                  /\ snap' = [present |-> TRUE, m |-> tmp.m] /\ tmp' = NoTmp /\ UNCHANGED <<log, logOpen>>
StepCloseLog   == Stepping("CloseLog") /\ logOpen' = FALSE /\ UNCHANGED <<snap, log, tmp>>
StepTruncLog   == Stepping("TruncLog") /\ log' = <<>> /\ UNCHANGED <<snap, tmp, logOpen>>
StepOpenAppend == Stepping("OpenAppend") /\ logOpen' = TRUE /\ UNCHANGED <<snap, log, tmp>>
StepMemClear   == SteppingM("MemClear") /\ mem' = EmptyMap /\ UNCHANGED <<snap, log, tmp, logOpen>>   \* clear(): _kv.clear() after the 'D' records

(* ------------------------------------------------------------------ crashes and clean close *)
Die == /\ up' = FALSE /\ pc' = <<>> /\ mem' = EmptyMap /\ logOpen' = FALSE
       /\ UNCHANGED <<cur, cnow, now, base, nops, ok, hist, fhist, mark>>

CrashBetween == /\ up /\ ncrash < MaxCrash /\ ncrash' = ncrash + 1 /\ Die
                /\ UNCHANGED <<snap, log, tmp>>

CrashInAppend(kind) ==
    /\ up /\ ncrash < MaxCrash /\ pc # <<>> /\ Head(pc).t = "Append" /\ logOpen
    /\ log' = Append(log, [Head(pc).r EXCEPT !.torn = kind])
    /\ ncrash' = ncrash + 1 /\ Die /\ UNCHANGED <<snap, tmp>>

CrashInWriteTmp ==
    /\ up /\ ncrash < MaxCrash /\ pc # <<>> /\ Head(pc).t = "WriteTmp"
    /\ tmp' = [st |-> "partial", m |-> EmptyMap]
    /\ ncrash' = ncrash + 1 /\ Die /\ UNCHANGED <<snap, log>>

CleanClose == /\ up /\ cur = Nop /\ pc = <<>> /\ nops < MaxOps /\ "reopen" \in OpKinds
              /\ up' = FALSE /\ logOpen' = FALSE /\ mem' = EmptyMap
              /\ nops' = nops + 1
              /\ hist' = (IF Emit THEN Append(hist, Op("reopen", 0, 0, 0)) ELSE hist)
              /\ UNCHANGED <<snap, log, tmp, cur, pc, cnow, now, base, ncrash, ok, fhist, mark>>

(* ------------------------------------------------------------------ reopen = load + truncate + open append *)
Reopen ==
    /\ ~up
    /\ LET g   == GoodLen(log)
           m0  == IF ~snap.present THEN EmptyMap
                  ELSE IF Dev_SnapshotExpiryCheckedEarly THEN [k \in Keys |-> Norm(snap.m[k], now)] ELSE snap.m
           rec == [k \in Keys |-> Norm(Replay(m0, SubSeq(log, 1, g))[k], now)]     \* expired keys dropped AFTER replay
           ns  == Cardinality({i \in 1..g : Skipped(m0, log, i)}) IN                \* complete records load() skipped
       /\ mem' = rec
       /\ log' = IF Dev_TornTailNotTruncated THEN log
                 ELSE IF Dev_CutCountsAppliedOnly /\ ns > 0     \* the cut falls ns records short: a healthy record is torn
                      THEN Append(SubSeq(log, 1, g - ns), [log[g - ns + 1] EXCEPT !.torn = "PartialBody"])
                      ELSE SubSeq(log, 1, g)
       /\ ok' = (ok /\ \A k \in Keys : rec[k] \in AdmissibleT(base, cur, k, cnow, now))
       /\ base' = rec
    /\ nops' = IF cur # Nop THEN nops + 1 ELSE nops
    /\ cur' = Nop /\ up' = TRUE /\ logOpen' = TRUE
    /\ UNCHANGED <<snap, tmp, pc, cnow, now, ncrash, hist, fhist, mark>>

(* the clock jumps past the first deadline: as a step of the history while the store is idle, or unseen while it is down *)
TimePasses == /\ now = 0 /\ "tick" \in OpKinds /\ now' = Late
              /\ \/ up /\ cur = Nop /\ pc = <<>> /\ nops < MaxOps /\ nops' = nops + 1
                    /\ hist' = (IF Emit THEN Append(hist, Op("tick", 0, 0, 0)) ELSE hist)
                 \/ ~up /\ ~Emit /\ UNCHANGED <<nops, hist>>
              /\ UNCHANGED <<snap, log, tmp, logOpen, mem, cur, pc, cnow, up, base, ncrash, ok, fhist, mark>>

Next == \/ \E o \in Ops, ord \in Orders : Call(o, ord)
        \/ TimePasses
        \/ Ret
        \/ StepAppend \/ StepWriteTmp \/ StepRename \/ StepCloseLog \/ StepTruncLog \/ StepOpenAppend \/ StepMemClear
        \/ CrashBetween \/ CrashInWriteTmp \/ \E kd \in TornKinds : CrashInAppend(kd)
        \/ CleanClose \/ Reopen
Spec == Init /\ [][Next]_vars

(* ------------------------------------------------------------------ properties *)
Inv_Recovered == ok
Inv_MemIsBase == (up /\ cur = Nop) => \A k \in Keys : Norm(mem[k], now) = Norm(base[k], now)   \* the running process agrees with the baseline
Inv_Files == \A i \in 1..Len(log) : log[i].torn # "ok" =>
                 (Dev_TornTailNotTruncated \/ Dev_CutCountsAppliedOnly \/ (i = Len(log) /\ ~up))        \* a torn record is only ever the tail of a dead store

(* ------------------------------------------------------------------ generator: one driver case line per history *)
KV(ks, vs, i) == ToString(ks[i]) \o ":" \o ToString(vs[i])
RECURSIVE JoinKV(_, _, _)
JoinKV(ks, vs, i) == IF i > Len(ks) THEN "" ELSE KV(ks, vs, i) \o (IF i < Len(ks) THEN "," ELSE "") \o JoinKV(ks, vs, i + 1)
OpStr(o) ==
    CASE o.op = "set"   -> "set " \o ToString(o.k) \o " " \o ToString(o.v)
      [] o.op = "setx"  -> "setx " \o ToString(o.k) \o " " \o ToString(o.v) \o " " \o ToString(o.e)
      [] o.op = "rm"    -> "rm " \o ToString(o.k)
      [] o.op = "exp"   -> "exp " \o ToString(o.k) \o " " \o ToString(o.e)
      [] o.op = "per"   -> "per " \o ToString(o.k)
      [] o.op = "batch" -> "batch " \o ToString(o.e) \o " " \o JoinKV(o.ks, o.vs, 1)
      [] o.op = "rmp"   -> "rmp 1"
      [] OTHER          -> o.op             \* clear, compact, reopen, tick
RECURSIVE JoinOps(_)
JoinOps(s) == IF s = <<>> THEN "" ELSE OpStr(Head(s)) \o (IF Len(s) > 1 THEN ";" ELSE "") \o JoinOps(Tail(s))
RECURSIVE JoinS(_)
JoinS(s) == IF s = <<>> THEN "" ELSE Head(s) \o (IF Len(s) > 1 THEN "," ELSE "") \o JoinS(Tail(s))
EmitInv == (Emit /\ up /\ cur = Nop /\ nops = MaxOps /\ (GenFilter = "" \/ mark)) => PrintT("HIST " \o JoinOps(hist) \o " # " \o JoinS(fhist))
=============================================================================
