------------------------------ MODULE KvMapTrace ------------------------------
(* Abs oracle of C12 as a trace specification: a plain map with a per-key absolute expiry (KvAbs.tla),       *)
(* evaluated at the virtual `now` of the driver.  Every recorded step carries the operation AND the answers   *)
(* of all read APIs taken right after it; the step is accepted only if every answer is the Abs answer:        *)
(*   g1, g2   get() of every key, twice (slow path, then cache fast path)        = AbsGet                     *)
(*   ex       exists()                                                           = Live                        *)
(*   keys     keys(): exactly the live keys (no duplicates, no foreign key: extra = 0)                          *)
(*   pfxm, pfxn  keysWithPrefix(p) for EVERY prefix p of the execution's key universe ku (KvAbs: key ids and     *)
(*            prefix ids -> byte strings, with embedded NUL bytes, keys that are prefixes of each other, prefixes *)
(*            longer than keys): the set of returned key ids as a bit mask and the number of returned strings =   *)
(*            exactly the live keys whose BYTES start with the prefix's bytes.  Begin carries the driver's tables *)
(*            (lengths and leading bytes of its keys, its prefixes): they must be the tables of KvAbs.             *)
(*   size     size()  = number of live keys        gb   getBatch(all keys) = AbsGet        ttl  = AbsTtl       *)
(* Values are ids of byte strings (a value that is not byte-identical to what was stored is logged as -1).     *)
(* close / open: the map and the clock are untouched - expiry is absolute, a restart changes nothing            *)
(* observable; while the store is closed nothing is read.                                                      *)
(* bl (see KvAbs): chosen once per execution - the one instant now = exp may be read either way, but by ALL    *)
(* read paths alike.                                                                                            *)
(* R events (concurrent reader thread): a read that began after lo steps and ended before step hi + 1 began     *)
(* must be the Abs answer in one of the states lo..hi (the only mutator is the history thread; the eviction     *)
(* worker is invisible in Abs).                                                                                 *)
EXTENDS TraceBase, KvAbs

CONSTANT NK
VARIABLES m, now, bl, up, snaps, ku
vars == <<l, m, now, bl, up, snaps, ku>>

Keys == 1..NK
Empty == [k \in Keys |-> NoKey]
OpOf(e) == [op |-> e.op, k |-> e.k, v |-> e.v, d |-> e.d, t |-> e.t, ks |-> e.ks, vs |-> e.vs, u |-> ku]
B2I(b) == IF b THEN 1 ELSE 0

RECURSIVE Mask(_)
Mask(ks) == IF ks = {} THEN 0 ELSE LET k == CHOOSE x \in ks : TRUE IN 2 ^ (k - 1) + Mask(ks \ {k})
(* the driver's byte tables: 4 slots per key / prefix, the leading bytes, -1 = past the end *)
Slot(s, i) == IF i <= s.n THEN ByteAt(s, i) ELSE -1
TablesOk(e) == /\ Len(e.klen) = NK /\ Len(e.kb) = 4 * NK /\ Len(e.plen) = NPfx /\ Len(e.pb) = 4 * NPfx
               /\ \A k \in Keys : /\ e.klen[k] = KeyStr(e.ku, k).n
                                  /\ \A i \in 1..4 : e.kb[4 * (k - 1) + i] = Slot(KeyStr(e.ku, k), i)
               /\ \A p \in 1..NPfx : /\ e.plen[p] = PfxStr(e.ku, p).n /\ e.plen[p] <= 4
                                     /\ \A i \in 1..4 : e.pb[4 * (p - 1) + i] = Slot(PfxStr(e.ku, p), i)

Init == l = 1 /\ m = Empty /\ now = 0 /\ bl = FALSE /\ up = FALSE /\ snaps = <<>> /\ ku = 0

EvBegin == /\ IsEv("Begin") /\ Ev.nk = NK /\ Ev.ku \in {0, 1} /\ TablesOk(Ev)
           /\ ku' = Ev.ku
           /\ m' = Empty /\ now' = 0 /\ bl' \in BOOLEAN /\ up' = TRUE
           /\ snaps' = <<[m |-> Empty, now |-> 0]>>
EvReset == IsEv("Reset") /\ m' = Empty /\ now' = 0 /\ bl' = FALSE /\ up' = FALSE /\ snaps' = <<>> /\ ku' = 0
EvEnd   == IsEv("End") /\ UNCHANGED <<m, now, bl, up, snaps, ku>>

ObsOk(e, mm, t) ==
    LET live == AbsKeys(mm, t, bl) IN
    /\ Len(e.g1) = NK /\ Len(e.g2) = NK /\ Len(e.ex) = NK /\ Len(e.gb) = NK /\ Len(e.ttl) = NK
    /\ \A k \in Keys : /\ e.g1[k] = AbsGet(mm, k, t, bl)
                       /\ e.g2[k] = AbsGet(mm, k, t, bl)
                       /\ e.gb[k] = AbsGet(mm, k, t, bl)
                       /\ e.ex[k] = B2I(k \in live)
                       /\ e.ttl[k] = AbsTtl(mm, k, t, bl)
    /\ SeqRange(e.keys) = live /\ Len(e.keys) = Cardinality(live)
    /\ Len(e.pfxm) = NPfx /\ Len(e.pfxn) = NPfx
    /\ \A p \in 1..NPfx : LET want == AbsPfx(mm, ku, p, t, bl) IN
                             e.pfxm[p] = Mask(want) /\ e.pfxn[p] = Cardinality(want)
    /\ e.size = Cardinality(live)
    /\ e.extra = 0

EvStep ==
    /\ IsEv("Step")
    /\ LET o  == OpOf(Ev)
           m2 == AbsEff(o, m, now, bl)
           t2 == IF o.op = "tick" THEN now + o.d ELSE now IN
       /\ (o.op \notin {"tick", "open"}) => up
       /\ (o.op = "open") => ~up
       /\ (o.op = "rmp") => o.k \in 1..NPfx
       /\ up' = (IF o.op = "close" THEN FALSE ELSE IF o.op = "open" THEN TRUE ELSE up)
       /\ Ev.up = up'
       /\ m' = m2 /\ now' = t2
       /\ Ev.up => ObsOk(Ev, m2, t2)
       /\ snaps' = Append(snaps, [m |-> m2, now |-> t2])
    /\ UNCHANGED <<bl, ku>>

Ans(api, s, k) == CASE api = 0 -> AbsGet(s.m, k, s.now, bl)
                    [] api = 1 -> B2I(Live(s.m, k, s.now, bl))
                    [] OTHER   -> AbsTtl(s.m, k, s.now, bl)
EvR == /\ IsEv("R")
       /\ \E i \in Ev.lo..Ev.hi : i + 1 <= Len(snaps) /\ Ev.r = Ans(Ev.api, snaps[i + 1], Ev.k)
       /\ UNCHANGED <<m, now, bl, up, snaps, ku>>

Next == EvBegin \/ EvReset \/ EvEnd \/ EvStep \/ EvR
Spec == Init /\ [][Next]_vars
===============================================================================
