------------------------------ MODULE KvLogTrace ------------------------------
(* Abs oracle of C11 (key-value store) as a trace specification - "RecoveryAbs" of DESIGN.md Appendix A.    *)
(* It knows nothing about files.  State: the map `m` after the last COMPLETED operation, the operation      *)
(* `pend` that was in flight when the process was killed, and whether the store is up.                       *)
(*   Op(o)         a completed API call: m' = Eff(o, m)        (Eff: the plain reference-map reading, KvOps)  *)
(*   Crash(o)      the process is killed while o is in flight (o = nop: between two calls).  A second Crash   *)
(*                 while the store is down (killed again during recovery) changes nothing: the first          *)
(*                 crash's operation is still the one whose effect may or may not be there.                   *)
(*   Close         orderly shutdown: nothing in flight                                                        *)
(*   Recovered(r)  a fresh store opened the files and every key was read.  Demanded: the open succeeded,      *)
(*                 there is no foreign key, and for EVERY key r[k] is the last completed state or - if the    *)
(*                 operation in flight touches k - its new state (per key: "a key touched by the operation    *)
(*                 in flight may show either its old or its new state"); a torn / unknown value is logged as  *)
(*                 -1 and is never admissible.  The recovered map becomes the new baseline, so everything     *)
(*                 acknowledged after a recovery is demanded again at the next one.                           *)
(* Weaker-reading choices: expiry is part of a key's state (the clock is frozen in these runs, nothing         *)
(* expires); compaction, clear-on-empty and other calls that do not change the map demand nothing.           *)
EXTENDS TraceBase, KvOps

CONSTANT NK                      \* size of the key universe of the driver (ids 1..NK)
VARIABLES m, pend, st
vars == <<l, m, pend, st>>

Keys == 1..NK
Empty == [k \in Keys |-> NoKey]
OpOf(e) == [op |-> e.op, k |-> e.k, v |-> e.v, e |-> e.ex, ks |-> e.ks, vs |-> e.vs]

Init == l = 1 /\ m = Empty /\ pend = Nop /\ st = "idle"

EvBegin == IsEv("Begin") /\ Ev.store = "kv" /\ m' = Empty /\ pend' = Nop /\ st' = "up"
EvReset == IsEv("Reset") /\ m' = Empty /\ pend' = Nop /\ st' = "idle"
EvEnd   == IsEv("End") /\ UNCHANGED <<m, pend, st>>

EvOp == /\ IsEv("Op") /\ st = "up"
        /\ m' = Eff(OpOf(Ev), m)
        /\ UNCHANGED <<pend, st>>

EvCrash == /\ IsEv("Crash")
           /\ \/ st = "up" /\ pend' = OpOf(Ev)
              \/ st = "down" /\ Ev.op = "nop" /\ UNCHANGED pend
           /\ st' = "down" /\ UNCHANGED m

EvClose == IsEv("Close") /\ st = "up" /\ st' = "down" /\ pend' = Nop /\ UNCHANGED m

EvRecovered ==
    /\ IsEv("Recovered") /\ st = "down"
    /\ Ev.ok /\ Ev.extra = 0 /\ Len(Ev.vals) = NK /\ Len(Ev.exps) = NK
    /\ LET rec == [k \in Keys |-> [val |-> Ev.vals[k], exp |-> Ev.exps[k]]] IN
       /\ \A k \in Keys : rec[k] \in Admissible(m, pend, k)
       /\ m' = rec
    /\ pend' = Nop /\ st' = "up"

Next == EvBegin \/ EvReset \/ EvEnd \/ EvOp \/ EvCrash \/ EvClose \/ EvRecovered
Spec == Init /\ [][Next]_vars
===============================================================================
