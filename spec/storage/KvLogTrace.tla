------------------------------ MODULE KvLogTrace ------------------------------
(* Abs oracle of C11 (key-value store) as a trace specification - "RecoveryAbs" of DESIGN.md Appendix A.    *)
(* It knows nothing about files.  State: the map `m` after the last COMPLETED operation, the operation      *)
(* `pend` that was in flight when the process was killed, and whether the store is up.                       *)
(*   Op(o)         a completed API call: m' = Eff(o, m)        (Eff: the plain reference-map reading, KvOps)  *)
(*   Crash(o)      the process is killed while o is in flight (o = nop: between two calls).  A second Crash   *)
(*                 while the store is down (killed again during recovery) changes nothing: the first          *)
(*                 crash's operation is still the one whose effect may or may not be there.                   *)
(*   Close         orderly shutdown: nothing in flight                                                        *)
(*   Recovered(r)  a fresh store opened the files and every key was read.  Demanded: the open succeeded,      *)
(*                 there is no foreign key, and for EVERY key r[k] is the last completed state or - if the    *)
(*                 operation in flight touches k - its new state (per key: "a key touched by the operation    *)
(*                 in flight may show either its old or its new state"); a torn / unknown value is logged as  *)
(*                 -1 and is never admissible.  The recovered map becomes the new baseline, so everything     *)
(*                 acknowledged after a recovery is demanded again at the next one.                           *)
(*   Op(tick)      the wall clock jumps past the first deadline (KvOps: now = Late).  Expiry is part of a    *)
(*                 key's state; a key whose expiry has passed at the reopen must show as ABSENT, every other  *)
(*                 key with its acknowledged expiry (recovered expiries are logged as absolute instants).      *)
(* Weaker-reading choices: compaction, clear-on-empty and other calls that do not change the map demand nothing;*)
(* expireAt / persist on a key whose expiry has passed are no-ops (as in C12's reference map).                *)
EXTENDS TraceBase, KvOps

CONSTANT NK                      \* size of the key universe of the driver (ids 1..NK)
VARIABLES m, pend, pnow, now, st
vars == <<l, m, pend, pnow, now, st>>

Keys == 1..NK
Empty == [k \in Keys |-> NoKey]
OpOf(e) == [op |-> e.op, k |-> e.k, v |-> e.v, e |-> e.ex, ks |-> e.ks, vs |-> e.vs]

Init == l = 1 /\ m = Empty /\ pend = Nop /\ pnow = 0 /\ now = 0 /\ st = "idle"

EvBegin == IsEv("Begin") /\ Ev.store = "kv" /\ m' = Empty /\ pend' = Nop /\ pnow' = 0 /\ now' = 0 /\ st' = "up"
EvReset == IsEv("Reset") /\ m' = Empty /\ pend' = Nop /\ pnow' = 0 /\ now' = 0 /\ st' = "idle"
EvEnd   == IsEv("End") /\ UNCHANGED <<m, pend, pnow, now, st>>

EvOp == /\ IsEv("Op") /\ st = "up"
        /\ m' = EffT(OpOf(Ev), m, now)
        /\ now' = (IF Ev.op = "tick" THEN Late ELSE now)
        /\ UNCHANGED <<pend, pnow, st>>

EvCrash == /\ IsEv("Crash")
           /\ \/ st = "up" /\ pend' = OpOf(Ev) /\ pnow' = now
              \/ st = "down" /\ Ev.op = "nop" /\ UNCHANGED <<pend, pnow>>
           /\ st' = "down" /\ UNCHANGED <<m, now>>

EvClose == IsEv("Close") /\ st = "up" /\ st' = "down" /\ pend' = Nop /\ UNCHANGED <<m, pnow, now>>

EvRecovered ==
    /\ IsEv("Recovered") /\ st = "down"
    /\ Ev.ok /\ Ev.extra = 0 /\ Len(Ev.vals) = NK /\ Len(Ev.exps) = NK
    /\ LET rec == [k \in Keys |-> [val |-> Ev.vals[k], exp |-> Ev.exps[k]]] IN
       /\ \A k \in Keys : rec[k] \in AdmissibleT(m, pend, k, pnow, now)
       /\ m' = rec
    /\ pend' = Nop /\ st' = "up" /\ UNCHANGED <<pnow, now>>

Next == EvBegin \/ EvReset \/ EvEnd \/ EvOp \/ EvCrash \/ EvClose \/ EvRecovered
Spec == Init /\ [][Next]_vars
===============================================================================
