SPECIFICATION Spec
CONSTANT NK = 3
INVARIANT TraceChk
POSTCONDITION TracePost
CHECK_DEADLOCK FALSE
