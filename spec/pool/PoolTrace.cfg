SPECIFICATION Spec
INVARIANT TraceChk
INVARIANT ExactlyOnce
POSTCONDITION TracePost
CHECK_DEADLOCK FALSE
