------------------------------ MODULE ThreadPool ------------------------------
(* Impl-level specification of iora::core::ThreadPool (include/iora/core/thread_pool.hpp), one action per   *)
(* critical section of the code:                                                                            *)
(*   submitter:  SChk (lock-free `_accepting` test)  ->  SCrit (under _mutex: shutdown? full? push, spawn   *)
(*               decision)  ->  SSpawn (thread created, inserted into `_threads` under _mutex)               *)
(*   worker:     WTake (pop under _mutex, ++busy)  ->  WStart (++active, task body begins)  ->  WFinish      *)
(*               WExitShutdown / WIdleExit (erase self from `_threads`)                                      *)
(*   owner:      drain = MDrainBegin (accepting := FALSE) ; MDrainPoll (active = 0 /\ pending = 0)           *)
(*               stop  = drain ; MSdSet (`_shutdown` := TRUE under _mutex) ; MSdPoll ; MJoin (join what is   *)
(*               in `_threads`) ; destroy = the destructor's phases (returns at once when already shut down) *)
(*               restart (after a stop) = reset() ; start(): MRestartClear (`_shutdown` := FALSE under _mutex) ;    *)
(*               MRestartOpen (`_accepting` := TRUE) ; MRestartSpawn (one per initial worker)                        *)
(* The condition variable is abstracted: a parked worker whose predicate holds eventually proceeds (the     *)
(* timed wait bounds the effect of a lost notification), so WTake is simply enabled when the queue is not    *)
(* empty.  The window the code leaves between popping a task and ++_activeThreads is kept (WTake / WStart   *)
(* are separate): drain's poll can pass while a task is popped but not started; stop/destroy still join.     *)
(* SpawnReserves = TRUE is the repaired code (slot reserved under the lock); FALSE is the original.          *)
EXTENDS Naturals, Sequences, FiniteSets, TLC

CONSTANTS Init0, MaxT, QCap,  \* initial workers, maximum workers, queue capacity
          Subs,               \* submitter names
          Prog,               \* Prog[s] : sequence of [api |-> "try"|"enq"|"fut", id |-> n, kind |-> "n"|"t"|"s"]
          Life,               \* the owner's operations before destruction: sequence over {"join","drain","stop"}
          MaxW,               \* bound on worker indices (model bound)
          SpawnReserves,      \* TRUE: the worker slot is reserved under the lock (repaired code)
          DtorJoinsAfterStop, \* TRUE: the destructor joins what is left in `_threads` even after stop() (repaired code)
          RecheckShutdown,    \* TRUE: `_shutdown` is tested under _mutex in the critical section (the code); FALSE: only on the
                              \*       lock-free fast path next to `_accepting` (self-test)
          RestartReserves,    \* TRUE: start() takes a slot under the lock for every initial worker, like a submitter (repaired code,
                              \*       finding F-09d); FALSE: it spawns them unconditionally - together with a submitter that is
                              \*       adding a worker of its own the pool exceeds its maximum
          ResetKeepsGate,     \* TRUE: reset() leaves `_shutdown` set, start() clears it (the code); FALSE: reset() clears it - a
                              \*       submitter that passed the lock-free test before the stop is admitted by a pool that is merely
                              \*       reset, and its task runs there (self-test)
          ResetKeepsPending,  \* TRUE: reset() leaves the in-flight spawn reservations alone (the code); FALSE: it zeroes them - a
                              \*       submitter still between reserving and creating its worker is forgotten by the capacity test
                              \*       after the restart (self-test)
          RestartSpawnsFirst  \* FALSE: start() after reset() clears `_shutdown`, opens the pool, THEN spawns the initial workers (the
                              \*       code); TRUE: it spawns them first (self-test: a worker that runs before the flag is cleared
                              \*       retires, its thread object keeps its slot in `_threads`, and a pool whose initial size is its
                              \*       maximum can never serve its queue again)

W == 1..MaxW
NoTask == 0

VARIABLES tasks, workers, pending, created, exited, wst, wtask,
          shutdownF, accepting, active,
          spc, sip, spawnFlag,
          mpc, mip,
          accepted, refused, ran, fin, stopRet, dtorRet

vars == <<tasks, workers, pending, created, exited, wst, wtask, shutdownF, accepting, active,
          spc, sip, spawnFlag, mpc, mip, accepted, refused, ran, fin, stopRet, dtorRet>>

AllIds == UNION {{Prog[s][i].id : i \in 1..Len(Prog[s])} : s \in Subs}
ChildOf(id) == id + 50
Ids == AllIds \cup {ChildOf(i) : i \in AllIds}

Init == /\ tasks = <<>> /\ workers = 1..Init0 /\ pending = 0 /\ created = Init0 /\ exited = 0
        /\ wst = [w \in W |-> IF w <= Init0 THEN "wait" ELSE "none"]
        /\ wtask = [w \in W |-> NoTask]
        /\ shutdownF = FALSE /\ accepting = TRUE /\ active = 0
        /\ spc = [s \in Subs |-> IF Len(Prog[s]) = 0 THEN "done" ELSE "chk"]
        /\ sip = [s \in Subs |-> 1] /\ spawnFlag = [s \in Subs |-> FALSE]
        /\ mpc = "op" /\ mip = 1
        /\ accepted = {} /\ refused = {} /\ ran = [i \in Ids |-> 0] /\ fin = {}
        /\ stopRet = FALSE /\ dtorRet = FALSE

Op(s) == Prog[s][sip[s]]
SNext(s) == /\ sip' = [sip EXCEPT ![s] = @ + 1]
            /\ spc' = [spc EXCEPT ![s] = IF sip[s] + 1 > Len(Prog[s]) THEN "done" ELSE "chk"]

\* ---- submitters ---------------------------------------------------------------------------------------
SChk(s) == /\ spc[s] = "chk"
           /\ IF accepting /\ (RecheckShutdown \/ ~shutdownF)
              THEN spc' = [spc EXCEPT ![s] = "crit"] /\ UNCHANGED <<sip, refused>>
              ELSE refused' = refused \cup {Op(s).id} /\ SNext(s)
           /\ UNCHANGED <<tasks, workers, pending, created, exited, wst, wtask, shutdownF, accepting, active,
                          spawnFlag, mpc, mip, accepted, ran, fin, stopRet, dtorRet>>

WantSpawn == Cardinality(workers) + (IF SpawnReserves THEN pending ELSE 0) < MaxT

SCrit(s) == /\ spc[s] = "crit"
            /\ IF (RecheckShutdown /\ shutdownF) \/ Len(tasks) >= QCap
               THEN /\ refused' = refused \cup {Op(s).id} /\ SNext(s)
                    /\ UNCHANGED <<tasks, accepted, pending, spawnFlag>>
               ELSE /\ tasks' = Append(tasks, Op(s).id)
                    /\ accepted' = accepted \cup {Op(s).id}
                    /\ IF WantSpawn
                       THEN /\ spc' = [spc EXCEPT ![s] = "spawn"] /\ pending' = pending + 1 /\ UNCHANGED sip
                       ELSE /\ SNext(s) /\ UNCHANGED pending
                    /\ UNCHANGED <<refused, spawnFlag>>
            /\ UNCHANGED <<workers, created, exited, wst, wtask, shutdownF, accepting, active, mpc, mip, ran, fin,
                           stopRet, dtorRet>>

SSpawn(s) == /\ spc[s] = "spawn" /\ created < MaxW
             /\ LET w == created + 1 IN
                /\ created' = w /\ workers' = workers \cup {w}
                /\ wst' = [wst EXCEPT ![w] = "wait"]
             /\ pending' = pending - 1
             /\ SNext(s)
             /\ UNCHANGED <<tasks, exited, wtask, shutdownF, accepting, active, spawnFlag, mpc, mip, accepted, refused,
                            ran, fin, stopRet, dtorRet>>

\* ---- workers ------------------------------------------------------------------------------------------
WTake(w) == /\ wst[w] = "wait" /\ tasks # <<>>
            /\ wtask' = [wtask EXCEPT ![w] = Head(tasks)] /\ tasks' = Tail(tasks)
            /\ wst' = [wst EXCEPT ![w] = "popped"]
            /\ UNCHANGED <<workers, pending, created, exited, shutdownF, accepting, active, spc, sip, spawnFlag, mpc, mip,
                           accepted, refused, ran, fin, stopRet, dtorRet>>

\* the task body runs; a task of kind "s" submits its child with tryEnqueue (taken as one step)
KindOf(id) == IF \E s \in Subs : \E i \in 1..Len(Prog[s]) : Prog[s][i].id = id
              THEN (CHOOSE k \in {"n", "t", "s"} : \E s \in Subs : \E i \in 1..Len(Prog[s]) : Prog[s][i].id = id /\ Prog[s][i].kind = k)
              ELSE "n"
WStart(w) == /\ wst[w] = "popped"
             /\ active' = active + 1
             /\ ran' = [ran EXCEPT ![wtask[w]] = @ + 1]
             /\ wst' = [wst EXCEPT ![w] = "run"]
             /\ IF KindOf(wtask[w]) = "s" /\ accepting /\ ~shutdownF /\ Len(tasks) < QCap
                THEN /\ tasks' = Append(tasks, ChildOf(wtask[w])) /\ accepted' = accepted \cup {ChildOf(wtask[w])}
                     /\ UNCHANGED refused
                ELSE /\ UNCHANGED <<tasks, accepted>>
                     /\ refused' = IF KindOf(wtask[w]) = "s" THEN refused \cup {ChildOf(wtask[w])} ELSE refused
             /\ UNCHANGED <<workers, pending, created, exited, wtask, shutdownF, accepting, spc, sip, spawnFlag, mpc, mip,
                            fin, stopRet, dtorRet>>

WFinish(w) == /\ wst[w] = "run"
              /\ fin' = fin \cup {wtask[w]} /\ active' = active - 1
              /\ wst' = [wst EXCEPT ![w] = "wait"] /\ wtask' = [wtask EXCEPT ![w] = NoTask]
              /\ UNCHANGED <<tasks, workers, pending, created, exited, shutdownF, accepting, spc, sip, spawnFlag, mpc, mip,
                             accepted, refused, ran, stopRet, dtorRet>>

WExitShutdown(w) == /\ wst[w] = "wait" /\ shutdownF /\ tasks = <<>>
                    /\ wst' = [wst EXCEPT ![w] = "exited"] /\ exited' = exited + 1
                    /\ UNCHANGED <<tasks, workers, pending, created, wtask, shutdownF, accepting, active, spc, sip, spawnFlag,
                                   mpc, mip, accepted, refused, ran, fin, stopRet, dtorRet>>

\* idle timeout: only with the lock held and the predicate false (queue empty, not shut down)
WIdleExit(w) == /\ wst[w] = "wait" /\ ~shutdownF /\ tasks = <<>> /\ created - exited > Init0
                /\ wst' = [wst EXCEPT ![w] = "exited"] /\ exited' = exited + 1
                /\ workers' = workers \ {w}
                /\ UNCHANGED <<tasks, pending, created, wtask, shutdownF, accepting, active, spc, sip, spawnFlag, mpc, mip,
                               accepted, refused, ran, fin, stopRet, dtorRet>>

\* ---- owner --------------------------------------------------------------------------------------------
MOp == IF mip <= Len(Life) THEN Life[mip] ELSE "destroy"
MAdvance == mip' = mip + 1 /\ mpc' = "op"
MU == UNCHANGED <<tasks, workers, pending, created, exited, wst, wtask, active, spc, sip, spawnFlag, accepted, refused, ran, fin>>

MJoinSubs == /\ mpc = "op" /\ MOp = "join" /\ \A s \in Subs : spc[s] = "done"
             /\ MAdvance /\ MU /\ UNCHANGED <<shutdownF, accepting, stopRet, dtorRet>>
MDrainBegin == /\ mpc = "op" /\ MOp \in {"drain", "stop"} /\ accepting
               /\ accepting' = FALSE /\ mpc' = "drain_poll" /\ UNCHANGED mip
               /\ MU /\ UNCHANGED <<shutdownF, stopRet, dtorRet>>
MDrainPoll == /\ mpc = "drain_poll" /\ active = 0 /\ tasks = <<>>
              /\ IF MOp = "drain" THEN MAdvance ELSE (mpc' = "sd_set" /\ UNCHANGED mip)
              /\ MU /\ UNCHANGED <<shutdownF, accepting, stopRet, dtorRet>>
MStopAlreadyDraining == /\ mpc = "op" /\ MOp = "stop" /\ ~accepting /\ ~stopRet
                        /\ mpc' = "sd_set" /\ UNCHANGED mip /\ MU /\ UNCHANGED <<shutdownF, accepting, stopRet, dtorRet>>
MSdSet == /\ mpc = "sd_set"
          /\ shutdownF' = TRUE /\ mpc' = "sd_poll" /\ UNCHANGED mip
          /\ MU /\ UNCHANGED <<accepting, stopRet, dtorRet>>
MSdPoll == /\ mpc = "sd_poll" /\ active = 0 /\ tasks = <<>>
           /\ mpc' = "join" /\ UNCHANGED mip /\ MU /\ UNCHANGED <<shutdownF, accepting, stopRet, dtorRet>>
\* join: every thread that is in the map is joined (its worker has exited); the map is emptied
MJoin == /\ mpc = "join" /\ \A w \in workers : wst[w] = "exited"
         /\ workers' = {}
         /\ IF MOp = "stop" THEN stopRet' = TRUE /\ UNCHANGED dtorRet /\ MAdvance
                            ELSE dtorRet' = TRUE /\ UNCHANGED stopRet /\ mpc' = "done" /\ UNCHANGED mip
         /\ UNCHANGED <<tasks, pending, created, exited, wst, wtask, active, spc, sip, spawnFlag, accepted, refused, ran, fin,
                        shutdownF, accepting>>
\* stop -> reset -> start.  reset() empties the queue and the (already joined, empty) thread map and zeroes the counters.
RU == UNCHANGED <<tasks, pending, wtask, active, spc, sip, spawnFlag, accepted, refused, ran, fin, dtorRet>>
NewW == created + 1
\* (MRestartBegin is reset(): queue, thread map and counters are cleared - modelled by what the deviations change)
RU0 == UNCHANGED <<tasks, wtask, active, spc, sip, spawnFlag, accepted, refused, ran, fin, dtorRet>>
MRestartBegin == /\ mpc = "op" /\ MOp = "restart" /\ stopRet
                 /\ mpc' = (IF RestartSpawnsFirst THEN "rs_spawn" ELSE "rs_clear") /\ UNCHANGED mip
                 /\ shutdownF' = (IF ResetKeepsGate THEN shutdownF ELSE FALSE)
                 /\ pending' = (IF ResetKeepsPending THEN pending ELSE 0)
                 /\ RU0 /\ UNCHANGED <<workers, created, exited, wst, accepting, stopRet>>
\* (from here on the pool can accept again - a submitter that passed the lock-free test before the stop and was delayed until
\* now is admitted in its critical section: the "stopped" epoch, which StopComplete speaks of, is over)
MRestartClear == /\ mpc = "rs_clear" /\ shutdownF' = FALSE /\ stopRet' = FALSE
                 /\ mpc' = "rs_open" /\ UNCHANGED mip
                 /\ RU /\ UNCHANGED <<workers, created, exited, wst, accepting>>
MRestartOpen == /\ mpc = "rs_open" /\ accepting' = TRUE /\ UNCHANGED stopRet
                /\ (IF RestartSpawnsFirst THEN MAdvance ELSE (mpc' = "rs_spawn" /\ UNCHANGED mip))
                /\ RU /\ UNCHANGED <<workers, created, exited, wst, shutdownF>>
\* spawnWorker(): thread created and registered (the owner is the only spawner that does not go through a reservation)
RestartLive == Cardinality(workers)      \* (a worker that has already retired still has its thread object in the map)
MRestartSpawn == /\ mpc = "rs_spawn"
                 /\ IF RestartLive < Init0 /\ NewW <= MaxW /\ (RestartReserves => Cardinality(workers) + pending < MaxT)
                    THEN /\ workers' = workers \cup {NewW} /\ created' = created + 1
                         /\ wst' = [wst EXCEPT ![NewW] = "wait"] /\ UNCHANGED <<mpc, mip>>
                    ELSE /\ UNCHANGED <<workers, created, wst>>
                         /\ (IF RestartSpawnsFirst THEN (mpc' = "rs_clear" /\ UNCHANGED mip) ELSE MAdvance)
                 /\ RU /\ UNCHANGED <<exited, shutdownF, accepting, stopRet>>
\* destructor: the owner destroys the pool only after its submitters are done (anything else is a caller bug)
MDestroy == /\ mpc = "op" /\ MOp = "destroy" /\ \A s \in Subs : spc[s] = "done"
            /\ IF shutdownF
               THEN IF DtorJoinsAfterStop
                    THEN mpc' = "join" /\ UNCHANGED <<dtorRet, shutdownF, mip>>       \* already shut down: join what is left
                    ELSE dtorRet' = TRUE /\ mpc' = "done" /\ UNCHANGED <<shutdownF, mip>> \* original: return at once
               ELSE shutdownF' = TRUE /\ mpc' = "sd_poll" /\ UNCHANGED <<dtorRet, mip>>
            /\ MU /\ UNCHANGED <<accepting, stopRet>>

Next == \/ \E s \in Subs : SChk(s) \/ SCrit(s) \/ SSpawn(s)
        \/ \E w \in W : WTake(w) \/ WStart(w) \/ WFinish(w) \/ WExitShutdown(w) \/ WIdleExit(w)
        \/ MJoinSubs \/ MDrainBegin \/ MDrainPoll \/ MStopAlreadyDraining \/ MSdSet \/ MSdPoll \/ MJoin \/ MDestroy
        \/ MRestartBegin \/ MRestartClear \/ MRestartOpen \/ MRestartSpawn
Spec == Init /\ [][Next]_vars

\* ---- properties ---------------------------------------------------------------------------------------
ThreadCap == (accepting /\ ~shutdownF) => Cardinality(workers) <= MaxT
ExactlyOnce == \A i \in Ids : ran[i] <= 1
RanOnlyAccepted == \A i \in Ids : ran[i] > 0 => i \in accepted
StopComplete == (stopRet \/ dtorRet) => /\ \A i \in accepted : i \in fin
                                        /\ \A w \in W : wst[w] \notin {"popped", "run"}
\* a destroyed pool leaves no joinable thread object behind (std::terminate otherwise)
NoJoinableLeft == dtorRet => \A w \in W : wst[w] \in {"none", "exited"} /\ workers = {}
NoStuck == (~ENABLED Next) => mpc = "done"
AcceptedOrRefused == accepted \cap refused = {}
===============================================================================
