------------------------------ MODULE PoolTrace ------------------------------
(* Abs oracle of C09 (thread pool) as a trace specification.  It states only what the property demands:    *)
(*   - an accepted task starts exactly once (TaskRun needs run[id] = 0 and an accepted / in-flight submit)  *)
(*   - a submission is refused only because the queue is full, or drain/stop/destruction has begun          *)
(*   - stop (when it reports success) and destruction return only after every accepted task has finished,   *)
(*     and no task starts or is still running afterwards                                                    *)
(*   - while the pool accepts work, the worker count it reports never exceeds the configured maximum        *)
(*   - the future of an accepted task is ready afterwards, with the task's value or its exception           *)
(* "Queue full" is judged conservatively (never a false alarm): a task can only be in the queue between the *)
(* call of its submission and the start of its body, so the number of such tasks (other than the refused    *)
(* one) is an upper bound of the queue length; a refusal is explained by "full" when that bound reached the *)
(* capacity at some moment during the refused call.                                                         *)
EXTENDS TraceBase, FiniteSets

VARIABLES maxT, cap, sub, run, fin, lifeCalled, closed, mp
vars == <<l, maxT, cap, sub, run, fin, lifeCalled, closed, mp>>

AllIds == {Log[i].id : i \in {j \in 1..Len(Log) : "id" \in DOMAIN Log[j]}}
Fresh(v) == [i \in AllIds |-> v]

Init == /\ l = 1 /\ maxT = 0 /\ cap = 0 /\ sub = Fresh("none") /\ run = Fresh(0) /\ fin = {}
        /\ lifeCalled = FALSE /\ closed = FALSE /\ mp = Fresh(0)

Canon == /\ maxT' = 0 /\ cap' = 0 /\ sub' = Fresh("none") /\ run' = Fresh(0) /\ fin' = {}
         /\ lifeCalled' = FALSE /\ closed' = FALSE /\ mp' = Fresh(0)
EvReset == IsEv("Reset") /\ Canon
EvBegin == /\ IsEv("Begin") /\ maxT' = Ev.max /\ cap' = Ev.cap
           /\ sub' = Fresh("none") /\ run' = Fresh(0) /\ fin' = {} /\ lifeCalled' = FALSE /\ closed' = FALSE /\ mp' = Fresh(0)

\* upper bound of the number of queued tasks other than i, given submission states s
MaybeQueued(s, i) == Cardinality({j \in AllIds : j # i /\ s[j] \in {"called", "accepted"} /\ run[j] = 0})
MaxOf(a, b) == IF a > b THEN a ELSE b

EvSubmitCall ==
    /\ IsEv("SubmitCall") /\ sub[Ev.id] = "none"
    /\ sub' = [sub EXCEPT ![Ev.id] = "called"]
    /\ mp' = [i \in AllIds |-> IF sub'[i] = "called" THEN MaxOf(IF i = Ev.id THEN 0 ELSE mp[i], MaybeQueued(sub', i)) ELSE mp[i]]
    /\ UNCHANGED <<maxT, cap, run, fin, lifeCalled, closed>>

EvSubmitRet ==
    /\ IsEv("SubmitRet") /\ sub[Ev.id] = "called"
    /\ IF Ev.ok
       THEN /\ sub' = [sub EXCEPT ![Ev.id] = "accepted"]
            /\ closed => Ev.id \in fin           \* accepted before stop/destroy returned => finished by then
       ELSE /\ sub' = [sub EXCEPT ![Ev.id] = "refused"]
            /\ run[Ev.id] = 0                    \* a refused task never ran
            /\ lifeCalled \/ mp[Ev.id] >= cap    \* refused only because draining / shut down / full
    /\ UNCHANGED <<maxT, cap, run, fin, lifeCalled, closed, mp>>

EvTaskRun ==
    /\ IsEv("TaskRun") /\ sub[Ev.id] \in {"called", "accepted"} /\ run[Ev.id] = 0
    /\ ~closed                                   \* no task starts after stop/destroy returned
    /\ run' = [run EXCEPT ![Ev.id] = 1]
    /\ UNCHANGED <<maxT, cap, sub, fin, lifeCalled, closed, mp>>

EvTaskEnd ==
    /\ IsEv("TaskEnd") /\ run[Ev.id] = 1 /\ Ev.id \notin fin
    /\ ~closed                                   \* no task is still running after stop/destroy returned
    /\ fin' = fin \cup {Ev.id}
    /\ UNCHANGED <<maxT, cap, sub, run, lifeCalled, closed, mp>>

EvLifeCall == /\ IsEv("LifeCall") /\ lifeCalled' = TRUE
              /\ UNCHANGED <<maxT, cap, sub, run, fin, closed, mp>>

AllAcceptedFinished == \A i \in AllIds : sub[i] = "accepted" => i \in fin
NothingRunning == \A i \in AllIds : run[i] = 1 => i \in fin
EvLifeRet ==
    /\ IsEv("LifeRet")
    /\ IF Ev.op = "destroy" \/ (Ev.op = "stop" /\ Ev.ok)
       THEN AllAcceptedFinished /\ NothingRunning /\ closed' = TRUE
       ELSE closed' = closed                      \* drain, or a stop that reports failure: no demand
    /\ UNCHANGED <<maxT, cap, sub, run, fin, lifeCalled, mp>>

\* stop -> reset -> start: the pool accepts work again; submissions from here on are judged like any other
\* (between the announcement and the return of the restart a submission may be accepted - the pool is open as soon as start()
\* has opened it - or still refused - it is not open before)
EvRestart == /\ IsEv("Restart") /\ closed /\ closed' = FALSE
             /\ UNCHANGED <<maxT, cap, sub, run, fin, lifeCalled, mp>>

EvRestartRet == /\ IsEv("RestartRet") /\ Ev.ok /\ lifeCalled' = FALSE
                /\ UNCHANGED <<maxT, cap, sub, run, fin, closed, mp>>

EvResetRet == IsEv("ResetRet") /\ UNCHANGED <<maxT, cap, sub, run, fin, lifeCalled, closed, mp>>

EvCount == /\ IsEv("Count")
           /\ (~lifeCalled) => Ev.n <= maxT       \* while it accepts work: never more workers than the maximum
           /\ UNCHANGED <<maxT, cap, sub, run, fin, lifeCalled, closed, mp>>

EvFuture == /\ IsEv("Future")
            /\ (sub[Ev.id] = "accepted") => (Ev.ready /\ (IF Ev.th THEN Ev.exc ELSE Ev.good))
            /\ UNCHANGED <<maxT, cap, sub, run, fin, lifeCalled, closed, mp>>

EvEnd == /\ IsEv("End")
         /\ Ev.outcome # "stuck"                  \* every call returns: nothing may be left blocked
         /\ (Ev.outcome = "done") => (AllAcceptedFinished /\ \A i \in AllIds : sub[i] # "called")
         /\ UNCHANGED <<maxT, cap, sub, run, fin, lifeCalled, closed, mp>>

Next == EvRestart \/ EvRestartRet \/ EvResetRet \/ EvReset \/ EvBegin \/ EvSubmitCall \/ EvSubmitRet \/ EvTaskRun \/ EvTaskEnd \/ EvLifeCall \/ EvLifeRet
        \/ EvCount \/ EvFuture \/ EvEnd
Spec == Init /\ [][Next]_vars
ExactlyOnce == \A i \in AllIds : run[i] <= 1
===============================================================================
