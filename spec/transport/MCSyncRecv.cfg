CONSTANTS Chunks <- ChunksDef Cap = 3 BufLens = {1, 2, 3} MaxRecv = 5 DropAfterOverflow = TRUE
SPECIFICATION Spec
INVARIANT AbsOk
INVARIANT NoLostWake
CHECK_DEADLOCK FALSE
