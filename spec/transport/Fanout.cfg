CONSTANTS Tags = {"o1", "o2", "o3"} CopyThenIterate = TRUE
SPECIFICATION Spec
INVARIANT Order
INVARIANT AllStillRegisteredCalled
CHECK_DEADLOCK FALSE
