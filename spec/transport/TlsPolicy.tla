------------------------------ MODULE TlsPolicy ------------------------------
(* C07 - TLS sessions authenticate the peer as configured and never downgrade.                              *)
(*                                                                                                          *)
(* A one-step decision model.  The state is one CONFIGURATION TUPLE `c` (who plays which role, what each    *)
(* side is configured with, what kind of peer shows up); the single step decides the OUTCOME `out` of the   *)
(* session the way include/iora/network/detail/tcp_engine.hpp does (initTls, doAddListener/onListener,      *)
(* doConnect, driveHandshake - one action per decision branch of the code), OpenSSL's own chain building,   *)
(* signature checking and version negotiation being trusted and modelled by their documented results.      *)
(* The reachable initial states ARE the test plan: TLC enumerates the (pruned) matrix, checks that the      *)
(* code's policy stays within the property's policy (ImplWithinAbs) and prints every tuple with the         *)
(* predicted outcome; checks/C07.py realises each tuple on the real engine (harness/drv_tls.cpp).           *)
(*                                                                                                          *)
(* Fields of a tuple                                                                                        *)
(*   role            "Client": the engine connects out (peer = an OpenSSL / plaintext / garbage server)     *)
(*                   "Server": the engine listens      (peer = an OpenSSL / plaintext / garbage client)     *)
(*   via             "Transport" (connect() + callbacks, application sends before the announce),            *)
(*                   "TransportSync" (connectSync), "HttpClient" (https:// URL), "Listener" (role Server,    *)
(*                   Transport::addListener), "HttpServer" (role Server, HttpServer::enableTls)             *)
(*   tlsRequested    the session is requested with TLS (TlsMode::Client / TlsMode::Server / https)          *)
(*   tlsEnabled      a TLS context is configured (clientTls/serverTls.enabled with the matching mode)       *)
(*   peerKind        "TLS" | "Plaintext" | "Garbage"                                                        *)
(*   verify          clientTls.verifyPeer (role Client)                                                     *)
(*   requireClientCert  serverTls.verifyPeer = HttpServer::TlsConfig::requireClientCert (role Server)       *)
(*   anchor          the engine's trust store: "RightCA" | "WrongCA" | "None" (empty default store)         *)
(*   serverCert      "Valid" | "SelfSigned" | "Expired" | "WrongName" | "KeyMismatch"                       *)
(*   clientCert      "None" | "Valid" | "Untrusted" | "Expired"                                             *)
(*   byName          the connection is made to a host name ("localhost") rather than an IP literal          *)
(*   clientMax, serverMax   protocol ceilings, 10 = TLS 1.0 .. 13 = TLS 1.3.  TlsConfig has no ceiling knob, *)
(*                   so the side the engine plays is always 13; the peer's ceiling varies and the peer      *)
(*                   accepts everything from TLS 1.0 up to it (security level 0)                            *)
(*   engineMin       TlsConfig::minVersion of the engine side: 0 (unset), 10, 11, 12, 13                    *)
(*   lax             TlsConfig::ciphers = "ALL:@SECLEVEL=0" on the engine side (the only configuration in   *)
(*                   which this system's OpenSSL would negotiate TLS 1.0/1.1 at all - measured)             *)
(*   scheme          via HttpClient only ("-" elsewhere): the scheme text of the URL: "https", its letter-case   *)
(*                   variants "HTTPS" "Https" "hTTps" (an https URL all the same: tlsRequested = TRUE), "http",  *)
(*                   "garbage" (httpss, ftp, ...: not an https URL, tlsRequested = FALSE)                        *)
(*   port            via HttpClient only: "explicit" (host:port in the URL) | "default" (no port: 443 / 80 of a  *)
(*                   private loopback address on which the driver listens on BOTH)                               *)
(*   certLife        validity window of the PEER's certificate (server certificate for role Client, client       *)
(*                   certificate for role Server) relative to a boundary in time: "Static" (the fixed test       *)
(*                   certificates), "ExpiresLater" (valid before, expired after), "ValidLater" (not yet valid    *)
(*                   before, valid after); generated at run time                                                 *)
(*   when            the judged connection is made "Before" or "After" the boundary                              *)
(*   transport       "Fresh": the transport / HttpClient / listener is started right before the judged           *)
(*                   connection; "Reused": it was started (and carried a connection) before the boundary and     *)
(*                   the judged connection is a NEW connection through the same running object after it          *)
EXTENDS Naturals, TLC, Json

CONSTANTS
  Dev_NoHostnameCheck_Transport,          \* F-07a: doConnect never tells OpenSSL which name to expect (no SSL_set1_host / SNI)
  Dev_NoHostnameCheck_HttpClient,         \* F-07a: HttpClient resolves the host to an IP literal before connecting, the engine never sees the name
  Dev_PlaintextFallbackWhenTlsNotEnabled, \* F-07b: TLS requested without a context => the session silently runs in clear text
  Dev_ClientCertRequestedNotRequired,     \* F-07c: SSL_VERIFY_PEER without SSL_VERIFY_FAIL_IF_NO_PEER_CERT on the server context
  Dev_NoVersionFloor,                     \* (self-test / mutation only) applyTls12Floor missing
  Dev_HttpSchemeCaseDowngrade,            \* (self-test / mutation only) the URL parser accepts any letter case, the scheme -> TlsMode
                                          \* mapping and the default-port choice compare with "https" exactly
  Dev_VerifyClockFrozenAtStart            \* (self-test / mutation only) the verification time is fixed when the context is built

VARIABLES c, pc, out
vars == <<c, pc, out>>

Anchors     == {"RightCA", "WrongCA", "None"}
ServerCerts == {"Valid", "SelfSigned", "Expired", "WrongName", "KeyMismatch"}
ClientCerts == {"None", "Valid", "Untrusted", "Expired"}
Vers        == {10, 11, 12, 13}
Mins        == {0, 10, 11, 12, 13}
Max2(a, b)  == IF a > b THEN a ELSE b

Base == [role |-> "Client", via |-> "Transport", tlsRequested |-> TRUE, tlsEnabled |-> TRUE, peerKind |-> "TLS",
         verify |-> FALSE, requireClientCert |-> FALSE, anchor |-> "None", serverCert |-> "Valid",
         clientCert |-> "None", byName |-> FALSE, clientMax |-> 13, serverMax |-> 13, engineMin |-> 0, lax |-> FALSE,
         scheme |-> "-", port |-> "explicit", certLife |-> "Static", when |-> "Before", transport |-> "Fresh"]
HttpsCaseVariants == {"HTTPS", "Https", "hTTps"}
SchemeIsHttps(s)  == s = "https" \/ s \in HttpsCaseVariants
SchemeOf(via, tls) == IF via = "HttpClient" THEN (IF tls THEN "https" ELSE "http") ELSE "-"

-----------------------------------------------------------------------------
(* The matrix, pruned: a dimension that cannot influence the decision in a family is held at its canonical   *)
(* value (e.g. the trust anchor when verification is off, every TLS knob when the peer is not a TLS peer).   *)

\* A: engine = client, a TLS handshake is actually attempted with a TLS peer
FamA(x) == \E via \in {"Transport", "TransportSync", "HttpClient"}, verify \in BOOLEAN, sc \in ServerCerts,
              bn \in BOOLEAN, smax \in Vers :
           \E anchor \in (IF verify THEN Anchors ELSE {"None"}),
              emin \in (IF via = "HttpClient" THEN {0} ELSE Mins),
              lax \in (IF via = "HttpClient" THEN {FALSE} ELSE BOOLEAN) :
              x = [Base EXCEPT !.via = via, !.verify = verify, !.anchor = anchor, !.serverCert = sc, !.byName = bn,
                               !.serverMax = smax, !.engineMin = emin, !.lax = lax, !.scheme = SchemeOf(via, TRUE)]
\* B: engine = client, TLS requested and configured, the peer does not speak TLS
FamB(x) == \E via \in {"Transport", "TransportSync", "HttpClient"}, pk \in {"Plaintext", "Garbage"},
              verify \in BOOLEAN, bn \in BOOLEAN :
              x = [Base EXCEPT !.via = via, !.peerKind = pk, !.verify = verify,
                               !.anchor = IF verify THEN "RightCA" ELSE "None", !.byName = bn,
                               !.scheme = SchemeOf(via, TRUE)]
\* C: engine = client, TLS requested but no client context configured (HttpClient always configures one)
FamC(x) == \E via \in {"Transport", "TransportSync"}, pk \in {"TLS", "Plaintext", "Garbage"}, bn \in BOOLEAN :
              x = [Base EXCEPT !.via = via, !.tlsEnabled = FALSE, !.peerKind = pk, !.byName = bn]
\* D: engine = client, no TLS requested (the property demands nothing; kept so that the antecedents are exercised both ways)
FamD(x) == \E via \in {"Transport", "TransportSync", "HttpClient"}, en \in BOOLEAN :
              /\ (via = "HttpClient" => en)
              /\ x = [Base EXCEPT !.via = via, !.tlsRequested = FALSE, !.tlsEnabled = en, !.peerKind = "Plaintext",
                                  !.scheme = SchemeOf(via, FALSE)]
SBase == [Base EXCEPT !.role = "Server", !.via = "Listener"]
\* E: engine = server, handshake attempted with a TLS client
FamE(x) == \E req \in BOOLEAN, cc \in ClientCerts, cmax \in Vers, emin \in Mins, lax \in BOOLEAN :
           \E anchor \in (IF req THEN Anchors ELSE {"None"}) :
              x = [SBase EXCEPT !.requireClientCert = req, !.anchor = anchor, !.clientCert = cc, !.clientMax = cmax,
                                !.engineMin = emin, !.lax = lax]
\* F: engine = server whose own certificate is unusable (fail-fast at start)
FamF(x) == \E sc \in {"Expired", "KeyMismatch"}, req \in BOOLEAN :
              x = [SBase EXCEPT !.serverCert = sc, !.requireClientCert = req, !.anchor = IF req THEN "RightCA" ELSE "None",
                                !.clientCert = IF req THEN "Valid" ELSE "None"]
\* G: engine = server, TLS listener, the peer does not speak TLS
FamG(x) == \E pk \in {"Plaintext", "Garbage"}, req \in BOOLEAN :
              x = [SBase EXCEPT !.peerKind = pk, !.requireClientCert = req, !.anchor = IF req THEN "RightCA" ELSE "None"]
\* H: engine = server, TLS listener requested but no server context configured
FamH(x) == \E pk \in {"TLS", "Plaintext", "Garbage"} :
              x = [SBase EXCEPT !.tlsEnabled = FALSE, !.peerKind = pk]
\* I: engine = server, plain listener by request
FamI(x) == \E en \in BOOLEAN :
              x = [SBase EXCEPT !.tlsRequested = FALSE, !.tlsEnabled = en, !.peerKind = "Plaintext"]

\* J: engine = server through HttpServer (enableTls configures and requests TLS together; requireClientCert is the knob)
HBase == [SBase EXCEPT !.via = "HttpServer"]
FamJ(x) == \/ \E req \in BOOLEAN, cc \in ClientCerts, cmax \in {12, 13} :
              \E anchor \in (IF req THEN Anchors ELSE {"None"}) :
                 x = [HBase EXCEPT !.requireClientCert = req, !.anchor = anchor, !.clientCert = cc, !.clientMax = cmax]
           \/ \E pk \in {"Plaintext", "Garbage"}, req \in BOOLEAN :
                 x = [HBase EXCEPT !.peerKind = pk, !.requireClientCert = req, !.anchor = IF req THEN "RightCA" ELSE "None"]
           \/ x = [HBase EXCEPT !.tlsRequested = FALSE, !.tlsEnabled = FALSE, !.peerKind = "Plaintext"]

\* K: HttpClient, the URL's scheme in every letter case, with and without a port.  The peer answers TLS and clear text
\*    alike (it looks at the first byte of each connection), so a downgrade completes and shows
KBase == [Base EXCEPT !.via = "HttpClient"]
FamK(x) == \/ \E sch \in {"https"} \cup HttpsCaseVariants, pt \in {"explicit", "default"}, verify \in BOOLEAN,
                 sc \in {"Valid", "SelfSigned"} :
              \E bn \in (IF pt = "explicit" THEN BOOLEAN ELSE {FALSE}) :
                 x = [KBase EXCEPT !.scheme = sch, !.port = pt, !.verify = verify,
                                   !.anchor = IF verify THEN "RightCA" ELSE "None", !.serverCert = sc, !.byName = bn]
           \/ \E pt \in {"explicit", "default"} :
                 x = [KBase EXCEPT !.scheme = "http", !.port = pt, !.tlsRequested = FALSE, !.peerKind = "Plaintext"]
           \/ \E pt \in {"explicit", "default"} :
                 x = [KBase EXCEPT !.scheme = "garbage", !.port = pt, !.tlsRequested = FALSE]
\* L: the peer's certificate crosses a validity boundary while the engine object lives on
Timing == {<<"Before", "Fresh">>, <<"After", "Fresh">>, <<"After", "Reused">>}
FamL(x) == \/ \E via \in {"Transport", "TransportSync", "HttpClient"}, life \in {"ExpiresLater", "ValidLater"},
                 tm \in Timing, verify \in BOOLEAN, smax \in {12, 13} :
                 x = [Base EXCEPT !.via = via, !.scheme = SchemeOf(via, TRUE), !.certLife = life, !.when = tm[1],
                                  !.transport = tm[2], !.verify = verify,
                                  !.anchor = IF verify THEN "RightCA" ELSE "None", !.serverMax = smax]
           \/ \E life \in {"ExpiresLater", "ValidLater"}, tm \in Timing, req \in BOOLEAN, cmax \in {12, 13} :
                 x = [SBase EXCEPT !.certLife = life, !.when = tm[1], !.transport = tm[2], !.requireClientCert = req,
                                   !.anchor = IF req THEN "RightCA" ELSE "None", !.clientCert = "Valid",
                                   !.clientMax = cmax]

IsCase(x) == FamA(x) \/ FamB(x) \/ FamC(x) \/ FamD(x) \/ FamE(x) \/ FamF(x) \/ FamG(x) \/ FamH(x) \/ FamI(x)
             \/ FamJ(x) \/ FamK(x) \/ FamL(x)

-----------------------------------------------------------------------------
(* Abs: the property's policy.  An outcome o = [admitted, clear, ver]:                                       *)
(*   admitted  the session was announced as connected to the engine's application (onConnect after the       *)
(*             handshake / connectSync ok / an HTTP response returned) or application data was exchanged     *)
(*   clear     application bytes of the engine's application were readable on the wire                       *)
(*   ver       protocol version of a handshake the peer completed (0 = none)                                 *)
(* Weak readings, written down: a TLS server session is "admitted" when the handshake is announced or data   *)
(* flows, not when onAccept reports the TCP accept; without verifyPeer only the no-clear-text and version    *)
(* clauses apply; for IP-literal connections no name is demanded.  An URL whose scheme is https in ANY letter  *)
(* case is a request for TLS (RFC 3986 s.3.1: schemes are case-insensitive); refusing it is always allowed.   *)
(* Every handshake is judged at ITS OWN time: the peer's certificate must be within its validity period when *)
(* the judged connection is made, however long the engine object has been running.                           *)
ChainsToAnchor(x)   == x.anchor = "RightCA" /\ x.serverCert \in {"Valid", "Expired", "WrongName", "KeyMismatch"}
TimeOkAt(life, w)   == CASE life = "ExpiresLater" -> w = "Before"
                         [] life = "ValidLater"   -> w = "After"
                         [] OTHER                 -> TRUE
WithinValidity(x)   == x.serverCert # "Expired" /\ TimeOkAt(x.certLife, x.when)
ProvesPossession(x) == x.serverCert # "KeyMismatch"
IssuedForName(x)    == x.serverCert # "WrongName"

AbsAllows(x, o) ==
  /\ x.tlsRequested => ~o.clear
  /\ (x.tlsRequested /\ x.peerKind # "TLS") => ~o.admitted
  /\ (x.tlsRequested /\ o.ver # 0) => o.ver >= 12
  /\ (x.tlsRequested /\ x.role = "Client" /\ x.verify /\ o.admitted) =>
        /\ ChainsToAnchor(x) /\ WithinValidity(x) /\ ProvesPossession(x)
        /\ x.byName => IssuedForName(x)
  /\ (x.tlsRequested /\ x.role = "Server" /\ x.requireClientCert /\ o.admitted) =>
        x.clientCert = "Valid" /\ x.anchor = "RightCA" /\ TimeOkAt(x.certLife, x.when)

-----------------------------------------------------------------------------
(* Impl: the code's policy, one action per decision branch.                                                  *)
NoOut == [started |-> FALSE, admitted |-> FALSE, clear |-> FALSE, ver |-> 0, branch |-> "-"]
Outc(started, admitted, clear, ver, branch) ==
  [started |-> started, admitted |-> admitted, clear |-> clear, ver |-> ver, branch |-> branch]

PeerMax == IF c.role = "Client" THEN c.serverMax ELSE c.clientMax
\* lowest version the engine side will negotiate: applyTls12Floor clamps the configured minimum up to TLS 1.2;
\* without the floor the library's own minimum applies (TLS 1.0 at security level 0, TLS 1.2 otherwise - measured)
LibMin    == IF c.lax THEN 10 ELSE 12
EngineLow == IF Dev_NoVersionFloor THEN Max2(LibMin, c.engineMin) ELSE Max2(12, c.engineMin)
VersionOk == PeerMax >= EngineLow
Negotiated == PeerMax                       \* the engine side has no ceiling: highest common version = the peer's ceiling

\* HttpClient::parseUrl: the URL regex admits the lower-case schemes only; anything else throws before a byte is sent
HttpUrlBad == c.via = "HttpClient" /\ c.scheme \notin {"https", "http"}
Client == c.role = "Client" /\ ~HttpUrlBad
Server == c.role = "Server"
\* the moment the validity period is compared with: the handshake's own time
JudgedAt  == IF Dev_VerifyClockFrozenAtStart /\ c.transport = "Reused" THEN "Before" ELSE c.when
ImplTimeOk == TimeOkAt(c.certLife, JudgedAt)
TlsAttempt == c.tlsRequested /\ c.tlsEnabled
NoContext  == c.tlsRequested /\ ~c.tlsEnabled

\* does the engine know the name it connected to?  (only doConnect could tell OpenSSL; HttpClient hands it an IP literal)
NameChecked == /\ c.byName
               /\ IF c.via = "HttpClient" THEN ~Dev_NoHostnameCheck_HttpClient ELSE ~Dev_NoHostnameCheck_Transport
ServerCertAccepted ==
  \/ ~c.verify
  \/ /\ ChainsToAnchor(c) /\ c.serverCert # "Expired" /\ ImplTimeOk
     /\ NameChecked => IssuedForName(c)
ClientCertAccepted ==
  \/ ~c.requireClientCert
  \/ c.clientCert = "Valid" /\ c.anchor = "RightCA" /\ ImplTimeOk

Decide(o) == pc = "cfg" /\ pc' = "done" /\ out' = o /\ UNCHANGED c

\* ---- HttpClient URL handling (parseUrl / isHttps / acquireConnection)
HttpUrlRefused           == c.role = "Client" /\ HttpUrlBad
                            /\ ~(Dev_HttpSchemeCaseDowngrade /\ c.scheme \in HttpsCaseVariants)
                            /\ Decide(Outc(TRUE, FALSE, FALSE, 0, "HttpUrlRefused"))
Dev_HttpSchemeDowngrade  == c.role = "Client" /\ HttpUrlBad
                            /\ Dev_HttpSchemeCaseDowngrade /\ c.scheme \in HttpsCaseVariants
                            /\ Decide(Outc(TRUE, TRUE, TRUE, 0, "Dev_HttpSchemeDowngrade"))
\* ---- engine = client (doConnect / driveHandshake)
ConnectPlainByRequest    == Client /\ ~c.tlsRequested /\ Decide(Outc(TRUE, TRUE, TRUE, 0, "ConnectPlainByRequest"))
ConnectRefusedNoContext  == Client /\ NoContext /\ ~Dev_PlaintextFallbackWhenTlsNotEnabled
                            /\ Decide(Outc(TRUE, FALSE, FALSE, 0, "ConnectRefusedNoContext"))
Dev_ConnectPlainFallback == Client /\ NoContext /\ Dev_PlaintextFallbackWhenTlsNotEnabled
                            /\ Decide(Outc(TRUE, TRUE, TRUE, 0, "Dev_ConnectPlainFallback"))
ConnectNonTlsPeer        == Client /\ TlsAttempt /\ c.peerKind # "TLS"
                            /\ Decide(Outc(TRUE, FALSE, FALSE, 0, "ConnectNonTlsPeer"))
ConnectVersionRefused    == Client /\ TlsAttempt /\ c.peerKind = "TLS" /\ ~VersionOk
                            /\ Decide(Outc(TRUE, FALSE, FALSE, 0, "ConnectVersionRefused"))
ConnectNoPossession      == Client /\ TlsAttempt /\ c.peerKind = "TLS" /\ VersionOk /\ ~ProvesPossession(c)
                            /\ Decide(Outc(TRUE, FALSE, FALSE, 0, "ConnectNoPossession"))
ConnectVerifyFails       == Client /\ TlsAttempt /\ c.peerKind = "TLS" /\ VersionOk /\ ProvesPossession(c)
                            /\ ~ServerCertAccepted
                            /\ Decide(Outc(TRUE, FALSE, FALSE, 0, "ConnectVerifyFails"))
ConnectHandshakeOk       == Client /\ TlsAttempt /\ c.peerKind = "TLS" /\ VersionOk /\ ProvesPossession(c)
                            /\ ServerCertAccepted
                            /\ Decide(Outc(TRUE, TRUE, FALSE, Negotiated, "ConnectHandshakeOk"))

\* ---- engine = server (initTls / doAddListener / onListener / driveHandshake)
StartFails == \/ c.tlsEnabled /\ c.serverCert \in {"Expired", "KeyMismatch"}     \* fail-fast on an unusable own certificate
              \/ c.tlsEnabled /\ c.requireClientCert /\ c.anchor = "None"           \* verifyPeer without a CA
ListenStartFails         == Server /\ StartFails /\ Decide(Outc(FALSE, FALSE, FALSE, 0, "ListenStartFails"))
ListenPlainByRequest     == Server /\ ~StartFails /\ ~c.tlsRequested
                            /\ Decide(Outc(TRUE, TRUE, TRUE, 0, "ListenPlainByRequest"))
ListenRefusedNoContext   == Server /\ ~StartFails /\ NoContext /\ ~Dev_PlaintextFallbackWhenTlsNotEnabled
                            /\ Decide(Outc(FALSE, FALSE, FALSE, 0, "ListenRefusedNoContext"))
Dev_ListenPlainFallback  == Server /\ ~StartFails /\ NoContext /\ Dev_PlaintextFallbackWhenTlsNotEnabled
                            /\ Decide(Outc(TRUE, TRUE, TRUE, 0, "Dev_ListenPlainFallback"))
AcceptNonTlsPeer         == Server /\ ~StartFails /\ TlsAttempt /\ c.peerKind # "TLS"
                            /\ Decide(Outc(TRUE, FALSE, FALSE, 0, "AcceptNonTlsPeer"))
AcceptVersionRefused     == Server /\ ~StartFails /\ TlsAttempt /\ c.peerKind = "TLS" /\ ~VersionOk
                            /\ Decide(Outc(TRUE, FALSE, FALSE, 0, "AcceptVersionRefused"))
\* a TLS 1.3 client completes its own handshake before the server has looked at the client certificate
AcceptClientCertRejected == Server /\ ~StartFails /\ TlsAttempt /\ c.peerKind = "TLS" /\ VersionOk
                            /\ ~ClientCertAccepted
                            /\ ~(Dev_ClientCertRequestedNotRequired /\ c.clientCert = "None")
                            /\ Decide(Outc(TRUE, FALSE, FALSE, IF Negotiated = 13 THEN 13 ELSE 0, "AcceptClientCertRejected"))
Dev_AcceptWithoutClientCert == Server /\ ~StartFails /\ TlsAttempt /\ c.peerKind = "TLS" /\ VersionOk
                            /\ c.requireClientCert /\ c.clientCert = "None" /\ Dev_ClientCertRequestedNotRequired
                            /\ Decide(Outc(TRUE, TRUE, FALSE, Negotiated, "Dev_AcceptWithoutClientCert"))
AcceptHandshakeOk        == Server /\ ~StartFails /\ TlsAttempt /\ c.peerKind = "TLS" /\ VersionOk /\ ClientCertAccepted
                            /\ Decide(Outc(TRUE, TRUE, FALSE, Negotiated, "AcceptHandshakeOk"))

Init == pc = "cfg" /\ out = NoOut /\ IsCase(c)
Next == \/ HttpUrlRefused \/ Dev_HttpSchemeDowngrade
        \/ ConnectPlainByRequest \/ ConnectRefusedNoContext \/ Dev_ConnectPlainFallback \/ ConnectNonTlsPeer
        \/ ConnectVersionRefused \/ ConnectNoPossession \/ ConnectVerifyFails \/ ConnectHandshakeOk
        \/ ListenStartFails \/ ListenPlainByRequest \/ ListenRefusedNoContext \/ Dev_ListenPlainFallback
        \/ AcceptNonTlsPeer \/ AcceptVersionRefused \/ AcceptClientCertRejected \/ Dev_AcceptWithoutClientCert
        \/ AcceptHandshakeOk
Spec == Init /\ [][Next]_vars

-----------------------------------------------------------------------------
\* the code's policy stays within the property's policy
ImplWithinAbs == pc = "done" => AbsAllows(c, out)
\* the decision is total and deterministic: every tuple is decided by exactly one branch
Decided == pc = "cfg" => ENABLED Next
\* test-plan output: one line per decided tuple (cfg adds this invariant when the plan is wanted)
Emit == pc = "done" => PrintT(ToJson([cfg |-> c, pred |-> out]))
=============================================================================
