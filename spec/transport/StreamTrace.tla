------------------------------ MODULE StreamTrace ------------------------------
(* Abs oracle of C01 as a trace specification (one session per execution).                                  *)
(*                                                                                                          *)
(* Recorded events (harness/drv_tcpstream.cpp):                                                              *)
(*   Begin{...}                     configuration (informational)                                            *)
(*   SendCall{t,idx,len}            thread t is about to call Transport::send / sendAsync with payload idx     *)
(*                                  (t = "io": the call is made on the engine's own I/O thread, from a callback) *)
(*   SendRet{t,idx,acc}             the call returned (acc = accepted)                                         *)
(*   PeerRecv{idx,from,to}          the raw (or OpenSSL) peer read bytes [from,to) of payload idx, in stream   *)
(*                                  order (every payload byte encodes (idx, offset); the peer decodes them)    *)
(*   Garbled{...}                   the peer read a byte that is not the continuation of any payload           *)
(*   PeerWrite{pidx,len}            the peer wrote payload pidx (in order, one peer)                           *)
(*   Data{pidx,from,to}             the data callback delivered bytes [from,to) of peer payload pidx           *)
(*   DataGarbled{...}               the data callback delivered a byte that is no continuation                 *)
(*   Closed                         the close callback fired for the session                                   *)
(*   End                            after a generous bounded wait with the peer reading and the kernel open:   *)
(*                                  nothing moves any more                                                     *)
(*                                                                                                          *)
(* What the statement demands, and nothing else:                                                             *)
(*  S1  the peer receives the payloads contiguously (no interleaving), each from offset 0 upwards without gap  *)
(*      or repetition (no loss / duplication / reordering inside a payload), each at most once;                *)
(*  S2  order = the order the sends were accepted.  The accepted order of two concurrent calls is not          *)
(*      observable from outside, so the oracle demands exactly the observable part: a payload may start on the *)
(*      wire only when every payload whose call had RETURNED (accepted) before this payload's call STARTED is   *)
(*      complete on the wire.  For sequential callers this is the call order; per-thread order is implied.     *)
(*      (This also is "never skipped silently": a later payload cannot appear while an earlier one is missing.)*)
(*  S3  a send that was refused (acc = FALSE) never appears;                                                   *)
(*  S4  at End: either the session was reported closed (then S1-S3 make what the peer has a prefix), or every  *)
(*      accepted payload is complete on the wire (liveness as a bounded wait);                                 *)
(*  R1  read side: the data callback delivers the peer's bytes in order, each once; at End either closed or    *)
(*      everything the peer wrote was delivered.                                                              *)
EXTENDS TraceBase, FiniteSets, Integers

VARIABLES calls,      \* [idx -> [len, hb]]   hb = accepted sends that had returned when this call started
          ret,        \* [idx -> BOOLEAN]      returned calls
          cur,        \* [idx, off] payload currently arriving at the peer (idx = 0: at a payload boundary)
          complete,   \* payloads completely received by the peer
          closedSeen,
          rs,         \* Seq([pidx, len]) peer writes
          rcur        \* [k, off]: next byte the data callback must deliver = byte off of rs[k]
vars == <<l, calls, ret, cur, complete, closedSeen, rs, rcur>>

None == [idx |-> 0, off |-> 0]
Canon == /\ calls' = <<>> /\ ret' = <<>> /\ cur' = None /\ complete' = {} /\ closedSeen' = FALSE /\ rs' = <<>>
         /\ rcur' = [k |-> 1, off |-> 0]
Init == /\ l = 1 /\ calls = <<>> /\ ret = <<>> /\ cur = None /\ complete = {} /\ closedSeen = FALSE /\ rs = <<>>
        /\ rcur = [k |-> 1, off |-> 0]

Accepted == {i \in DOMAIN ret : ret[i]}
Started(i) == i \in complete \/ cur.idx = i

EvReset == IsEv("Reset") /\ Canon
EvBegin == IsEv("Begin") /\ Canon

EvSendCall == /\ IsEv("SendCall") /\ Ev.idx \notin DOMAIN calls /\ Ev.len > 0
              /\ calls' = [i \in DOMAIN calls \cup {Ev.idx} |-> IF i = Ev.idx THEN [len |-> Ev.len, hb |-> Accepted] ELSE calls[i]]
              /\ UNCHANGED <<ret, cur, complete, closedSeen, rs, rcur>>

EvSendRet == /\ IsEv("SendRet") /\ Ev.idx \in DOMAIN calls /\ Ev.idx \notin DOMAIN ret
             /\ (~Ev.acc) => ~Started(Ev.idx)                                                        \* S3
             /\ ret' = [i \in DOMAIN ret \cup {Ev.idx} |-> IF i = Ev.idx THEN Ev.acc ELSE ret[i]]
             /\ UNCHANGED <<calls, cur, complete, closedSeen, rs, rcur>>

EvPeerRecv == /\ IsEv("PeerRecv") /\ Ev.idx \in DOMAIN calls
              /\ (Ev.idx \in DOMAIN ret) => ret[Ev.idx]                                               \* S3
              /\ Ev.from < Ev.to /\ Ev.to <= calls[Ev.idx].len
              /\ IF cur.idx = 0
                   THEN Ev.from = 0 /\ Ev.idx \notin complete /\ calls[Ev.idx].hb \subseteq complete  \* S1, S2
                   ELSE Ev.idx = cur.idx /\ Ev.from = cur.off                                         \* S1
              /\ IF Ev.to = calls[Ev.idx].len
                   THEN cur' = None /\ complete' = complete \cup {Ev.idx}
                   ELSE cur' = [idx |-> Ev.idx, off |-> Ev.to] /\ complete' = complete
              /\ UNCHANGED <<calls, ret, closedSeen, rs, rcur>>

EvPeerWrite == /\ IsEv("PeerWrite") /\ Ev.len > 0
               /\ rs' = Append(rs, [pidx |-> Ev.pidx, len |-> Ev.len])
               /\ UNCHANGED <<calls, ret, cur, complete, closedSeen, rcur>>

EvData == /\ IsEv("Data") /\ rcur.k <= Len(rs)
          /\ Ev.pidx = rs[rcur.k].pidx /\ Ev.from = rcur.off /\ Ev.from < Ev.to /\ Ev.to <= rs[rcur.k].len   \* R1
          /\ rcur' = IF Ev.to = rs[rcur.k].len THEN [k |-> rcur.k + 1, off |-> 0] ELSE [k |-> rcur.k, off |-> Ev.to]
          /\ UNCHANGED <<calls, ret, cur, complete, closedSeen, rs>>

EvClosed == IsEv("Closed") /\ closedSeen' = TRUE /\ UNCHANGED <<calls, ret, cur, complete, rs, rcur>>
\* informational events
EvInfo == (IsEv("PeerEof") \/ IsEv("Note")) /\ UNCHANGED <<calls, ret, cur, complete, closedSeen, rs, rcur>>

EvEnd == /\ IsEv("End")
         /\ closedSeen \/ (/\ DOMAIN calls = DOMAIN ret                                                \* S4
                           /\ Accepted \subseteq complete /\ cur.idx = 0
                           /\ rcur.k = Len(rs) + 1)                                                    \* R1
         /\ UNCHANGED <<calls, ret, cur, complete, closedSeen, rs, rcur>>

\* Garbled / DataGarbled have no action: an execution containing one is rejected at that line
Next == EvReset \/ EvBegin \/ EvSendCall \/ EvSendRet \/ EvPeerRecv \/ EvPeerWrite \/ EvData \/ EvClosed \/ EvInfo \/ EvEnd
Spec == Init /\ [][Next]_vars
===============================================================================
