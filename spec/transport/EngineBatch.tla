------------------------------ MODULE EngineBatch ------------------------------
(* Impl-level specification of how the TCP engine's I/O thread consumes ONE epoll_wait() batch                       *)
(* (tcp_engine.hpp loopUnbatched / loopBatched -> handleFdEvent / process): the kernel copies the ready list into    *)
(* the user array, the thread walks it entry by entry; the eventfd entry runs process(), which executes the queued   *)
(* commands - Close releases a descriptor NUMBER, Connect opens a socket that gets the lowest free number - and      *)
(* every other entry is looked up BY NUMBER in the tag table and dispatched to whatever session owns the number at   *)
(* that moment.  An entry generated for the previous owner of a number is therefore delivered to the new one.        *)
(*                                                                                                                    *)
(* What the code does about it, as deviation flags (TRUE = the code as it is):                                        *)
(*   ProbeOnWritable   the connect-completion path re-checks with getpeername() that the socket really is connected   *)
(*                     (seed C04-8 removes it: a stale "writable" then completes a connect that never happened)      *)
(*   SkipClosedInBatch the usual remedy (remember the numbers released during this batch, skip their entries) -       *)
(*                     FALSE in the code: a stale hang-up / error entry closes the NEW owner of the number (observed   *)
(*                     on the real engine, DESIGN 8.5; no listed property is broken by it - NoCollateralClose is an    *)
(*                     observation).  With TRUE both invariants hold, even without the probe.                          *)
EXTENDS Naturals, FiniteSets, Sequences, TLC
CONSTANTS Fds,               \* descriptor numbers the engine may be given (small naturals)
          MaxGen,            \* bound on sockets opened per number (model bound)
          ProbeOnWritable, SkipClosedInBatch

Kinds == {"writable", "hangup", "cmd"}
\* a socket is a <<number, generation>>; its true state is the kernel's: "syn" (handshake not finished), "est", "reset"
VARIABLES owner,     \* owner[fd] : generation that holds the number now, 0 = free
          gen,       \* gen[fd]   : generations handed out so far
          kst,       \* kst[<<fd, g>>] : kernel state of that socket
          sess,      \* sess[<<fd, g>>] : what the engine believes: "none" | "connecting" | "open" | "closed"
          ready,     \* the kernel's ready list (a sequence of <<kind, fd, g>>): built while the thread is away
          batch,     \* the user array being walked
          cmds,      \* queued commands: <<"close", fd, g>> | <<"connect">>
          released,  \* numbers released while walking the current batch
          lied,      \* sockets announced as connected while the kernel had not finished the handshake
          collateral \* sockets closed by an entry that was generated for another socket

vars == <<owner, gen, kst, sess, ready, batch, cmds, released, lied, collateral>>
Sock == Fds \X (1..MaxGen)

Init == /\ owner = [f \in Fds |-> 0] /\ gen = [f \in Fds |-> 0]
        /\ kst = [s \in Sock |-> "none"] /\ sess = [s \in Sock |-> "none"]
        /\ ready = <<>> /\ batch = <<>> /\ cmds = <<>> /\ released = {} /\ lied = {} /\ collateral = {}

Free == {f \in Fds : owner[f] = 0}
Lowest(S) == CHOOSE f \in S : \A g \in S : f <= g
Cur(f) == <<f, owner[f]>>
InReady(k, f) == \E i \in 1..Len(ready) : ready[i][1] = k /\ ready[i][2] = f

\* ---- environment (kernel, peers, application threads): only while the I/O thread is not walking a batch ------------
\* the application queues a command and writes the eventfd (one "cmd" entry, level-triggered: present once)
AppConnect == /\ batch = <<>> /\ Len(cmds) < 3
              /\ cmds' = Append(cmds, <<"connect", 0, 0>>)
              /\ ready' = IF InReady("cmd", 0) THEN ready ELSE Append(ready, <<"cmd", 0, 0>>)
              /\ UNCHANGED <<owner, gen, kst, sess, batch, released, lied, collateral>>
AppClose(f) == /\ batch = <<>> /\ Len(cmds) < 3 /\ owner[f] # 0 /\ sess[Cur(f)] \in {"connecting", "open"}
               /\ ~\E i \in 1..Len(cmds) : cmds[i] = <<"close", f, owner[f]>>
               /\ cmds' = Append(cmds, <<"close", f, owner[f]>>)
               /\ ready' = IF InReady("cmd", 0) THEN ready ELSE Append(ready, <<"cmd", 0, 0>>)
               /\ UNCHANGED <<owner, gen, kst, sess, batch, released, lied, collateral>>
\* the kernel: a handshake completes / the peer starts reading again (the socket becomes writable); the peer resets
KernelWritable(f) == /\ batch = <<>> /\ owner[f] # 0 /\ kst[Cur(f)] \in {"syn", "est"} /\ ~InReady("writable", f)
                     /\ kst' = [kst EXCEPT ![Cur(f)] = "est"]
                     /\ ready' = Append(ready, <<"writable", f, owner[f]>>)
                     /\ UNCHANGED <<owner, gen, sess, batch, cmds, released, lied, collateral>>
KernelReset(f) == /\ batch = <<>> /\ owner[f] # 0 /\ kst[Cur(f)] = "est" /\ ~InReady("hangup", f)
                  /\ kst' = [kst EXCEPT ![Cur(f)] = "reset"]
                  /\ ready' = Append(ready, <<"hangup", f, owner[f]>>)
                  /\ UNCHANGED <<owner, gen, sess, batch, cmds, released, lied, collateral>>

\* ---- the I/O thread -------------------------------------------------------------------------------------------------
Wait == /\ batch = <<>> /\ ready # <<>>
        /\ batch' = ready /\ ready' = <<>> /\ released' = {}
        /\ UNCHANGED <<owner, gen, kst, sess, cmds, lied, collateral>>

\* process(): every queued command, in order, inside ONE step of the walk (the code swaps the queue out and runs it)
RECURSIVE RunCmds(_, _, _, _, _, _)
RunCmds(q, ow, gn, ks, se, rel) ==
  IF q = <<>> THEN <<ow, gn, ks, se, rel>>
  ELSE LET c == Head(q) IN
       IF c[1] = "close"
       THEN IF ow[c[2]] = c[3] /\ se[<<c[2], c[3]>>] \in {"connecting", "open"}
            THEN RunCmds(Tail(q), [ow EXCEPT ![c[2]] = 0], gn, ks, [se EXCEPT ![<<c[2], c[3]>>] = "closed"], rel \cup {c[2]})
            ELSE RunCmds(Tail(q), ow, gn, ks, se, rel)
       ELSE LET fr == {f \in Fds : ow[f] = 0 /\ gn[f] < MaxGen} IN
            IF fr = {} THEN RunCmds(Tail(q), ow, gn, ks, se, rel)
            ELSE LET f == Lowest(fr) g == gn[f] + 1 IN
                 RunCmds(Tail(q), [ow EXCEPT ![f] = g], [gn EXCEPT ![f] = g], [ks EXCEPT ![<<f, g>>] = "syn"],
                         [se EXCEPT ![<<f, g>>] = "connecting"], rel)

StepCmd == /\ batch # <<>> /\ Head(batch)[1] = "cmd"
           /\ LET r == RunCmds(cmds, owner, gen, kst, sess, released) IN
              /\ owner' = r[1] /\ gen' = r[2] /\ kst' = r[3] /\ sess' = r[4] /\ released' = r[5]
           /\ cmds' = <<>> /\ batch' = Tail(batch)
           /\ UNCHANGED <<ready, lied, collateral>>

\* any other entry: looked up by NUMBER
Skip(e) == IF owner[e[2]] = 0 \/ (SkipClosedInBatch /\ e[2] \in released) THEN TRUE ELSE sess[Cur(e[2])] \notin {"connecting", "open"}
StepSkip == /\ batch # <<>> /\ Head(batch)[1] # "cmd" /\ Skip(Head(batch))
            /\ batch' = Tail(batch) /\ UNCHANGED <<owner, gen, kst, sess, ready, cmds, released, lied, collateral>>
StepWritable == /\ batch # <<>> /\ Head(batch)[1] = "writable" /\ ~Skip(Head(batch))
                /\ LET f == Head(batch)[2] s == Cur(f) IN
                   IF sess[s] = "connecting" /\ (~ProbeOnWritable \/ kst[s] = "est")
                   THEN /\ sess' = [sess EXCEPT ![s] = "open"]
                        /\ lied' = IF kst[s] = "syn" THEN lied \cup {s} ELSE lied
                   ELSE UNCHANGED <<sess, lied>>       \* not connected yet (probe) / already open: write what is pending
                /\ batch' = Tail(batch) /\ UNCHANGED <<owner, gen, kst, ready, cmds, released, collateral>>
StepHangup == /\ batch # <<>> /\ Head(batch)[1] = "hangup" /\ ~Skip(Head(batch))
              /\ LET f == Head(batch)[2] s == Cur(f) stale == Head(batch)[3] # owner[f] IN
                 /\ sess' = [sess EXCEPT ![s] = "closed"] /\ owner' = [owner EXCEPT ![f] = 0]
                 /\ released' = released \cup {f}
                 /\ collateral' = IF stale THEN collateral \cup {s} ELSE collateral
              /\ batch' = Tail(batch) /\ UNCHANGED <<gen, kst, ready, cmds, lied>>

Next == \/ AppConnect \/ Wait \/ StepCmd \/ StepSkip \/ StepWritable \/ StepHangup
        \/ \E f \in Fds : AppClose(f) \/ KernelWritable(f) \/ KernelReset(f)
Spec == Init /\ [][Next]_vars

\* ---- properties ----------------------------------------------------------------------------------------------------------
\* C04, engine half: a connect is announced only for a socket whose handshake the kernel has completed
NoFalseConnect == lied = {}
\* (observation, not a listed property) an entry closes only the socket it was generated for
NoCollateralClose == collateral = {}
\* the walk never dispatches to a session the engine holds no record of
TypeOK == /\ \A f \in Fds : owner[f] \in 0..MaxGen /\ gen[f] \in 0..MaxGen
          /\ \A f \in Fds : owner[f] # 0 => sess[Cur(f)] \in {"connecting", "open"}
================================================================================
