\* exhaustive check of the decision matrix with every deviation switched off (checks/C07.py generates the
\* variants: plan output with INVARIANT Emit, one run per Dev_* flag set TRUE that must violate ImplWithinAbs)
SPECIFICATION Spec
CONSTANTS
  Dev_NoHostnameCheck_Transport = FALSE
  Dev_NoHostnameCheck_HttpClient = FALSE
  Dev_PlaintextFallbackWhenTlsNotEnabled = FALSE
  Dev_ClientCertRequestedNotRequired = FALSE
  Dev_NoVersionFloor = FALSE
  Dev_HttpSchemeCaseDowngrade = FALSE
  Dev_VerifyClockFrozenAtStart = FALSE
INVARIANT ImplWithinAbs
INVARIANT Decided
CHECK_DEADLOCK FALSE
