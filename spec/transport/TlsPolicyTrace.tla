------------------------------ MODULE TlsPolicyTrace ------------------------------
(* Abs oracle of C07 as a trace specification.                                                               *)
(* One execution = one configuration tuple realised on the real engine by harness/drv_tls.cpp = one "Tuple"   *)
(* event carrying the configuration fields and the observables.  The event is accepted iff the property's     *)
(* policy TlsPolicy!AbsAllows admits the observed outcome for that configuration:                              *)
(*   admitted == announced \/ appOut \/ appIn   (announced as connected, or application data went either way) *)
(*   clear    == clearOut \/ engineFirst = "clear"  (the relay read the engine application's marker in clear text,  *)
(*               or the first byte the engine put on some connection was not a TLS record at all)            *)
(*   ver      == peerVer                         (version of a handshake the OpenSSL peer completed, 0 = none) *)
(* Nothing else is demanded: in particular a refused session, a failed start, or a session the model expected *)
(* to succeed but that did not, are all accepted (model drift is counted by checks/C07.py, never an alarm).   *)
(*                                                                                                            *)
(* Named deviations: an outcome that breaks EXACTLY one clause in EXACTLY the way a named deviation of the     *)
(* Impl specification does is consumed by the corresponding Dev action, which prints <<"DEV", line, name>>;   *)
(* checks/C07.py turns every such line into ck.classify(signature) - KNOWN-FINDING only when the signature    *)
(* is listed in known_findings.json with status "known", VIOLATION otherwise.  Any other mismatch leaves the  *)
(* event unmatched and the trace is rejected at that line (Collect = FALSE, the strict oracle).               *)
(* Collect = TRUE is the batch mode used to find ALL offending tuples of a run in one pass: an event that     *)
(* neither Abs nor a named deviation explains is consumed by EvUnexplained, which prints <<"REJECT", line>>;  *)
(* the check re-runs each such tuple and reports it only after the strict oracle has rejected it on its own.  *)
EXTENDS TraceBase

CONSTANT Collect

VARIABLE seen    \* a Tuple event was consumed in the current execution
vars == <<l, seen>>

P == INSTANCE TlsPolicy WITH Dev_NoHostnameCheck_Transport <- FALSE, Dev_NoHostnameCheck_HttpClient <- FALSE,
                             Dev_PlaintextFallbackWhenTlsNotEnabled <- FALSE,
                             Dev_ClientCertRequestedNotRequired <- FALSE, Dev_NoVersionFloor <- FALSE,
                             Dev_HttpSchemeCaseDowngrade <- FALSE, Dev_VerifyClockFrozenAtStart <- FALSE,
                             c <- 0, pc <- 0, out <- 0

Cfg == [role |-> Ev.role, via |-> Ev.via, tlsRequested |-> Ev.tlsRequested, tlsEnabled |-> Ev.tlsEnabled,
        peerKind |-> Ev.peerKind, verify |-> Ev.verify, requireClientCert |-> Ev.requireClientCert,
        anchor |-> Ev.anchor, serverCert |-> Ev.serverCert, clientCert |-> Ev.clientCert, byName |-> Ev.byName,
        clientMax |-> Ev.clientMax, serverMax |-> Ev.serverMax, engineMin |-> Ev.engineMin, lax |-> Ev.lax,
        scheme |-> Ev.scheme, port |-> Ev.port, certLife |-> Ev.certLife, when |-> Ev.when,
        transport |-> Ev.transport]
Obs == [admitted |-> Ev.announced \/ Ev.appOut \/ Ev.appIn, clear |-> Ev.clearOut \/ Ev.engineFirst = "clear",
        ver |-> Ev.peerVer]

\* F-07a: admitted although the certificate was issued for another name; every other clause holds
DevNoHostname(x, o) ==
  /\ x.byName /\ x.serverCert = "WrongName" /\ o.admitted
  /\ ~P!AbsAllows(x, o) /\ P!AbsAllows([x EXCEPT !.byName = FALSE], o)
\* F-07b: TLS requested, no context configured, the session ran in clear text; nothing else is wrong
DevPlaintextFallback(x, o) ==
  /\ x.tlsRequested /\ ~x.tlsEnabled
  /\ ~P!AbsAllows(x, o) /\ P!AbsAllows([x EXCEPT !.tlsRequested = FALSE], o)
\* F-07c: a server that requires client certificates admitted a client that presented none
DevNoClientCert(x, o) ==
  /\ x.role = "Server" /\ x.requireClientCert /\ x.clientCert = "None" /\ o.admitted
  /\ ~P!AbsAllows(x, o) /\ P!AbsAllows([x EXCEPT !.requireClientCert = FALSE], o)

Init == l = 1 /\ seen = FALSE

EvTuple == /\ IsEv("Tuple") /\ ~seen /\ seen' = TRUE
           /\ P!AbsAllows(Cfg, Obs)
Dev_NoHostnameCheck ==
           /\ IsEv("Tuple") /\ ~seen /\ seen' = TRUE
           /\ DevNoHostname(Cfg, Obs) /\ PrintT(<<"DEV", l, "Dev_NoHostnameCheck">>)
Dev_PlaintextFallbackWhenTlsNotEnabled ==
           /\ IsEv("Tuple") /\ ~seen /\ seen' = TRUE
           /\ DevPlaintextFallback(Cfg, Obs) /\ PrintT(<<"DEV", l, "Dev_PlaintextFallbackWhenTlsNotEnabled">>)
Dev_ClientCertRequestedNotRequired ==
           /\ IsEv("Tuple") /\ ~seen /\ seen' = TRUE
           /\ DevNoClientCert(Cfg, Obs) /\ PrintT(<<"DEV", l, "Dev_ClientCertRequestedNotRequired">>)
EvUnexplained ==
           /\ Collect /\ IsEv("Tuple") /\ ~seen /\ seen' = TRUE
           /\ ~P!AbsAllows(Cfg, Obs) /\ ~DevNoHostname(Cfg, Obs) /\ ~DevPlaintextFallback(Cfg, Obs)
           /\ ~DevNoClientCert(Cfg, Obs) /\ PrintT(<<"REJECT", l>>)
EvReset == IsEv("Reset") /\ seen' = FALSE

Next == EvTuple \/ EvReset \/ Dev_NoHostnameCheck \/ Dev_PlaintextFallbackWhenTlsNotEnabled
        \/ Dev_ClientCertRequestedNotRequired \/ EvUnexplained
Spec == Init /\ [][Next]_vars
===================================================================================
