------------------------------ MODULE Teardown ------------------------------
(* Impl-level specification of the teardown handshake of Transport::Impl (transport_impl.hpp, performTeardown /   *)
(* teardownWaitOut / setTeardownFence and the ParkGuard / FlushGuard counters).  Three classes of external thread   *)
(* park or loop inside the Impl while releasing syncMutex: receiveSync waiters, connectSync waiters, setReadMode    *)
(* flushers.  The destroyer sets the entry fence, wakes the connect waiters, stops the engine (whose shutdownDrain  *)
(* closes every session and thereby wakes the receive waiters), waits until the three counters are zero, and only    *)
(* then frees the Impl.  CountX = FALSE drops one class from the wait-out gate (self-tests).                         *)
EXTENDS Naturals, FiniteSets, TLC
CONSTANTS Recv, Conn, Flush, CountRecv, CountConn, CountFlush
T == Recv \cup Conn \cup Flush
VARIABLES pc, shutting, aR, aC, aF, closed, notified, dpc, freed, ioDone
vars == <<pc, shutting, aR, aC, aF, closed, notified, dpc, freed, ioDone>>
Init == /\ pc = [t \in T |-> "out"] /\ shutting = FALSE /\ aR = 0 /\ aC = 0 /\ aF = 0 /\ closed = FALSE /\ notified = {}
        /\ dpc = "idle" /\ freed = FALSE /\ ioDone = FALSE
\* a call may BEGIN only while nobody has started to destroy the object (anything else is a caller bug)
Enter(t) == /\ pc[t] = "out" /\ dpc = "idle"
            /\ IF shutting THEN pc' = [pc EXCEPT ![t] = "returned"] /\ UNCHANGED <<aR, aC, aF>>
               ELSE /\ pc' = [pc EXCEPT ![t] = IF t \in Flush THEN "flushing" ELSE "parked"]
                    /\ aR' = IF t \in Recv THEN aR + 1 ELSE aR
                    /\ aC' = IF t \in Conn THEN aC + 1 ELSE aC
                    /\ aF' = IF t \in Flush THEN aF + 1 ELSE aF
            /\ UNCHANGED <<shutting, closed, notified, dpc, freed, ioDone>>
\* parked waiter: woken by a notification, re-evaluates its predicate under the lock, leaves (guard decrements under the lock)
Pred(t) == IF t \in Recv THEN closed \/ shutting ELSE shutting
Wake(t) == /\ pc[t] = "parked" /\ t \in notified /\ ~freed
           /\ notified' = notified \ {t}
           /\ IF Pred(t)
              THEN /\ pc' = [pc EXCEPT ![t] = "returned"]
                   /\ aR' = IF t \in Recv THEN aR - 1 ELSE aR
                   /\ aC' = IF t \in Conn THEN aC - 1 ELSE aC
              ELSE UNCHANGED <<pc, aR, aC>>
           /\ UNCHANGED <<shutting, aF, closed, dpc, freed, ioDone>>
\* flusher: each loop iteration takes the lock; it leaves when it sees the fence (or when the buffer is empty)
FlushStep(t) == /\ pc[t] = "flushing" /\ ~freed
                /\ pc' = [pc EXCEPT ![t] = "returned"] /\ aF' = aF - 1
                /\ UNCHANGED <<shutting, aR, aC, closed, notified, dpc, freed, ioDone>>
FlushSpin(t) == /\ pc[t] = "flushing" /\ ~freed /\ ~shutting /\ UNCHANGED vars
\* destroyer (non-I/O thread, engine running): fence, stop, wait out, free
DFence == /\ dpc = "idle" /\ dpc' = "stop" /\ shutting' = TRUE
          /\ notified' = notified \cup {t \in Conn : pc[t] = "parked"}
          /\ UNCHANGED <<pc, aR, aC, aF, closed, freed, ioDone>>
\* engine->stop(): the I/O thread's shutdownDrain closes every session (wakes the receive waiters) and is joined
DStop == /\ dpc = "stop" /\ dpc' = "wait" /\ closed' = TRUE /\ ioDone' = TRUE
         /\ notified' = notified \cup {t \in Recv : pc[t] = "parked"}
         /\ UNCHANGED <<pc, shutting, aR, aC, aF, freed>>
Gate == (CountRecv => aR = 0) /\ (CountConn => aC = 0) /\ (CountFlush => aF = 0)
DFree == /\ dpc = "wait" /\ Gate /\ dpc' = "done" /\ freed' = TRUE
         /\ UNCHANGED <<pc, shutting, aR, aC, aF, closed, notified, ioDone>>
Next == (\E t \in T : Enter(t) \/ Wake(t) \/ FlushStep(t)) \/ DFence \/ DStop \/ DFree
Spec == Init /\ [][Next]_vars
\* no memory is used after being freed: nobody is still inside the Impl when it is destroyed
NoFreeWhileInside == freed => \A t \in T : pc[t] \in {"out", "returned"}
\* every blocked call returns and the destroyer finishes
NoStuck == (~ENABLED Next) => (dpc = "done" /\ \A t \in T : pc[t] \in {"out", "returned"})
=============================================================================
