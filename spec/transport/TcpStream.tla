------------------------------ MODULE TcpStream ------------------------------
(* Impl specification of one TCP/TLS session of iora::network::TcpEngine (tcp_engine.hpp), C01.              *)
(*                                                                                                          *)
(* Application threads only enqueue commands (enqueue() under _cmdMutex: the order of the command queue IS   *)
(* the accepted order): push to _cmds + write(_eventFd) (the wake-up).  Everything else is the single I/O     *)
(* thread.  Its loop wakes on the readable eventfd (WakeEvt), drains the eventfd counter (DrainEvt) and only  *)
(* then swaps the command queue into a local batch (SwapCmds) which process() works off (io = "proc" until     *)
(* ProcDone).  Dev_DrainAfterSwap = the counter is drained AFTER the swap: a command enqueued in between has   *)
(* its wake-up consumed and stays in _cmds with the loop asleep (Inv_NoStuck / Live_Cmd).                     *)
(*   process()/doSend   -> DoSendDropClosed / DoSendHandshakeQueue / DoSendDirect(k) (full or short; a short  *)
(*                         plain write requeues the unsent tail at the queue FRONT, a short SSL_write keeps   *)
(*                         the whole buffer and OpenSSL remembers how far it got) / DoSendEagain /            *)
(*                         DoSendError / QueueBack / BackpressureClose / ProcessClose                          *)
(*   onSession(EPOLLOUT) -> EpollOutFires, then the writePending loop, one action per write call:             *)
(*                         WritePendingFull / WritePendingPartial(k) / WritePendingEagain / WritePendingError /*)
(*                         WpEmpty.  updateInterest() (EPOLL_CTL_MOD) is part of the action that calls it:    *)
(*                         MOD re-evaluates readiness, so arming EPOLLOUT on a writable socket queues an event *)
(*   onSession(EPOLLIN)  -> EpollInFires, then the readAvail loop: Recv(k) (+ data callback) / RecvEagain /   *)
(*                         RecvZero                                                                            *)
(*   driveHandshake      -> HandshakeDone                                                                      *)
(* Environment: KernelDrain(n) (the peer reads: room in the socket send buffer; 0 -> >0 is an EPOLLOUT edge),  *)
(* InjectErr (the next write fails, e.g. ECONNRESET), PeerWrite(n), SetRcut(k) (reads return at most k bytes), *)
(* PeerClose.  A write takes min(room, length) bytes, EAGAIN when room = 0.                                    *)
(* Bytes are tagged <<sendIdx, offset>>.  ET = edge-triggered epoll (the default), otherwise level-triggered.  *)
(*                                                                                                          *)
(* Sends from the I/O thread itself: a data callback may call send(); it goes through the same command queue   *)
(* (CbSend inside the callback state "cb", entered by the Recv that delivers a peer write marked PeerWriteGated - *)
(* the conformance driver parks the real I/O thread there), while worker threads' AppSend are accepted at the    *)
(* same time.  The accepted order is the command-queue order whoever called.                                    *)
(* TLS receive side: SSL_read decrypts one record (<= RecMax bytes) into the SSL object and hands out at most    *)
(* Chunk bytes (ioReadChunk); the rest stays buffered in the SSL object (sbuf), invisible to epoll: the edge- or  *)
(* level-triggered re-notification depends on the SOCKET (kbuf) only.                                            *)
(*                                                                                                          *)
(* Deviation flags (all FALSE = the design the code is meant to follow); each is a realistic slip and is used  *)
(* by the check's self-test (TLC must reject it):                                                            *)
(*   Dev_PartialTailToBack      a partially written front buffer is re-queued at the back                      *)
(*   Dev_KeepWrittenPrefix      the written prefix of a partially written buffer is not erased                 *)
(*   Dev_NoRearmAfterShortSend  doSend's short direct write does not arm EPOLLOUT                              *)
(*   Dev_StopReadAfterShort     the read loop stops after a short read instead of at EAGAIN                    *)
(*   Dev_LtStopsAfterOneChunk   level-triggered: the read loop returns after one read ("epoll will tell us again")      *)
(*   Dev_IoSendBypassesQueue    a send issued on the I/O thread is dispatched ahead of the commands already accepted    *)
(*   Dev_DirectWriteIgnoresQueue doSend writes directly although the write queue still holds an unsent tail             *)
EXTENDS Integers, Sequences, FiniteSets, TLC

CONSTANTS Threads, MaxSends, MaxLen, MaxRoom, MaxWq, Tls, ET, PeerBytes, MaxRcut, AllowClose,
          Chunk, RecMax,   \* ioReadChunk; plaintext bytes of one TLS record
          AllowCb,         \* the data callback may park and send
          Dev_PartialTailToBack, Dev_KeepWrittenPrefix, Dev_NoRearmAfterShortSend, Dev_StopReadAfterShort,
          Dev_LtStopsAfterOneChunk, Dev_IoSendBypassesQueue, Dev_DirectWriteIgnoresQueue, Dev_DrainAfterSwap

VARIABLES nextIdx,    \* next send index
          acc,        \* ghost: accepted sends in command-queue order, Seq([idx, off, len]) with off = 0
          cmdq,       \* command queue _cmds: Seq([k: "send"|"close", idx, off, len])
          batch,      \* the commands process() swapped out and is working off
          ev,         \* the eventfd counter is > 0 (readable)
          evd,        \* inside one eventfd wake-up: which of {"drain", "swap"} are done
          wq,         \* Session::wq: Seq([idx, off, len]) = bytes off..len-1 of send idx
          sslPend,    \* TLS: bytes of the front buffer OpenSSL has already written (retry pending with the same buffer)
          wire,       \* bytes the kernel took, Seq(<<idx, offset>>)
          tls,        \* "None" | "Handshake" | "Open"
          wantWrite, armed,   \* Session::wantWrite; EPOLLOUT is in the epoll interest set
          outEvt,     \* an EPOLLOUT event is queued in epoll's ready list (edge-triggered bookkeeping)
          room,       \* bytes the kernel accepts now
          errNext,    \* the next write call fails with a hard error
          closed,
          io,         \* "idle" | "ev" (woken by the eventfd) | "proc" (inside process()) | "wp" (inside writePending) |
                      \* "rd" (inside readAvail) | "cb" (inside the data callback)
          \* ---- read side (counts are enough: the peer writes one ordered stream)
          pw,         \* bytes written by the peer
          kbuf,       \* bytes waiting in the socket receive buffer
          inEvt,      \* an EPOLLIN event is queued
          rcut,       \* a read returns at most rcut bytes
          delivered,  \* bytes handed to the data callback
          peerFin,    \* the peer has closed its side
          sbuf,       \* TLS: bytes decrypted into the SSL object but not yet handed to the data callback (SSL_pending)
          gate        \* the next data callback parks (and may send) before it returns
vars == <<nextIdx, acc, cmdq, batch, ev, evd, wq, sslPend, wire, tls, wantWrite, armed, outEvt, room, errNext, closed, io,
          pw, kbuf, inEvt, rcut, delivered, peerFin, sbuf, gate>>
wvars == <<nextIdx, acc, cmdq, batch, ev, evd, wq, sslPend, wire, tls, wantWrite, armed, outEvt, room, errNext, closed>>
rvars == <<pw, kbuf, inEvt, rcut, delivered, peerFin, sbuf, gate>>

Min(a, b) == IF a < b THEN a ELSE b
Bytes(idx, a, b) == [i \in 1..(b - a) |-> <<idx, a + i - 1>>]          \* bytes a .. b-1 of send idx
RECURSIVE Flat(_)
Flat(q) == IF q = <<>> THEN <<>> ELSE Bytes(Head(q).idx, Head(q).off, Head(q).len) \o Flat(Tail(q))
IsPrefix(s, t) == Len(s) <= Len(t) /\ SubSeq(t, 1, Len(s)) = s

Init == /\ nextIdx = 1 /\ acc = <<>> /\ cmdq = <<>> /\ batch = <<>> /\ ev = FALSE /\ evd = {} /\ wq = <<>> /\ sslPend = 0 /\ wire = <<>>
        /\ tls = (IF Tls THEN "Handshake" ELSE "None")
        /\ wantWrite = FALSE /\ armed = FALSE /\ outEvt = FALSE /\ room = 0 /\ errNext = FALSE /\ closed = FALSE
        /\ io = "idle"
        /\ pw = 0 /\ kbuf = 0 /\ inEvt = FALSE /\ rcut = MaxRcut /\ delivered = 0 /\ peerFin = FALSE
        /\ sbuf = 0 /\ gate = FALSE

\* updateInterest(): EPOLLOUT iff wantWrite or the queue is not empty; EPOLL_CTL_MOD re-evaluates readiness
Rearm(ww, q, rm) == /\ armed' = (ww \/ q # <<>>)
                    /\ outEvt' = ((ww \/ q # <<>>) /\ rm > 0)
CloseCore == /\ closed' = TRUE /\ wq' = <<>> /\ sslPend' = 0 /\ wantWrite' = FALSE /\ armed' = FALSE /\ outEvt' = FALSE
             /\ errNext' = FALSE
CloseSess == CloseCore /\ io' = "idle"        \* from an event handler
CloseProc == CloseCore /\ io' = "proc"        \* from process(): the rest of the batch is still worked off

\* ------------------------------------------------------------------ application threads
AppSend(t, n) == /\ nextIdx <= MaxSends
                 /\ cmdq' = Append(cmdq, [k |-> "send", idx |-> nextIdx, off |-> 0, len |-> n]) /\ ev' = TRUE
                 /\ acc' = Append(acc, [idx |-> nextIdx, off |-> 0, len |-> n])
                 /\ nextIdx' = nextIdx + 1
                 /\ UNCHANGED <<batch, evd, wq, sslPend, wire, tls, wantWrite, armed, outEvt, room, errNext, closed, io>> /\ UNCHANGED rvars
AppClose == /\ AllowClose /\ ~closed /\ (IF cmdq = <<>> THEN TRUE ELSE cmdq[Len(cmdq)].k # "close")
            /\ cmdq' = Append(cmdq, [k |-> "close", idx |-> 0, off |-> 0, len |-> 0]) /\ ev' = TRUE
            /\ UNCHANGED <<nextIdx, acc, batch, evd, wq, sslPend, wire, tls, wantWrite, armed, outEvt, room, errNext, closed, io>> /\ UNCHANGED rvars

\* ------------------------------------------------------------------ I/O thread: process() -> doSend / close
\* the loop wakes on the readable eventfd, then drainEvt() and the swap in process() - in this order in the code
WakeEvt == /\ io = "idle" /\ ev /\ io' = "ev" /\ evd' = {}
           /\ UNCHANGED <<nextIdx, acc, cmdq, batch, ev, wq, sslPend, wire, tls, wantWrite, armed, outEvt, room, errNext, closed>> /\ UNCHANGED rvars
EvNext(done) == IF done = {"drain", "swap"} THEN io' = "proc" /\ evd' = {} ELSE io' = "ev" /\ evd' = done
DrainEvt == /\ io = "ev" /\ "drain" \notin evd /\ (IF Dev_DrainAfterSwap THEN "swap" \in evd ELSE "swap" \notin evd)
            /\ ev' = FALSE /\ EvNext(evd \cup {"drain"})
            /\ UNCHANGED <<nextIdx, acc, cmdq, batch, wq, sslPend, wire, tls, wantWrite, armed, outEvt, room, errNext, closed>> /\ UNCHANGED rvars
SwapCmds == /\ io = "ev" /\ "swap" \notin evd /\ (IF Dev_DrainAfterSwap THEN "drain" \notin evd ELSE "drain" \in evd)
            /\ batch' = cmdq /\ cmdq' = <<>> /\ EvNext(evd \cup {"swap"})
            /\ UNCHANGED <<nextIdx, acc, ev, wq, sslPend, wire, tls, wantWrite, armed, outEvt, room, errNext, closed>> /\ UNCHANGED rvars
ProcDone == /\ io = "proc" /\ batch = <<>> /\ io' = "idle"
            /\ UNCHANGED <<nextIdx, acc, cmdq, batch, ev, evd, wq, sslPend, wire, tls, wantWrite, armed, outEvt, room, errNext, closed>> /\ UNCHANGED rvars

Cmd == Head(batch)
Buf == [idx |-> Cmd.idx, off |-> 0, len |-> Cmd.len]
Proc(kind) == io = "proc" /\ batch # <<>> /\ Cmd.k = kind /\ batch' = Tail(batch) /\ UNCHANGED <<cmdq, ev, evd>>

ProcessClose == /\ Proc("close")
                /\ IF closed THEN UNCHANGED <<wq, sslPend, wantWrite, armed, outEvt, errNext, closed, io>> ELSE CloseProc
                /\ UNCHANGED <<nextIdx, acc, wire, tls, room>> /\ UNCHANGED rvars

DoSendDropClosed == /\ Proc("send") /\ closed
                    /\ UNCHANGED <<nextIdx, acc, wq, sslPend, wire, tls, wantWrite, armed, outEvt, room, errNext, closed, io>>
                    /\ UNCHANGED rvars

DoSendHandshakeQueue ==
    /\ Proc("send") /\ ~closed /\ tls = "Handshake"
    /\ wq' = Append(wq, Buf) /\ wantWrite' = TRUE /\ Rearm(TRUE, Append(wq, Buf), room)
    /\ UNCHANGED <<nextIdx, acc, sslPend, wire, tls, room, errNext, closed, io>> /\ UNCHANGED rvars

\* direct write of k = min(room, len) bytes; k < len: plain -> RequeueTailFront, TLS -> WANT_WRITE, whole buffer queued
DoSendDirect(k) ==
    /\ Proc("send") /\ ~closed /\ tls # "Handshake" /\ wq = <<>> /\ ~errNext /\ room > 0 /\ k = Min(room, Cmd.len)
    /\ wire' = wire \o Bytes(Cmd.idx, 0, k) /\ room' = room - k
    /\ IF k = Cmd.len
         THEN UNCHANGED <<wq, sslPend, wantWrite, armed, outEvt>>
         ELSE /\ IF tls = "Open" THEN wq' = <<Buf>> /\ sslPend' = k
                                 ELSE wq' = <<[Buf EXCEPT !.off = IF Dev_KeepWrittenPrefix THEN 0 ELSE k]>> /\ sslPend' = 0
              /\ wantWrite' = TRUE
              /\ IF Dev_NoRearmAfterShortSend THEN UNCHANGED <<armed, outEvt>> ELSE Rearm(TRUE, <<Buf>>, room - k)
    /\ UNCHANGED <<nextIdx, acc, tls, errNext, closed, io>> /\ UNCHANGED rvars

\* deviation: a direct write although an unsent tail is still queued (it overtakes the tail when the kernel has room again)
DoSendDirectOvertake ==
    /\ Dev_DirectWriteIgnoresQueue
    /\ Proc("send") /\ ~closed /\ tls = "None" /\ wq # <<>> /\ ~errNext /\ room >= Cmd.len
    /\ wire' = wire \o Bytes(Cmd.idx, 0, Cmd.len) /\ room' = room - Cmd.len
    /\ UNCHANGED <<nextIdx, acc, wq, sslPend, tls, wantWrite, armed, outEvt, errNext, closed, io>> /\ UNCHANGED rvars

EnqueueBack == /\ wq' = Append(wq, Buf) /\ wantWrite' = TRUE /\ Rearm(TRUE, Append(wq, Buf), room)
               /\ UNCHANGED <<sslPend, errNext, closed, io>>

DoSendEagain ==
    /\ Proc("send") /\ ~closed /\ tls # "Handshake" /\ wq = <<>> /\ ~errNext /\ room = 0 /\ MaxWq >= 1
    /\ EnqueueBack
    /\ UNCHANGED <<nextIdx, acc, wire, tls, room>> /\ UNCHANGED rvars

DoSendError ==
    /\ Proc("send") /\ ~closed /\ tls # "Handshake" /\ wq = <<>> /\ errNext
    /\ CloseProc
    /\ UNCHANGED <<nextIdx, acc, wire, tls, room>> /\ UNCHANGED rvars

QueueBack ==
    /\ Proc("send") /\ ~closed /\ tls # "Handshake" /\ wq # <<>> /\ Len(wq) + 1 <= MaxWq
    /\ EnqueueBack
    /\ UNCHANGED <<nextIdx, acc, wire, tls, room>> /\ UNCHANGED rvars

\* default closeOnBackpressure policy
BackpressureClose ==
    /\ Proc("send") /\ ~closed /\ tls # "Handshake" /\ wq # <<>> /\ Len(wq) + 1 > MaxWq
    /\ CloseProc
    /\ UNCHANGED <<nextIdx, acc, wire, tls, room>> /\ UNCHANGED rvars

\* ------------------------------------------------------------------ I/O thread: EPOLLOUT -> writePending
OutReady == ~closed /\ armed /\ room > 0 /\ (ET => outEvt)

EpollOutFires == /\ io = "idle" /\ OutReady /\ tls # "Handshake"
                 /\ outEvt' = FALSE /\ io' = "wp"
                 /\ UNCHANGED <<nextIdx, acc, cmdq, batch, ev, evd, wq, sslPend, wire, tls, wantWrite, armed, room, errNext, closed>> /\ UNCHANGED rvars

Front == Head(wq)
FrontFrom == Front.off + sslPend
FrontRem == Front.len - FrontFrom

WpEmpty == /\ io = "wp" /\ wq = <<>>
           /\ wantWrite' = FALSE /\ Rearm(FALSE, <<>>, room) /\ io' = "idle"
           /\ UNCHANGED <<nextIdx, acc, cmdq, batch, ev, evd, wq, sslPend, wire, tls, room, errNext, closed>> /\ UNCHANGED rvars

WritePendingError == /\ io = "wp" /\ wq # <<>> /\ errNext
                     /\ CloseSess
                     /\ UNCHANGED <<nextIdx, acc, cmdq, batch, ev, evd, wire, tls, room>> /\ UNCHANGED rvars

WritePendingEagain == /\ io = "wp" /\ wq # <<>> /\ ~errNext /\ room = 0
                      /\ wantWrite' = TRUE /\ Rearm(TRUE, wq, room) /\ io' = "idle"
                      /\ UNCHANGED <<nextIdx, acc, cmdq, batch, ev, evd, wq, sslPend, wire, tls, room, errNext, closed>> /\ UNCHANGED rvars

WritePendingFull == /\ io = "wp" /\ wq # <<>> /\ ~errNext /\ room >= FrontRem
                    /\ wire' = wire \o Bytes(Front.idx, FrontFrom, Front.len) /\ room' = room - FrontRem
                    /\ wq' = Tail(wq) /\ sslPend' = 0
                    /\ UNCHANGED <<nextIdx, acc, cmdq, batch, ev, evd, tls, wantWrite, armed, outEvt, errNext, closed, io>> /\ UNCHANGED rvars

WritePendingPartial(k) ==
    /\ io = "wp" /\ wq # <<>> /\ ~errNext /\ room > 0 /\ room < FrontRem /\ k = room
    /\ wire' = wire \o Bytes(Front.idx, FrontFrom, FrontFrom + k) /\ room' = 0
    /\ IF tls = "Open"
         THEN sslPend' = sslPend + k /\ wq' = wq                           \* OpenSSL remembers the position; same buffer retried
         ELSE /\ sslPend' = 0
              /\ LET rest == [Front EXCEPT !.off = IF Dev_KeepWrittenPrefix THEN @ ELSE @ + k] IN
                 wq' = IF Dev_PartialTailToBack THEN Append(Tail(wq), rest) ELSE <<rest>> \o Tail(wq)
    /\ wantWrite' = TRUE /\ Rearm(TRUE, wq, 0) /\ io' = "idle"
    /\ UNCHANGED <<nextIdx, acc, cmdq, batch, ev, evd, tls, errNext, closed>> /\ UNCHANGED rvars

\* ------------------------------------------------------------------ TLS handshake completion (driveHandshake)
HandshakeDone == /\ io = "idle" /\ ~closed /\ tls = "Handshake"
                 /\ tls' = "Open" /\ Rearm(wantWrite, wq, room)
                 /\ UNCHANGED <<nextIdx, acc, cmdq, batch, ev, evd, wq, sslPend, wire, wantWrite, room, errNext, closed, io>> /\ UNCHANGED rvars

\* ------------------------------------------------------------------ environment, write side
KernelDrain(n) == /\ room + n <= MaxRoom /\ room' = room + n
                  /\ outEvt' = IF room = 0 /\ armed THEN TRUE ELSE outEvt             \* writable again: an edge
                  /\ UNCHANGED <<nextIdx, acc, cmdq, batch, ev, evd, wq, sslPend, wire, tls, wantWrite, armed, errNext, closed, io>> /\ UNCHANGED rvars
InjectErr == /\ ~errNext /\ ~closed /\ tls # "Handshake" /\ errNext' = TRUE
             /\ UNCHANGED <<nextIdx, acc, cmdq, batch, ev, evd, wq, sslPend, wire, tls, wantWrite, armed, outEvt, room, closed, io>> /\ UNCHANGED rvars

\* ------------------------------------------------------------------ read side
PeerWrite(n) == /\ tls # "Handshake" /\ ~peerFin /\ pw + n <= PeerBytes
                /\ pw' = pw + n /\ kbuf' = kbuf + n /\ inEvt' = TRUE
                /\ UNCHANGED <<rcut, delivered, peerFin, sbuf, gate, io>> /\ UNCHANGED wvars
\* the same, and the data callback that delivers (part of) it parks
PeerWriteGated(n) == /\ AllowCb /\ ~gate /\ ~closed /\ tls # "Handshake" /\ ~peerFin /\ pw + n <= PeerBytes
                     /\ pw' = pw + n /\ kbuf' = kbuf + n /\ inEvt' = TRUE /\ gate' = TRUE
                     /\ UNCHANGED <<rcut, delivered, peerFin, sbuf, io>> /\ UNCHANGED wvars
PeerClose == /\ AllowClose /\ tls # "Handshake" /\ ~peerFin /\ peerFin' = TRUE /\ inEvt' = TRUE
             /\ UNCHANGED <<pw, kbuf, rcut, delivered, sbuf, gate, io>> /\ UNCHANGED wvars
\* (cuts only get tighter, so that a behaviour contains at most MaxRcut - 1 of these steps)
SetRcut(k) == /\ k < rcut /\ rcut' = k /\ UNCHANGED <<pw, kbuf, inEvt, delivered, peerFin, sbuf, gate, io>> /\ UNCHANGED wvars

\* epoll looks at the socket only - never at what the SSL object has buffered
InReady == ~closed /\ (IF ET THEN inEvt ELSE (kbuf > 0 \/ peerFin))
EpollInFires == /\ io = "idle" /\ InReady /\ tls # "Handshake"
                /\ inEvt' = FALSE /\ io' = "rd"
                /\ UNCHANGED <<pw, kbuf, rcut, delivered, peerFin, sbuf, gate>> /\ UNCHANGED wvars
\* where the loop goes after one read + data callback
StopsEarly == Dev_StopReadAfterShort \/ (Dev_LtStopsAfterOneChunk /\ ~ET)
AfterRead == /\ io' = IF gate THEN "cb" ELSE IF StopsEarly THEN "idle" ELSE "rd"
             /\ gate' = FALSE
\* plain: one recv() of at most min(read cut, ioReadChunk) bytes + data callback
Recv(k) == /\ io = "rd" /\ tls # "Open" /\ kbuf > 0 /\ k = Min(kbuf, Min(rcut, Chunk))
           /\ kbuf' = kbuf - k /\ delivered' = delivered + k /\ AfterRead
           /\ UNCHANGED <<pw, inEvt, rcut, peerFin, sbuf>> /\ UNCHANGED wvars
\* TLS: one SSL_read(): when nothing is buffered it first decrypts the next record (the BIO reads the socket for it, short
\* reads or not), then hands out at most ioReadChunk bytes; the rest stays in the SSL object
SslRead(k) == /\ io = "rd" /\ tls = "Open" /\ (sbuf > 0 \/ kbuf > 0)
              /\ LET pull == IF sbuf = 0 THEN Min(kbuf, RecMax) ELSE 0 IN
                 /\ k = Min(sbuf + pull, Chunk)
                 /\ sbuf' = sbuf + pull - k /\ kbuf' = kbuf - pull /\ delivered' = delivered + k
              /\ AfterRead
              /\ UNCHANGED <<pw, inEvt, rcut, peerFin>> /\ UNCHANGED wvars
RecvEagain == /\ io = "rd" /\ kbuf = 0 /\ sbuf = 0 /\ ~peerFin /\ io' = "idle"
              /\ UNCHANGED <<pw, kbuf, inEvt, rcut, delivered, peerFin, sbuf, gate>> /\ UNCHANGED wvars
RecvZero == /\ io = "rd" /\ kbuf = 0 /\ sbuf = 0 /\ peerFin
            /\ CloseSess
            /\ UNCHANGED <<nextIdx, acc, cmdq, batch, ev, evd, wire, tls, room>> /\ UNCHANGED rvars
\* inside the (parked) data callback: the I/O thread calls send() itself - through the same command queue
CbSend(n) == /\ io = "cb" /\ nextIdx <= MaxSends
             /\ LET c == [k |-> "send", idx |-> nextIdx, off |-> 0, len |-> n] IN
                cmdq' = IF Dev_IoSendBypassesQueue THEN <<c>> \o cmdq ELSE Append(cmdq, c)
             /\ ev' = TRUE
             /\ acc' = Append(acc, [idx |-> nextIdx, off |-> 0, len |-> n])
             /\ nextIdx' = nextIdx + 1
             /\ UNCHANGED <<batch, evd, wq, sslPend, wire, tls, wantWrite, armed, outEvt, room, errNext, closed, io>> /\ UNCHANGED rvars
CbReturn == /\ io = "cb" /\ io' = IF StopsEarly THEN "idle" ELSE "rd"
            /\ UNCHANGED rvars /\ UNCHANGED wvars

IoNext == \/ WakeEvt \/ DrainEvt \/ SwapCmds \/ ProcDone
          \/ ProcessClose \/ DoSendDropClosed \/ DoSendHandshakeQueue \/ (\E k \in 1..MaxLen : DoSendDirect(k))
          \/ DoSendEagain \/ DoSendError \/ QueueBack \/ BackpressureClose \/ DoSendDirectOvertake
          \/ EpollOutFires \/ WpEmpty \/ WritePendingError \/ WritePendingEagain \/ WritePendingFull
          \/ (\E k \in 1..MaxRoom : WritePendingPartial(k))
          \/ HandshakeDone
          \/ EpollInFires \/ (\E k \in 1..PeerBytes : Recv(k) \/ SslRead(k)) \/ RecvEagain \/ RecvZero
          \/ (\E n \in 1..MaxLen : CbSend(n)) \/ CbReturn
EnvNext == \/ (\E t \in Threads, n \in 1..MaxLen : AppSend(t, n)) \/ AppClose
           \/ (\E n \in 1..MaxRoom : KernelDrain(n)) \/ InjectErr
           \/ (\E n \in 1..PeerBytes : PeerWrite(n) \/ PeerWriteGated(n)) \/ PeerClose \/ (\E k \in 1..MaxRcut : SetRcut(k))
Next == IoNext \/ EnvNext
Spec == Init /\ [][Next]_vars
\* the I/O thread keeps running and the peer keeps reading
FairSpec == Spec /\ WF_vars(IoNext) /\ WF_vars(\E n \in 1..MaxRoom : KernelDrain(n) /\ room' = MaxRoom)

\* ------------------------------------------------------------------ the property
AccBytes == Flat(acc)
WqBytes == LET f == Flat(wq) IN SubSeq(f, sslPend + 1, Len(f))
CmdBytes == Flat(SelectSeq(batch \o cmdq, LAMBDA c : c.k = "send"))
\* no loss, duplication, reordering, interleaving: what the kernel took, then what is queued, is what was accepted
Inv_Stream == ~closed => wire \o WqBytes \o CmdBytes = AccBytes
\* always (also after an early end): the peer sees a prefix
Inv_WirePrefix == IsPrefix(wire, AccBytes)
Inv_Read == delivered + sbuf + kbuf = pw
Inv_Types == /\ sslPend >= 0 /\ (sslPend > 0 => (wq # <<>> /\ tls = "Open" /\ sslPend < Front.len - Front.off))
             /\ room \in 0..MaxRoom /\ Len(wq) <= MaxSends     \* (the handshake queue is not bounded by maxWriteQueue)
\* lost wake-ups as a safety property: when the kernel has room, nothing is queued in epoll, the eventfd is not readable and
\* the I/O thread is idle, nothing may be left in the command queue, the write queue or the receive buffers of an open session
Quiescent == io = "idle" /\ ~ev /\ room = MaxRoom /\ tls # "Handshake" /\ ~OutReady /\ ~InReady
Inv_NoStuck == (Quiescent /\ ~closed) => (cmdq = <<>> /\ batch = <<>> /\ wq = <<>> /\ kbuf = 0 /\ sbuf = 0)
\* liveness under fairness
Live_Write == (wq # <<>> /\ ~closed /\ tls # "Handshake") ~> (wq = <<>> \/ closed)
Live_Cmd == (cmdq # <<>>) ~> (cmdq = <<>>)
Live_Read == (kbuf + sbuf > 0 /\ ~closed) ~> ((kbuf = 0 /\ sbuf = 0) \/ closed)
=============================================================================
