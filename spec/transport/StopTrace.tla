------------------------------ MODULE StopTrace ------------------------------
(* Abs oracle for the real-engine stop scenario of C05 (harness/drv_stoprace.cpp): no callback starts after a stop()   *)
(* call has returned to a non-callback caller (Cb.as is read at callback entry), every session gets its close, both      *)
(* stop() calls return.                                                                                                  *)
EXTENDS TraceBase
VARIABLES cbs, rets
vars == <<l, cbs, rets>>
Init == l = 1 /\ cbs = 0 /\ rets = 0
EvBegin == IsEv("Begin") /\ cbs' = 0 /\ rets' = 0
EvReset == IsEv("Reset") /\ cbs' = 0 /\ rets' = 0
EvCb == IsEv("Cb") /\ ~Ev.as /\ Ev.k = cbs + 1 /\ cbs' = cbs + 1 /\ UNCHANGED rets
EvStopRet == IsEv("StopRet") /\ rets' = rets + 1 /\ UNCHANGED cbs
EvEnd == IsEv("End") /\ rets = 2 /\ Ev.closes = 3 /\ cbs = 3 /\ UNCHANGED <<cbs, rets>>
Next == EvBegin \/ EvReset \/ EvCb \/ EvStopRet \/ EvEnd
Spec == Init /\ [][Next]_vars
==============================================================================
