------------------------------ MODULE Fanout ------------------------------
(* Impl-level specification of the close fan-out of Transport::Impl::onClose (transport_impl.hpp): global close    *)
(* callback, then the observers of the session (the list is COPIED under observerMutex and the session's entries    *)
(* are removed from both maps, then the copies are invoked in order with no lock held), then the tombstone, then    *)
(* the user-data cleanup (extracted and erased under userDataMutex, invoked outside).  Observe / Unobserve /         *)
(* SetData run concurrently on application threads.  CopyThenIterate = FALSE iterates the live list (self-test:      *)
(* an unobserve during the iteration then skips or repeats an observer).                                            *)
EXTENDS Naturals, Sequences, FiniteSets, TLC
CONSTANTS Tags, CopyThenIterate
VARIABLES reg, cpc, copy, idx, calls, data, cleaned, regBefore, goneBefore, unreg
vars == <<reg, cpc, copy, idx, calls, data, cleaned, regBefore, goneBefore, unreg>>
\* reg : sequence of tags registered for the session, in registration order
Init == /\ reg = <<>> /\ cpc = "idle" /\ copy = <<>> /\ idx = 1 /\ calls = <<>> /\ data = FALSE /\ cleaned = 0
        /\ regBefore = {} /\ goneBefore = {} /\ unreg = {}
InSeq(s, x) == \E i \in 1..Len(s) : s[i] = x
Observe(g) == /\ ~InSeq(reg, g) /\ g \notin unreg /\ cpc \in {"idle", "global"}      \* (a late observe finds the session gone)
              /\ reg' = Append(reg, g) /\ UNCHANGED <<cpc, copy, idx, calls, data, cleaned, regBefore, goneBefore, unreg>>
Unobserve(g) == /\ InSeq(reg, g) /\ reg' = SelectSeq(reg, LAMBDA x : x # g) /\ unreg' = unreg \cup {g}
                /\ UNCHANGED <<cpc, copy, idx, calls, data, cleaned, regBefore, goneBefore>>
SetData == /\ ~data /\ cpc = "idle" /\ data' = TRUE /\ UNCHANGED <<reg, cpc, copy, idx, calls, cleaned, regBefore, goneBefore, unreg>>
CloseBegin == /\ cpc = "idle" /\ cpc' = "global" /\ regBefore' = {reg[i] : i \in 1..Len(reg)} /\ goneBefore' = unreg
              /\ UNCHANGED <<reg, copy, idx, calls, data, cleaned, unreg>>
Global == /\ cpc = "global" /\ cpc' = "copy" /\ calls' = Append(calls, "global")
          /\ UNCHANGED <<reg, copy, idx, data, cleaned, regBefore, goneBefore, unreg>>
CopyObs == /\ cpc = "copy" /\ copy' = reg /\ idx' = 1 /\ cpc' = "iter"
           /\ reg' = IF CopyThenIterate THEN <<>> ELSE reg
           /\ UNCHANGED <<calls, data, cleaned, regBefore, goneBefore, unreg>>
Cur == IF CopyThenIterate THEN copy ELSE reg
CallObs == /\ cpc = "iter" /\ idx <= Len(Cur) /\ calls' = Append(calls, Cur[idx]) /\ idx' = idx + 1
           /\ UNCHANGED <<reg, cpc, copy, data, cleaned, regBefore, goneBefore, unreg>>
ObsDone == /\ cpc = "iter" /\ idx > Len(Cur) /\ cpc' = "cleanup"
           /\ UNCHANGED <<reg, copy, idx, calls, data, cleaned, regBefore, goneBefore, unreg>>
Cleanup == /\ cpc = "cleanup" /\ cpc' = "done"
           /\ IF data THEN calls' = Append(calls, "cleanup") /\ cleaned' = cleaned + 1 /\ data' = FALSE
                      ELSE UNCHANGED <<calls, cleaned, data>>
           /\ UNCHANGED <<reg, copy, idx, regBefore, goneBefore, unreg>>
Next == (\E g \in Tags : Observe(g) \/ Unobserve(g)) \/ SetData \/ CloseBegin \/ Global \/ CopyObs \/ CallObs \/ ObsDone \/ Cleanup
Spec == Init /\ [][Next]_vars
Pos(x) == CHOOSE i \in 1..Len(calls) : calls[i] = x
Count(x) == Cardinality({i \in 1..Len(calls) : calls[i] = x})
\* at most once each; global first; cleanup last and once
Order == /\ \A g \in Tags : Count(g) <= 1
         /\ Count("global") <= 1 /\ Count("cleanup") <= 1
         /\ \A g \in Tags : Count(g) = 1 => (Count("global") = 1 /\ Pos("global") < Pos(g))
         /\ Count("cleanup") = 1 => \A g \in Tags : Count(g) = 1 => Pos(g) < Pos("cleanup")
\* every observer that was registered before the close began and has not been (and is not being) removed is called
AllStillRegisteredCalled == cpc = "done" => \A g \in regBefore : (g \notin unreg) => Count(g) = 1
===========================================================================
