SPECIFICATION Spec
CONSTANTS
  Threads = {"t1", "t2"}
  MaxSends = 3
  MaxLen = 2
  MaxRoom = 2
  MaxWq = 2
  Tls = FALSE
  ET = TRUE
  PeerBytes = 1
  MaxRcut = 1
  AllowClose = TRUE
  Chunk = 3
  RecMax = 3
  AllowCb = FALSE
  Dev_PartialTailToBack = FALSE
  Dev_KeepWrittenPrefix = FALSE
  Dev_NoRearmAfterShortSend = FALSE
  Dev_StopReadAfterShort = FALSE
  Dev_LtStopsAfterOneChunk = FALSE
  Dev_IoSendBypassesQueue = FALSE
  Dev_DirectWriteIgnoresQueue = FALSE
  Dev_DrainAfterSwap = FALSE
INVARIANT Inv_Stream
INVARIANT Inv_WirePrefix
INVARIANT Inv_Read
INVARIANT Inv_Types
INVARIANT Inv_NoStuck
CHECK_DEADLOCK FALSE
