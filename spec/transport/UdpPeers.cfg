SPECIFICATION Spec
CONSTANTS
  Peers = {"p1", "p2"}
  Listeners = {1, 2}
  MaxSid = 4
  MaxSteps = 5
  Sizes = {"m"}
  Cap = 0
  MaxWq = 1
  MaxBurst = 0
  Budget = 2
  ET = TRUE
  Dev_ForeignCloseErasesIndex = FALSE
  Dev_ReadBudget = FALSE
INVARIANT Inv_Sticky
INVARIANT Inv_RxPeer
INVARIANT Inv_OneDatagram
INVARIANT Inv_Addressed
INVARIANT Inv_Index
INVARIANT Inv_IndexOwner
INVARIANT Inv_NoStrand
CHECK_DEADLOCK FALSE
