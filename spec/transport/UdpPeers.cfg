SPECIFICATION Spec
CONSTANTS
  Peers = {"p1", "p2"}
  Listeners = {1, 2}
  MaxSid = 4
  MaxSteps = 5
  Sizes = {"m"}
  Cap = 0
  MaxWq = 1
  Dev_ForeignCloseErasesIndex = FALSE
INVARIANT Inv_Sticky
INVARIANT Inv_RxPeer
INVARIANT Inv_OneDatagram
INVARIANT Inv_Addressed
INVARIANT Inv_Index
INVARIANT Inv_IndexOwner
CHECK_DEADLOCK FALSE
