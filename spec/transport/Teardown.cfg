CONSTANTS Recv = {r1, r2} Conn = {c1} Flush = {f1} CountRecv = TRUE CountConn = TRUE CountFlush = TRUE
SPECIFICATION Spec
INVARIANT NoFreeWhileInside
INVARIANT NoStuck
CHECK_DEADLOCK FALSE
