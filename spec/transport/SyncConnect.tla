------------------------------ MODULE SyncConnect ------------------------------
(* Impl-level specification of Transport::connectSync and the engine callbacks it races with                       *)
(* (transport_impl.hpp): callers register a pending entry under syncMutex, park, and on timeout release the mutex  *)
(* to tell the engine to close the attempt; the I/O thread runs onConnect / onClose, which consume a pending entry  *)
(* (suppressing the global callbacks) or, when there is none, run the GLOBAL callbacks.                             *)
(* MarkAbandoned = TRUE is the repaired code: a waiter that timed out is marked under the lock, and a late          *)
(* onConnect leaves its entry in place so that the close that follows is suppressed too.                            *)
(* Teardown: Fence sets shuttingDown under the lock and wakes the parked callers; a caller that wakes without a      *)
(* result returns ShuttingDown and leaves its entry to the teardown (ReturnShutdown); the engine's stop() then        *)
(* closes every session (IoOnClose).  MarkAbandonedOnTeardown = TRUE is the repaired code (finding F-04b): that       *)
(* caller marks its entry too, so a connect that completes between its decision and the close does not consume it.   *)
EXTENDS Naturals, FiniteSets, TLC
CONSTANTS Callers, MarkAbandoned, MarkAbandonedOnTeardown, WithTeardown
VARIABLES pc, sid, pend, done, res, abandoned, eng, closeCmd, gConnect, gClose, handed, nextSid, shutting
vars == <<pc, sid, pend, done, res, abandoned, eng, closeCmd, gConnect, gClose, handed, nextSid, shutting>>
\* eng[s] \in {"connecting", "open", "closed"}; pend : set of session ids with a pending entry
Sids == 1..Cardinality(Callers)
Init == /\ pc = [c \in Callers |-> "start"] /\ sid = [c \in Callers |-> 0] /\ pend = {} /\ done = {} /\ res = [c \in Callers |-> "-"]
        /\ abandoned = {} /\ eng = [s \in Sids |-> "none"] /\ closeCmd = {} /\ gConnect = {} /\ gClose = {} /\ handed = {}
        /\ nextSid = 1 /\ shutting = FALSE
\* caller: lock, fence, engine->connect, register, park (the lock is held from connect to the wait: one step)
Register(c) == /\ pc[c] = "start" /\ ~shutting
               /\ sid' = [sid EXCEPT ![c] = nextSid] /\ nextSid' = nextSid + 1
               /\ eng' = [eng EXCEPT ![nextSid] = "connecting"] /\ pend' = pend \cup {nextSid}
               /\ pc' = [pc EXCEPT ![c] = "parked"]
               /\ UNCHANGED <<done, res, abandoned, closeCmd, gConnect, gClose, handed, shutting>>
Fence == /\ WithTeardown /\ ~shutting /\ shutting' = TRUE
         /\ UNCHANGED <<pc, sid, pend, done, res, abandoned, eng, closeCmd, gConnect, gClose, handed, nextSid>>
\* woken by the fence, no result yet: ShuttingDown; the pending entry stays (teardown owns the maps)
ReturnShutdown(c) == /\ pc[c] = "parked" /\ shutting /\ sid[c] \notin done
                     /\ abandoned' = IF MarkAbandonedOnTeardown THEN abandoned \cup {sid[c]} ELSE abandoned
                     /\ pc' = [pc EXCEPT ![c] = "returned"] /\ res' = [res EXCEPT ![c] = "shutdown"]
                     /\ UNCHANGED <<sid, pend, done, eng, closeCmd, gConnect, gClose, handed, nextSid, shutting>>
WakeDone(c) == /\ pc[c] = "parked" /\ sid[c] \in done
               /\ pc' = [pc EXCEPT ![c] = "returned"]
               /\ handed' = IF res[c] = "ok" THEN handed \cup {sid[c]} ELSE handed
               /\ UNCHANGED <<sid, pend, done, res, abandoned, eng, closeCmd, gConnect, gClose, nextSid, shutting>>
\* timeout: not done; release the mutex (after marking the waiter when MarkAbandoned)
TimeoutUnlock(c) == /\ pc[c] = "parked" /\ sid[c] \notin done
                    /\ abandoned' = IF MarkAbandoned THEN abandoned \cup {sid[c]} ELSE abandoned
                    /\ pc' = [pc EXCEPT ![c] = "unlocked"]
                    /\ UNCHANGED <<sid, pend, done, res, eng, closeCmd, gConnect, gClose, handed, nextSid, shutting>>
IssueClose(c) == /\ pc[c] = "unlocked" /\ closeCmd' = closeCmd \cup {sid[c]}
                 /\ pc' = [pc EXCEPT ![c] = "relock"]
                 /\ UNCHANGED <<sid, pend, done, res, abandoned, eng, gConnect, gClose, handed, nextSid, shutting>>
ReturnTimeout(c) == /\ pc[c] = "relock" /\ pc' = [pc EXCEPT ![c] = "returned"] /\ res' = [res EXCEPT ![c] = "timeout"]
                    /\ UNCHANGED <<sid, pend, done, abandoned, eng, closeCmd, gConnect, gClose, handed, nextSid, shutting>>
\* I/O thread
CallerOf(s) == CHOOSE c \in Callers : sid[c] = s
IoOnConnect(s) == /\ eng[s] = "connecting" /\ eng' = [eng EXCEPT ![s] = "open"]
                  /\ IF s \in pend
                     THEN IF s \in abandoned
                          THEN UNCHANGED <<pend, done, res, gConnect>>          \* keep the entry, fire nothing
                          ELSE /\ pend' = pend \ {s} /\ done' = done \cup {s} /\ res' = [res EXCEPT ![CallerOf(s)] = IF pc[CallerOf(s)] = "parked" THEN "ok" ELSE @]
                               /\ UNCHANGED gConnect
                     ELSE gConnect' = gConnect \cup {s} /\ UNCHANGED <<pend, done, res>>
                  /\ UNCHANGED <<pc, sid, abandoned, closeCmd, gClose, handed, nextSid, shutting>>
\* the engine closes a session: refused/failed connect, peer close, or a Close command
IoOnClose(s) == /\ eng[s] \in {"connecting", "open"} /\ (eng[s] = "open" \/ s \in closeCmd \/ TRUE)
                /\ eng' = [eng EXCEPT ![s] = "closed"]
                /\ IF s \in pend
                   THEN /\ pend' = pend \ {s} /\ done' = done \cup {s}
                        /\ res' = [res EXCEPT ![CallerOf(s)] = IF @ = "-" /\ pc[CallerOf(s)] = "parked" THEN "err" ELSE @] /\ UNCHANGED gClose
                   ELSE gClose' = gClose \cup {s} /\ UNCHANGED <<pend, done, res>>
                /\ UNCHANGED <<pc, sid, abandoned, closeCmd, gConnect, handed, nextSid, shutting>>
Next == \/ Fence
        \/ \E c \in Callers : Register(c) \/ WakeDone(c) \/ TimeoutUnlock(c) \/ IssueClose(c) \/ ReturnTimeout(c) \/ ReturnShutdown(c)
        \/ \E s \in Sids : IoOnConnect(s) \/ IoOnClose(s)
Spec == Init /\ [][Next]_vars
\* the global callbacks never see a session no caller was given - or will be given: a completed, not yet returned ok counts
WillHand(s) == \E c \in Callers : sid[c] = s /\ res[c] = "ok" /\ pc[c] = "parked"
GlobalOnlyOwned == \A s \in gConnect \cup gClose : s \in handed \/ WillHand(s)
OkOnlyLive == \A c \in Callers : (pc[c] = "returned" /\ res[c] = "ok") => sid[c] \notin closeCmd
================================================================================
