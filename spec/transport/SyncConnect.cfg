CONSTANTS Callers = {c1, c2} MarkAbandoned = TRUE
SPECIFICATION Spec
INVARIANT GlobalOnlyOwned
INVARIANT OkOnlyLive
CHECK_DEADLOCK FALSE
