------------------------------ MODULE ConnectRealTrace ------------------------------
(* Abs oracle of C04 on the REAL TcpEngine (harness/drv_connectreal.cpp): targets that accept, refuse, black-hole,     *)
(* reset right after accepting, and black-hole calls that are cancelled.  Times are steady-clock milliseconds measured   *)
(* by the calling thread itself.                                                                                        *)
(*   accept     => success with a LIVE session (bytes sent on it reached the peer)                                      *)
(*   refused    => a definite error, not a time-out, before the timeout                                                 *)
(*   blackhole  => Timeout, not before the timeout and not later than timeout + Slack                                   *)
(*   cancel     => Cancelled, no later than the moment of cancellation + one polling interval + Slack                   *)
(*   reset      => success or a definite error, in time                                                                 *)
(*   the global connect/close callbacks fire only for sessions some call handed to its caller                           *)
(*   once everything settled the engine holds exactly the sessions that were handed out and are still open - a          *)
(*   timed-out or cancelled attempt leaves no connection behind - and none after stop                                   *)
EXTENDS TraceBase, FiniteSets, Integers
Slack == 1500
Poll == 100
VARIABLES okLive
vars == <<l, okLive>>
\* sessions some call returned successfully, anywhere in this execution (a callback may be logged before its ConnRet)
ExecStart(i) == CHOOSE b \in 1..i : Log[b].e = "Begin" /\ \A j \in (b+1)..i : Log[j].e # "Begin"
ExecEnd(i) == IF \E j \in i..Len(Log) : Log[j].e = "Reset" THEN CHOOSE j \in i..Len(Log) : Log[j].e = "Reset" /\ \A k \in i..(j-1) : Log[k].e # "Reset" ELSE Len(Log)
OkSids(i) == {Log[j].s : j \in {k \in ExecStart(i)..ExecEnd(i) : Log[k].e = "ConnRet" /\ Log[k].ok}}
Init == l = 1 /\ okLive = 0
EvBegin == IsEv("Begin") /\ okLive' = 0
EvReset == IsEv("Reset") /\ okLive' = 0
EvConnCall == IsEv("ConnCall") /\ UNCHANGED okLive
EvConnRet ==
    /\ IsEv("ConnRet")
    /\ CASE Ev.kind = "accept"    -> Ev.ok /\ Ev.live /\ Ev.ms <= Ev.to + Slack
         [] Ev.kind = "refused"   -> ~Ev.ok /\ Ev.err = "Error" /\ Ev.ms < Ev.to
         [] Ev.kind = "blackhole" -> ~Ev.ok /\ Ev.err = "Timeout" /\ Ev.ms >= Ev.to /\ Ev.ms <= Ev.to + Slack
         [] Ev.kind = "cancel"    -> ~Ev.ok /\ Ev.err = "Cancelled" /\ Ev.ms * 10 <= Ev.to * 4 + (Poll + Slack) * 10
         [] Ev.kind = "reset"     -> (Ev.ok \/ Ev.err = "Error") /\ Ev.ms <= Ev.to + Slack
         [] OTHER -> FALSE
    /\ okLive' = IF Ev.ok /\ Ev.kind = "accept" THEN okLive + 1 ELSE okLive
\* never for a session a synchronous connect did not hand to its caller; the connect callback is suppressed altogether
EvGlobal == /\ IsEv("Global") /\ Ev.cb = "close" /\ Ev.s \in OkSids(l) /\ UNCHANGED okLive
EvSettled == /\ IsEv("Settled") /\ Ev.g = okLive /\ UNCHANGED okLive
EvEnd == /\ IsEv("End") /\ Ev.g = 0 /\ UNCHANGED okLive
Next == EvBegin \/ EvReset \/ EvConnCall \/ EvConnRet \/ EvGlobal \/ EvSettled \/ EvEnd
Spec == Init /\ [][Next]_vars
=====================================================================================
