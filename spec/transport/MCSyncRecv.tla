---- MODULE MCSyncRecv ----
EXTENDS SyncRecv
ChunksDef == <<2, 2, 1, 1>>
====
