------------------------------ MODULE SyncRecv ------------------------------
(* Impl-level specification of the synchronous receive path of Transport::Impl (transport_impl.hpp): one       *)
(* session in Sync mode, the I/O thread (onData / onClose run under syncMutex) and one reader in receiveSync.   *)
(*   OnData       append, or (buffer would exceed Cap) set the overflow flag and drop the chunk                  *)
(*   OnClose      closed := TRUE, wake the waiter                                                               *)
(*   RecvEnter(n) the reader calls receiveSync with a buffer of n bytes and takes the lock                      *)
(*   RecvPark / RecvWake / RecvTimeout   predicate wait on the buffer's condition variable                      *)
(*   RecvDrain / RecvOverflow / RecvClosed   the three exits, in the order the code tests them                  *)
(* Abs ghost: `cur` (bytes handed out), `ovfAt` (position of the first dropped byte), `closeAt`; `bad` is set   *)
(* when a return is not what the property allows.  DropAfterOverflow = TRUE is the repaired onData (everything  *)
(* after the first dropped chunk is dropped too); FALSE is the original, which lets later chunks that fit       *)
(* through - the reader then sees bytes from after the gap before it sees the error.                            *)
EXTENDS Integers, Sequences, FiniteSets, TLC
CONSTANTS Chunks, Cap, BufLens, MaxRecv, DropAfterOverflow
VARIABLES nextChunk, arrived, buf, hasOverflow, closed, rpc, rlen, calls, parked, wake, cur, ovfAt, closeAt, bad
vars == <<nextChunk, arrived, buf, hasOverflow, closed, rpc, rlen, calls, parked, wake, cur, ovfAt, closeAt, bad>>
Ids(from, n) == [i \in 1..n |-> from + i - 1]     \* byte ids are consecutive naturals in arrival order, starting at 0
Init == /\ nextChunk = 1 /\ arrived = 0 /\ buf = <<>> /\ hasOverflow = FALSE /\ closed = FALSE
        /\ rpc = "idle" /\ rlen = 0 /\ calls = 0 /\ parked = FALSE /\ wake = FALSE
        /\ cur = 0 /\ ovfAt = -1 /\ closeAt = -1 /\ bad = FALSE
OnData == /\ nextChunk <= Len(Chunks) /\ ~closed
          /\ LET n == Chunks[nextChunk] IN
             /\ nextChunk' = nextChunk + 1 /\ arrived' = arrived + n
             /\ IF DropAfterOverflow /\ hasOverflow THEN UNCHANGED <<buf, hasOverflow, ovfAt, wake>>
                ELSE IF Len(buf) + n > Cap
                     THEN /\ hasOverflow' = TRUE /\ UNCHANGED buf /\ ovfAt' = (IF ovfAt < 0 THEN arrived ELSE ovfAt)
                          /\ wake' = (wake \/ parked)
                     ELSE /\ buf' = buf \o Ids(arrived, n) /\ UNCHANGED <<hasOverflow, ovfAt>> /\ wake' = (wake \/ parked)
          /\ UNCHANGED <<closed, rpc, rlen, calls, parked, cur, closeAt, bad>>
OnClose == /\ ~closed /\ closed' = TRUE /\ closeAt' = arrived /\ wake' = (wake \/ parked)
           /\ UNCHANGED <<nextChunk, arrived, buf, hasOverflow, rpc, rlen, calls, parked, cur, ovfAt, bad>>
Pred == buf # <<>> \/ closed \/ hasOverflow
RecvEnter(n) == /\ rpc = "idle" /\ calls < MaxRecv /\ n \in BufLens /\ rlen' = n
                /\ calls' = calls + 1 /\ rpc' = "locked"
                /\ UNCHANGED <<nextChunk, arrived, buf, hasOverflow, closed, parked, wake, cur, ovfAt, closeAt, bad>>
RecvPark == /\ rpc = "locked" /\ ~Pred /\ parked' = TRUE /\ wake' = FALSE /\ rpc' = "parked"
            /\ UNCHANGED <<nextChunk, arrived, buf, hasOverflow, closed, rlen, calls, cur, ovfAt, closeAt, bad>>
RecvWake == /\ rpc = "parked" /\ wake /\ parked' = FALSE /\ wake' = FALSE /\ rpc' = "locked"
            /\ UNCHANGED <<nextChunk, arrived, buf, hasOverflow, closed, rlen, calls, cur, ovfAt, closeAt, bad>>
RecvTimeout == /\ rpc = "parked" /\ ~Pred /\ parked' = FALSE /\ wake' = FALSE /\ rpc' = "idle"
            /\ UNCHANGED <<nextChunk, arrived, buf, hasOverflow, closed, rlen, calls, cur, ovfAt, closeAt, bad>>
DeliverOk(bs) == /\ bs = Ids(cur, Len(bs))                      \* exactly the next bytes in arrival order
                 /\ (ovfAt >= 0 => cur + Len(bs) <= ovfAt)      \* and nothing from after the first gap
RecvDrain == /\ rpc = "locked" /\ buf # <<>>
             /\ LET n == IF rlen < Len(buf) THEN rlen ELSE Len(buf)
                    bs == SubSeq(buf, 1, n) IN
                /\ buf' = SubSeq(buf, n + 1, Len(buf))
                /\ bad' = (bad \/ ~DeliverOk(bs)) /\ cur' = bs[n] + 1
             /\ rpc' = "idle" /\ UNCHANGED <<nextChunk, arrived, hasOverflow, closed, rlen, calls, parked, wake, ovfAt, closeAt>>
RecvOverflow == /\ rpc = "locked" /\ buf = <<>> /\ hasOverflow /\ rpc' = "idle"
             /\ bad' = (bad \/ cur # ovfAt)                     \* the error comes right after the pre-overflow bytes
             /\ UNCHANGED <<nextChunk, arrived, buf, hasOverflow, closed, rlen, calls, parked, wake, cur, ovfAt, closeAt>>
RecvClosed == /\ rpc = "locked" /\ buf = <<>> /\ ~hasOverflow /\ closed /\ rpc' = "idle"
             /\ bad' = (bad \/ cur # closeAt)                   \* PeerClosed only after everything before the close
             /\ UNCHANGED <<nextChunk, arrived, buf, hasOverflow, closed, rlen, calls, parked, wake, cur, ovfAt, closeAt>>
Next == OnData \/ OnClose \/ (\E n \in BufLens : RecvEnter(n)) \/ RecvPark \/ RecvWake \/ RecvTimeout \/ RecvDrain \/ RecvOverflow \/ RecvClosed
Spec == Init /\ [][Next]_vars
AbsOk == ~bad
\* a parked reader whose predicate holds has been woken (no lost wake-up): the flag changes under the same mutex
NoLostWake == (rpc = "parked" /\ Pred) => wake
=============================================================================
