------------------------------ MODULE LifecycleTrace ------------------------------
(* Abs oracle of C02 at engine level (real TcpEngine / UdpEngine, harness/drv_lifecycle.cpp).                          *)
(*   - every identifier the application has seen (returned by connect, or announced by an accept/connect callback)      *)
(*     gets exactly one close - never two, and never none once the transport has been stopped in an orderly way          *)
(*   - data events only between the announcement and the close; nothing after the close                                 *)
(*   - identifiers are never reused                                                                                     *)
(*   - the open-sessions gauge, sampled inside callbacks on the I/O thread, never under-counts the sessions that are     *)
(*     announced and not yet closed, and is zero at the end                                                             *)
EXTENDS TraceBase, FiniteSets
VARIABLES st, stopped
vars == <<l, st, stopped>>
Ids == {Log[i].s : i \in {j \in 1..Len(Log) : "s" \in DOMAIN Log[j]}} \ {0}
F(v) == [i \in Ids |-> v]
\* st: "none" | "returned" (by connect, not announced yet) | "open" (announced) | "closed"
Init == l = 1 /\ st = F("none") /\ stopped = FALSE
EvBegin == IsEv("Begin") /\ st' = F("none") /\ stopped' = FALSE
EvReset == IsEv("Reset") /\ st' = F("none") /\ stopped' = FALSE
Open(f) == Cardinality({i \in Ids : f[i] = "open"})
\* an accept announces a FRESH identifier
EvAccept == /\ IsEv("Accept") /\ st[Ev.s] = "none" /\ st' = [st EXCEPT ![Ev.s] = "open"]
            /\ Ev.g >= Open(st') /\ UNCHANGED stopped
\* connect() returned an identifier: fresh - or already announced/closed by the (faster) I/O thread
EvConnRet == /\ IsEv("ConnRet")
             /\ IF Ev.ok /\ Ev.s # 0 /\ st[Ev.s] = "none" THEN st' = [st EXCEPT ![Ev.s] = "returned"] ELSE UNCHANGED st
             /\ UNCHANGED stopped
\* the connect callback: only for an identifier that connect() handed out (its ConnRet may be logged a little later)
EvConnect == /\ IsEv("Connect") /\ st[Ev.s] \in {"none", "returned"} /\ st' = [st EXCEPT ![Ev.s] = "open"]
             /\ Ev.g >= Open(st') /\ UNCHANGED stopped
EvData == /\ IsEv("Data") /\ st[Ev.s] = "open" /\ Ev.g >= Open(st) /\ UNCHANGED <<st, stopped>>
\* exactly one close, only for an identifier the application can know
EvClose == /\ IsEv("Close") /\ st[Ev.s] \in {"none", "returned", "open"} /\ st' = [st EXCEPT ![Ev.s] = "closed"]
           /\ Ev.g >= Open(st') /\ UNCHANGED stopped
\* a gauge sample taken by the application thread while nothing is in flight (after a settle time): never under-counts
EvGauge == IsEv("Gauge") /\ Ev.g >= Open(st) /\ UNCHANGED <<st, stopped>>
EvLifeCall == IsEv("LifeCall") /\ UNCHANGED <<st, stopped>>
\* orderly stop: every identifier the application has seen is closed by now
EvLifeRet == /\ IsEv("LifeRet") /\ \A i \in Ids : st[i] \in {"none", "closed"} /\ stopped' = TRUE /\ UNCHANGED st
EvEnd == /\ IsEv("End") /\ \A i \in Ids : st[i] \in {"none", "closed"} /\ Ev.g = 0 /\ UNCHANGED <<st, stopped>>
Next == EvBegin \/ EvReset \/ EvGauge \/ EvAccept \/ EvConnRet \/ EvConnect \/ EvData \/ EvClose \/ EvLifeCall \/ EvLifeRet \/ EvEnd
Spec == Init /\ [][Next]_vars
===================================================================================
