\* the strict oracle: an event that the property's policy does not admit is left unmatched
SPECIFICATION Spec
CONSTANT Collect = FALSE
INVARIANT TraceChk
POSTCONDITION TracePost
CHECK_DEADLOCK FALSE
