------------------------------ MODULE EngineShutdown ------------------------------
(* Impl specification of the command queue and the shutdown of iora's TcpEngine / UdpEngine                          *)
(* (include/iora/network/detail/tcp_engine.hpp: enqueue(), process(), stop(), loop*(), shutdownDrain(); the UDP       *)
(* engine has the same structure), at the grain of their critical sections.  Part of C05 (and of C02's "exactly one   *)
(* close"): what does a command that races the shutdown get?                                                          *)
(*                                                                                                                    *)
(*   application threads  Enq(t, k)      enqueue under _cmdMutex: refuse if _cmdsClosed, else push + write(_eventFd)   *)
(*                                        k in {"connect", "listen", "send"};  connect() hands the session id out when  *)
(*                                        the push succeeded; addListener() then blocks in future::get()               *)
(*                        ListenDone(t)   the synchronous addListener caller's future became ready                     *)
(*                        StopCas(t) / StopEnq(t) / StopJoin(t)   stop(): _stopMutex, CAS on _running, enqueue(Shutdown),*)
(*                                        join.  A caller that loses the CAS returns (after _stopMutex: not before the  *)
(*                                        winner has joined).                                                          *)
(*   I/O thread           Wake            epoll_wait returns because the eventfd is readable                           *)
(*                        Swap            process(): q.swap(_cmds) under _cmdMutex                                      *)
(*                        Exec            one command of the swapped batch: Shutdown clears _running; connect opens the *)
(*                                        session (connect callback); listen fulfils its promise                       *)
(*                        LoopExit        the loop condition sees _running = FALSE: shutdownDrain begins               *)
(*                        DrainSwap / DrainExec   shutdownDrain's process()                                             *)
(*                        CloseSessions   every open session is closed, with its close callback                        *)
(*                        CloseQueue      under _cmdMutex: _cmdsClosed = TRUE, residual.swap(_cmds), close(_eventFd)    *)
(*                        Residual        promises of residual listen commands are failed, residual connects get their *)
(*                                        close callback                                                               *)
(*                        IoDone          the thread ends (join returns)                                               *)
(* Deviation flags (FALSE = the code as it is; each must make TLC report a violation - self-test of the check):         *)
(*   Dev_ResidualConnectDropped   shutdownDrain forgets residual connect commands (finding F-02a before its repair)     *)
(*   Dev_ResidualListenDropped    ... and residual listen promises (the addListener caller would block for ever)        *)
(*   Dev_CloseFdOutsideLock       the eventfd is closed before, not together with, closing the queue: an enqueue in     *)
(*                                between writes to a closed (possibly reused) descriptor                               *)
(*   Dev_StopLoserReturnsEarly    no _stopMutex: a stop() that loses the CAS returns at once (finding F-05a)            *)
EXTENDS Naturals, Sequences, FiniteSets, TLC

CONSTANTS Threads,        \* application threads
          Prog,           \* Prog[t]: sequence of "connect" | "listen" | "send" | "stop"
          Dev_ResidualConnectDropped, Dev_ResidualListenDropped, Dev_CloseFdOutsideLock, Dev_StopLoserReturnsEarly

VARIABLES pcT,        \* pcT[t]: index of the next operation of t
          sub,        \* sub[t]: "idle" | "listenWait" | "stopEnq" | "stopJoin" | "stopWaitLock"
          cmds,       \* _cmds: Seq([k, by])
          closedQ,    \* _cmdsClosed
          evfd,       \* "open" | "closed"          (_eventFd)
          evReady,    \* the eventfd is readable
          running,    \* _running
          stopOwner,  \* holder of _stopMutex (a thread or "none")
          io,         \* "wait" | "batch" | "drainSwap" | "drainBatch" | "closeSess" | "closeQ" | "residual" | "done"
          batch,      \* the swapped commands being executed
          residual,
          sess,       \* sess[c]: "none" | "handed" | "open" | "closed"   per connect command c = <<t, i>>
          listenRes,  \* listenRes[t]: "none" | "pending" | "ok" | "failed"
          stopRet,    \* threads whose stop() has returned
          cbAfterStop,\* ghost: a callback ran after some stop() had returned
          badWrite    \* ghost: a write hit a closed eventfd
vars == <<pcT, sub, cmds, closedQ, evfd, evReady, running, stopOwner, io, batch, residual, sess, listenRes, stopRet,
          cbAfterStop, badWrite>>

ConnIds == {<<t, i>> : t \in Threads, i \in 1..3}
Op(t) == Prog[t][pcT[t]]
HasOp(t) == pcT[t] <= Len(Prog[t])

Init == /\ pcT = [t \in Threads |-> 1] /\ sub = [t \in Threads |-> "idle"]
        /\ cmds = <<>> /\ closedQ = FALSE /\ evfd = "open" /\ evReady = FALSE /\ running = TRUE /\ stopOwner = "none"
        /\ io = "wait" /\ batch = <<>> /\ residual = <<>>
        /\ sess = [c \in ConnIds |-> "none"] /\ listenRes = [t \in Threads |-> "none"]
        /\ stopRet = {} /\ cbAfterStop = FALSE /\ badWrite = FALSE

Callback == cbAfterStop' = (cbAfterStop \/ stopRet # {})

\* ---- enqueue(): one critical section under _cmdMutex
Push(c) == /\ cmds' = Append(cmds, c)
           /\ IF evfd = "open" THEN evReady' = TRUE /\ UNCHANGED badWrite
              ELSE UNCHANGED evReady /\ badWrite' = (badWrite \/ Dev_CloseFdOutsideLock)   \* (the code tests _eventFd >= 0)
Enq(t) ==
    /\ HasOp(t) /\ sub[t] = "idle" /\ Op(t) \in {"connect", "listen", "send"}
    /\ IF closedQ
         THEN /\ UNCHANGED <<cmds, evReady, badWrite, sess, listenRes>>        \* refused: connect/send fail, addListener errs
              /\ pcT' = [pcT EXCEPT ![t] = @ + 1] /\ UNCHANGED sub
         ELSE /\ Push([k |-> Op(t), by |-> <<t, pcT[t]>>])
              /\ CASE Op(t) = "connect" -> /\ sess' = [sess EXCEPT ![<<t, pcT[t]>>] = "handed"]
                                           /\ pcT' = [pcT EXCEPT ![t] = @ + 1] /\ UNCHANGED <<sub, listenRes>>
                   [] Op(t) = "listen"  -> /\ listenRes' = [listenRes EXCEPT ![t] = "pending"]
                                           /\ sub' = [sub EXCEPT ![t] = "listenWait"] /\ UNCHANGED <<pcT, sess>>
                   [] OTHER             -> /\ pcT' = [pcT EXCEPT ![t] = @ + 1] /\ UNCHANGED <<sub, sess, listenRes>>
    /\ UNCHANGED <<closedQ, evfd, running, stopOwner, io, batch, residual, stopRet, cbAfterStop>>
ListenDone(t) ==
    /\ sub[t] = "listenWait" /\ listenRes[t] \in {"ok", "failed"}
    /\ sub' = [sub EXCEPT ![t] = "idle"] /\ pcT' = [pcT EXCEPT ![t] = @ + 1] /\ listenRes' = [listenRes EXCEPT ![t] = "none"]
    /\ UNCHANGED <<cmds, closedQ, evfd, evReady, running, stopOwner, io, batch, residual, sess, stopRet, cbAfterStop, badWrite>>

\* ---- stop()
StopCas(t) ==
    /\ HasOp(t) /\ sub[t] = "idle" /\ Op(t) = "stop"
    /\ (Dev_StopLoserReturnsEarly \/ stopOwner = "none")
    /\ IF running
         THEN /\ running' = FALSE /\ sub' = [sub EXCEPT ![t] = "stopEnq"]
              /\ stopOwner' = (IF Dev_StopLoserReturnsEarly THEN stopOwner ELSE t) /\ UNCHANGED <<pcT, stopRet>>
         ELSE /\ pcT' = [pcT EXCEPT ![t] = @ + 1] /\ stopRet' = stopRet \cup {t}      \* lost the CAS: return
              /\ UNCHANGED <<running, sub, stopOwner>>
    /\ UNCHANGED <<cmds, closedQ, evfd, evReady, io, batch, residual, sess, listenRes, cbAfterStop, badWrite>>
StopEnq(t) ==
    /\ sub[t] = "stopEnq"
    /\ IF closedQ THEN UNCHANGED <<cmds, evReady, badWrite>> ELSE Push([k |-> "shutdown", by |-> <<t, 0>>])
    /\ sub' = [sub EXCEPT ![t] = "stopJoin"]
    /\ UNCHANGED <<pcT, closedQ, evfd, running, stopOwner, io, batch, residual, sess, listenRes, stopRet, cbAfterStop>>
StopJoin(t) ==
    /\ sub[t] = "stopJoin" /\ io = "done"
    /\ sub' = [sub EXCEPT ![t] = "idle"] /\ pcT' = [pcT EXCEPT ![t] = @ + 1] /\ stopRet' = stopRet \cup {t}
    /\ stopOwner' = (IF stopOwner = t THEN "none" ELSE stopOwner)
    /\ UNCHANGED <<cmds, closedQ, evfd, evReady, running, io, batch, residual, sess, listenRes, cbAfterStop, badWrite>>

\* ---- the I/O thread
Wake == /\ io = "wait" /\ evReady         \* (also when stop() has cleared _running already: the loop tests it after the batch)
        /\ evReady' = FALSE /\ io' = "batch" /\ batch' = cmds /\ cmds' = <<>>           \* drainEvt(); process(): swap
        /\ UNCHANGED <<pcT, sub, closedQ, evfd, running, stopOwner, residual, sess, listenRes, stopRet, cbAfterStop, badWrite>>
ExecOne(c) ==
    CASE c.k = "shutdown" -> /\ running' = FALSE /\ UNCHANGED <<sess, listenRes, cbAfterStop>>
      [] c.k = "connect"  -> /\ sess' = [sess EXCEPT ![c.by] = "open"] /\ Callback /\ UNCHANGED <<running, listenRes>>
      [] c.k = "listen"   -> /\ listenRes' = [listenRes EXCEPT ![c.by[1]] = "ok"] /\ UNCHANGED <<running, sess, cbAfterStop>>
      [] OTHER            -> UNCHANGED <<running, sess, listenRes, cbAfterStop>>
Exec == /\ io \in {"batch", "drainBatch"} /\ batch # <<>>
        /\ ExecOne(Head(batch)) /\ batch' = Tail(batch)
        /\ UNCHANGED <<pcT, sub, cmds, closedQ, evfd, evReady, stopOwner, io, residual, stopRet, badWrite>>
BatchEnd == /\ io = "batch" /\ batch = <<>>
            /\ io' = (IF running THEN "wait" ELSE "drainSwap")
            /\ UNCHANGED <<pcT, sub, cmds, closedQ, evfd, evReady, running, stopOwner, batch, residual, sess, listenRes, stopRet,
                           cbAfterStop, badWrite>>
\* (a stop() whose Shutdown command is still queued: the loop is woken by the eventfd as for any other command)
DrainSwap == /\ io = "drainSwap" /\ io' = "drainBatch" /\ batch' = cmds /\ cmds' = <<>>
             /\ UNCHANGED <<pcT, sub, closedQ, evfd, evReady, running, stopOwner, residual, sess, listenRes, stopRet, cbAfterStop,
                            badWrite>>
DrainEnd == /\ io = "drainBatch" /\ batch = <<>> /\ io' = "closeSess"
            /\ UNCHANGED <<pcT, sub, cmds, closedQ, evfd, evReady, running, stopOwner, batch, residual, sess, listenRes, stopRet,
                           cbAfterStop, badWrite>>
CloseSessions ==
    /\ io = "closeSess"
    /\ sess' = [c \in ConnIds |-> IF sess[c] = "open" THEN "closed" ELSE sess[c]]
    /\ (IF \E c \in ConnIds : sess[c] = "open" THEN Callback ELSE UNCHANGED cbAfterStop)
    /\ io' = "closeQ"
    /\ evfd' = (IF Dev_CloseFdOutsideLock THEN "closed" ELSE evfd)
    /\ UNCHANGED <<pcT, sub, cmds, closedQ, evReady, running, stopOwner, batch, residual, listenRes, stopRet, badWrite>>
CloseQueue ==
    /\ io = "closeQ"
    /\ closedQ' = TRUE /\ residual' = cmds /\ cmds' = <<>> /\ evfd' = "closed" /\ evReady' = FALSE /\ io' = "residual"
    /\ UNCHANGED <<pcT, sub, running, stopOwner, batch, sess, listenRes, stopRet, cbAfterStop, badWrite>>
Residual ==
    /\ io = "residual"
    /\ listenRes' = [t \in Threads |->
                       IF ~Dev_ResidualListenDropped /\ \E i \in 1..Len(residual) : residual[i].k = "listen" /\ residual[i].by[1] = t
                         THEN "failed" ELSE listenRes[t]]
    /\ LET rc == {residual[i].by : i \in {j \in 1..Len(residual) : residual[j].k = "connect"}} IN
         /\ sess' = [c \in ConnIds |-> IF c \in rc /\ ~Dev_ResidualConnectDropped THEN "closed" ELSE sess[c]]
         /\ (IF rc # {} /\ ~Dev_ResidualConnectDropped THEN Callback ELSE UNCHANGED cbAfterStop)
    /\ residual' = <<>> /\ io' = "done"
    /\ UNCHANGED <<pcT, sub, cmds, closedQ, evfd, evReady, running, stopOwner, batch, stopRet, badWrite>>

Next == \/ \E t \in Threads : Enq(t) \/ ListenDone(t) \/ StopCas(t) \/ StopEnq(t) \/ StopJoin(t)
        \/ Wake \/ Exec \/ BatchEnd \/ DrainSwap \/ DrainEnd \/ CloseSessions \/ CloseQueue \/ Residual
Spec == Init /\ [][Next]_vars
FairSpec == Spec /\ WF_vars(Next)

\* ---- properties
\* no write to a closed eventfd
NoBadWrite == ~badWrite
\* no callback after a stop() has returned
NoCallbackAfterStop == ~cbAfterStop
\* when a stop() has returned, every identifier handed out by a connect() that has returned is closed
\* (a connect whose enqueue succeeded has returned its id: "handed" or "open" must not survive a returned stop)
StopClosesAll == stopRet # {} => \A c \in ConnIds : sess[c] \in {"none", "closed"}
\* nothing is accepted after the queue was closed, and once the I/O thread is done nobody waits for it
NoStrandedListen == io = "done" => \A t \in Threads : listenRes[t] # "pending"
Done == \A t \in Threads : ~HasOp(t)
\* every program runs to its end (checked as "no deadlock before Done" through the invariant below + CHECK_DEADLOCK)
NoStuck == (~ENABLED Next) => (Done \/ io # "done")
\* liveness under fairness: once somebody called stop(), every thread finishes its program
Terminates == (\E t \in Threads : \E i \in 1..Len(Prog[t]) : Prog[t][i] = "stop") => <>Done
=====================================================================================
