------------------------------ MODULE EngineTrace ------------------------------
(* Abs oracle for executions of the REAL TcpEngine / UdpEngine (through Transport) under the deterministic scheduler   *)
(* (harness/drv_sio_engine.cpp): the clauses of C05 and C02 that can be read off the calls and callbacks.              *)
(*                                                                                                                     *)
(*  C05  every call returns (the execution ends "done": no thread stuck, none blocked outside the schedule);            *)
(*       no callback STARTS after a stop() of the current run cycle has returned to a non-callback caller (as);         *)
(*       connect / send / close that BEGAN after such a stop() had returned fail (af) - addListener may succeed, it is  *)
(*       configuration for the next start();                                                                            *)
(*  C02  an identifier is announced at most once, data only between announcement and close, exactly one close, never a  *)
(*       close for an identifier the application never saw, and when stop() - or the destruction by the last owner on   *)
(*       an application thread - returns, every identifier the application has seen is closed.  Identifiers handed out  *)
(*       by a connect() that raced the stop are included: their ConnRet line may come after the LifeRet line, so the    *)
(*       requirement is re-examined at the end of the execution.                                                        *)
(* The log order is the real order: one registered thread runs at a time.                                               *)
EXTENDS TraceBase, FiniteSets
VARIABLES st, seen
vars == <<l, st, seen>>
Ids == {Log[i].s : i \in {j \in 1..Len(Log) : "s" \in DOMAIN Log[j]}} \ {0}
F(v) == [i \in Ids |-> v]
\* st: "none" | "returned" (by connect, not announced yet) | "open" (announced) | "closed"
Init == l = 1 /\ st = F("none") /\ seen = {}
EvBegin == IsEv("Begin") /\ st' = F("none") /\ seen' = {}
EvReset == IsEv("Reset") /\ st' = F("none") /\ seen' = {}
Same == UNCHANGED <<st, seen>>

EvAccept == /\ IsEv("Accept") /\ ~Ev.as /\ st[Ev.s] = "none"
            /\ st' = [st EXCEPT ![Ev.s] = "open"] /\ seen' = seen \cup {Ev.s}
EvConnect == /\ IsEv("Connect") /\ ~Ev.as /\ st[Ev.s] \in {"none", "returned"}
             /\ st' = [st EXCEPT ![Ev.s] = "open"] /\ seen' = seen \cup {Ev.s}
EvData == IsEv("Data") /\ ~Ev.as /\ st[Ev.s] = "open" /\ Same
EvClose == /\ IsEv("Close") /\ ~Ev.as /\ st[Ev.s] \in {"none", "returned", "nohs", "open"}
           /\ st' = [st EXCEPT ![Ev.s] = "closed"] /\ UNCHANGED seen

EvConnCall == IsEv("ConnCall") /\ Same
\* (nc: the target drops SYNs - the attempt is never announced as connected: "nohs" admits a close only)
EvConnRet == /\ IsEv("ConnRet") /\ (Ev.af => ~Ev.ok)
             /\ IF Ev.ok /\ Ev.s # 0
                  THEN /\ seen' = seen \cup {Ev.s}
                       /\ Ev.nc => st[Ev.s] # "open"
                       /\ st' = IF st[Ev.s] = "none" THEN [st EXCEPT ![Ev.s] = IF Ev.nc THEN "nohs" ELSE "returned"] ELSE st
                  ELSE Same
\* connectSync: like connect, and a successful one has been announced by then or is about to be (C04's clauses proper are
\* decided on the scripted engine, where the completion can be placed at will)
EvSyncConnCall == IsEv("SyncConnCall") /\ Same
\* (nc: the target is a port nobody listens on or a listener that drops SYNs - no handshake can complete, success is a lie)
EvSyncConnRet == /\ IsEv("SyncConnRet") /\ (Ev.af => ~Ev.ok) /\ (Ev.nc => ~Ev.ok)
                 /\ IF Ev.ok /\ Ev.s # 0
                      THEN /\ seen' = seen \cup {Ev.s}
                           /\ st' = IF st[Ev.s] = "none" THEN [st EXCEPT ![Ev.s] = "returned"] ELSE st
                      ELSE Same
EvModeCall == IsEv("ModeCall") /\ Same
EvModeRet == IsEv("ModeRet") /\ Same
\* receiveSync: bytes only from a session that has been announced; a call begun after stop() returned gets none
EvRecvCall == IsEv("RecvCall") /\ Same
EvRecvRet == IsEv("RecvRet") /\ (Ev.ok => st[Ev.s] \in {"open", "closed"}) /\ Same
EvSendCall == IsEv("SendCall") /\ Same
EvSendRet == IsEv("SendRet") /\ (Ev.af => ~Ev.ok) /\ Same
EvCloseCall == IsEv("CloseCall") /\ Same
EvCloseRet == IsEv("CloseRet") /\ (Ev.af => ~Ev.ok) /\ Same
EvListenCall == IsEv("ListenCall") /\ Same
EvListenRet == IsEv("ListenRet") /\ Same
EvPeer == IsEv("Peer") /\ Same
EvAddr == IsEv("Addr") /\ Same
EvHole == IsEv("Hole") /\ Same
EvPDrain == IsEv("PDrain") /\ Same
\* the open-sessions gauge after the engine has settled: what the program expects (e.g. 0 after a connectSync that timed
\* out - "a timed-out attempt leaves no open connection behind", on either side of the loopback connection)
EvGauge == IsEv("Gauge") /\ Ev.g = Ev.want /\ Same

AllClosed == \A i \in Ids : st[i] \in {"none", "closed"}
EvLifeCall == IsEv("LifeCall") /\ Same
\* stop() / destruction by the last owner, on an application thread: everything the application has seen is closed.
\* (A release of the last reference INSIDE a callback - t = "io" - defers the teardown to the end of that callback.)
EvLifeRet == /\ IsEv("LifeRet")
             /\ (Ev.op \in {"stop", "destroy"} /\ Ev.t # "io") => AllClosed
             /\ Same
EvEnd == /\ IsEv("End") /\ Ev.outcome \in {"done", "steplimit"}
         /\ Ev.bw = 0                 \* no write() hit a closed descriptor (eventfd wake-up vs close, EngineShutdown!NoBadWrite)
         /\ (Ev.outcome = "done") => (AllClosed /\ \A i \in Ids : st[i] = "closed" => i \in seen)
         /\ Same

Next == EvSyncConnCall \/ EvSyncConnRet \/ EvModeCall \/ EvModeRet \/ EvRecvCall \/ EvRecvRet \/ EvBegin \/ EvReset \/ EvAccept \/ EvConnect \/ EvData \/ EvClose \/ EvConnCall \/ EvConnRet \/ EvSendCall \/ EvSendRet
        \/ EvCloseCall \/ EvCloseRet \/ EvListenCall \/ EvListenRet \/ EvPeer \/ EvAddr \/ EvHole \/ EvPDrain \/ EvGauge \/ EvLifeCall \/ EvLifeRet \/ EvEnd
Spec == Init /\ [][Next]_vars
===============================================================================
