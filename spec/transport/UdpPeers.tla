------------------------------ MODULE UdpPeers ------------------------------
(* Impl specification of iora::network::UdpEngine (include/iora/network/detail/udp_engine.hpp), C06.        *)
(*                                                                                                          *)
(* One action per command handler / event handler of the single I/O thread:                                 *)
(*   readFromListener   -> DgKnown / DgAccept / DgCapDrop        (one recvfrom = lookup or implicit accept,   *)
(*                                                                one data event)                            *)
(*   onClient (EPOLLIN) -> CliDg                                                                             *)
(*   connectDo          -> Connect          viaDo -> Via / ViaCapClose                                       *)
(*   sendDo             -> SendOk / SendEagain / SendEagainBp / SendErr / SendClosed                         *)
(*   flushListener / writeClient -> FlushL / FlushC   (drain the whole queue once the socket is writable)    *)
(*   Cmd::Close -> Close     runGc -> GcRun (after Advance let the idle timeout pass)                        *)
(* Environment: BlockL/UnblockL/BlockC/UnblockC = the kernel answers EAGAIN on that socket or not.           *)
(*                                                                                                          *)
(* The peer index is keyed by the peer ADDRESS only (as in the code), not by (listener, peer).               *)
(* Known deviation: Dev_ForeignCloseErasesIndex = closeNow() erases _peerIndex[pkey] unconditionally         *)
(* (F-06a); FALSE models the repaired code (erase only when the entry points to the closing session).        *)
(*                                                                                                          *)
(* Bursts (MaxBurst > 0): datagrams can also ARRIVE in a socket's receive queue while the I/O thread is busy   *)
(* (ArriveL / ArriveC); epoll then notifies the socket (edge-triggered: once per arrival edge, ET = TRUE;     *)
(* level-triggered: as long as the queue is not empty) and the handler reads "until EAGAIN" as its own loop:  *)
(* EpollInL/EpollInC, one ReadKnown / ReadAccept / ReadCapDrop / ReadC per recvfrom, ReadStopL/ReadStopC when *)
(* the queue is empty.  Dev_ReadBudget = the loop also stops after Budget datagrams (a per-wake-up read       *)
(* budget): on an edge-triggered descriptor the rest is stranded (Inv_NoStrand).  The atomic Dg* / CliDg      *)
(* actions are the special case "one datagram arrives at an idle engine and is read at once".                *)
(*                                                                                                          *)
(* The size class z of a datagram is an action parameter only: it selects the concrete datagram length in    *)
(* the conformance driver ({1, 1472, 65507} bytes) and has no influence on the model state.                  *)
EXTENDS Integers, Sequences, FiniteSets, TLC

CONSTANTS Peers, Listeners, MaxSid, MaxSteps, Sizes,
          Cap,        \* TransportConfig::maxSessions (0 = unlimited)
          MaxWq,      \* TransportConfig::maxWriteQueue
          MaxBurst,   \* datagrams that may wait in one socket receive queue (0 = no bursts: only the atomic Dg* actions)
          Budget, ET, \* read budget of the Dev_ReadBudget deviation; edge- (TRUE) or level-triggered epoll
          Dev_ForeignCloseErasesIndex, Dev_ReadBudget

VARIABLES sess,       \* [1..MaxSid -> [st, role, peer, owner]]   st: "none" | "open" | "closed"
          nextSid,
          peerIndex,  \* [Peers -> 0..MaxSid]   _peerIndex (0 = no entry)
          lq,         \* [Listeners -> Seq([to, id])]   Listener::wq (OutDg)
          cq,         \* [1..MaxSid -> Seq(id)]          Session::wq of client sessions
          blockedL, blockedC,   \* sockets on which the kernel currently answers EAGAIN
          stale,      \* sessions whose lastActivity is older than the idle timeout
          \* ---- ghost / history
          nextId,     \* ids of accepted sends
          sent,       \* [id -> peer]  accepted sends: the peer of the session at the time of the send
          wire,       \* set of [id, to]  datagrams handed to the kernel
          owner,      \* [Peers \X Listeners -> 0..MaxSid]  the session that received this peer's last datagram on that listener
          stickyOk, rxOk,
          steps,
          \* ---- bursts
          rq,         \* [RSocks -> Seq([p, z])]  socket receive queues (listener sockets and connected client sockets)
          inEvt,      \* sockets with an EPOLLIN event queued (edge-triggered bookkeeping)
          rd, cnt     \* the socket whose read loop is running (None when idle) and the datagrams it has read in this loop
core == <<sess, nextSid, peerIndex, lq, cq, blockedL, blockedC, stale, nextId, sent, wire, owner, stickyOk, rxOk>>
burst == <<rq, inEvt, rd, cnt>>
vars == <<sess, nextSid, peerIndex, lq, cq, blockedL, blockedC, stale, nextId, sent, wire, owner, stickyOk, rxOk, steps,
          rq, inEvt, rd, cnt>>

Sids == 1..MaxSid
None == <<"-", 0>>
LS(l) == <<"L", l>>
CS(c) == <<"C", c>>
RSocks == {LS(l) : l \in Listeners} \cup {CS(c) : c \in Sids}
NoSess == [st |-> "none", role |-> "-", peer |-> "-", owner |-> 0]
IsOpen(s) == s \in Sids /\ sess[s].st = "open"
OpenSet == {s \in Sids : sess[s].st = "open"}
CapReached == Cap > 0 /\ Cardinality(OpenSet) >= Cap
FlushPending == (\E l \in Listeners : l \notin blockedL /\ lq[l] # <<>>)
                \/ (\E s \in Sids : IsOpen(s) /\ s \notin blockedC /\ cq[s] # <<>>)
CanStep == steps < MaxSteps /\ ~FlushPending /\ rd = None          \* (the I/O thread is not inside a read loop)

Init == /\ sess = [s \in Sids |-> NoSess] /\ nextSid = 1
        /\ peerIndex = [p \in Peers |-> 0]
        /\ lq = [l \in Listeners |-> <<>>] /\ cq = [s \in Sids |-> <<>>]
        /\ blockedL = {} /\ blockedC = {} /\ stale = {}
        /\ nextId = 1 /\ sent = <<>> /\ wire = {}
        /\ owner = [k \in Peers \X Listeners |-> 0]
        /\ stickyOk = TRUE /\ rxOk = TRUE /\ steps = 0
        /\ rq = [k \in RSocks |-> <<>>] /\ inEvt = {} /\ rd = None /\ cnt = 0

Step == steps' = steps + 1
OwnerOpen(p, l) == owner[<<p, l>>] # 0 /\ IsOpen(owner[<<p, l>>])

\* ------------------------------------------------------------------ inbound on a listener socket
\* what readFromListener does with ONE datagram from p read on listener l (core variables only)
DispKnown(p, l) ==
    /\ peerIndex[p] # 0
    /\ LET s == peerIndex[p] IN
       /\ rxOk' = (rxOk /\ IsOpen(s) /\ sess[s].peer = p)              \* one data event on s
       /\ stickyOk' = (stickyOk /\ (OwnerOpen(p, l) => s = owner[<<p, l>>]))
       /\ owner' = [owner EXCEPT ![<<p, l>>] = s]
       /\ stale' = stale \ {s}
    /\ UNCHANGED <<sess, nextSid, peerIndex, lq, cq, blockedL, blockedC, nextId, sent, wire>>
DispAccept(p, l) ==
    /\ peerIndex[p] = 0 /\ ~CapReached /\ nextSid <= MaxSid
    /\ LET s == nextSid IN
       /\ sess' = [sess EXCEPT ![s] = [st |-> "open", role |-> "srv", peer |-> p, owner |-> l]]   \* onAccept(s, p)
       /\ peerIndex' = [peerIndex EXCEPT ![p] = s]
       /\ owner' = [owner EXCEPT ![<<p, l>>] = s]                                                   \* onData(s)
    /\ stickyOk' = (stickyOk /\ ~OwnerOpen(p, l))      \* a new accept although the receiving session is open
    /\ nextSid' = nextSid + 1
    /\ UNCHANGED <<lq, cq, blockedL, blockedC, stale, nextId, sent, wire, rxOk>>
DispCapDrop(p, l) ==
    /\ peerIndex[p] = 0 /\ CapReached
    /\ stickyOk' = (stickyOk /\ ~OwnerOpen(p, l))      \* silenced although the receiving session is open
    /\ UNCHANGED <<sess, nextSid, peerIndex, lq, cq, blockedL, blockedC, stale, nextId, sent, wire, owner, rxOk>>

\* one datagram arrives at an idle engine and is read at once
DgKnown(p, l, z) == CanStep /\ rq[LS(l)] = <<>> /\ DispKnown(p, l) /\ Step /\ UNCHANGED burst
DgAccept(p, l, z) == CanStep /\ rq[LS(l)] = <<>> /\ DispAccept(p, l) /\ Step /\ UNCHANGED burst
DgCapDrop(p, l, z) == CanStep /\ rq[LS(l)] = <<>> /\ DispCapDrop(p, l) /\ Step /\ UNCHANGED burst

\* ------------------------------------------------------------------ client (connected) sessions
Connect(p) ==
    /\ CanStep /\ nextSid <= MaxSid
    /\ sess' = [sess EXCEPT ![nextSid] = [st |-> "open", role |-> "cli", peer |-> p, owner |-> 0]]  \* onConnect
    /\ nextSid' = nextSid + 1 /\ Step
    /\ UNCHANGED <<peerIndex, lq, cq, blockedL, blockedC, stale, nextId, sent, wire, owner, stickyOk, rxOk>> /\ UNCHANGED burst

CliDg(p, s, z) ==
    /\ CanStep /\ IsOpen(s) /\ sess[s].role = "cli" /\ sess[s].peer = p /\ rq[CS(s)] = <<>>
    /\ stale' = stale \ {s}                                                                           \* onData(s)
    /\ Step
    /\ UNCHANGED <<sess, nextSid, peerIndex, lq, cq, blockedL, blockedC, nextId, sent, wire, owner, stickyOk, rxOk>> /\ UNCHANGED burst

\* ------------------------------------------------------------------ connect-via-listener
Via(l, p) ==
    /\ CanStep /\ nextSid <= MaxSid /\ ~CapReached
    /\ sess' = [sess EXCEPT ![nextSid] = [st |-> "open", role |-> "via", peer |-> p, owner |-> l]]  \* onConnect
    /\ peerIndex' = IF peerIndex[p] = 0 THEN [peerIndex EXCEPT ![p] = nextSid] ELSE peerIndex
    /\ nextSid' = nextSid + 1 /\ Step
    /\ UNCHANGED <<lq, cq, blockedL, blockedC, stale, nextId, sent, wire, owner, stickyOk, rxOk>> /\ UNCHANGED burst

ViaCapClose(l, p) ==
    /\ CanStep /\ nextSid <= MaxSid /\ CapReached
    /\ sess' = [sess EXCEPT ![nextSid] = [st |-> "closed", role |-> "via", peer |-> p, owner |-> l]] \* onClose only
    /\ nextSid' = nextSid + 1 /\ Step
    /\ UNCHANGED <<peerIndex, lq, cq, blockedL, blockedC, stale, nextId, sent, wire, owner, stickyOk, rxOk>> /\ UNCHANGED burst

\* ------------------------------------------------------------------ closing
\* closeNow(s): the repaired design erases the index entry only when it points to s
IndexAfterClose(idx, s) ==
    IF sess[s].role = "cli" THEN idx
    ELSE IF Dev_ForeignCloseErasesIndex \/ idx[sess[s].peer] = s THEN [idx EXCEPT ![sess[s].peer] = 0] ELSE idx

RECURSIVE IndexAfterCloseAll(_, _)
IndexAfterCloseAll(idx, S) ==
    IF S = {} THEN idx ELSE LET s == CHOOSE x \in S : TRUE IN IndexAfterCloseAll(IndexAfterClose(idx, s), S \ {s})

CloseSet(S) ==
    /\ sess' = [s \in Sids |-> IF s \in S THEN [sess[s] EXCEPT !.st = "closed"] ELSE sess[s]]
    /\ peerIndex' = IndexAfterCloseAll(peerIndex, S)
    /\ cq' = [s \in Sids |-> IF s \in S THEN <<>> ELSE cq[s]]
    /\ blockedC' = blockedC \ S
    /\ stale' = stale \ S

Close(s) ==
    /\ CanStep /\ IsOpen(s)
    /\ CloseSet({s}) /\ Step
    /\ UNCHANGED <<nextSid, lq, blockedL, nextId, sent, wire, owner, stickyOk, rxOk>> /\ UNCHANGED burst

\* the idle timeout passes without any activity ...
Advance ==
    /\ CanStep /\ OpenSet # {} /\ stale # OpenSet
    /\ stale' = OpenSet /\ Step
    /\ UNCHANGED <<sess, nextSid, peerIndex, lq, cq, blockedL, blockedC, nextId, sent, wire, owner, stickyOk, rxOk>> /\ UNCHANGED burst
\* ... and the GC timer closes every session that stayed idle
GcRun ==
    /\ CanStep /\ stale \cap OpenSet # {}
    /\ CloseSet(stale \cap OpenSet) /\ Step
    /\ UNCHANGED <<nextSid, lq, blockedL, nextId, sent, wire, owner, stickyOk, rxOk>> /\ UNCHANGED burst

\* ------------------------------------------------------------------ outbound
SockBlocked(s) == IF sess[s].role = "cli" THEN s \in blockedC ELSE sess[s].owner \in blockedL
AcceptSend(s) == sent' = (nextId :> sess[s].peer) @@ sent

SendOk(s, z) ==
    /\ CanStep /\ IsOpen(s) /\ ~SockBlocked(s)
    /\ AcceptSend(s)
    /\ wire' = wire \cup {[id |-> nextId, to |-> sess[s].peer]}          \* one send()/sendto() to the session's peer
    /\ stale' = stale \ {s}
    /\ nextId' = nextId + 1 /\ Step
    /\ UNCHANGED <<sess, nextSid, peerIndex, lq, cq, blockedL, blockedC, owner, stickyOk, rxOk>> /\ UNCHANGED burst

QLenAfter(s) == IF sess[s].role = "cli" THEN Len(cq[s]) + 1 ELSE Len(lq[sess[s].owner]) + 1

\* EAGAIN: the whole datagram is queued, listener-owned sessions queue it together with its destination
SendEagain(s, z) ==
    /\ CanStep /\ IsOpen(s) /\ SockBlocked(s) /\ QLenAfter(s) <= MaxWq
    /\ AcceptSend(s)
    /\ IF sess[s].role = "cli"
         THEN cq' = [cq EXCEPT ![s] = Append(@, nextId)] /\ UNCHANGED lq
         ELSE lq' = [lq EXCEPT ![sess[s].owner] = Append(@, [to |-> sess[s].peer, id |-> nextId])] /\ UNCHANGED cq
    /\ nextId' = nextId + 1 /\ Step
    /\ UNCHANGED <<sess, nextSid, peerIndex, blockedL, blockedC, stale, wire, owner, stickyOk, rxOk>> /\ UNCHANGED burst

\* EAGAIN with a full queue, default closeOnBackpressure: the session is closed (a listener keeps the datagram queued)
SendEagainBp(s, z) ==
    /\ CanStep /\ IsOpen(s) /\ SockBlocked(s) /\ QLenAfter(s) > MaxWq
    /\ AcceptSend(s)
    /\ lq' = IF sess[s].role = "cli" THEN lq
             ELSE [lq EXCEPT ![sess[s].owner] = Append(@, [to |-> sess[s].peer, id |-> nextId])]
    /\ CloseSet({s})
    /\ nextId' = nextId + 1 /\ Step
    /\ UNCHANGED <<nextSid, blockedL, wire, owner, stickyOk, rxOk>> /\ UNCHANGED burst

\* any other errno: no datagram, the session is closed
SendErr(s, z) ==
    /\ CanStep /\ IsOpen(s) /\ ~SockBlocked(s)
    /\ AcceptSend(s)
    /\ CloseSet({s})
    /\ nextId' = nextId + 1 /\ Step
    /\ UNCHANGED <<nextSid, lq, blockedL, wire, owner, stickyOk, rxOk>> /\ UNCHANGED burst

\* send() on a session that is already gone: accepted by the command queue, dropped by sendDo
SendClosed(s, z) ==
    /\ CanStep /\ s \in Sids /\ sess[s].st = "closed"
    /\ AcceptSend(s)
    /\ nextId' = nextId + 1 /\ Step
    /\ UNCHANGED <<sess, nextSid, peerIndex, lq, cq, blockedL, blockedC, stale, wire, owner, stickyOk, rxOk>> /\ UNCHANGED burst

\* ------------------------------------------------------------------ kernel writability and the flush handlers
BlockL(l) == /\ CanStep /\ l \notin blockedL /\ blockedL' = blockedL \cup {l} /\ Step
             /\ UNCHANGED <<sess, nextSid, peerIndex, lq, cq, blockedC, stale, nextId, sent, wire, owner, stickyOk, rxOk>> /\ UNCHANGED burst
UnblockL(l) == /\ steps < MaxSteps /\ rd = None /\ l \in blockedL /\ blockedL' = blockedL \ {l} /\ Step
               /\ UNCHANGED <<sess, nextSid, peerIndex, lq, cq, blockedC, stale, nextId, sent, wire, owner, stickyOk, rxOk>> /\ UNCHANGED burst
BlockC(s) == /\ CanStep /\ IsOpen(s) /\ sess[s].role = "cli" /\ s \notin blockedC /\ blockedC' = blockedC \cup {s} /\ Step
             /\ UNCHANGED <<sess, nextSid, peerIndex, lq, cq, blockedL, stale, nextId, sent, wire, owner, stickyOk, rxOk>> /\ UNCHANGED burst
UnblockC(s) == /\ steps < MaxSteps /\ rd = None /\ s \in blockedC /\ blockedC' = blockedC \ {s} /\ Step
               /\ UNCHANGED <<sess, nextSid, peerIndex, lq, cq, blockedL, stale, nextId, sent, wire, owner, stickyOk, rxOk>> /\ UNCHANGED burst

\* flushListener: every queued datagram goes out whole, to the destination it was queued with
FlushL(l) ==
    /\ rd = None /\ l \notin blockedL /\ lq[l] # <<>>
    /\ wire' = wire \cup {[id |-> lq[l][i].id, to |-> lq[l][i].to] : i \in 1..Len(lq[l])}
    /\ lq' = [lq EXCEPT ![l] = <<>>]
    /\ UNCHANGED <<sess, nextSid, peerIndex, cq, blockedL, blockedC, stale, nextId, sent, owner, stickyOk, rxOk, steps>> /\ UNCHANGED burst
\* writeClient
FlushC(s) ==
    /\ rd = None /\ IsOpen(s) /\ s \notin blockedC /\ cq[s] # <<>>
    /\ wire' = wire \cup {[id |-> cq[s][i], to |-> sess[s].peer] : i \in 1..Len(cq[s])}
    /\ cq' = [cq EXCEPT ![s] = <<>>]
    /\ UNCHANGED <<sess, nextSid, peerIndex, lq, blockedL, blockedC, stale, nextId, sent, owner, stickyOk, rxOk, steps>> /\ UNCHANGED burst

\* ------------------------------------------------------------------ bursts: arrival, epoll notification, read loop
Ready(k) == IF ET THEN k \in inEvt ELSE rq[k] # <<>>
LiveSock(k) == k[1] = "L" \/ IsOpen(k[2])
ArriveL(p, l, z) ==
    /\ steps < MaxSteps /\ Len(rq[LS(l)]) < MaxBurst
    /\ rq' = [rq EXCEPT ![LS(l)] = Append(@, [p |-> p, z |-> z])] /\ inEvt' = inEvt \cup {LS(l)}
    /\ Step /\ UNCHANGED core /\ UNCHANGED <<rd, cnt>>
ArriveC(p, c, z) ==
    /\ steps < MaxSteps /\ IsOpen(c) /\ sess[c].role = "cli" /\ sess[c].peer = p /\ Len(rq[CS(c)]) < MaxBurst
    /\ rq' = [rq EXCEPT ![CS(c)] = Append(@, [p |-> p, z |-> z])] /\ inEvt' = inEvt \cup {CS(c)}
    /\ Step /\ UNCHANGED core /\ UNCHANGED <<rd, cnt>>
\* onListener / onClient (EPOLLIN): the read loop starts
EpollInL(l) ==
    /\ rd = None /\ ~FlushPending /\ Ready(LS(l))
    /\ rd' = LS(l) /\ cnt' = 0 /\ inEvt' = inEvt \ {LS(l)}
    /\ UNCHANGED core /\ UNCHANGED <<rq, steps>>
EpollInC(c) ==
    /\ rd = None /\ ~FlushPending /\ IsOpen(c) /\ Ready(CS(c))
    /\ rd' = CS(c) /\ cnt' = 0 /\ inEvt' = inEvt \ {CS(c)}
    /\ UNCHANGED core /\ UNCHANGED <<rq, steps>>
BudgetLeft == Dev_ReadBudget => cnt < Budget
Pop(k) == rq' = [rq EXCEPT ![k] = Tail(@)] /\ cnt' = cnt + 1 /\ UNCHANGED <<inEvt, rd, steps>>
\* one recvfrom on the listener socket
ReadKnown(l) == rd = LS(l) /\ rq[LS(l)] # <<>> /\ BudgetLeft /\ DispKnown(Head(rq[LS(l)]).p, l) /\ Pop(LS(l))
ReadAccept(l) == rd = LS(l) /\ rq[LS(l)] # <<>> /\ BudgetLeft /\ DispAccept(Head(rq[LS(l)]).p, l) /\ Pop(LS(l))
ReadCapDrop(l) == rd = LS(l) /\ rq[LS(l)] # <<>> /\ BudgetLeft /\ DispCapDrop(Head(rq[LS(l)]).p, l) /\ Pop(LS(l))
\* one recv on a connected client socket: a data event on that session
ReadC(c) == /\ rd = CS(c) /\ rq[CS(c)] # <<>> /\ BudgetLeft
            /\ stale' = stale \ {c}
            /\ UNCHANGED <<sess, nextSid, peerIndex, lq, cq, blockedL, blockedC, nextId, sent, wire, owner, stickyOk, rxOk>>
            /\ Pop(CS(c))
\* EAGAIN (queue empty) - or, deviation, the read budget of this wake-up is used up
StopNow(k) == rq[k] = <<>> \/ (Dev_ReadBudget /\ cnt >= Budget)
ReadStopL(l) == /\ rd = LS(l) /\ StopNow(LS(l)) /\ rd' = None /\ cnt' = 0
                /\ UNCHANGED core /\ UNCHANGED <<rq, inEvt, steps>>
ReadStopC(c) == /\ rd = CS(c) /\ StopNow(CS(c)) /\ rd' = None /\ cnt' = 0
                /\ UNCHANGED core /\ UNCHANGED <<rq, inEvt, steps>>

Next == \/ \E p \in Peers, l \in Listeners, z \in Sizes : DgKnown(p, l, z) \/ DgAccept(p, l, z) \/ DgCapDrop(p, l, z)
        \/ \E p \in Peers : Connect(p)
        \/ \E p \in Peers, s \in Sids, z \in Sizes : CliDg(p, s, z)
        \/ \E l \in Listeners, p \in Peers : Via(l, p) \/ ViaCapClose(l, p)
        \/ \E s \in Sids : Close(s)
        \/ Advance \/ GcRun
        \/ \E s \in Sids, z \in Sizes : SendOk(s, z) \/ SendEagain(s, z) \/ SendEagainBp(s, z) \/ SendErr(s, z) \/ SendClosed(s, z)
        \/ \E l \in Listeners : BlockL(l) \/ UnblockL(l) \/ FlushL(l)
        \/ \E s \in Sids : BlockC(s) \/ UnblockC(s) \/ FlushC(s)
        \/ \E p \in Peers, l \in Listeners, z \in Sizes : ArriveL(p, l, z)
        \/ \E p \in Peers, c \in Sids, z \in Sizes : ArriveC(p, c, z)
        \/ \E l \in Listeners : EpollInL(l) \/ ReadKnown(l) \/ ReadAccept(l) \/ ReadCapDrop(l) \/ ReadStopL(l)
        \/ \E c \in Sids : EpollInC(c) \/ ReadC(c) \/ ReadStopC(c)

Spec == Init /\ [][Next]_vars

\* ------------------------------------------------------------------ the property
\* sticky routing: while the session that received p's last datagram is open, p's next datagram lands on it with no new
\* accept (and is not dropped), whatever other sessions were opened or closed in between
Inv_Sticky == stickyOk
\* a datagram is delivered on an open session whose peer is its source
Inv_RxPeer == rxOk
\* one accepted send => at most one datagram (on the wire or still queued), addressed to the session's peer
QueuedIds == UNION {{lq[l][i].id : i \in 1..Len(lq[l])} : l \in Listeners} \cup UNION {{cq[s][i] : i \in 1..Len(cq[s])} : s \in Sids}
Occ(id) == Cardinality({w \in wire : w.id = id})
           + Cardinality({<<l, i>> \in Listeners \X (1..MaxSteps) : i <= Len(lq[l]) /\ lq[l][i].id = id})
           + Cardinality({<<s, i>> \in Sids \X (1..MaxSteps) : i <= Len(cq[s]) /\ cq[s][i] = id})
Inv_OneDatagram == \A id \in 1..(nextId - 1) : Occ(id) <= (IF id \in DOMAIN sent THEN 1 ELSE 0)
Inv_Addressed == /\ \A w \in wire : w.id \in DOMAIN sent /\ w.to = sent[w.id]
                 /\ \A l \in Listeners : \A i \in 1..Len(lq[l]) : lq[l][i].to = sent[lq[l][i].id]
\* the index is never stale (readFromListener dereferences _sessions[index[p]] unchecked)
Inv_Index == \A p \in Peers : peerIndex[p] # 0 =>
                 (IsOpen(peerIndex[p]) /\ sess[peerIndex[p]].role # "cli" /\ sess[peerIndex[p]].peer = p)
\* no datagram is stranded: when the I/O thread is idle and epoll has nothing queued for a socket, its receive queue is empty
\* ("each datagram received is delivered as exactly one data event" - also the 200th of a burst)
Inv_NoStrand == (rd = None /\ ~FlushPending) => \A k \in RSocks : (LiveSock(k) /\ ~Ready(k)) => rq[k] = <<>>
\* inductive form of sticky routing (used in the exhaustive run of the repaired design only)
Inv_IndexOwner == \A p \in Peers, l \in Listeners : OwnerOpen(p, l) => peerIndex[p] = owner[<<p, l>>]
=============================================================================
