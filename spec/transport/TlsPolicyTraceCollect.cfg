\* batch mode: offending events are printed (<<"REJECT", line>>) and skipped; see TlsPolicyTrace.tla
SPECIFICATION Spec
CONSTANT Collect = TRUE
INVARIANT TraceChk
POSTCONDITION TracePost
CHECK_DEADLOCK FALSE
