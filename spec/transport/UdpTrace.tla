------------------------------ MODULE UdpTrace ------------------------------
(* Abs oracle of C06 as a trace specification: it encodes ONLY what the property statement demands.         *)
(*                                                                                                          *)
(* Recorded events (one sequential execution of the real UdpEngine over loopback, see harness/drv_udp.cpp):  *)
(*   Begin{cap}                        configuration (maxSessions)                                           *)
(*   PeerSend{p,lid,csid,id,len}       raw peer p sent datagram id to listener lid (or to client session csid)*)
(*   Accept{sid,p} Connect{sid,p} Close{sid} Data{sid,id,len,ok}     engine callbacks (I/O thread)            *)
(*   ConnCall{sid,p}                   connect()/connectViaListener() returned session id sid for peer p      *)
(*   Send{sid,id,len,acc}              send(sid, payload id) returned acc                                     *)
(*   Out{to,id,len,ok}                 the kernel took one datagram from an engine socket (syscall boundary);  *)
(*                                     to = peer owning the destination address ("?" if none), ok = bytes are  *)
(*                                     exactly payload id                                                      *)
(*   PeerRecv{p,id,len,ok}             raw peer p read one datagram                                            *)
(*   Settled                           the step is over: the engine is quiescent.  After a burst (datagrams    *)
(*                                     queued while the I/O thread was parked, then NO further traffic) it is  *)
(*                                     logged when the engine has read everything or stopped making progress   *)
(*                                                                                                          *)
(* Demands:                                                                                                  *)
(*  R1  Out: matches one accepted, not yet emitted send: same bytes (ok, len), addressed to the peer of the   *)
(*      session it was sent on; the send is consumed (a second datagram for it is rejected).                  *)
(*  R2  Data: matches one datagram in flight: whole payload (ok, len), on a known session whose peer is the   *)
(*      source (and, for a datagram sent to a client session's socket, that session); consumed (no duplicate).*)
(*  R3  sticky routing: if the session that received p's previous datagram ON THE SAME LISTENER is still open, *)
(*      the datagram lands on it and no Accept for p happens.  (Weaker reading, written down: the statement    *)
(*      does not say whether "that peer's datagrams" are per listener; the oracle demands stickiness only per *)
(*      (peer, listener), so an index keyed by address alone and one keyed by (listener, address) both pass.) *)
(*  R4  Settled: no datagram is still in flight (each received datagram = exactly one data event), except     *)
(*      that a datagram may be dropped while the configured session cap is reached (maxSessions, documented). *)
(*      Even then a peer whose receiving session is open must not be silenced.                                *)
(* Not demanded: delivery of accepted sends (at most one datagram), ordering between datagrams, which socket *)
(* a datagram leaves from, anything about closed sessions (C02).                                             *)
EXTENDS TraceBase, FiniteSets, Integers

VARIABLES cap, sess, inflight, pend, outs, owner
vars == <<l, cap, sess, inflight, pend, outs, owner>>

Canon == /\ cap' = 0 /\ sess' = <<>> /\ inflight' = {} /\ pend' = {} /\ outs' = {} /\ owner' = <<>>
Init == l = 1 /\ cap = 0 /\ sess = <<>> /\ inflight = {} /\ pend = {} /\ outs = {} /\ owner = <<>>

Known(s) == s \in DOMAIN sess
IsOpen(s) == Known(s) /\ sess[s].st = "open"
OpenCount == Cardinality({s \in DOMAIN sess : sess[s].st = "open"})
SetSess(s, r) == sess' = [x \in DOMAIN sess \cup {s} |-> IF x = s THEN r ELSE sess[x]]
OwnerOpen(p, lid) == <<p, lid>> \in DOMAIN owner /\ IsOpen(owner[<<p, lid>>])

EvReset == IsEv("Reset") /\ Canon
EvBegin == IsEv("Begin") /\ cap' = Ev.cap /\ sess' = <<>> /\ inflight' = {} /\ pend' = {} /\ outs' = {} /\ owner' = <<>>

EvPeerSend == /\ IsEv("PeerSend")
              /\ inflight' = inflight \cup {[id |-> Ev.id, len |-> Ev.len, p |-> Ev.p, lid |-> Ev.lid, csid |-> Ev.csid]}
              /\ UNCHANGED <<cap, sess, pend, outs, owner>>

\* implicit accept: only for a datagram in flight from that peer to a listener, and never while the session that
\* receives this peer's datagrams on that listener is open (R3)
EvAccept == /\ IsEv("Accept") /\ ~Known(Ev.sid)
            /\ \E d \in inflight : d.p = Ev.p /\ d.lid # 0 /\ ~OwnerOpen(d.p, d.lid)
            /\ SetSess(Ev.sid, [peer |-> Ev.p, st |-> "open", lid |-> 0, ls |-> TRUE])
            /\ UNCHANGED <<cap, inflight, pend, outs, owner>>

\* lid: the listener of a connect-via-listener call, 0 for a plain connect (own socket); ls: the session lives on a listener
EvConnCall == /\ IsEv("ConnCall") /\ ~Known(Ev.sid)
              /\ SetSess(Ev.sid, [peer |-> Ev.p, st |-> "pending", lid |-> Ev.lid, ls |-> Ev.lid # 0])
              /\ UNCHANGED <<cap, inflight, pend, outs, owner>>

\* R3 for sessions opened by connect-via-listener: the session is bound to the address its host argument RESOLVES to, however
\* the caller spelled it.  When no other listener-side session of that peer is open (on any listener: the oracle does not say
\* whether the engine's index is per listener), the new session is the one that peer's datagrams on its listener belong to.
OtherOpen(sid, p) == \E s \in DOMAIN sess : s # sid /\ sess[s].st = "open" /\ sess[s].ls /\ sess[s].peer = p
EvConnect == /\ IsEv("Connect") /\ Known(Ev.sid) /\ sess[Ev.sid].st = "pending" /\ sess[Ev.sid].peer = Ev.p
             /\ SetSess(Ev.sid, [sess[Ev.sid] EXCEPT !.st = "open"])
             /\ owner' = IF sess[Ev.sid].lid # 0 /\ ~OtherOpen(Ev.sid, Ev.p)
                          THEN [k \in DOMAIN owner \cup {<<Ev.p, sess[Ev.sid].lid>>} |->
                                   IF k = <<Ev.p, sess[Ev.sid].lid>> THEN Ev.sid ELSE owner[k]]
                          ELSE owner
             /\ UNCHANGED <<cap, inflight, pend, outs>>

EvClose == /\ IsEv("Close")
           /\ IF Known(Ev.sid) THEN SetSess(Ev.sid, [sess[Ev.sid] EXCEPT !.st = "closed"]) ELSE UNCHANGED sess
           /\ UNCHANGED <<cap, inflight, pend, outs, owner>>

EvData == /\ IsEv("Data") /\ Known(Ev.sid) /\ Ev.ok
          /\ \E d \in inflight :
                /\ d.id = Ev.id /\ d.len = Ev.len /\ sess[Ev.sid].peer = d.p                              \* R2
                /\ d.csid # 0 => Ev.sid = d.csid
                /\ (d.lid # 0 /\ OwnerOpen(d.p, d.lid)) => Ev.sid = owner[<<d.p, d.lid>>]               \* R3
                /\ inflight' = inflight \ {d}
                /\ owner' = IF d.lid = 0 THEN owner
                            ELSE [k \in DOMAIN owner \cup {<<d.p, d.lid>>} |-> IF k = <<d.p, d.lid>> THEN Ev.sid ELSE owner[k]]
          /\ UNCHANGED <<cap, sess, pend, outs>>

EvSend == /\ IsEv("Send")
          /\ pend' = IF Ev.acc THEN pend \cup {[id |-> Ev.id, len |-> Ev.len, sid |-> Ev.sid]} ELSE pend
          /\ UNCHANGED <<cap, sess, inflight, outs, owner>>

EvOut == /\ IsEv("Out") /\ Ev.ok
         /\ \E s \in pend :
               /\ s.id = Ev.id /\ s.len = Ev.len /\ Known(s.sid) /\ sess[s.sid].peer = Ev.to              \* R1
               /\ pend' = pend \ {s}
         /\ outs' = outs \cup {[id |-> Ev.id, len |-> Ev.len, to |-> Ev.to]}
         /\ UNCHANGED <<cap, sess, inflight, owner>>

EvPeerRecv == /\ IsEv("PeerRecv") /\ Ev.ok
              /\ \E o \in outs : o.id = Ev.id /\ o.len = Ev.len /\ o.to = Ev.p /\ outs' = outs \ {o}
              /\ UNCHANGED <<cap, sess, inflight, pend, owner>>

\* R4
DropAllowed(d) == cap > 0 /\ OpenCount >= cap /\ d.lid # 0 /\ ~OwnerOpen(d.p, d.lid)
EvSettled == /\ (IsEv("Settled") \/ IsEv("End"))
             /\ \A d \in inflight : DropAllowed(d)
             /\ inflight' = {}
             /\ UNCHANGED <<cap, sess, pend, outs, owner>>

\* Skip: the driver could not perform a step of the behaviour (the session it names does not exist in the real run)
EvSkip == IsEv("Skip") /\ UNCHANGED <<cap, sess, inflight, pend, outs, owner>>

Next == EvSkip \/ EvReset \/ EvBegin \/ EvPeerSend \/ EvAccept \/ EvConnCall \/ EvConnect \/ EvClose \/ EvData \/ EvSend
        \/ EvOut \/ EvPeerRecv \/ EvSettled
Spec == Init /\ [][Next]_vars
=============================================================================
