------------------------------ MODULE TransportTrace ------------------------------
(* Abs oracle for the Transport layer (transport_impl.hpp) as a trace specification.  One module, four groups  *)
(* of rules; each states only what the property demands.                                                        *)
(*                                                                                                               *)
(* C03  synchronous receive / read modes.  The engine's bytes of a session are numbered 0,1,2,.. in arrival      *)
(*      order (ArriveCall).  Whatever is handed to the application - a receiveSync result (RecvRet ok) or a data *)
(*      callback (Data) - must continue exactly at the cursor `cur`: in order, each byte once, no gap; the only   *)
(*      bytes that may be skipped are those that arrived while the session was Disabled (and those are never      *)
(*      handed out).  PeerClosed only when everything that arrived before the close was handed out.               *)
(*      BufferOverflow only if the backlog could have exceeded the cap; afterwards it is sticky: nothing is       *)
(*      handed out any more, every later receive reports it again.  ExpectAll (issued by the case when the        *)
(*      session ended in a state where nothing may be missing) demands that everything was handed out.            *)
(* C04  synchronous connect.  ok only with the id of the session the engine reported connected and that the       *)
(*      transport did not close on behalf of this call; Timeout not before the timeout elapsed (virtual time)      *)
(*      and only after the transport told the engine to close the attempt; global connect/close callbacks only     *)
(*      for session ids the application owns (accepted, returned by connect, or handed out by a connectSync).      *)
(* C02  close fan-out.  Global close first, then every observer that was registered (and not being removed)        *)
(*      before the close began, in registration order, each at most once, then the user-data cleanup, once, last.  *)
(* C05  teardown.  Every call returns (End.outcome is never "stuck"), no callback starts after stop/destruction    *)
(*      returned to a non-callback caller (flag `as` read at callback entry), teardown results are clean errors.   *)
EXTENDS TraceBase, FiniteSets, Integers

Sess == {Log[i].s : i \in {j \in 1..Len(Log) : "s" \in DOMAIN Log[j]}}
Thr == {Log[i].t : i \in {j \in 1..Len(Log) : "t" \in DOMAIN Log[j]}} \cup {Log[i].by : i \in {j \in 1..Len(Log) : "by" \in DOMAIN Log[j]}}
Tags == {Log[i].tag : i \in {j \in 1..Len(Log) : "tag" \in DOMAIN Log[j]}}

VARIABLES cap,
          arrived, arrDone, disab, cur, closedAt, ovfSeen, maxBacklog,  \* C03 per session
          pendRecv, pendFlush,                                  \* calls in flight: sets of <<t, s>>
          handed, conn, engConn, onBehalf, willOk,              \* C04
          obsOf, obsIdx, obsRetAt, obsSt, nObs, dataTag, dataPend, dataPre, \* C02 registration state
          stage, seen, mustObs, annAtClose,                     \* C02 per-session close progress
          lifeCalled, tdAt, tdUj, cancelled,
          overl,      \* <<t, s>>: the receive of t on s has been in flight together with another receive or a flush on s
          owed        \* owed[s]: bytes a receive has skipped because a CONCURRENT receive on s (called earlier, not returned yet in
                      \* the log) took them - two threads may log their returns in either order; each must still be returned
vars == <<l, cap, arrived, arrDone, disab, cur, closedAt, ovfSeen, maxBacklog, pendRecv, pendFlush, handed, conn, engConn, onBehalf,
          willOk, obsOf, obsIdx, obsRetAt, obsSt, nObs, dataTag, dataPend, dataPre, stage, seen, mustObs, annAtClose, lifeCalled, tdAt, tdUj, cancelled, overl, owed>>

FS(v) == [s \in Sess |-> v]
NoConn == [st |-> "idle", to |-> 0, vt |-> 0, sid |-> -1]
Canon(c) == /\ cap' = c
            /\ arrived' = FS(0) /\ arrDone' = FS(0) /\ disab' = FS({}) /\ cur' = FS(0) /\ closedAt' = FS(-1) /\ ovfSeen' = FS(FALSE) /\ maxBacklog' = FS(0)
            /\ pendRecv' = {} /\ pendFlush' = {}
            /\ handed' = {} /\ conn' = [t \in Thr |-> NoConn] /\ engConn' = {} /\ onBehalf' = {} /\ willOk' = {}
            /\ obsOf' = [g \in Tags |-> -1] /\ obsIdx' = [g \in Tags |-> 0] /\ obsRetAt' = [g \in Tags |-> 0] /\ obsSt' = [g \in Tags |-> "none"] /\ nObs' = 0
            /\ dataTag' = FS("-") /\ dataPend' = FS({}) /\ dataPre' = FS(FALSE)
            /\ stage' = FS("none") /\ seen' = FS(<<>>) /\ mustObs' = FS({}) /\ annAtClose' = FS(FALSE)
            /\ lifeCalled' = FALSE /\ tdAt' = -1 /\ tdUj' = 0 /\ cancelled' = FALSE /\ overl' = {} /\ owed' = FS({})
Init == /\ l = 1 /\ cap = 0
        /\ arrived = FS(0) /\ arrDone = FS(0) /\ disab = FS({}) /\ cur = FS(0) /\ closedAt = FS(-1) /\ ovfSeen = FS(FALSE) /\ maxBacklog = FS(0)
        /\ pendRecv = {} /\ pendFlush = {}
        /\ handed = {} /\ conn = [t \in Thr |-> NoConn] /\ engConn = {} /\ onBehalf = {} /\ willOk = {}
        /\ obsOf = [g \in Tags |-> -1] /\ obsIdx = [g \in Tags |-> 0] /\ obsRetAt = [g \in Tags |-> 0] /\ obsSt = [g \in Tags |-> "none"] /\ nObs = 0
        /\ dataTag = FS("-") /\ dataPend = FS({}) /\ dataPre = FS(FALSE)
        /\ stage = FS("none") /\ seen = FS(<<>>) /\ mustObs = FS({}) /\ annAtClose = FS(FALSE)
        /\ lifeCalled = FALSE /\ tdAt = -1 /\ tdUj = 0 /\ cancelled = FALSE /\ overl = {} /\ owed = FS({})
EvReset == IsEv("Reset") /\ Canon(0)
EvBegin == IsEv("Begin") /\ Canon(Ev.cap)

C03U == UNCHANGED <<arrived, arrDone, disab, cur, closedAt, ovfSeen, maxBacklog, pendRecv, pendFlush>>
C04U == UNCHANGED <<handed, conn, engConn, onBehalf, willOk>>
C02U == UNCHANGED <<obsOf, obsIdx, obsRetAt, obsSt, nObs, dataTag, dataPend, dataPre, stage, seen, mustObs, annAtClose>>
KeepL == UNCHANGED <<cap, lifeCalled, tdAt, tdUj, cancelled>>
Keep0 == KeepL /\ UNCHANGED overl
Keep == Keep0 /\ UNCHANGED owed
\* a call that was blocked or in flight when destruction began returns within this much (virtual) time of its beginning
\* (judged on the call's own deadline, which no other thread's time-out can move: once destruction has begun, a call may
\* end with Timeout only if its deadline lay within TdBound of that moment anyway - it must be released by the teardown)
\* Both rules read VIRTUAL time, which the harness moves only when a time-out or sleep is granted.  When the schedule grants
\* one while another thread could still run (or ahead of an earlier deadline) - an "unfair jump", counted by the scheduler
\* and logged as uj - the clock reading no longer bounds how long the teardown took, so an interval containing one is not
\* judged (the harness's fair schedules - time-outs only when nothing else can run, earliest deadline first - are).
TdBound == 3000
Uj == IF "uj" \in DOMAIN Ev THEN Ev.uj ELSE 0
FairSinceTd == tdAt >= 0 /\ Uj = tdUj
TimeoutOk(callVt, to) == FairSinceTd => callVt + to <= tdAt + TdBound
\* ... and whatever its result, it returns within TdBound of virtual time - unless virtual time was moved by the deadline of
\* some OTHER call still pending (then the reading says nothing about this call)
OtherDeadlineIn(me, lo, hi) ==
    \/ \E r \in pendRecv : r # me /\ r[5] + r[4] > lo /\ r[5] + r[4] <= hi
    \/ \E t \in Thr : conn[t].st = "called" /\ <<t>> # me /\ conn[t].vt + conn[t].to > lo /\ conn[t].vt + conn[t].to <= hi
ReleasedInTime(me, vt) == (FairSinceTd /\ vt - tdAt > TdBound) => OtherDeadlineIn(me, tdAt, vt)

\* ---- C03 --------------------------------------------------------------------------------------------
Max2(a, b) == IF a > b THEN a ELSE b
EvArriveCall == /\ IsEv("ArriveCall") /\ Ev.from = arrived[Ev.s] /\ Ev.to > Ev.from /\ closedAt[Ev.s] = -1
                /\ arrived' = [arrived EXCEPT ![Ev.s] = Ev.to]
                /\ disab' = IF Ev.dis THEN [disab EXCEPT ![Ev.s] = @ \cup (Ev.from..(Ev.to - 1))] ELSE disab
                /\ maxBacklog' = [maxBacklog EXCEPT ![Ev.s] = Max2(@, Ev.to - cur[Ev.s])]
                /\ UNCHANGED <<arrDone, cur, closedAt, ovfSeen, pendRecv, pendFlush>> /\ C04U /\ C02U /\ Keep
\* the engine's delivery call has returned: these bytes are now buffered, delivered or (legitimately) dropped
EvArriveRet == /\ IsEv("ArriveRet") /\ arrDone' = [arrDone EXCEPT ![Ev.s] = arrived[Ev.s]]
               /\ UNCHANGED <<arrived, disab, cur, closedAt, ovfSeen, maxBacklog, pendRecv, pendFlush>> /\ C04U /\ C02U /\ Keep

\* bytes [from, to) of session s are handed to the application
HandOk(s, from, to) == /\ from < to /\ from >= cur[s] /\ to <= arrived[s]
                       /\ \A b \in cur[s]..(from - 1) : b \in disab[s]      \* a gap only over bytes of a Disabled phase
                       /\ \A b \in from..(to - 1) : b \notin disab[s]       \* a Disabled session delivers nothing
                       /\ ~ovfSeen[s]                                      \* overflow is terminal for the stream
AllHanded(s, upto) == \A b \in cur[s]..(upto - 1) : b \in disab[s]
\* A hand-over whose bytes are not one consecutive range (the buffer spans a dropped Disabled phase): Ev.runs lists the
\* maximal runs from1,to1,from2,to2,...; every byte is deliverable and not behind the cursor, and whatever lies between the
\* cursor and the last byte without being handed over belongs to a Disabled phase.
RunBytes == UNION {Ev.runs[2 * i - 1]..(Ev.runs[2 * i] - 1) : i \in 1..(Len(Ev.runs) \div 2)}
MultiRun == "runs" \in DOMAIN Ev /\ Len(Ev.runs) > 2
HandOkRuns(s) == /\ RunBytes # {} /\ ~ovfSeen[s]
                 /\ \A b \in RunBytes : b >= cur[s] /\ b < arrived[s] /\ b \notin disab[s]
                 /\ \A b \in cur[s]..(Ev.to - 1) : b \notin RunBytes => b \in disab[s]
\* A receive that returns bytes BEYOND the cursor although the bytes in between are deliverable: admissible only while another
\* receive on the same session is in flight (it has taken them and its return line comes later); the skipped bytes are owed.
SkipOk(s, from, to, me) ==
    /\ from < to /\ from > cur[s] /\ to <= arrived[s] /\ ~ovfSeen[s]
    /\ \A b \in from..(to - 1) : b \notin disab[s]
    /\ \E r \in pendRecv \ {me} : r[2] = s
\* ... and a receive that returns owed bytes (behind the cursor): exactly bytes that are owed, each once
OwedOk(s, from, to) == from < to /\ to <= cur[s] /\ \A b \in from..(to - 1) : b \in owed[s]

\* (a flush that hands over bytes beyond the cursor while a receive on the session is still in flight: see SkipOk)
\* nothing is delivered for a session after its close: once the close has begun, only a hand-over by a setReadMode(Async) call
\* that was made before the close had finished (and may have taken the buffered bytes before the close emptied the session's
\* mode entry) can still be running, on that caller's thread
EvData == /\ IsEv("Data") /\ ~Ev.as
          /\ stage[Ev.s] = "none" \/ \E f \in pendFlush : f[2] = Ev.s /\ f[1] = Ev.th
          /\ \/ ~MultiRun /\ HandOk(Ev.s, Ev.from, Ev.to) /\ UNCHANGED owed
             \/ MultiRun /\ HandOkRuns(Ev.s) /\ UNCHANGED owed
             \/ /\ ~MultiRun /\ SkipOk(Ev.s, Ev.from, Ev.to, <<>>)
                /\ owed' = [owed EXCEPT ![Ev.s] = @ \cup {b \in cur[Ev.s]..(Ev.from - 1) : b \notin disab[Ev.s]}]
          /\ cur' = [cur EXCEPT ![Ev.s] = Ev.to]
          /\ UNCHANGED <<arrived, arrDone, disab, closedAt, ovfSeen, maxBacklog, pendRecv, pendFlush>> /\ C04U /\ C02U /\ Keep0

\* the 6th component remembers whether deliverable bytes were already sitting in the buffer when the call began
Waiting(s) == \E b \in cur[s]..(arrDone[s] - 1) : b \notin disab[s]
EvRecvCall == /\ IsEv("RecvCall") /\ pendRecv' = pendRecv \cup {<<Ev.t, Ev.s, Ev.len, Ev.to, Ev.vt, Waiting(Ev.s)>>}
              /\ overl' = IF (\E r \in pendRecv : r[2] = Ev.s) \/ (\E f \in pendFlush : f[2] = Ev.s)
                           THEN overl \cup {<<Ev.t, Ev.s>>} \cup {<<r[1], r[2]>> : r \in {x \in pendRecv : x[2] = Ev.s}}
                           ELSE overl
              /\ UNCHANGED <<arrived, arrDone, disab, cur, closedAt, ovfSeen, maxBacklog, pendFlush>> /\ C04U /\ C02U /\ KeepL /\ UNCHANGED owed
MyRecv == CHOOSE r \in pendRecv : r[1] = Ev.t /\ r[2] = Ev.s
EvRecvRet ==
    /\ IsEv("RecvRet") /\ \E r \in pendRecv : r[1] = Ev.t /\ r[2] = Ev.s
    /\ ReleasedInTime(MyRecv, Ev.vt)
    /\ pendRecv' = pendRecv \ {MyRecv}
    /\ LET s == Ev.s IN
       CASE Ev.res = "ok" ->
              /\ (IF "n" \in DOMAIN Ev THEN Ev.n ELSE Ev.to - Ev.from) <= MyRecv[3] /\ UNCHANGED ovfSeen
              /\ \/ ~MultiRun /\ HandOk(s, Ev.from, Ev.to) /\ cur' = [cur EXCEPT ![s] = Ev.to] /\ UNCHANGED owed
                 \/ MultiRun /\ HandOkRuns(s) /\ cur' = [cur EXCEPT ![s] = Ev.to] /\ UNCHANGED owed
                 \/ /\ ~MultiRun /\ SkipOk(s, Ev.from, Ev.to, MyRecv) /\ cur' = [cur EXCEPT ![s] = Ev.to]
                    /\ owed' = [owed EXCEPT ![s] = @ \cup {b \in cur[s]..(Ev.from - 1) : b \notin disab[s]}]
                 \/ /\ ~MultiRun /\ OwedOk(s, Ev.from, Ev.to) /\ owed' = [owed EXCEPT ![s] = @ \ (Ev.from..(Ev.to - 1))] /\ UNCHANGED cur
         [] Ev.res = "PeerClosed" ->       \* only after every byte that arrived before the close was returned
              /\ closedAt[s] >= 0 /\ ~ovfSeen[s] /\ UNCHANGED ovfSeen
              /\ \/ AllHanded(s, closedAt[s]) /\ UNCHANGED <<cur, owed>>
                 \* ... or has been TAKEN by another receive on the session that is still in flight (its return line comes
                 \* later): those bytes are owed
                 \/ /\ ~AllHanded(s, closedAt[s]) /\ \E r \in pendRecv \ {MyRecv} : r[2] = s
                    /\ owed' = [owed EXCEPT ![s] = @ \cup {b \in cur[s]..(closedAt[s] - 1) : b \notin disab[s]}]
                    /\ cur' = [cur EXCEPT ![s] = closedAt[s]]
         [] Ev.res = "BufferOverflow" ->   \* distinct, and only when the cap could have been exceeded
              /\ maxBacklog[s] > cap
              /\ ovfSeen' = [ovfSeen EXCEPT ![s] = TRUE] /\ UNCHANGED <<cur, owed>>
         [] Ev.res = "Timeout" ->          \* never before the timeout elapsed; never once overflow was reported (sticky);
                                           \* never while bytes that had fully arrived before the call are still undelivered
                                           \* (unless the cap may have dropped them, a flush owns the buffer, or teardown runs)
              /\ Ev.vt - MyRecv[5] >= MyRecv[4] /\ ~ovfSeen[s] /\ TimeoutOk(MyRecv[5], MyRecv[4])
              /\ \/ /\ (MyRecv[6] /\ Waiting(s)) => (maxBacklog[s] > cap \/ lifeCalled \/ \E f \in pendFlush : f[2] = s)
                    /\ UNCHANGED <<cur, owed>>
                 \* ... or the bytes have been TAKEN by another receive on the session that is still in flight (it emptied the
                 \* buffer before this call looked and has not logged its return yet): they are owed, as for PeerClosed
                 \/ /\ MyRecv[6] /\ Waiting(s) /\ \E r \in pendRecv \ {MyRecv} : r[2] = s
                    /\ owed' = [owed EXCEPT ![s] = @ \cup {b \in cur[s]..(arrDone[s] - 1) : b \notin disab[s]}]
                    /\ cur' = [cur EXCEPT ![s] = arrDone[s]]
              /\ UNCHANGED ovfSeen
         [] Ev.res = "ShuttingDown" -> lifeCalled /\ UNCHANGED <<cur, ovfSeen, owed>>
         [] Ev.res = "Cancelled" ->        \* single-waiter contract: another receive or a flush on the session is in flight
              \* (at some moment of this call - not necessarily still when its return is logged)
              /\ <<Ev.t, s>> \in overl \/ (\E r \in pendRecv \ {MyRecv} : r[2] = s) \/ (\E f \in pendFlush : f[2] = s)
              /\ UNCHANGED <<cur, ovfSeen, owed>>
         [] OTHER -> FALSE
    /\ overl' = overl \ {<<Ev.t, Ev.s>>}
    /\ UNCHANGED <<arrived, arrDone, disab, closedAt, maxBacklog, pendFlush>> /\ C04U /\ C02U /\ KeepL

EvModeCall == /\ IsEv("ModeCall")
              \* (a switch called after the session's close has completed hands over nothing: not a flush in flight)
              /\ pendFlush' = IF Ev.m = "async" /\ stage[Ev.s] # "done" THEN pendFlush \cup {<<Ev.t, Ev.s>>} ELSE pendFlush
              /\ overl' = IF Ev.m = "async" THEN overl \cup {<<r[1], r[2]>> : r \in {x \in pendRecv : x[2] = Ev.s}} ELSE overl
              /\ UNCHANGED <<arrived, arrDone, disab, cur, closedAt, ovfSeen, maxBacklog, pendRecv>> /\ C04U /\ C02U /\ KeepL /\ UNCHANGED owed
EvModeRet == /\ IsEv("ModeRet")
             /\ Ev.ok \/ lifeCalled \/ TRUE     \* (a refused switch is allowed by configuration / teardown)
             /\ pendFlush' = pendFlush \ {<<Ev.t, Ev.s>>}
             /\ UNCHANGED <<arrived, arrDone, disab, cur, closedAt, ovfSeen, maxBacklog, pendRecv>> /\ C04U /\ C02U /\ Keep
\* the case asserts that nothing may be missing on this session now
EvExpectAll == /\ IsEv("ExpectAll") /\ AllHanded(Ev.s, arrived[Ev.s])
               /\ C03U /\ C04U /\ C02U /\ Keep

\* ---- C04 --------------------------------------------------------------------------------------------
EvConnCall == /\ IsEv("ConnCall") /\ conn[Ev.t].st = "idle"
              /\ conn' = [conn EXCEPT ![Ev.t] = [st |-> "called", to |-> Ev.to, vt |-> Ev.vt, sid |-> -1]]
              /\ UNCHANGED <<handed, engConn, onBehalf, willOk>> /\ C03U /\ C02U /\ Keep
\* the engine handed out a session id: to a connectSync in flight on that thread, or to the application (plain connect)
EvEngConnReq == /\ IsEv("EngConnReq")
                /\ IF conn[Ev.by].st = "called" /\ (conn[Ev.by].sid = -1 \/ conn[Ev.by].sid \in onBehalf)  \* (a cancellable
                                                            \* connect makes several attempts, each closed before the next)
                   THEN conn' = [conn EXCEPT ![Ev.by].sid = Ev.s] /\ UNCHANGED handed
                   ELSE handed' = handed \cup {Ev.s} /\ UNCHANGED conn
                /\ UNCHANGED <<engConn, onBehalf, willOk>> /\ C03U /\ C02U /\ Keep
EvAsyncConnRet == IsEv("AsyncConnRet") /\ C03U /\ C04U /\ C02U /\ Keep
EvEngConnected == /\ IsEv("EngConnected") /\ engConn' = engConn \cup {Ev.s}
                  /\ UNCHANGED <<handed, conn, onBehalf, willOk>> /\ C03U /\ C02U /\ Keep
EvEngConnFail == IsEv("EngConnFail") /\ C03U /\ C04U /\ C02U /\ Keep
EvEngClose == /\ IsEv("EngClose")
              /\ onBehalf' = IF conn[Ev.by].st = "called" /\ conn[Ev.by].sid = Ev.s THEN onBehalf \cup {Ev.s} ELSE onBehalf
              /\ UNCHANGED <<handed, conn, engConn, willOk>> /\ C03U /\ C02U /\ Keep
EvConnRet ==
    /\ IsEv("ConnRet") /\ conn[Ev.t].st = "called" /\ ReleasedInTime(<<Ev.t>>, Ev.vt)
    /\ LET c == conn[Ev.t] IN
       IF Ev.ok
       THEN /\ Ev.s = c.sid /\ Ev.s \in engConn /\ Ev.s \notin onBehalf
            /\ handed' = handed \cup {Ev.s}
       ELSE /\ c.sid \notin willOk                           \* a session the application already saw closing belongs to it
            \* (times are whole milliseconds, cut off at the call and at the return, and the cancellable variant cuts its remaining
            \* time to whole milliseconds itself: one millisecond of tolerance)
            /\ CASE Ev.err = "Timeout" -> Ev.vt - c.vt >= c.to - 1 /\ (c.sid = -1 \/ c.sid \in onBehalf) /\ TimeoutOk(c.vt, c.to)
                 [] Ev.err = "Cancelled" -> cancelled /\ (c.sid = -1 \/ c.sid \in onBehalf)   \* leaves no open connection behind
                 [] Ev.err = "ShuttingDown" -> lifeCalled
                 [] OTHER -> TRUE
            /\ UNCHANGED handed
    /\ conn' = [conn EXCEPT ![Ev.t] = NoConn]
    /\ willOk' = willOk \ {conn[Ev.t].sid}
    /\ UNCHANGED <<engConn, onBehalf>> /\ C03U /\ C02U /\ Keep

\* a global callback for session s is legitimate when the application owns s - or is about to: a connectSync whose
\* handshake completed and that the transport has not closed on its behalf WILL return ok(s)
Owned(s) == s \in handed \/ (\E t \in Thr : conn[t].st = "called" /\ conn[t].sid = s /\ s \in engConn /\ s \notin onBehalf)
EvGlobalConnect == /\ IsEv("GlobalConnect") /\ Ev.s \in handed /\ ~Ev.as
                   /\ C03U /\ C04U /\ C02U /\ Keep
EvAcceptCall == IsEv("AcceptCall") /\ C03U /\ C04U /\ C02U /\ Keep
EvGlobalAccept == /\ IsEv("GlobalAccept") /\ ~Ev.as /\ handed' = handed \cup {Ev.s}
                  /\ UNCHANGED <<conn, engConn, onBehalf, willOk>> /\ C03U /\ C02U /\ Keep

\* ---- C02 close fan-out --------------------------------------------------------------------------------
\* registration takes effect somewhere between ObserveCall and ObserveRet: obsIdx = position of the call in the log,
\* obsRetAt = position of the return (0 while in flight)
EvObserveCall == /\ IsEv("ObserveCall") /\ obsSt[Ev.tag] = "none"
                 /\ obsOf' = [obsOf EXCEPT ![Ev.tag] = Ev.s] /\ obsIdx' = [obsIdx EXCEPT ![Ev.tag] = l]
                 /\ obsSt' = [obsSt EXCEPT ![Ev.tag] = "calling"] /\ nObs' = nObs + 1
                 /\ UNCHANGED <<obsRetAt, dataTag, dataPend, dataPre, stage, seen, mustObs, annAtClose>> /\ C03U /\ C04U /\ Keep
\* (an observer registered from inside the global close callback of its session is registered before the observer phase)
EvObserveRet == /\ IsEv("ObserveRet") /\ obsSt[Ev.tag] = "calling"
                /\ obsSt' = [obsSt EXCEPT ![Ev.tag] = "reg"] /\ obsRetAt' = [obsRetAt EXCEPT ![Ev.tag] = l]
                /\ mustObs' = IF Ev.t = "gcb" /\ stage[Ev.s] = "global" THEN [mustObs EXCEPT ![Ev.s] = @ \cup {Ev.tag}] ELSE mustObs
                /\ UNCHANGED <<obsOf, obsIdx, nObs, dataTag, dataPend, dataPre, stage, seen, annAtClose>> /\ C03U /\ C04U /\ Keep
EvUnobserveCall == /\ IsEv("UnobserveCall") /\ obsSt' = [obsSt EXCEPT ![Ev.tag] = IF @ = "reg" THEN "going" ELSE @]
                   /\ UNCHANGED <<obsOf, obsIdx, obsRetAt, nObs, dataTag, dataPend, dataPre, stage, seen, mustObs, annAtClose>> /\ C03U /\ C04U /\ Keep
\* an unobserve that returns FALSE removed nothing (the close had already taken the observer list): still registered
\* ("global close callback runs FIRST, then each STILL-registered observer": an unobserve made from inside the global close
\*  callback - thread gcb - on an observer of the closing session that is registered must succeed)
EvUnobserveRet == /\ IsEv("UnobserveRet") /\ obsSt' = [obsSt EXCEPT ![Ev.tag] = IF @ = "going" THEN (IF Ev.ok THEN "gone" ELSE "reg") ELSE @]
                  /\ (Ev.t = "gcb" /\ obsSt[Ev.tag] = "going" /\ stage[obsOf[Ev.tag]] = "global") => Ev.ok
                  /\ UNCHANGED <<obsOf, obsIdx, obsRetAt, nObs, dataTag, dataPend, dataPre, stage, seen, mustObs, annAtClose>> /\ C03U /\ C04U /\ Keep
EvSetDataCall == /\ IsEv("SetDataCall") /\ dataPend' = [dataPend EXCEPT ![Ev.s] = @ \cup {Ev.tag}]
                 /\ UNCHANGED <<obsOf, obsIdx, obsRetAt, obsSt, nObs, dataTag, dataPre, stage, seen, mustObs, annAtClose>> /\ C03U /\ C04U /\ Keep
\* (a setSessionData that replaces the data while the close of the session is under way may come after the close handler
\* has taken the old data out for its cleanup step: the data it replaces stays a candidate for that cleanup)
EvSetDataRet == /\ IsEv("SetDataRet") /\ dataTag' = [dataTag EXCEPT ![Ev.s] = Ev.tag]
                /\ dataPend' = [dataPend EXCEPT ![Ev.s] = (@ \ {Ev.tag}) \cup
                                   (IF stage[Ev.s] \in {"start", "global", "obs"} /\ dataTag[Ev.s] # "-" THEN {dataTag[Ev.s]} ELSE {})]
                /\ UNCHANGED <<obsOf, obsIdx, obsRetAt, obsSt, nObs, dataPre, stage, seen, mustObs, annAtClose>> /\ C03U /\ C04U /\ Keep

EvCloseCall == /\ IsEv("CloseCall") /\ stage[Ev.s] = "none"                     \* exactly one close per session
               /\ stage' = [stage EXCEPT ![Ev.s] = "start"]
               /\ closedAt' = [closedAt EXCEPT ![Ev.s] = arrived[Ev.s]]
               /\ mustObs' = [mustObs EXCEPT ![Ev.s] = {g \in Tags : obsOf[g] = Ev.s /\ obsSt[g] = "reg"}]
               /\ dataPre' = [dataPre EXCEPT ![Ev.s] = dataTag[Ev.s] # "-"]
               /\ annAtClose' = [annAtClose EXCEPT ![Ev.s] = Ev.s \in handed]
               /\ UNCHANGED <<arrived, arrDone, disab, cur, ovfSeen, maxBacklog, pendRecv, pendFlush>>
               /\ UNCHANGED <<obsOf, obsIdx, obsRetAt, obsSt, nObs, dataTag, dataPend, seen>> /\ C04U /\ Keep
EvGlobalClose == /\ IsEv("GlobalClose") /\ stage[Ev.s] = "start" /\ ~Ev.as
                 /\ Owned(Ev.s)                                                    \* never for a session nobody was given
                 /\ stage' = [stage EXCEPT ![Ev.s] = "global"]
                 /\ willOk' = IF Ev.s \in handed THEN willOk ELSE willOk \cup {Ev.s}
                 /\ UNCHANGED <<handed, conn, engConn, onBehalf>>
                 /\ UNCHANGED <<obsOf, obsIdx, obsRetAt, obsSt, nObs, dataTag, dataPend, dataPre, seen, mustObs, annAtClose>> /\ C03U /\ Keep
\* registration order: an observer whose registration had COMPLETED before another one's registration BEGAN must not be
\* called after it; at most once each; an observer still being registered (or removed) may or may not be called
EvObs == /\ IsEv("Obs") /\ stage[Ev.s] \in {"global", "obs"} /\ ~Ev.as
         /\ obsOf[Ev.tag] = Ev.s /\ obsSt[Ev.tag] \in {"calling", "reg", "going"}     \* a removed observer is not called
         /\ \A i \in 1..Len(seen[Ev.s]) : seen[Ev.s][i] # Ev.tag                      \* at most once
         /\ \A i \in 1..Len(seen[Ev.s]) : ~(obsRetAt[Ev.tag] # 0 /\ obsRetAt[Ev.tag] < obsIdx[seen[Ev.s][i]])
         /\ seen' = [seen EXCEPT ![Ev.s] = Append(@, Ev.tag)]
         /\ stage' = [stage EXCEPT ![Ev.s] = "obs"]
         /\ UNCHANGED <<obsOf, obsIdx, obsRetAt, obsSt, nObs, dataTag, dataPend, dataPre, mustObs, annAtClose>> /\ C03U /\ C04U /\ Keep
SeenSet(s) == {seen[s][i] : i \in 1..Len(seen[s])}
\* registered before the close began and neither removed nor being removed since: these MUST be called
StillReg(s) == {g \in mustObs[s] : obsSt[g] = "reg"}
EvCleanup == /\ IsEv("Cleanup") /\ stage[Ev.s] \in {"global", "obs"} /\ ~Ev.as
             /\ StillReg(Ev.s) \subseteq SeenSet(Ev.s)                             \* cleanup is last
             /\ (Ev.tag = dataTag[Ev.s] \/ Ev.tag \in dataPend[Ev.s])
             /\ stage' = [stage EXCEPT ![Ev.s] = "cleanup"]
             /\ UNCHANGED <<obsOf, obsIdx, obsRetAt, obsSt, nObs, dataTag, dataPend, dataPre, seen, mustObs, annAtClose>> /\ C03U /\ C04U /\ Keep
EvCloseRet == /\ IsEv("CloseRet") /\ stage[Ev.s] \in {"start", "global", "obs", "cleanup"}
              /\ annAtClose[Ev.s] => stage[Ev.s] # "start"                        \* an announced session gets its close
              /\ (stage[Ev.s] # "start") => StillReg(Ev.s) \subseteq SeenSet(Ev.s) \* every still-registered observer ran
              /\ (stage[Ev.s] # "start" /\ dataPre[Ev.s]) => stage[Ev.s] = "cleanup"
              /\ stage' = [stage EXCEPT ![Ev.s] = "done"]
              /\ UNCHANGED <<obsOf, obsIdx, obsRetAt, obsSt, nObs, dataTag, dataPend, dataPre, seen, mustObs, annAtClose>> /\ C03U /\ C04U /\ Keep

\* ---- C05 --------------------------------------------------------------------------------------------
EvCancelCall == /\ IsEv("CancelCall") /\ cancelled' = TRUE /\ UNCHANGED <<cap, lifeCalled, tdAt, tdUj, owed, overl>> /\ C03U /\ C04U /\ C02U
EvLifeCall == /\ IsEv("LifeCall") /\ lifeCalled' = TRUE /\ UNCHANGED <<cap, owed, cancelled, overl>> /\ C03U /\ C04U /\ C02U
              /\ tdAt' = IF Ev.op \in {"destroy", "destroy_in_cb"} /\ tdAt < 0 THEN Ev.vt ELSE tdAt
              /\ tdUj' = IF Ev.op \in {"destroy", "destroy_in_cb"} /\ tdAt < 0 THEN Uj ELSE tdUj
EvLifeRet == IsEv("LifeRet") /\ C03U /\ C04U /\ C02U /\ Keep
EvSendRet == IsEv("SendRet") /\ C03U /\ C04U /\ C02U /\ Keep
EvListenRet == IsEv("ListenRet") /\ C03U /\ C04U /\ C02U /\ Keep
EvEnd == /\ IsEv("End") /\ Ev.outcome # "stuck"                                   \* every blocked or in-flight call returns
         /\ (Ev.outcome = "done") => (pendRecv = {} /\ \A t \in Thr : conn[t].st = "idle")
         /\ (Ev.outcome = "done") => \A s \in Sess : owed[s] = {}            \* every skipped byte was returned by its taker
         /\ C03U /\ C04U /\ C02U /\ Keep

Next == EvCancelCall \/ EvReset \/ EvBegin \/ EvObserveCall \/ EvSetDataCall \/ EvArriveCall \/ EvArriveRet \/ EvData \/ EvRecvCall \/ EvRecvRet \/ EvModeCall \/ EvModeRet
        \/ EvExpectAll \/ EvConnCall \/ EvEngConnReq \/ EvAsyncConnRet \/ EvEngConnected \/ EvEngConnFail \/ EvEngClose
        \/ EvConnRet \/ EvGlobalConnect \/ EvAcceptCall \/ EvGlobalAccept \/ EvObserveRet \/ EvUnobserveCall \/ EvUnobserveRet
        \/ EvSetDataRet \/ EvCloseCall \/ EvGlobalClose \/ EvObs \/ EvCleanup \/ EvCloseRet \/ EvLifeCall \/ EvLifeRet
        \/ EvSendRet \/ EvListenRet \/ EvEnd
Spec == Init /\ [][Next]_vars
===================================================================================
