------------------------------ MODULE TraceBase ------------------------------
(* Shared cursor machinery of all trace specifications.                                                   *)
(* The recorded execution(s) are read from the ndjson file named by the environment variable TRACE; one   *)
(* JSON object per line, field "e" is the event name.  {"e":"Reset"} separates executions so that         *)
(* thousands of them are validated in one TLC run.  A trace specification EXTENDS this module, declares   *)
(* its Abs variables and defines one action per event kind as  IsEv("Name") /\ <Abs action with the logged *)
(* arguments>.  Acceptance: some behaviour of the trace specification consumes every line.                *)
(*   cfg:  INVARIANT TraceChk   POSTCONDITION TracePost   CHECK_DEADLOCK FALSE   (run with -workers 1)     *)
(* TraceChk records the highest cursor reached in TLC register 1 and stops TLC as soon as the whole trace *)
(* has been consumed (prints TRACE_ACCEPTED); TracePost prints <<"MAXL", n, len>>: line n is the first     *)
(* line no behaviour could match.                                                                         *)
EXTENDS Json, IOUtils, TLC, Sequences, Naturals

Log == ndJsonDeserialize(IOEnv.TRACE)

VARIABLE l   \* cursor: next line to consume

ASSUME TLCSet(1, 0)

Ev == Log[l]
IsEv(e) == l <= Len(Log) /\ Log[l].e = e /\ l' = l + 1
Has(f) == f \in DOMAIN Log[l]
Fld(f, dflt) == IF f \in DOMAIN Log[l] THEN Log[l][f] ELSE dflt

TraceChk == /\ TLCSet(1, IF TLCGet(1) > l THEN TLCGet(1) ELSE l)
            /\ (l > Len(Log) => (PrintT("TRACE_ACCEPTED") /\ TLCSet("exit", TRUE)))
TracePost == PrintT(<<"MAXL", TLCGet(1), Len(Log)>>)
==============================================================================
