CONSTANTS TPW = 2 NW = 2 Ids = {1, 2} Delays = {0, 1, 2, 3, 5} MaxTime = 7 MaxLag = 3 DeadlineCheck = TRUE
SPECIFICATION Spec
PROPERTY NoEarly
INVARIANT NoFireAfterCancel
INVARIANT Conserved
CHECK_DEADLOCK FALSE
