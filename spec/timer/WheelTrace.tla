------------------------------ MODULE WheelTrace ------------------------------
(* Abs oracle of C08 for the hierarchical timing wheel, as a trace specification over VIRTUAL time (ms).    *)
(*   - a handler runs at most once per schedule and not earlier than one tick before its deadline            *)
(*     (deadline = time of the schedule/reschedule call + delay; the call's start time is the weakest bound) *)
(*   - cancel/reschedule true  => the old schedule's handler never starts afterwards (a Fire after a          *)
(*     successful reschedule is judged against the NEW deadline)                                              *)
(*   - cancel false on a running wheel => the handler has run or will run exactly once                        *)
(*   - Quiesce (the wheel has been running, ticking punctually, for longer than its whole range): every       *)
(*     timer that is still scheduled and whose deadline lies more than the range in the past has fired -      *)
(*     never silently dropped while the service runs                                                          *)
(*   - after stop/drain returned no handler starts; scheduling on a stopped wheel is refused                  *)
EXTENDS TraceBase, FiniteSets, Integers

VARIABLES tick, range, st, dl, ndl, fired, stopCalled, stopped, mustFire
vars == <<l, tick, range, st, dl, ndl, fired, stopCalled, stopped, mustFire>>

Keys == {Log[i].k : i \in {j \in 1..Len(Log) : "k" \in DOMAIN Log[j]}}
F(v) == [k \in Keys |-> v]
\* st[k]: "none" | "calling" | "live" | "cancelled" | "done"
Init == /\ l = 1 /\ tick = 0 /\ range = 0 /\ st = F("none") /\ dl = F(0) /\ ndl = F(-1) /\ fired = F(0)
        /\ stopCalled = FALSE /\ stopped = FALSE /\ mustFire = {}
Canon == /\ tick' = 0 /\ range' = 0 /\ st' = F("none") /\ dl' = F(0) /\ ndl' = F(-1) /\ fired' = F(0)
         /\ stopCalled' = FALSE /\ stopped' = FALSE /\ mustFire' = {}
EvReset == IsEv("Reset") /\ Canon
EvBegin == /\ IsEv("Begin") /\ tick' = Ev.tick /\ range' = Ev.range
           /\ st' = F("none") /\ dl' = F(0) /\ ndl' = F(-1) /\ fired' = F(0) /\ stopCalled' = FALSE /\ stopped' = FALSE /\ mustFire' = {}

U == UNCHANGED <<tick, range>>
UN == UNCHANGED ndl
EvSchedCall == /\ IsEv("SchedCall") /\ st[Ev.k] = "none"
               /\ st' = [st EXCEPT ![Ev.k] = "calling"] /\ dl' = [dl EXCEPT ![Ev.k] = Ev.t + Ev.d]
               /\ U /\ UN /\ UNCHANGED <<fired, stopCalled, stopped, mustFire>>
EvSchedRet == /\ IsEv("SchedRet") /\ st[Ev.k] \in {"calling", "done"}
              /\ IF Ev.ok
                 THEN /\ ~stopped \/ st[Ev.k] = "done"     \* a stopped wheel refuses; (a call that began before the stop
                                                          \*  returned may have been accepted: then it linearizes before it)
                      /\ st' = [st EXCEPT ![Ev.k] = IF @ = "calling" THEN "live" ELSE @]
                 ELSE /\ fired[Ev.k] = 0                  \* a refused timer never fires
                      /\ stopCalled                       \* refused only because the wheel is draining / stopped
                      /\ st' = [st EXCEPT ![Ev.k] = "cancelled"]
              /\ U /\ UN /\ UNCHANGED <<dl, fired, stopCalled, stopped, mustFire>>

\* the handler starts: at most once, not more than one tick early, not after a successful cancel, not after stop returned
EvFire == /\ IsEv("Fire") /\ st[Ev.k] \in {"calling", "live"} /\ fired[Ev.k] = 0
          /\ Ev.t >= (IF ndl[Ev.k] >= 0 /\ ndl[Ev.k] < dl[Ev.k] THEN ndl[Ev.k] ELSE dl[Ev.k]) - tick
          /\ ~stopped
          /\ fired' = [fired EXCEPT ![Ev.k] = 1] /\ st' = [st EXCEPT ![Ev.k] = "done"]
          /\ mustFire' = mustFire \ {Ev.k}
          /\ U /\ UN /\ UNCHANGED <<dl, stopCalled, stopped>>

EvCancelCall == IsEv("CancelCall") /\ U /\ UN /\ UNCHANGED <<st, dl, fired, stopCalled, stopped, mustFire>>
EvCancelRet == /\ IsEv("CancelRet")
               /\ IF Ev.ok
                  THEN /\ st[Ev.k] = "live"                \* success only for a timer that has not started
                       /\ st' = [st EXCEPT ![Ev.k] = "cancelled"] /\ UNCHANGED mustFire
                  ELSE /\ st[Ev.k] \in {"live", "done", "cancelled"}
                       \* failure: it has run, or (on a running wheel) it will run exactly once
                       /\ mustFire' = IF st[Ev.k] = "live" /\ ~stopCalled THEN mustFire \cup {Ev.k} ELSE mustFire
                       /\ UNCHANGED st
               /\ U /\ UN /\ UNCHANGED <<dl, fired, stopCalled, stopped>>

EvReschedCall == /\ IsEv("ReschedCall") /\ ndl' = [ndl EXCEPT ![Ev.k] = Ev.t + Ev.d]
                 /\ U /\ UNCHANGED <<st, dl, fired, stopCalled, stopped, mustFire>>
\* the new deadline counts from the START of the reschedule call (weakest bound); a Fire between call and return is
\* judged against the earlier of the old and the new deadline
EvReschedRet == /\ IsEv("ReschedRet")
                /\ IF Ev.ok
                   THEN /\ st[Ev.k] = "live"
                        /\ dl' = [dl EXCEPT ![Ev.k] = ndl[Ev.k]]
                        /\ UNCHANGED mustFire
                   ELSE /\ st[Ev.k] \in {"live", "done", "cancelled"}
                        /\ mustFire' = IF st[Ev.k] = "live" /\ ~stopCalled THEN mustFire \cup {Ev.k} ELSE mustFire
                        /\ UNCHANGED dl
                /\ ndl' = [ndl EXCEPT ![Ev.k] = -1]
                /\ U /\ UNCHANGED <<st, fired, stopCalled, stopped>>

\* the wheel ran punctually for more than its whole range: nothing that was due long ago may still be pending
EvQuiesce == /\ IsEv("Quiesce")
             /\ ~stopCalled => \A k \in Keys : (st[k] = "live" /\ dl[k] + range + 2 * tick <= Ev.t) => FALSE
             /\ U /\ UN /\ UNCHANGED <<st, dl, fired, stopCalled, stopped, mustFire>>

EvLifeCall == /\ IsEv("LifeCall") /\ stopCalled' = TRUE
              /\ U /\ UN /\ UNCHANGED <<st, dl, fired, stopped, mustFire>>
EvLifeRet == /\ IsEv("LifeRet") /\ stopped' = TRUE
             /\ U /\ UN /\ UNCHANGED <<st, dl, fired, stopCalled, mustFire>>
EvEnd == /\ IsEv("End") /\ Ev.outcome # "stuck"
         \* "will run exactly once" after a failed cancel: unless the wheel was stopped before it could
         /\ (Ev.outcome = "done") => \A k \in mustFire : fired[k] = 1 \/ stopCalled
         /\ U /\ UN /\ UNCHANGED <<st, dl, fired, stopCalled, stopped, mustFire>>

Next == EvReset \/ EvBegin \/ EvSchedCall \/ EvSchedRet \/ EvFire \/ EvCancelCall \/ EvCancelRet \/ EvReschedCall
        \/ EvReschedRet \/ EvQuiesce \/ EvLifeCall \/ EvLifeRet \/ EvEnd
Spec == Init /\ [][Next]_vars
AtMostOnce == \A k \in Keys : fired[k] <= 1
===============================================================================
