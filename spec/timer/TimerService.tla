------------------------------ MODULE TimerService ------------------------------
(* Impl-level specification of iora::core::TimerService (include/iora/core/timer.hpp): one action per critical  *)
(* section of the epoll thread and of the API calls.                                                             *)
(*   Schedule / SchedulePeriodic / Cancel   under _mutex                                                          *)
(*   Collect     collectDueLocked: every record with deadline <= now leaves _records; non-cancelled ones join the  *)
(*               batch `ready`; a periodic timer is re-armed (next += interval) in the same step                   *)
(*   Start/Done  safeRun of the head of the batch, outside the mutex (so Cancel can run between Collect and Start) *)
(*   DrainBegin (accepting := FALSE, cancel periodic timers) ; DrainOk | DrainTimeout (restores accepting)         *)
(*   Stop        running := FALSE, final Collect, join                                                             *)
(* UseCancelToken / ClearAcceptingOnStop = TRUE is the repaired code; FALSE the original (self-tests).             *)
(*   Reset / Restart   reset() on the stopped service clears records, periodic entries and the heap and lets the   *)
(*               identifiers start again at 1; start() runs it again.  Due-ness is what the CODE tests: a heap     *)
(*               item (code id, deadline) whose deadline has passed and whose code id names a live record - the    *)
(*               item is matched by id ONLY, stale items of cancelled timers are skipped lazily.  With             *)
(*               ResetClearsHeap = FALSE (self-test) a stale item survives the reset and matches the first new     *)
(*               timer that gets its id: that timer fires at the old deadline.  MaxCycles bounds the restarts.     *)
EXTENDS Naturals, Sequences, FiniteSets, TLC

CONSTANTS Ids, PerIds, Delays, MaxTime, UseCancelToken, ClearAcceptingOnStop, ResetClearsHeap, MaxCycles

VARIABLES now, rec, per, ready, running, accepting, state, cancelledTrue, starts, dlOf, late, lateAccepted, drainTO,
          cid, nextCid, heap, cycles     \* code id of each model timer, next code id, heap items [cid, dl], restarts so far
vars == <<now, rec, per, ready, running, accepting, state, cancelledTrue, starts, dlOf, late, lateAccepted, drainTO, cid, nextCid, heap, cycles>>
\* rec : id -> [dl, canc]   (live records)      per : id -> [itv, next]  (live periodic entries)
\* ready : sequence of [id, k] collected but not started      starts : set of [id, k, t, afterCancel]

Init == /\ now = 0 /\ rec = <<>> /\ per = <<>> /\ ready = <<>> /\ running = TRUE /\ accepting = TRUE
        /\ state = "Running" /\ cancelledTrue = {} /\ starts = {} /\ dlOf = <<>> /\ late = FALSE /\ lateAccepted = FALSE /\ drainTO = FALSE
        /\ cid = <<>> /\ nextCid = 1 /\ heap = {} /\ cycles = 0

Fresh(i) == i \notin DOMAIN dlOf
Schedule(i, d) == /\ i \in Ids \ PerIds /\ Fresh(i) /\ accepting /\ state = "Running"
                  /\ rec' = rec @@ (i :> [dl |-> now + d, canc |-> FALSE])
                  /\ dlOf' = dlOf @@ (i :> [dl |-> now + d, itv |-> 0])
                  /\ cid' = cid @@ (i :> nextCid) /\ nextCid' = nextCid + 1 /\ heap' = heap \cup {[cid |-> nextCid, dl |-> now + d]}
                  /\ UNCHANGED <<now, per, ready, running, accepting, state, cancelledTrue, starts, late, lateAccepted, drainTO, cycles>>
SchedulePeriodic(i, d) == /\ i \in PerIds /\ Fresh(i) /\ d > 0 /\ accepting /\ state = "Running"
                          /\ rec' = rec @@ (i :> [dl |-> now + d, canc |-> FALSE])
                          /\ per' = per @@ (i :> [itv |-> d, next |-> now + d])
                          /\ dlOf' = dlOf @@ (i :> [dl |-> now + d, itv |-> d])
                          /\ cid' = cid @@ (i :> nextCid) /\ nextCid' = nextCid + 1 /\ heap' = heap \cup {[cid |-> nextCid, dl |-> now + d]}
                          /\ UNCHANGED <<now, ready, running, accepting, state, cancelledTrue, starts, late, lateAccepted, drainTO, cycles>>

Drop(f, i) == [j \in DOMAIN f \ {i} |-> f[j]]
\* cancel(id): true iff a non-cancelled record or a periodic entry exists
Cancel(i) == /\ i \in DOMAIN dlOf /\ i \notin cancelledTrue
             /\ LET inRec == i \in DOMAIN rec /\ ~rec[i].canc
                    inPer == i \in DOMAIN per IN
                /\ (inRec \/ inPer)            \* the call returns true (a false return changes nothing)
                /\ rec' = IF i \in DOMAIN rec THEN [rec EXCEPT ![i].canc = TRUE] ELSE rec
                /\ per' = IF inPer THEN Drop(per, i) ELSE per
                /\ cancelledTrue' = cancelledTrue \cup {i}
             /\ UNCHANGED <<now, ready, running, accepting, state, starts, dlOf, late, lateAccepted, drainTO, cid, nextCid, heap, cycles>>

Tick == /\ now < MaxTime /\ now' = now + 1
        /\ UNCHANGED <<rec, per, ready, running, accepting, state, cancelledTrue, starts, dlOf, late, lateAccepted, drainTO, cid, nextCid, heap, cycles>>

\* collectDueLocked(now) - only when the previous batch has been run (the loop is sequential)
\* what the code tests: some heap item with this record's code id is due (matched by id only)
Due == {i \in DOMAIN rec : \E h \in heap : h.cid = cid[i] /\ h.dl <= now}
SeqOf(S) == LET RECURSIVE go(_)
                go(T) == IF T = {} THEN <<>> ELSE LET m == CHOOSE x \in T : \A y \in T : rec[x].dl < rec[y].dl \/ (rec[x].dl = rec[y].dl /\ x <= y)
                                                     IN <<m>> \o go(T \ {m})
            IN go(S)
KOf(i) == Cardinality({s \in starts : s.id = i}) + Len(SelectSeq(ready, LAMBDA r : r.id = i)) + 1
Collect == /\ ready = <<>> /\ Due # {} /\ state # "Stopped"
           /\ LET fire == {i \in Due : ~rec[i].canc}
                  rearm == {i \in fire : i \in DOMAIN per}
              IN /\ ready' = [n \in 1..Cardinality(fire) |-> [id |-> SeqOf(fire)[n], k |-> KOf(SeqOf(fire)[n])]]
                 /\ rec' = [i \in (DOMAIN rec \ Due) \cup rearm |->
                              IF i \in rearm THEN [dl |-> per[i].next + per[i].itv, canc |-> FALSE] ELSE rec[i]]
                 /\ per' = [i \in DOMAIN per |-> IF i \in rearm THEN [per[i] EXCEPT !.next = @ + per[i].itv] ELSE per[i]]
                 /\ heap' = {h \in heap : h.dl > now} \cup {[cid |-> cid[i], dl |-> per[i].next + per[i].itv] : i \in rearm}
           /\ UNCHANGED <<now, running, accepting, state, cancelledTrue, starts, dlOf, late, lateAccepted, drainTO, cid, nextCid, cycles>>

\* safeRun(head of the batch)
Start == /\ ready # <<>>
         /\ LET h == Head(ready)
                skip == UseCancelToken /\ h.id \in PerIds /\ h.id \in cancelledTrue IN
            starts' = IF skip THEN starts
                      ELSE starts \cup {[id |-> h.id, k |-> h.k, t |-> now, afterCancel |-> h.id \in cancelledTrue]}
         /\ ready' = Tail(ready)
         /\ UNCHANGED <<now, rec, per, running, accepting, state, cancelledTrue, dlOf, late, lateAccepted, drainTO, cid, nextCid, heap, cycles>>

\* drain(): cancels periodic timers, waits for the rest; a timed-out drain restores accepting
DrainBegin == /\ state = "Running" /\ state' = "Draining" /\ accepting' = FALSE
              /\ per' = <<>>
              /\ rec' = [i \in DOMAIN rec |-> IF i \in DOMAIN per THEN [rec[i] EXCEPT !.canc = TRUE] ELSE rec[i]]
              /\ cancelledTrue' = cancelledTrue    \* (drain's own cancellations are not user-visible "cancel returned true")
              /\ UNCHANGED <<now, ready, running, starts, dlOf, late, lateAccepted, drainTO, cid, nextCid, heap, cycles>>
DrainTimeout == /\ state = "Draining" /\ running /\ state' = "Running" /\ accepting' = TRUE /\ drainTO' = TRUE
                /\ UNCHANGED <<now, rec, per, ready, running, cancelledTrue, starts, dlOf, late, lateAccepted, cid, nextCid, heap, cycles>>
\* stop(): (after a drain attempt) running := FALSE; the loop does a final Collect/Start and exits; join
\* (stop() from Running always drains first: it proceeds when that drain completed or timed out)
Stop == /\ (state = "Draining" \/ (state = "Running" /\ drainTO)) /\ running
        /\ running' = FALSE
        /\ accepting' = IF ClearAcceptingOnStop THEN FALSE ELSE accepting
        /\ UNCHANGED <<now, rec, per, ready, state, cancelledTrue, starts, dlOf, late, lateAccepted, drainTO, cid, nextCid, heap, cycles>>
Joined == /\ ~running /\ state # "Stopped" /\ ready = <<>> /\ Due = {}
          /\ state' = "Stopped"
          /\ UNCHANGED <<now, rec, per, ready, running, accepting, cancelledTrue, starts, dlOf, late, lateAccepted, drainTO, cid, nextCid, heap, cycles>>
\* scheduleAfter on the stopped service
LateSchedule == /\ state = "Stopped" /\ ~late /\ late' = TRUE /\ lateAccepted' = accepting
                /\ UNCHANGED <<now, rec, per, ready, running, accepting, state, cancelledTrue, starts, dlOf, drainTO, cid, nextCid, heap, cycles>>

\* reset() (Stopped -> Reset) and start() (Reset -> Running)
Reset == /\ state = "Stopped" /\ cycles < MaxCycles
         /\ state' = "Reset" /\ rec' = <<>> /\ per' = <<>> /\ nextCid' = 1
         /\ heap' = (IF ResetClearsHeap THEN {} ELSE heap)
         /\ UNCHANGED <<now, ready, running, accepting, cancelledTrue, starts, dlOf, late, lateAccepted, drainTO, cid, cycles>>
Restart == /\ state = "Reset"
           /\ state' = "Running" /\ running' = TRUE /\ accepting' = TRUE /\ drainTO' = FALSE /\ cycles' = cycles + 1
           /\ UNCHANGED <<now, rec, per, ready, cancelledTrue, starts, dlOf, late, lateAccepted, cid, nextCid, heap>>

Next == \/ Reset \/ Restart
        \/ \E i \in Ids, d \in Delays : Schedule(i, d) \/ SchedulePeriodic(i, d)
        \/ \E i \in Ids : Cancel(i)
        \/ Tick \/ Collect \/ Start \/ DrainBegin \/ DrainTimeout \/ Stop \/ Joined \/ LateSchedule
Spec == Init /\ [][Next]_vars

\* ---- properties ---------------------------------------------------------------------------------------
NoEarly == \A s \in starts : s.t >= dlOf[s.id].dl + (s.k - 1) * dlOf[s.id].itv
OneShotOnce == \A i \in Ids \ PerIds : Cardinality({s \in starts : s.id = i}) <= 1
NoStartAfterCancelTrue == \A s \in starts : ~s.afterCancel
StoppedRefuses == ~lateAccepted
NothingAfterStop == state = "Stopped" => ready = <<>>
=================================================================================
