------------------------------ MODULE TimerTrace ------------------------------
(* Abs oracle of C08 for the epoll timer service (TimerService, its pool, SteadyTimer), as a trace            *)
(* specification.  Times are microseconds on ONE clock (steady_clock): the handler's own stamp versus the      *)
(* stamp taken before the schedule call plus the delay.  Facts that cross threads are flags read at handler     *)
(* start (ac: cancel(k) had returned true; as: stop/drain had returned), never timestamp comparisons.           *)
(*   - a one-shot handler starts at most once, not before its deadline; the n-th start of a periodic timer is   *)
(*     not before n intervals after it was scheduled                                                            *)
(*   - a handler never starts after cancel returned true for it           (Fire.ac must be FALSE)               *)
(*   - cancel false on a running service => a one-shot handler has run or will run exactly once                 *)
(*   - a timer whose deadline passed long ago (Slack) while the service was running has fired                   *)
(*   - no handler starts after stop/drain returned                         (Fire.as must be FALSE)              *)
(*   - scheduling after stop/drain returned is refused                                                          *)
(* AllowPeriodicCancelRace switches on the one deviation action that explains known finding F-08b.              *)
EXTENDS TraceBase, FiniteSets, Integers

CONSTANTS AllowPeriodicCancelRace
Slack == 1000000   \* 1 s: how late the epoll thread may be before "silently dropped" is concluded

VARIABLES st, dl, per, cnt, lifeCalled, closed, mustRun, dev
vars == <<l, st, dl, per, cnt, lifeCalled, closed, mustRun, dev>>

Keys == {Log[i].k : i \in {j \in 1..Len(Log) : "k" \in DOMAIN Log[j]}}
F(v) == [k \in Keys |-> v]
Init == /\ l = 1 /\ st = F("none") /\ dl = F(0) /\ per = F(0) /\ cnt = F(0)
        /\ lifeCalled = FALSE /\ closed = FALSE /\ mustRun = {} /\ dev = FALSE
Canon == /\ st' = F("none") /\ dl' = F(0) /\ per' = F(0) /\ cnt' = F(0)
         /\ lifeCalled' = FALSE /\ closed' = FALSE /\ mustRun' = {} /\ dev' = FALSE
EvReset == IsEv("Reset") /\ Canon
EvBegin == IsEv("Begin") /\ Canon

\* the call is announced before it is made (its handler may start before the caller logs the result)
EvSchedCall == /\ IsEv("SchedCall") /\ st[Ev.k] = "none"
               /\ st' = [st EXCEPT ![Ev.k] = "calling"] /\ dl' = [dl EXCEPT ![Ev.k] = Ev.t + Ev.d]
               /\ per' = [per EXCEPT ![Ev.k] = IF Ev.per THEN Ev.d ELSE 0]
               /\ UNCHANGED <<cnt, lifeCalled, closed, mustRun, dev>>
EvSched == /\ IsEv("Sched") /\ st[Ev.k] = "calling"
           /\ IF Ev.ok
              THEN st' = [st EXCEPT ![Ev.k] = "live"]
              ELSE /\ lifeCalled /\ cnt[Ev.k] = 0       \* refused only because draining / stopped; a refused timer never ran
                   /\ st' = [st EXCEPT ![Ev.k] = "refused"]
           /\ UNCHANGED <<dl, per, cnt, lifeCalled, closed, mustRun, dev>>

FireOk == /\ st[Ev.k] \in {"calling", "live", "cancelled"}
          /\ Ev.n = cnt[Ev.k] + 1
          /\ (per[Ev.k] = 0) => Ev.n = 1                                   \* one-shot: at most once
          /\ Ev.t >= dl[Ev.k] + (Ev.n - 1) * per[Ev.k]                     \* never early
          /\ ~Ev.as                                                        \* not after stop/drain returned
EvFire == /\ IsEv("Fire") /\ FireOk /\ ~Ev.ac
          /\ cnt' = [cnt EXCEPT ![Ev.k] = @ + 1]
          /\ UNCHANGED <<st, dl, per, lifeCalled, closed, mustRun, dev>>
\* deviation (known finding F-08b): the k-th firing of a PERIODIC timer had already been collected when cancel returned true
DevFirePeriodicAfterCancel ==
          /\ AllowPeriodicCancelRace
          /\ IsEv("Fire") /\ FireOk /\ Ev.ac /\ per[Ev.k] > 0
          /\ cnt' = [cnt EXCEPT ![Ev.k] = @ + 1] /\ dev' = TRUE
          /\ UNCHANGED <<st, dl, per, lifeCalled, closed, mustRun>>

EvCancelRet == /\ IsEv("CancelRet")
               /\ IF Ev.ok
                  THEN /\ st[Ev.k] = "live" /\ st' = [st EXCEPT ![Ev.k] = "cancelled"] /\ UNCHANGED mustRun
                  ELSE /\ UNCHANGED st
                       /\ mustRun' = IF st[Ev.k] = "live" /\ per[Ev.k] = 0 /\ ~lifeCalled THEN mustRun \cup {Ev.k} ELSE mustRun
               /\ UNCHANGED <<dl, per, cnt, lifeCalled, closed, dev>>

EvLifeCall == /\ IsEv("LifeCall")
              \* while the service was running, nothing that was due more than Slack ago may still be waiting
              /\ (~lifeCalled /\ "t" \in DOMAIN Ev) =>
                     \A k \in Keys : (st[k] = "live" /\ per[k] = 0 /\ dl[k] + Slack <= Ev.t) => cnt[k] = 1
              /\ lifeCalled' = TRUE
              /\ UNCHANGED <<st, dl, per, cnt, closed, mustRun, dev>>
EvLifeRet == /\ IsEv("LifeRet")
             /\ closed' = (closed \/ Ev.closed)
             /\ UNCHANGED <<st, dl, per, cnt, lifeCalled, mustRun, dev>>
\* stop -> reset -> start: the service runs again; what was still pending is gone for good (it must never fire now), and
\* timers scheduled from here on are judged like any other - in particular never before THEIR deadline
EvRestart == /\ IsEv("Restart") /\ closed
             /\ IF Ev.ok THEN lifeCalled' = FALSE /\ closed' = FALSE ELSE UNCHANGED <<lifeCalled, closed>>
             /\ st' = [k \in Keys |-> IF st[k] \in {"calling", "live"} THEN "dropped" ELSE st[k]]
             /\ mustRun' = {}
             /\ UNCHANGED <<dl, per, cnt, dev>>
\* scheduling on a stopped service is refused rather than lost
EvLateCall == /\ IsEv("LateCall") /\ st' = [st EXCEPT ![Ev.k] = "calling"] /\ dl' = [dl EXCEPT ![Ev.k] = Ev.t]
              /\ UNCHANGED <<per, cnt, lifeCalled, closed, mustRun, dev>>
EvLate == /\ IsEv("Late")
          /\ closed => ~Ev.ok
          /\ st' = [st EXCEPT ![Ev.k] = IF Ev.ok THEN "live" ELSE "refused"]
          /\ UNCHANGED <<dl, per, cnt, lifeCalled, closed, mustRun, dev>>
EvEnd == /\ IsEv("End")
         /\ \A k \in mustRun : cnt[k] = 1          \* "has run or will run exactly once"
         /\ UNCHANGED <<st, dl, per, cnt, lifeCalled, closed, mustRun, dev>>

Next == EvRestart \/ EvReset \/ EvBegin \/ EvSchedCall \/ EvSched \/ EvLateCall \/ EvFire \/ DevFirePeriodicAfterCancel \/ EvCancelRet \/ EvLifeCall \/ EvLifeRet
        \/ EvLate \/ EvEnd
Spec == Init /\ [][Next]_vars
===============================================================================
