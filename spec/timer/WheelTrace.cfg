SPECIFICATION Spec
INVARIANT TraceChk
INVARIANT AtMostOnce
POSTCONDITION TracePost
CHECK_DEADLOCK FALSE
