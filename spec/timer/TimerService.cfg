CONSTANTS Ids = {1, 2} PerIds = {2} Delays = {0, 1, 2} MaxTime = 4 UseCancelToken = TRUE ClearAcceptingOnStop = TRUE
SPECIFICATION Spec
INVARIANT NoEarly
INVARIANT OneShotOnce
INVARIANT NoStartAfterCancelTrue
INVARIANT StoppedRefuses
INVARIANT NothingAfterStop
CHECK_DEADLOCK FALSE
