------------------------------ MODULE TimingWheel ------------------------------
(* Impl-level specification of iora::core::TimingWheel (include/iora/core/timing_wheel.hpp) in units of one  *)
(* tick.  State: the discrete clock `now`, per level the `cur` tick counter, the entries with their absolute   *)
(* deadline and the (level, slot) they were hashed to, and `last` = time of the previous advance().            *)
(*   Schedule(d)  = insertEntry: ticks = d; level chosen by repeated division, slot = cur[level] + ticks       *)
(*   Advance      = the tick thread's advance(): ticksToProcess = max(1, now - last) level-0 buckets are        *)
(*                  collected with ONE timestamp (drift catch-up); on wrap-around the next level cascades       *)
(*                  (deadline <= now fires, otherwise re-insert by remaining)                                   *)
(*   TimePasses   = the clock moves without the tick thread running (it is late)                                *)
(* DeadlineCheck = TRUE is the repaired collectFromBucket (fire only entries at most one tick early, re-insert  *)
(* the others); FALSE is the original, which fires whatever the bucket holds.                                   *)
EXTENDS Naturals, Sequences, FiniteSets, TLC

CONSTANTS TPW, NW,        \* ticks per wheel (slots per level), number of levels
          Ids,            \* timer ids
          Delays,         \* delays (in ticks) a schedule may use
          MaxTime,        \* model bound on `now`
          MaxLag,         \* model bound on how late the tick thread may be (now - last)
          DeadlineCheck

VARIABLES now, last, cur, ent, firedAt, cancelled
vars == <<now, last, cur, ent, firedAt, cancelled>>
\* ent : function from a subset of Ids to [dl, lvl, slot]
NotFired == 1000000

Pow(b, e) == IF e = 0 THEN 1 ELSE IF e = 1 THEN b ELSE IF e = 2 THEN b * b ELSE b * b * b

Init == /\ now = 0 /\ last = 0 /\ cur = [lv \in 0..(NW-1) |-> 0] /\ ent = <<>>
        /\ firedAt = [i \in Ids |-> NotFired] /\ cancelled = {}

\* insertEntry(entry, delay) with the given level counters
LevelOf(t) == LET RECURSIVE go(_, _)
                  go(lv, tk) == IF lv < NW - 1 /\ tk >= TPW THEN go(lv + 1, tk \div TPW) ELSE <<lv, tk>>
              IN go(0, t)
Place(c, delay) == IF delay <= 0 THEN [lvl |-> 0, slot |-> c[0] % TPW]
                   ELSE LET r == LevelOf(delay) IN [lvl |-> r[1], slot |-> (c[r[1]] + r[2]) % TPW]

Schedule(i, d) == /\ i \notin DOMAIN ent /\ firedAt[i] = NotFired /\ i \notin cancelled
                  /\ LET p == Place(cur, d) IN
                     ent' = ent @@ (i :> [dl |-> now + d, lvl |-> p.lvl, slot |-> p.slot])
                  /\ UNCHANGED <<now, last, cur, firedAt, cancelled>>

Cancel(i) == /\ i \in DOMAIN ent
             /\ ent' = [j \in DOMAIN ent \ {i} |-> ent[j]]
             /\ cancelled' = cancelled \cup {i}
             /\ UNCHANGED <<now, last, cur, firedAt>>

TimePasses == /\ now < MaxTime /\ now - last < MaxLag
              /\ now' = now + 1 /\ UNCHANGED <<last, cur, ent, firedAt, cancelled>>

\* one advance(): processes n = max(1, now - last) level-0 ticks with the single timestamp `now`
\* state threaded through the loop: [cur, ent, fired]
CollectL0(s) ==
    LET b == s.cur[0] % TPW
        inB == {i \in DOMAIN s.ent : s.ent[i].lvl = 0 /\ s.ent[i].slot = b}
        due == IF DeadlineCheck THEN {i \in inB : s.ent[i].dl <= now + 1} ELSE inB
        keep == inB \ due
        \* re-insert the ones that are not due by their remaining delay (relative to the not yet incremented counter)
        ent1 == [i \in DOMAIN s.ent \ due |->
                   IF i \in keep THEN LET p == Place(s.cur, s.ent[i].dl - now) IN [dl |-> s.ent[i].dl, lvl |-> p.lvl, slot |-> p.slot]
                   ELSE s.ent[i]]
    IN [cur |-> s.cur, ent |-> ent1, fired |-> s.fired \cup due]

RECURSIVE Cascade(_, _)
Cascade(s, lv) ==
    IF lv >= NW THEN s
    ELSE LET b == s.cur[lv] % TPW
             inB == {i \in DOMAIN s.ent : s.ent[i].lvl = lv /\ s.ent[i].slot = b}
             due == {i \in inB : s.ent[i].dl <= now}
             keep == inB \ due
             ent1 == [i \in DOMAIN s.ent \ due |->
                        IF i \in keep THEN LET p == Place(s.cur, s.ent[i].dl - now) IN [dl |-> s.ent[i].dl, lvl |-> p.lvl, slot |-> p.slot]
                        ELSE s.ent[i]]
             cur1 == [s.cur EXCEPT ![lv] = @ + 1]
             s1 == [cur |-> cur1, ent |-> ent1, fired |-> s.fired \cup due]
         IN IF cur1[lv] % TPW = 0 THEN Cascade(s1, lv + 1) ELSE s1

OneTick(s) == LET s1 == CollectL0(s)
                  s2 == [s1 EXCEPT !.cur = [s1.cur EXCEPT ![0] = @ + 1]]
              IN IF s2.cur[0] % TPW = 0 THEN Cascade(s2, 1) ELSE s2

RECURSIVE Ticks(_, _)
Ticks(s, n) == IF n = 0 THEN s ELSE Ticks(OneTick(s), n - 1)

\* the tick thread waits one tick between two advances: it runs only when the clock has moved
Advance == /\ now > last
           /\ LET n == IF now - last > 1 THEN now - last ELSE 1
                  s == Ticks([cur |-> cur, ent |-> ent, fired |-> {}], n)
              IN /\ cur' = s.cur /\ ent' = s.ent
                 /\ firedAt' = [i \in Ids |-> IF i \in s.fired THEN now ELSE firedAt[i]]
           /\ last' = now
           /\ UNCHANGED <<now, cancelled>>

Next == \/ \E i \in Ids, d \in Delays : Schedule(i, d)
        \/ \E i \in Ids : Cancel(i)
        \/ TimePasses \/ Advance
Spec == Init /\ [][Next]_vars

\* ---- properties ---------------------------------------------------------------------------------------
\* deadlines of fired timers are remembered through `dlOf`: an entry keeps its deadline until it fires; the check is made
\* in the step that fires it (action property) - stated as an invariant over a history of (id, deadline, time)
NoEarlyStep == \A i \in Ids : (firedAt[i] = NotFired /\ firedAt'[i] # NotFired) => firedAt'[i] + 1 >= ent[i].dl
NoEarly == [][NoEarlyStep]_vars
NoFireAfterCancel == \A i \in cancelled : firedAt[i] = NotFired
\* never silently dropped: an entry is either pending or was fired / cancelled; and a pending entry whose deadline has
\* passed is collected at the latest one full rotation of its level later when the thread ticks punctually (not checked
\* here as liveness; the conformance runs check it with Quiesce)
Conserved == \A i \in Ids : ~(i \in DOMAIN ent /\ firedAt[i] # NotFired)
================================================================================
