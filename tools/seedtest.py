#!/usr/bin/env python3
"""confirm a seeded change and run the checks against it.
   tools/seedtest.py <dir with patch.diff + demo.cpp (+notes.md)> <seed id, e.g. C10-1> <property> [<property> ...]
1. demo.cpp is built against /repo (must PASS) and against /repo + patch in a scratch copy of the include tree (must FAIL)
2. the patch is applied to /repo, ./check <property> --tier quick runs, the patch is undone
3. everything is recorded under /verif/seeded/<seed id>/ (patch.diff, demo, notes, meta.json)"""
import json, os, shutil, subprocess, sys, tempfile, time
ROOT = os.path.dirname(os.path.dirname(os.path.abspath(__file__)))


def sh(cmd, timeout=900, cwd=None):
    p = subprocess.run(cmd, shell=True, cwd=cwd, stdout=subprocess.PIPE, stderr=subprocess.STDOUT, text=True, timeout=timeout, errors="replace")
    return p.returncode, p.stdout


def main():
    src, sid, props = os.path.abspath(sys.argv[1]), sys.argv[2], sys.argv[3:]
    if not props:                                        # re-run: the properties recorded last time
        props = json.load(open(os.path.join(src, "meta.json")))["properties"]
    patch = os.path.join(src, "patch.diff")
    demo = None
    for cand in ("demo.cpp", "test.cpp"):
        if os.path.exists(os.path.join(src, cand)):
            demo = os.path.join(src, cand)
    out = os.path.join(ROOT, "seeded", sid)
    os.makedirs(out, exist_ok=True)
    meta = {"seed": sid, "properties": props, "source": src, "when": time.strftime("%Y-%m-%d %H:%M:%S")}
    # --- 1. demonstration both ways
    rc, o = sh("git -C /repo apply --check %s" % patch)
    meta["applies_to_head"] = rc == 0
    if rc != 0:
        meta["apply_error"] = o[-500:]
    scratch = tempfile.mkdtemp(prefix="seed_", dir="/tmp")
    try:
        sh("cp -r /repo/include %s/include && cp -r /repo/tests %s/tests 2>/dev/null" % (scratch, scratch))
        rc, o = sh("git apply --directory=%s --unsafe-paths %s" % (scratch, patch), cwd="/")
        if rc != 0:  # fall back: patch -p1
            rc, o = sh("patch -p1 -d %s < %s" % (scratch, patch))
        meta["patched_copy"] = rc == 0
        if demo:
            flags = "-std=c++17 -O1 -g -pthread"
            libs = "-lssl -lcrypto -ldl"
            rc1, o1 = sh("g++ %s -I/repo/include -I/repo %s -o %s/demo_orig %s" % (flags, demo, scratch, libs), timeout=600)
            rc2, o2 = sh("g++ %s -I%s/include -I%s %s -o %s/demo_mut %s" % (flags, scratch, scratch, demo, scratch, libs), timeout=600)
            meta["demo_builds"] = [rc1 == 0, rc2 == 0]
            if rc1 != 0 or rc2 != 0:
                meta["demo_build_log"] = (o1 + o2)[-1500:]
            else:
                res = {"orig": [], "mut": []}
                for k in range(3):
                    for which in ("orig", "mut"):
                        try:
                            r, _ = sh("timeout 120 %s/demo_%s" % (scratch, which), timeout=150)
                        except subprocess.TimeoutExpired:
                            r = 124
                        res[which].append(r)
                meta["demo_exit_codes"] = res
                meta["demo_confirms"] = all(r == 0 for r in res["orig"]) and sum(1 for r in res["mut"] if r != 0) >= 2
    finally:
        shutil.rmtree(scratch, ignore_errors=True)
    # --- 2. the checks against the change
    results = {}
    if meta["applies_to_head"]:
        # the change is applied to a scratch worktree of /repo's HEAD (never to /repo itself while other work uses it); the
        # checks are pointed at it with VERIF_REPO and get their own build directory; both are removed afterwards
        wt = "/tmp/seedwt_" + sid
        bd = "/tmp/seedbuild_" + sid
        sh("git -C /repo worktree remove --force %s" % wt)
        rc, o = sh("git -C /repo worktree add --detach %s HEAD" % wt)
        sh("git -C %s apply %s" % (wt, patch))
        meta["repo_head"] = sh("git -C /repo log --oneline -1")[1].strip()
        try:
            for p in props:
                t0 = time.time()
                try:
                    rc, o = sh("VERIF_REPO=%s VERIF_BUILD=%s ./check %s --tier quick" % (wt, bd, p), timeout=2400, cwd=ROOT)
                except subprocess.TimeoutExpired:
                    rc, o = 124, "timeout"
                viol = [l for l in o.splitlines() if l.startswith("VIOLATION")]
                results[p] = {"exit": rc, "violations": [v[:400] for v in viol[:4]], "wall_s": round(time.time() - t0, 1),
                              "caught": rc == 1 and bool(viol), "tail": o.splitlines()[-3:] if rc not in (0, 1) else []}
        finally:
            sh("git -C /repo worktree remove --force %s" % wt)
            shutil.rmtree(bd, ignore_errors=True)
    meta["checks"] = results
    if os.path.abspath(src) != os.path.abspath(out):     # (a re-run from seeded/<id>/ itself keeps its files)
        shutil.copy(patch, os.path.join(out, "patch.diff"))
        if demo:
            shutil.copy(demo, os.path.join(out, os.path.basename(demo)))
        if os.path.exists(os.path.join(src, "notes.md")):
            shutil.copy(os.path.join(src, "notes.md"), os.path.join(out, "notes.md"))
    json.dump(meta, open(os.path.join(out, "meta.json"), "w"), indent=1)
    print(json.dumps({k: meta[k] for k in ("seed", "applies_to_head", "demo_confirms", "checks") if k in meta}, indent=1))


if __name__ == "__main__":
    main()
