"""vf — shared machinery of the /verif checks (TLC runner, trace validation, graph walks, evidence, verdicts).

Conventions
  * every check is a python module checks/<Cxx>.py with `run(ck)`; `ck` is a vf.Check
  * exit codes: 0 property held on everything explored (KNOWN-FINDING lines allowed), 1 VIOLATION, 2 infrastructure
  * nothing is written outside /verif/build (scratch), /verif/evidence, /verif/replays
"""
import json, os, re, shutil, subprocess, sys, time, random, hashlib

ROOT = os.path.dirname(os.path.dirname(os.path.abspath(__file__)))
REPO = os.environ.get("VERIF_REPO", "/repo")
BUILD = os.environ.get("VERIF_BUILD") or os.path.join(ROOT, "build")
# a run pointed at another tree (a seeded change in a scratch worktree) keeps its evidence and replays out of /verif proper
OUT = ROOT if REPO == "/repo" else BUILD
SPEC = os.path.join(ROOT, "spec")
HARNESS = os.path.join(ROOT, "harness")
BIN = os.path.join(BUILD, "bin")
NCPU = os.cpu_count() or 4


class Infra(Exception):
    """infrastructure failure (exit 2) — never a property verdict"""


def sh(cmd, timeout=None, cwd=None, env=None, check=False, input=None):
    e = dict(os.environ)
    if env:
        e.update(env)
    p = subprocess.run(cmd, shell=isinstance(cmd, str), cwd=cwd, env=e, timeout=timeout,
                       stdout=subprocess.PIPE, stderr=subprocess.STDOUT, text=True, input=input, errors="replace")
    if check and p.returncode != 0:
        raise Infra("command failed (%d): %s\n%s" % (p.returncode, cmd, p.stdout[-4000:]))
    return p.returncode, p.stdout


# --------------------------------------------------------------------------------------------- TLA+ value rendering
def tla(v):
    """render a python value as a TLA+ expression (dict -> function over strings / record, list -> sequence, set)"""
    if isinstance(v, bool):
        return "TRUE" if v else "FALSE"
    if isinstance(v, int):
        return str(v)
    if isinstance(v, str):
        return '"%s"' % v
    if isinstance(v, (list, tuple)):
        return "<<" + ", ".join(tla(x) for x in v) + ">>"
    if isinstance(v, (set, frozenset)):
        return "{" + ", ".join(tla(x) for x in sorted(v, key=repr)) + "}"
    if isinstance(v, Rec):
        return "[" + ", ".join("%s |-> %s" % (k, tla(x)) for k, x in v.items()) + "]"
    if isinstance(v, dict):
        if not v:
            return "<<>>"
        return "(" + " @@ ".join("%s :> %s" % (tla(k), tla(x)) for k, x in v.items()) + ")"
    raise TypeError("tla(): %r" % (v,))


class Rec(dict):
    """a dict rendered as a TLA+ record [k |-> v] instead of a function (k :> v)"""


# --------------------------------------------------------------------------------------------- TLC
class TlcResult:
    def __init__(self):
        self.rc = None
        self.out = ""
        self.generated = 0
        self.distinct = 0
        self.depth = 0
        self.ok = False            # finished, no error
        self.violated = None       # name of violated invariant / "deadlock" / "property" / "assert"
        self.error = None          # infrastructure-type error text
        self.coverage = {}         # action -> (taken, generated)
        self.wall = 0.0
        self.trace_json = None
        self.prints = []           # values printed with PrintT

    def summary(self):
        return dict(ok=self.ok, violated=self.violated, generated=self.generated, distinct=self.distinct,
                    depth=self.depth, wall_s=round(self.wall, 2))


_run_counter = [0]


def _metadir(tag):
    _run_counter[0] += 1
    d = os.path.join(BUILD, "tlc", "%s_%d_%d" % (re.sub(r"\W+", "_", tag), os.getpid(), _run_counter[0]))
    shutil.rmtree(d, ignore_errors=True)
    os.makedirs(d, exist_ok=True)
    return d


def write_cfg(path, spec="Spec", constants=None, invariants=(), properties=(), constraints=(), view=None,
              postcondition=None, deadlock=False, init=None, next=None, symmetry=None, action_constraints=()):
    lines = []
    if init and next:
        lines += ["INIT " + init, "NEXT " + next]
    else:
        lines.append("SPECIFICATION " + spec)
    if constants:
        lines.append("CONSTANTS")
        for k, v in constants.items():
            if isinstance(v, str) and v.startswith("<-"):
                lines.append("  %s %s" % (k, v))
            else:
                lines.append("  %s = %s" % (k, v if isinstance(v, str) else tla(v)))
    for i in invariants:
        lines.append("INVARIANT " + i)
    for p in properties:
        lines.append("PROPERTY " + p)
    for c in constraints:
        lines.append("CONSTRAINT " + c)
    for c in action_constraints:
        lines.append("ACTION_CONSTRAINT " + c)
    if view:
        lines.append("VIEW " + view)
    if symmetry:
        lines.append("SYMMETRY " + symmetry)
    if postcondition:
        lines.append("POSTCONDITION " + postcondition)
    lines.append("CHECK_DEADLOCK " + ("TRUE" if deadlock else "FALSE"))
    with open(path, "w") as f:
        f.write("\n".join(lines) + "\n")


def run_tlc(module_path, cfg_path, tag="tlc", workers=None, timeout=900, env=None, extra=(), coverage=False,
            dump_dot=None, dump_trace=None, simulate=None, depth=None, seed=None, xmx="6g", dfs_queue=False,
            lib_dirs=()):
    """run TLC on module_path (cwd = its directory) with cfg_path; returns TlcResult"""
    r = TlcResult()
    md = _metadir(tag)
    libs = [os.path.join(SPEC, "common")] + list(lib_dirs)
    jopts = "-Xmx%s -DTLA-Library=%s" % (xmx, os.pathsep.join(libs))
    if dfs_queue:
        jopts += " -Dtlc2.tool.queue.IStateQueue=StateDeque"
    e = {"JAVA_TOOL_OPTIONS": jopts}
    if env:
        e.update(env)
    cmd = ["tlc", "-metadir", md, "-noGenerateSpecTE", "-config", cfg_path]
    cmd += ["-workers", str(workers or min(8, NCPU))]
    if coverage:
        cmd += ["-coverage", "1"]
    if dump_dot:
        cmd += ["-dump", "dot,actionlabels", dump_dot]
    if dump_trace:
        cmd += ["-dumpTrace", "json", dump_trace]
    if simulate:
        cmd += ["-simulate", simulate]
    if depth:
        cmd += ["-depth", str(depth)]
    if seed is not None:
        cmd += ["-seed", str(seed)]
    cmd += list(extra)
    cmd.append(os.path.basename(module_path))
    t0 = time.time()
    try:
        rc, out = sh(cmd, timeout=timeout, cwd=os.path.dirname(module_path), env=e)
    except subprocess.TimeoutExpired as ex:
        r.error = "timeout after %ss" % timeout
        r.out = (ex.stdout or b"").decode(errors="replace") if isinstance(ex.stdout, bytes) else (ex.stdout or "")
        r.wall = time.time() - t0
        shutil.rmtree(md, ignore_errors=True)
        return r
    r.wall = time.time() - t0
    r.rc, r.out = rc, out
    m = re.findall(r"(\d+) states generated, (\d+) distinct states found", out)
    if m:
        r.generated, r.distinct = int(m[-1][0]), int(m[-1][1])
    m = re.search(r"depth of the complete state graph search is (\d+)", out)
    if m:
        r.depth = int(m.group(1))
    m = re.search(r"Error: Invariant (\S+) is violated", out)
    if m:
        r.violated = m.group(1)
    elif "Error: Deadlock reached" in out:
        r.violated = "deadlock"
    elif re.search(r"Error: Temporal properties were violated", out):
        r.violated = "property"
    elif re.search(r"Error: Action property .* is violated", out):
        r.violated = "action_property"
    elif "The first argument of Assert evaluated to FALSE" in out:
        r.violated = "assert"
    for ln in out.splitlines():
        mm = re.match(r"<(\w+) line \d+, col \d+ to line \d+, col \d+ of module \w+>: (\d+):(\d+)", ln)
        if mm:
            a, tk, gn = mm.group(1), int(mm.group(2)), int(mm.group(3))
            o = r.coverage.get(a, (0, 0))
            r.coverage[a] = (o[0] + tk, o[1] + gn)
    r.prints = [ln for ln in out.splitlines() if ln.startswith("<<") or ln.startswith('"')]
    finished = ("Model checking completed. No error has been found." in out) or \
               (simulate and r.violated is None and rc == 0) or ("TRACE_ACCEPTED" in out and rc == 0)
    r.ok = bool(finished) and r.violated is None
    if not r.ok and r.violated is None:
        tail = "\n".join(out.splitlines()[-25:])
        r.error = "TLC failed (rc=%s):\n%s" % (rc, tail)
    if dump_trace and os.path.exists(dump_trace):
        try:
            r.trace_json = json.load(open(dump_trace))
        except Exception:
            r.trace_json = None
    shutil.rmtree(md, ignore_errors=True)
    return r


class ValResult:
    def __init__(self):
        self.accepted = False
        self.maxl = 0          # highest cursor reached: events 1..maxl-1 were matched, line maxl is the first unmatched
        self.n = 0
        self.error = None
        self.wall = 0.0
        self.states = 0
        self.out = ""
        self.violated = None


def validate_trace(module_path, cfg_path, trace_path, tag="val", timeout=900, dfs_queue=True, xmx="6g", env=None):
    """validate an ndjson trace against a trace specification that EXTENDS TraceBase (spec/common)"""
    v = ValResult()
    e = {"TRACE": trace_path}
    if env:
        e.update(env)
    with open(trace_path) as f:
        v.n = sum(1 for _ in f)
    r = run_tlc(module_path, cfg_path, tag=tag, workers=1, timeout=timeout, env=e, dfs_queue=dfs_queue, xmx=xmx)
    v.wall, v.out, v.states = r.wall, r.out, r.distinct
    if "TRACE_ACCEPTED" in r.out:
        v.accepted = True
        v.maxl = v.n + 1
        return v
    m = re.findall(r'<<"MAXL", (\d+), (\d+)>>', r.out)
    if m and r.violated is None and r.error is None:
        v.maxl = int(m[-1][0])
        return v
    if r.violated:
        v.violated = r.violated  # an Abs invariant failed on the recorded execution
        m2 = re.findall(r"\bl = (\d+)", r.out)
        if m2:
            v.maxl = int(m2[-1])
        return v
    v.error = r.error or "trace validation produced neither acceptance nor MAXL:\n" + "\n".join(r.out.splitlines()[-20:])
    return v


# --------------------------------------------------------------------------------------------- state graph walks
class Graph:
    def __init__(self):
        self.init = []
        self.edges = {}   # node -> list of (label, dst)
        self.nodes = set()

    @staticmethod
    def load(dot_path):
        g = Graph()
        edge_re = re.compile(r'^(-?\d+) -> (-?\d+) \[label="((?:[^"\\]|\\.)*)"')
        node_re = re.compile(r'^(-?\d+) \[label=')
        with open(dot_path) as f:
            for ln in f:
                m = edge_re.match(ln)
                if m:
                    s, d, lab = m.group(1), m.group(2), m.group(3)
                    g.edges.setdefault(s, []).append((lab.replace('\\"', '"'), d))
                    g.nodes.add(s); g.nodes.add(d)
                    continue
                m = node_re.match(ln)
                if m:
                    g.nodes.add(m.group(1))
                    if "style = filled" in ln:
                        g.init.append(m.group(1))
        for n in g.nodes:
            g.edges.setdefault(n, [])
        for n in g.edges:
            g.edges[n].sort()
        g.init.sort()
        return g

    def n_edges(self):
        return sum(len(v) for v in self.edges.values())

    def walk_to_end(self, node, rng, maxlen):
        path = []
        while self.edges[node] and len(path) < maxlen:
            lab, d = rng.choice(self.edges[node])
            path.append(lab)
            node = d
        return path

    def transition_cover(self, rng, maxlen=400, limit=None):
        """paths (lists of edge labels) from an initial state that together take every edge at least once;
        each path is extended by a random walk to a terminal state"""
        parent = {}
        order = []
        from collections import deque
        dq = deque()
        for i in self.init:
            parent[i] = None
            dq.append(i)
        while dq:
            n = dq.popleft()
            order.append(n)
            for lab, d in self.edges[n]:
                if d not in parent:
                    parent[d] = (n, lab)
                    dq.append(d)

        def prefix(n):
            p = []
            while parent[n] is not None:
                n, lab = parent[n]
                p.append(lab)
            p.reverse()
            return p
        covered = set()
        paths = []
        all_edges = [(n, i) for n in order for i in range(len(self.edges[n]))]
        rng.shuffle(all_edges)
        for (n, i) in all_edges:
            if (n, i) in covered:
                continue
            path = prefix(n)
            node = n
            # take the uncovered edge, then keep preferring uncovered edges
            idx = i
            while True:
                lab, d = self.edges[node][idx]
                covered.add((node, idx))
                path.append(lab)
                node = d
                if not self.edges[node] or len(path) >= maxlen:
                    break
                unc = [k for k in range(len(self.edges[node])) if (node, k) not in covered]
                idx = rng.choice(unc) if unc else rng.randrange(len(self.edges[node]))
            paths.append(path)
            if limit and len(paths) >= limit:
                break
        return paths, len(covered), len(all_edges)

    def random_walks(self, rng, n, maxlen=400):
        return [self.walk_to_end(rng.choice(self.init), rng, maxlen) for _ in range(n)]


def label_thread(label):
    """'Lock("p1")' -> ('Lock', ['p1'])"""
    m = re.match(r"(\w+)(?:\((.*)\))?$", label)
    if not m:
        return label, []
    args = [a.strip().strip('"') for a in m.group(2).split(",")] if m.group(2) else []
    return m.group(1), args


# --------------------------------------------------------------------------------------------- known findings
def load_known():
    p = os.path.join(ROOT, "known_findings.json")
    if not os.path.exists(p):
        return []
    return json.load(open(p))["findings"]


# --------------------------------------------------------------------------------------------- the check context
class Check:
    def __init__(self, prop, tier, seed):
        self.prop, self.tier, self.seed = prop, tier, seed
        self.t0 = time.time()
        self.rng = random.Random(seed)
        self.level = "model_checking"
        self.states = 0
        self.transitions = 0
        self.traces = 0
        self.evaluations = 0
        self.nontrivial = 0
        self.samples = []
        self.cov = {}
        self.assumptions = []
        self.violations = []     # (what, replay)
        self.known_hits = []     # (finding id, what)
        self.notes = []
        self.exhaustive = None
        self.rule = ""
        # one scratch directory per (property, tier, replay) so that concurrent runs of different kinds do not collide
        self.work = os.path.join(BUILD, "work", prop + ("" if tier == "quick" else "." + tier) + (".replay" if os.environ.get("VERIF_REPLAY") else ""))
        shutil.rmtree(self.work, ignore_errors=True)
        os.makedirs(self.work, exist_ok=True)
        self.replays = os.path.join(OUT, "replays", prop)
        self.known = [k for k in load_known() if k["property"] == prop]

    # ---- building
    def make(self, *targets):
        t0 = time.time()
        rc, out = sh(["make", "-C", HARNESS, "-j%d" % NCPU, "REPO=" + REPO, "B=" + BUILD] + list(targets), timeout=1500)
        if rc != 0:
            raise Infra("harness build failed:\n" + out[-6000:])
        self.note("build %s: %.1fs" % (" ".join(targets), time.time() - t0))

    def note(self, s):
        self.notes.append(s)
        print("[%s] %s" % (self.prop, s), flush=True)

    # ---- TLC bookkeeping
    def model_check(self, module_path, cfg_path, expect_ok=True, **kw):
        r = run_tlc(module_path, cfg_path, tag=self.prop + "_mc", **kw)
        if r.error:
            raise Infra("TLC error on %s: %s" % (os.path.basename(module_path), r.error))
        self.states += r.distinct
        self.transitions += r.generated
        for a, (tk, gn) in r.coverage.items():
            o = self.cov.get(a, 0)
            self.cov[a] = o + gn
        self.note("TLC %s/%s: %s" % (os.path.basename(module_path), os.path.basename(cfg_path), r.summary()))
        return r

    SHARD_LINES = 250000

    def validate(self, module_path, cfg_path, trace_path, n_exec=1, **kw):
        with open(trace_path) as f:
            nlines = sum(1 for _ in f)
        if nlines > self.SHARD_LINES * 3 // 2:
            v = self._validate_sharded(module_path, cfg_path, trace_path, nlines, **kw)
        else:
            v = validate_trace(module_path, cfg_path, trace_path, tag=self.prop + "_val", **kw)
        if v.error:
            raise Infra("trace validation error: " + v.error)
        self.note("validate %s: accepted=%s events=%d maxl=%d states=%d %.1fs" % (
            os.path.basename(trace_path), v.accepted, v.n, v.maxl, v.states, v.wall))
        if v.accepted:
            self.traces += n_exec
        return v

    def _validate_sharded(self, module_path, cfg_path, trace_path, nlines, **kw):
        """a very long log (TLC builds sets over 1..Len(Log)) is cut at Reset lines into shards that are validated one after
        the other; the result is the first rejection, with its line number mapped back to the whole file"""
        shards, cur, start, first = [], [], 1, 1
        with open(trace_path) as f:
            for i, ln in enumerate(f, 1):
                cur.append(ln)
                if ln.startswith('{"e":"Reset"}') or ln.startswith('{"e": "Reset"}'):
                    if len(cur) >= self.SHARD_LINES:
                        shards.append((first, cur))
                        cur, first = [], i + 1
        if cur:
            shards.append((first, cur))
        total = ValResult()
        total.n, total.accepted, total.maxl, total.states, total.wall, total.out, total.error = nlines, True, nlines + 1, 0, 0.0, "", None
        for k, (first, lines) in enumerate(shards):
            sp = "%s.shard%d" % (trace_path, k)
            with open(sp, "w") as f:
                f.writelines(lines)
            v = validate_trace(module_path, cfg_path, sp, tag="%s_val%d" % (self.prop, k), **kw)
            total.states += v.states
            total.wall += v.wall
            os.unlink(sp)
            if v.error or not v.accepted:
                total.error, total.accepted, total.out = v.error, False, v.out
                total.maxl = first - 1 + v.maxl
                break
        return total

    # ---- verdicts
    def save_replay(self, name, files):
        d = os.path.join(self.replays, name)
        shutil.rmtree(d, ignore_errors=True)
        os.makedirs(d, exist_ok=True)
        for fn, content in files.items():
            p = os.path.join(d, fn)
            if isinstance(content, (dict, list)):
                json.dump(content, open(p, "w"), indent=1)
            elif isinstance(content, str) and os.path.exists(content) and "\n" not in content:
                shutil.copy(content, p)
            else:
                open(p, "w").write(content)
        return d

    def violation(self, what, replay):
        self.violations.append((what, replay))
        print("[%s] violation: %s" % (self.prop, what), flush=True)

    def known_finding(self, fid, what):
        if (fid, what) not in self.known_hits:
            self.known_hits.append((fid, what))

    def classify(self, signature, what, replay):
        """signature: dict compared with the trace_signature of the property's *known* findings"""
        for k in self.known:
            if k.get("status") == "known" and k.get("trace_signature") == signature:
                self.known_finding(k["id"], k.get("history", what))
                return "known"
        self.violation(what, replay)
        return "violation"

    def sample(self, s):
        if len(self.samples) < 6:
            self.samples.append(s)

    def finish(self):
        wall = time.time() - self.t0
        cov = {}
        if self.level == "model_checking":
            cov.update(states=max(self.states, 0), transitions=max(self.transitions, 0),
                       traces_validated_against_impl=self.traces)
        cov.update(evaluations=max(self.evaluations, 0), distinct_nontrivial=self.nontrivial, rule=self.rule,
                   samples=self.samples or ["(none)"])
        if self.exhaustive is not None:
            cov["exhaustive"] = self.exhaustive
        if self.cov:
            cov["action_coverage"] = self.cov
        cov["notes"] = self.notes[-60:]
        cov["known_findings_reported"] = [k for k, _ in self.known_hits]
        ev = dict(property_id=self.prop, tier=self.tier, seed=self.seed, level=self.level, coverage=cov,
                  assumptions=self.assumptions, wall_s=round(wall, 2), violations=len(self.violations))
        os.makedirs(os.path.join(OUT, "evidence"), exist_ok=True)
        json.dump(ev, open(os.path.join(OUT, "evidence", self.prop + ".json"), "w"), indent=1)
        for fid, what in self.known_hits:
            print("KNOWN-FINDING: property=%s %s %s" % (self.prop, fid, what))
        for what, replay in self.violations:
            print("VIOLATION property=%s replay=%s  (%s)" % (self.prop, replay, what))
        sys.stdout.flush()
        return 1 if self.violations else 0


# --------------------------------------------------------------------------------------------- helpers for drivers
def run_driver(binary, args, timeout=600, env=None, input=None):
    p = os.path.join(BIN, binary)
    if not os.path.exists(p):
        raise Infra("driver %s not built" % binary)
    try:
        rc, out = sh([p] + [str(a) for a in args], timeout=timeout, env=env, input=input)
    except subprocess.TimeoutExpired:
        raise Infra("driver %s timed out after %ss" % (binary, timeout))
    return rc, out


def read_ndjson(path):
    out = []
    with open(path) as f:
        for ln in f:
            ln = ln.strip()
            if ln:
                out.append(json.loads(ln))
    return out


def split_executions(events):
    """split a concatenated trace at {"e":"Reset"} events -> list of (start_line, events)"""
    res, cur, start = [], [], 1
    for i, e in enumerate(events, 1):
        if e.get("e") == "Reset":
            res.append((start, cur))
            cur, start = [], i + 1
        else:
            cur.append(e)
    if cur:
        res.append((start, cur))
    return res


def exec_index_of_line(events, line):
    """index (0-based) of the execution that contains 1-based trace line `line`"""
    x = 0
    for i, e in enumerate(events, 1):
        if i >= line:
            break
        if e.get("e") == "Reset":
            x += 1
    return x
