#!/usr/bin/env python3
"""Extract the memory orders the SPSC ring buffers use for the cross-thread index accesses, from the source.

For every push-type member function (tryPush x2, tryPushBatch) of RingBuffer and DynamicRingBuffer: the order of the load
of `_tail` (the other side's index) and of the store of `_head` (the publishing store); for every pop-type function
(tryPop, peek, tryPopBatch): the load of `_head` and the store of `_tail`.  Output: the four SpscRing.tla constants
(the weakest order found per role) plus the per-function table.  An unrecognised shape raises (infrastructure error)."""
import re, sys, json

ACQ = {"acquire", "seq_cst", "acq_rel"}
REL = {"release", "seq_cst", "acq_rel"}
PUSH = {"tryPush", "tryPushBatch"}
POP = {"tryPop", "peek", "tryPopBatch"}


def bodies(src):
    """yield (class, function, start_line, body_text) for the member functions of interest"""
    cls_pos = [(m.start(), m.group(1)) for m in re.finditer(r"\bclass\s+(RingBuffer|DynamicRingBuffer)\b", src)]
    for m in re.finditer(r"\b(tryPushBatch|tryPopBatch|tryPush|tryPop|peek)\s*\(", src):
        name = m.group(1)
        # skip calls/mentions in comments: must be followed (after the parameter list and qualifiers) by '{'
        i = src.find(")", m.end())
        j = src.find("{", i)
        semi = src.find(";", i)
        if j < 0 or (0 <= semi < j):
            continue
        line_start = src.rfind("\n", 0, m.start()) + 1
        if "//" in src[line_start:m.start()]:
            continue
        depth, k = 0, j
        while k < len(src):
            if src[k] == "{":
                depth += 1
            elif src[k] == "}":
                depth -= 1
                if depth == 0:
                    break
            k += 1
        cls = None
        for p, c in cls_pos:
            if p < m.start():
                cls = c
        yield cls, name, src.count("\n", 0, m.start()) + 1, src[j:k + 1]


def order_of(expr):
    m = re.search(r"memory_order(?:_|::)(\w+)", expr)
    return m.group(1) if m else "seq_cst"


def extract(path):
    src = open(path).read()
    table = []
    for cls, fn, line, body in bodies(src):
        other, own = ("_tail", "_head") if fn in PUSH else ("_head", "_tail")
        loads = re.findall(re.escape(other) + r"\s*\.\s*load\s*\(([^;]*)\)\s*;", body)
        stores = re.findall(re.escape(own) + r"\s*\.\s*store\s*\(([^;]*)\)\s*;", body)
        if len(loads) != 1:
            raise RuntimeError("%s::%s (line %d): expected exactly one load of %s, found %d" % (cls, fn, line, other, len(loads)))
        if fn != "peek" and len(stores) != 1:
            raise RuntimeError("%s::%s (line %d): expected exactly one store of %s, found %d" % (cls, fn, line, own, len(stores)))
        # textual order: the publishing store must come after the last access to the slot storage
        publish_last = True
        if stores:
            m_store = re.search(re.escape(own) + r"\s*\.\s*store\s*\(", body)
            # any mention of the slot storage counts (indexing, .data(), .begin() ... - a rewrite with std::copy still names it);
            # a body that never names it leaves the order unknown (None): not a reason to stop - the linearizability runs judge
            # what such code does
            slot_pos = [m.start() for m in re.finditer(r"\b_buffer\b", body)]
            publish_last = (m_store.start() > max(slot_pos)) if slot_pos else None
        table.append(dict(cls=cls, fn=fn, line=line, load=order_of(loads[0]), store=order_of(stores[0]) if stores else None,
                          publish_last=publish_last))
    need = {(c, f) for c in ("RingBuffer", "DynamicRingBuffer") for f in PUSH | POP}
    have = {(t["cls"], t["fn"]) for t in table}
    if need - have:
        raise RuntimeError("member functions not found: %s" % sorted(need - have))
    consts = dict(
        PushTailAcq=all(t["load"] in ACQ for t in table if t["fn"] in PUSH),
        PushHeadRel=all(t["store"] in REL for t in table if t["fn"] in PUSH),
        PopHeadAcq=all(t["load"] in ACQ for t in table if t["fn"] in POP),
        PopTailRel=all(t["store"] in REL for t in table if t["fn"] in POP and t["store"] is not None),
        PushPublishLast=all(t["publish_last"] is not False for t in table if t["fn"] in PUSH),
        PopPublishLast=all(t["publish_last"] is not False for t in table if t["fn"] in POP))
    return consts, table


if __name__ == "__main__":
    c, t = extract(sys.argv[1] if len(sys.argv) > 1 else "/repo/include/iora/core/ring_buffer.hpp")
    print(json.dumps(dict(constants=c, table=t), indent=1))
