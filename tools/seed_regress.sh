#!/bin/bash
# re-run every recorded seeded change (seeded/<id>/) against the current checks: tools/seed_regress.sh [jobs] [id-prefix ...]
# each run uses its own scratch worktree + build dir under /tmp and removes them; results go to seeded/<id>/meta.json
cd "$(dirname "$0")/.."
jobs=${1:-3}; shift
pat=${@:-C}
ls -d seeded/C*-* | while read d; do
  id=$(basename $d)
  for p in $pat; do case $id in $p*) echo $id;; esac; done
done | sort -u | xargs -P $jobs -I{} sh -c 'python3 tools/seedtest.py seeded/{} {} > build/seed_{}.log 2>&1; echo {} done'
python3 tools/seed_table.py --update
