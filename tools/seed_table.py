#!/usr/bin/env python3
"""markdown table of the seeded changes (seeded/<id>/meta.json + seeded/NOTES.json); `--update` rewrites the block between
<!-- SEEDTABLE --> and <!-- /SEEDTABLE --> in DESIGN.md"""
import json, os, glob, re, sys
ROOT = os.path.dirname(os.path.dirname(os.path.abspath(__file__)))


def first_line(path):
    try:
        for ln in open(path):
            ln = ln.strip()
            if ln.startswith("#"):
                return re.sub(r"^#+\s*", "", ln)
    except OSError:
        pass
    return ""


def table():
    notes = json.load(open(os.path.join(ROOT, "seeded", "NOTES.json")))
    rows = ["| seed | change (title of its notes.md) | demonstration confirmed | outcome of the property's quick check | remarks |", "|---|---|---|---|---|"]
    n = caught = 0
    for d in sorted(glob.glob(os.path.join(ROOT, "seeded", "C*-*"))):
        sid = os.path.basename(d)
        try:
            m = json.load(open(os.path.join(d, "meta.json")))
        except OSError:
            continue
        title = first_line(os.path.join(d, "notes.md"))[:110].replace("|", "/")
        res = []
        ok = False
        for p, r in m.get("checks", {}).items():
            if r.get("caught"):
                res.append("%s: VIOLATION" % p)
                ok = True
            else:
                res.append("%s: missed (exit %s)" % (p, r.get("exit")))
        if not m.get("checks"):
            res.append("not run (%s)" % ("patch does not apply" if not m.get("applies_to_head") else "?"))
        n += 1
        caught += ok
        rows.append("| %s | %s | %s | %s | %s |" % (sid, title, "yes" if m.get("demo_confirms") else "no", "; ".join(res), notes.get(sid, "")))
    rows.append("")
    rows.append("%d seeded changes, %d caught by the quick tier of their property's check." % (n, caught))
    return "\n".join(rows)


if __name__ == "__main__":
    t = table()
    if "--update" in sys.argv:
        p = os.path.join(ROOT, "DESIGN.md")
        s = open(p).read()
        s = re.sub(r"<!-- SEEDTABLE -->.*?<!-- /SEEDTABLE -->", "<!-- SEEDTABLE -->\n" + t.replace("\\", "\\\\") + "\n<!-- /SEEDTABLE -->", s, flags=re.S)
        open(p, "w").write(s)
    else:
        print(t)
