#!/usr/bin/env python3
"""merge checks/<Cxx>.meta.json (written by a builder) into known_findings.json; commit ids of fixed findings are mapped from
the builder's worktree branch to the cherry-picked commit on /repo's main by commit subject"""
import json, os, subprocess, sys
ROOT = os.path.dirname(os.path.dirname(os.path.abspath(__file__)))


def subject(sha):
    try:
        return subprocess.check_output(["git", "-C", "/repo", "log", "-1", "--format=%s", sha], text=True, stderr=subprocess.DEVNULL).strip()
    except Exception:
        return None


def main_sha_for(subj):
    out = subprocess.check_output(["git", "-C", "/repo", "log", "--format=%h %s", "main"], text=True)
    for ln in out.splitlines():
        h, s = ln.split(" ", 1)
        if s == subj:
            return h
    return None


def main():
    pid = sys.argv[1]
    meta = json.load(open(os.path.join(ROOT, "checks", pid + ".meta.json")))
    kf_path = os.path.join(ROOT, "known_findings.json")
    kf = json.load(open(kf_path))
    have = {f["id"] for f in kf["findings"]}
    for f in meta.get("findings", []):
        f = dict(f)
        if f.get("status") == "fixed" and f.get("commit"):
            subj = subject(f["commit"])
            new = main_sha_for(subj) if subj else None
            if not new:
                print("!! no commit on main for", f["id"], f["commit"], subj)
                continue
            if "line" in f:
                f["line"] = f["line"].replace(f["commit"], new)
            f["commit"] = new
        if f["id"] in have:
            kf["findings"] = [x for x in kf["findings"] if x["id"] != f["id"]]
        kf["findings"].append(f)
        print("merged", f["id"], f.get("status"), f.get("commit", ""))
    json.dump(kf, open(kf_path, "w"), indent=1)


if __name__ == "__main__":
    main()
