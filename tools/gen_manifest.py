#!/usr/bin/env python3
"""writes /verif/MANIFEST.json from the table below and validates it against the schema"""
import json, os, sys
ROOT = os.path.dirname(os.path.dirname(os.path.abspath(__file__)))

CHECKS = {
 "C10": dict(
   technique="TLA+ Impl specs (BlockingQueue.tla at sync-op grain; SpscRing.tla over a C++11 release/acquire memory model with orders extracted from the source) model-checked by TLC; TLC behaviours replayed on the real objects by a deterministic pthread-interposing scheduler; recorded Call/Ret traces validated by TLC against the Abs FIFO (QueueTrace.tla); TSan on the ring programs",
   category="model_checking",
   text="TLC exhausts all interleavings of the synchronisation operations of small programs (<=4 threads) for FIFO/lossless/capacity/no-stuck, and every edge of those state graphs is replayed on the real BlockingQueue; in addition all schedules of the real object with <=2 preemptions are enumerated (stateless DFS) and each recorded execution must be linearizable w.r.t. the Abs queue. Ring: the four cross-thread memory orders are read from ring_buffer.hpp and TLC checks data-race freedom/FIFO/capacity of the SPSC protocol under them; real rings are checked for linearizability and under ThreadSanitizer.",
   note="Trusted: TLC, the pthread interposition scheduler (schedule points only at pthread/clock calls: atomics between two sync operations execute atomically), ThreadSanitizer, the C++11 fragment modelled in SpscRing.tla (release/acquire/relaxed on two atomics; no fences, no consume). Bounds: programs of <=5 threads / <=3 calls each, ring Cap<=3, <=4 pushes/pops.",
   design="§4 C10"),
 "C09": dict(
   technique="TLA+ Impl spec ThreadPool.tla (one action per critical section) model-checked by TLC; the same programs executed on the real ThreadPool under a deterministic pthread-interposing scheduler (preemption-bounded stateless DFS, seeded random, TLC-counterexample-directed plans); recorded traces validated by TLC against the Abs oracle PoolTrace.tla",
   category="model_checking",
   text="TLC exhausts all interleavings of the pool's critical sections for small programs (<=3 submitters, owner drain/stop/destroy at any moment) against ThreadCap, ExactlyOnce, StopComplete, NoJoinableLeft, NoStuck; the real pool runs the same programs under a scheduler that controls every pthread synchronisation point, and every recorded execution must be a behaviour of the Abs pool (exactly-once start, refusal only when full/draining/shut down, stop/destroy return only after accepted tasks finished, worker count <= max, futures ready).",
   note="Trusted: TLC, the interposition scheduler (schedule points at pthread/clock calls only), virtual time for idle timeouts and polling sleeps. Bounds: <=3 submitters x <=3 submissions, max<=3 workers, DFS preemption bound 1 (quick) / 2 (thorough), truncated at a fixed number of executions. DETACHED shutdown mode and destruction concurrent with submissions (a caller bug) are not explored.",
   design="§4 C09"),
 "C08": dict(
   technique="TLA+ Impl specs TimingWheel.tla (hashed hierarchical wheel with drift catch-up and cascades) and TimerService.tla (epoll timer service critical sections) model-checked by TLC; TLC behaviours replayed on the real TimingWheel under a deterministic scheduler with virtual time; scenario scripts derived from TLC counterexamples on the real TimerService/pool; all traces validated by TLC against the Abs oracles WheelTrace.tla / TimerTrace.tla",
   category="model_checking",
   text="TLC exhausts schedule/cancel/time/advance interleavings of small wheels (NoEarly within one tick, no fire after cancel, conservation) and of the timer service (never early, one-shot once, no start after a successful cancel, stopped service refuses). The real wheel is driven through behaviours covering the TLC graph plus random two-thread programs with its own tick thread under scheduler control and exact virtual time; the real service runs gated real-time scenarios whose cross-thread facts are happens-before flags. Every recorded execution must be a behaviour of the Abs timer.",
   note="Trusted: TLC, the interposition scheduler and its virtual clock (wheel), the steady clock (service; early firing is judged on one clock only). Bounds: wheels of 2-8 slots x 1-3 levels, <=5 timers per execution, service scenarios of <=8 operations; the 'never silently dropped' clause is judged with a 1 s slack on the service. SteadyTimer is a thin wrapper and is not driven separately.",
   design="§4 C08"),
 "C03": dict(
   technique="TLA+ Impl spec SyncRecv.tla model-checked by TLC; every (arrival pattern, receive buffer lengths, close position) TLC visits becomes a program for the real Transport::Impl on a scripted engine (repository's injection seam) under a deterministic pthread-interposing scheduler (random schedules + preemption-bounded DFS); traces validated by TLC against the Abs oracle TransportTrace.tla",
   category="model_checking",
   text="TLC exhausts onData/onClose/receiveSync interleavings for small chunk patterns (in order, exactly once, overflow sticky and after the pre-overflow bytes, PeerClosed only after everything before the close, no lost wake-up). The real receive path runs the TLC-derived programs plus mode-switch / Disabled / two-reader / timeout programs with every pthread synchronisation point under scheduler control; each recorded execution must be a behaviour of the cursor-based Abs stream.",
   note="Trusted: TLC, the interposition scheduler and virtual clock, the scripted engine standing in for the I/O thread (it calls the same Transport callbacks the real engines call). Bounds: <=5 chunks of <=4 bytes, caps 2-16, <=3 application threads, DFS preemption bound 1-2 truncated at a fixed number of executions. Real sockets are not involved here (C01 covers the engines).",
   design="§4 C03"),
 "C04": dict(
   technique="TLA+ Impl spec SyncConnect.tla model-checked by TLC; caller x engine-outcome programs on the real Transport::Impl over a scripted engine under the deterministic scheduler with virtual time (random + preemption-bounded DFS + the TLC counterexample as a directed plan); traces validated by TLC against TransportTrace.tla; TLA+ Impl spec EngineBatch.tla (the I/O thread walking one epoll batch by descriptor number while commands release and re-issue numbers) model-checked by TLC, its counterexample run as black-hole programs on the real TcpEngine under the scheduler and judged by EngineTrace.tla",
   category="model_checking",
   text="TLC exhausts the orderings of registration, handshake completion, failure, timeout, the unlock window and the engine's close for 2-3 concurrent callers (global callbacks only for owned sessions; ok only for a live session). The real connectSync is driven through the same orderings by the scheduler; ok/Timeout/ShuttingDown results, the engine commands issued on behalf of the call and the global callbacks are judged by the Abs oracle, timeouts in exact virtual time.",
   note="Trusted: TLC, scheduler, scripted engine. The 'no later than timeout plus bounded slack' clause is checked as 'never before the timeout and never stuck' (virtual time under an adversarial scheduler has no meaningful upper bound); on the real TcpEngine: refused and black-holed targets (a loopback listener with a full accept queue), a time-out racing the queued connect, and stale readiness events for a recycled descriptor; TLS handshakes are not exercised here.",
   design="§4 C04"),
 "C05": dict(
   technique="TLA+ Impl spec Teardown.tla (entry fence, park-guard counters, wait-out gate) model-checked by TLC; stop/destroy/destroy-in-callback programs on the real Transport::Impl over a scripted engine under the deterministic scheduler, also in ASan and TSan builds (scheduler not instrumented); TLA+ Impl spec EngineShutdown.tla (enqueue / process / stop / shutdownDrain of the engines at critical-section grain, four deviation flags) model-checked incl. termination under fairness; the REAL TcpEngine and UdpEngine (plain and batched loop) over loopback run under the same scheduler (epoll_wait and the addListener future wait are schedule points): connect/send/close/addListener/stop/start/last-owner-release programs under random, unfair-time-out and DFS schedules, also ASan and TSan; traces validated by TLC against TransportTrace.tla / EngineTrace.tla / StopTrace.tla",
   category="model_checking",
   text="TLC proves within its bounds that the Impl is never freed while a receiver, connector or flusher is inside (dropping any counter from the gate is caught) and that nothing stays parked. The real teardown paths (normal, already stopped, I/O-thread self-destruction) run with parked receiveSync/connectSync/setReadMode callers and in-flight send/close/addListener under random and preemption-bounded schedules; a crash or sanitizer report is a violation, every call must return, no callback may start after stop()/destruction returned. On the real TCP and UDP engines the schedule also decides where the I/O thread stands inside process()/shutdownDrain() when a call arrives: every call must return, calls begun after a returned stop() must fail, every identifier the application has seen (also one handed out by a connect racing the stop) must be closed when stop() returns, no callback after it, no write() to a closed descriptor.",
   note="Trusted: TLC, scheduler, ASan/TSan (data-race clause is exploration: TSan sees only the schedules explored, and the event log adds happens-before edges at call boundaries). Real-engine programs are small (<= 3 application threads, <= 3 sessions, no TLS, timers of the engines run on real time and never fire); sockets are loopback, so kernel-side timing is the only nondeterminism outside the schedule.",
   design="§4 C05"),
 "C02": dict(
   technique="TLA+ Impl spec Fanout.tla (close fan-out with concurrent observe/unobserve/setSessionData) model-checked by TLC; fan-out programs on the real Transport::Impl over a scripted engine under the deterministic scheduler (random + preemption-bounded DFS) validated by TLC against TransportTrace.tla; life-cycle scenario scripts on the real TCP and UDP engines over loopback (incl. a connect inside shutdownDrain's window entered by pausing the I/O thread at an interposed pthread_rwlock_wrlock) validated by TLC against LifecycleTrace.tla",
   category="model_checking",
   text="TLC exhausts the interleavings of the close fan-out with registration changes (global first, still-registered observers once in registration order, cleanup once and last). The real fan-out is driven through those interleavings by the scheduler. On the real engines every callback is logged on the single I/O thread with the open-sessions gauge; each execution must satisfy the per-identifier automaton announce? data* close (exactly one close, none missing after an orderly stop, identifiers never reused, gauge never under-counts and ends at zero).",
   note="Trusted: TLC, scheduler, scripted engine (fan-out part), loopback sockets and generous settle times (engine part: the oracle only uses the I/O thread's own total order, never cross-thread timestamps). Engine scenarios cover accept, FIN, RST, application close, self-connect, refused connect, stop and the drain window; idle-GC, backpressure and TLS-failure closes, unresolvable names and connect timeouts are not scripted here.",
   design="§4 C02"),
}

NOT_APPLICABLE = {
}

# checks built by builder sub-agents: their manifest text lives in checks/<id>.meta.json
FROM_META = ["C07", "C06", "C01", "C19", "C20", "C13", "C14", "C18", "C11", "C12", "C15", "C16", "C17"]


def main():
    props = [json.loads(l)["id"] for l in open(os.path.join(ROOT, "properties.jsonl"))]
    for pid in FROM_META:
        m = json.load(open(os.path.join(ROOT, "checks", pid + ".meta.json")))
        CHECKS[pid] = dict(technique=m["technique"], category=m.get("category", "model_checking"), text=m["text"],
                           note=m.get("note", ""), design=m.get("design", "§4 " + pid))
    checks = []
    for pid in props:
        if pid not in CHECKS:
            continue
        c = CHECKS[pid]
        checks.append(dict(
            property_id=pid,
            quick_cmd="./check %s --tier quick" % pid,
            thorough_cmd="./check %s --tier thorough" % pid,
            evidence_file="/verif/evidence/%s.json" % pid,
            replay_cmd_template="./check %s --replay {path}" % pid,
            engine="check",
            level_claimed=dict(category=c["category"], text=c["text"], design_ref=c["design"]),
            level_note=c["note"],
            technique=c["technique"]))
    na = [dict(property_id=p, reason=NOT_APPLICABLE.get(p, "check not built yet in this session (see DESIGN.md §7 build order); no claim is made"))
          for p in props if p not in CHECKS]
    hooks_commits = []
    hp = os.path.join(ROOT, "hooks_commits.txt")
    if os.path.exists(hp):
        hooks_commits = [l.split()[0] for l in open(hp) if l.strip() and not l.startswith("#")]
    m = dict(
        version=1,
        setup_cmd="make -C /verif/harness -j16 -k all; true",
        hooks=dict(guard="IORA_VERIF",
                   enable="harness/Makefile compiles every driver with -DIORA_VERIF against /repo/include (header-only library)",
                   baseline_off_cmd="cmake --build /repo/_build -j16 && ctest --test-dir /repo/_build -j8 --timeout 900",
                   source_commits=hooks_commits, add_only=True),
        engines=[dict(name="check", path="/verif/check", serves_properties=[c["property_id"] for c in checks],
                      kind_free_text="python driver: TLC model checking of spec/**.tla, behaviour generation from TLC state graphs, replay on real iora objects (harness/drv_*.cpp built from /repo's working tree), TLC trace validation against Abs specs")],
        checks=checks,
        notes="Technique family: explicit TLA+ specifications checked with TLC and bound to the code by replay of TLC behaviours and TLC validation of recorded traces. See DESIGN.md.",
        not_applicable=na)
    json.dump(m, open(os.path.join(ROOT, "MANIFEST.json"), "w"), indent=1)
    try:
        import jsonschema
        jsonschema.validate(m, json.load(open("/root/.vp/MANIFEST.schema.json")))
        print("MANIFEST.json valid: %d checks, %d not_applicable" % (len(checks), len(na)))
    except ImportError:
        print("MANIFEST.json written (jsonschema not importable here; run with python3-vt to validate)")

if __name__ == "__main__":
    main()
