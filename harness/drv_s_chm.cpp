// Extra: iora::core::ConcurrentHashMap<int,int,...,2 shards> under the scheduler: linearizability of the per-key operations.
//   drv_s_chm run <cases.txt> <out.ndjson>     case: a=insert:1:10,find:1,erase:1;b=insertOrAssign:1:20,addOne:1,size | random <seed>
// Events: Begin Call{t,op,k,v} Ret{t,op,ok,rv} End{outcome}
#include "iora/core/concurrent_hash_map.hpp"
#include "vf/exec.hpp"
#include "vf/sched.hpp"
#include "vf/trace.hpp"
#include <memory>
#include <thread>
using Map = iora::core::ConcurrentHashMap<int, int, std::hash<int>, std::equal_to<int>, 2>;
struct Op { std::string op; int k = 0, v = 0; };
struct TP { std::string name; std::vector<Op> ops; };
static std::string runOne(const std::vector<TP> &prog, const vf::Options &opt)
{
  auto tr = std::make_shared<vf::Trace>();
  tr->add(vf::Ev("Begin"));
  vf::Options o = opt; o.maxSteps = 20000;
  vf::reset(o);
  vf::spawn("main", [tr, &prog]() {
    vf::point("start");
    auto m = std::make_shared<Map>();
    std::vector<std::thread> th;
    for (auto &tp : prog) {
      vf::nameNextChild(tp.name);
      th.emplace_back([tr, m, &tp]() {
        for (auto &op : tp.ops) {
          vf::point("call");
          tr->add(vf::Ev("Call").str("t", tp.name).str("op", op.op).i("k", op.k).i("v", op.v));
          bool ok = false; int rv = -1;
          if (op.op == "insert") ok = m->insert(op.k, op.v);
          else if (op.op == "insertOrAssign") ok = m->insertOrAssign(op.k, op.v);
          else if (op.op == "erase") ok = m->erase(op.k);
          else if (op.op == "find") { auto r = m->find(op.k); ok = r.has_value(); if (ok) rv = *r; }
          else if (op.op == "contains") ok = m->contains(op.k);
          else if (op.op == "findOrInsert") { rv = m->findOrInsert(op.k, [&] { return op.v; }); ok = true; }
          else if (op.op == "addOne") ok = m->findAndModify(op.k, [](int &x) { ++x; });
          else if (op.op == "size") { rv = (int)m->size(); ok = true; }
          tr->add(vf::Ev("Ret").str("t", tp.name).str("op", op.op).b("ok", ok).i("rv", rv));
        }
      });
    }
    for (auto &t : th) t.join();
  });
  vf::Result r = vf::run();
  tr->add(vf::Ev("End").str("outcome", r.outcome == vf::Outcome::Done ? "done" : r.outcome == vf::Outcome::Stuck ? "stuck" : "other"));
  return tr->text();
}
int main(int argc, char **argv)
{
  if (argc < 4 || std::string(argv[1]) != "run") return 2;
  auto lines = vf::readLines(argv[2]);
  struct Case { std::vector<TP> prog; vf::Options opt; };
  std::vector<Case> cases;
  for (auto &ln : lines) {
    auto parts = vf::split(ln, '|'); if (parts.size() < 2) continue;
    Case c; std::string p; for (auto &x : vf::words(parts[0])) p += x;
    for (auto &pp : vf::split(p, ';')) { auto eq = pp.find('='); if (eq == std::string::npos) continue; TP tp; tp.name = pp.substr(0, eq);
      for (auto &x : vf::split(pp.substr(eq + 1), ',')) { if (x.empty()) continue; auto f = vf::split(x, ':'); Op o; o.op = f[0]; if (f.size() > 1) o.k = atoi(f[1].c_str()); if (f.size() > 2) o.v = atoi(f[2].c_str()); tp.ops.push_back(o); }
      c.prog.push_back(tp); }
    auto pw = vf::words(parts[1]); c.opt.policy = vf::Policy::Random; c.opt.seed = pw.size() > 1 ? strtoull(pw[1].c_str(), nullptr, 10) : 1;
    cases.push_back(std::move(c));
  }
  auto res = vf::runMany((int)cases.size(), 16, 30.0, std::string(argv[3]) + ".d", argv[3], [&](int i) { return runOne(cases[i].prog, cases[i].opt); });
  printf("executions=%d crashed=%d timedout=%d\n", res.executions, res.crashed, res.timedOut);
  return 0;
}
