// C19, end-to-end part: harness/drv_dns.cpp with the DnsTransport mode compiled in (separate binary because the
// transport headers dominate the compile time; used by the thorough tier only).
#define DRV_DNS_E2E
#include "drv_dns.cpp"
