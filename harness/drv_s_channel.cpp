// Extra X12 (publish/subscribe half): iora::web::SseChannel + SseStream close-latch, and iora::web::WsChannel, under the
// deterministic scheduler.  The owning servers are recording doubles (sendRawForSse / closeSession / isSessionActive /
// sendText are virtual for exactly this purpose); every hand-over to a server is a schedule point.
//   drv_s_channel run <cases.txt> <out.ndjson> [parallel]
//   drv_s_channel dfs "<kind> <n> | <prog>" <preemption bound> <max executions> <out.ndjson> [parallel]
//   case:  sse 2 | a=sub1,pub1,pub2;b=sub2,onc1,close1,count;c=mark1,pub3,rm | random <seed> [au]   /  replay [au] <plan>  /  prefix <plan>
//          ws 2  | a=sub1,pub1;b=sub2,unsub1,deact2,pub2,subB1,count           | ...
//   sse ops: sub<s> pub<m> close<s> mark<s> (=markClosed) onc<s> (=onClose(cb)) rm (=removeClosed) count
//   ws ops:  sub<s> subB<s> (another server: ignored, L-1) unsub<s> deact<s> (the session stops being active) pub<m> count
// Events: Begin{kind,n} Call{t,op,s,m} Ret{t,op,s,m,n} Deliver{t,s,m} CloseSession{t,s} Fired{t,s} End{outcome}
#include "iora/web/channel.hpp"
#include "vf/exec.hpp"
#include "vf/sched.hpp"
#include "vf/trace.hpp"

#include <algorithm>
#include <atomic>
#include <memory>
#include <random>
#include <set>

using iora::network::SessionId;
using iora::network::SseStream;
using iora::web::SseChannel;
using iora::web::WsChannel;

static std::shared_ptr<vf::Trace> g_tr;
static int msgOf(const char *p, size_t n)
{
  // the payload carries "m<id>" on its first data line
  for (size_t i = 0; i + 1 < n; ++i)
    if (p[i] == 'm' && p[i + 1] >= '0' && p[i + 1] <= '9') return atoi(p + i + 1);
  return -1;
}
class RecSse : public iora::network::HttpServer
{
public:
  using HttpServer::HttpServer;
  bool sendRawForSse(SessionId sid, const std::uint8_t *data, std::size_t len) override
  {
    std::string copy((const char *)data, len);
    vf::point("send"); // the boundary between the stream and the transport
    g_tr->add(vf::Ev("Deliver").str("t", vf::selfName()).i("s", (long long)sid).i("m", msgOf(copy.c_str(), copy.size())).i("len", (long long)len));
    return true;
  }
  void closeSession(SessionId sid) override
  {
    vf::point("closeSession");
    g_tr->add(vf::Ev("CloseSession").str("t", vf::selfName()).i("s", (long long)sid));
  }
};
class RecWs : public iora::network::WebSocketServer
{
public:
  using WebSocketServer::WebSocketServer;
  std::atomic<bool> active[16];
  bool isSessionActive(SessionId sid) const override { return sid < 16 && active[sid].load(); }
  void sendText(SessionId sid, const std::string &text) override
  {
    std::string copy = text;
    vf::point("send");
    g_tr->add(vf::Ev("Deliver").str("t", vf::selfName()).i("s", (long long)sid).i("m", msgOf(copy.c_str(), copy.size())).i("len", (long long)copy.size()));
  }
};

struct ThreadProg
{
  std::string name;
  std::vector<std::string> ops;
};
struct Case
{
  std::string kind;
  int n = 2;
  std::vector<ThreadProg> prog;
  vf::Options opt;
};

static std::string runOne(const Case &c, bool emitSched)
{
  auto tr = std::make_shared<vf::Trace>();
  g_tr = tr;
  tr->add(vf::Ev("Begin").str("kind", c.kind).i("n", c.n));
  const bool sse = c.kind == "sse";
  auto srv = std::make_shared<RecSse>();
  auto ws = std::make_shared<RecWs>();
  auto wsB = std::make_shared<RecWs>();
  for (int i = 0; i < 16; ++i) ws->active[i] = wsB->active[i] = true;
  auto ch = std::make_shared<SseChannel>("c");
  auto wch = std::make_shared<WsChannel>("w");
  // pin the channel's server (the FIRST subscribe records it): subB<s> is then always "a different server" (L-1)
  wch->subscribe(*ws, (SessionId)15);
  wch->unsubscribe((SessionId)15);
  auto streams = std::make_shared<std::vector<std::shared_ptr<SseStream>>>();
  streams->push_back(nullptr);
  for (int i = 1; i <= c.n; ++i) streams->push_back(std::make_shared<SseStream>(*srv, (SessionId)i));
  vf::Options o = c.opt;
  o.maxSteps = 20000;
  vf::reset(o);
  for (auto &tp : c.prog)
  {
    vf::spawn(tp.name,
              [tr, srv, ws, wsB, ch, wch, streams, tp, sse]()
              {
                for (auto &op : tp.ops)
                {
                  vf::point("call");
                  size_t d = 0;
                  while (d < op.size() && !(op[d] >= '0' && op[d] <= '9')) ++d;
                  std::string name = op.substr(0, d);
                  int arg = d < op.size() ? atoi(op.c_str() + d) : 0;
                  int s = name == "pub" ? 0 : arg, m = name == "pub" ? arg : 0;
                  long long n = 0;
                  tr->add(vf::Ev("Call").str("t", tp.name).str("op", name).i("s", s).i("m", m));
                  if (sse)
                  {
                    auto st = s > 0 && s < (int)streams->size() ? (*streams)[s] : nullptr;
                    if (name == "sub")
                      ch->subscribe(st);
                    else if (name == "pub")
                      ch->publish("e", "m" + std::to_string(m) + "\r\n tail"); // a two-line payload with a leading space
                    else if (name == "close")
                      st->close();
                    else if (name == "mark")
                      st->markClosed();
                    else if (name == "onc")
                      st->onClose([tr, s]() { tr->add(vf::Ev("Fired").str("t", vf::selfName()).i("s", s)); });
                    else if (name == "rm")
                      ch->removeClosed();
                    else if (name == "count")
                      n = (long long)ch->subscriberCount();
                  }
                  else
                  {
                    if (name == "sub")
                      wch->subscribe(*ws, (SessionId)s);
                    else if (name == "subB")
                      wch->subscribe(*wsB, (SessionId)s);
                    else if (name == "unsub")
                      wch->unsubscribe((SessionId)s);
                    else if (name == "deact")
                      ws->active[s] = false;
                    else if (name == "pub")
                      wch->publish("<li>m" + std::to_string(m) + "</li>");
                    else if (name == "count")
                      n = (long long)wch->subscriberCount();
                  }
                  tr->add(vf::Ev("Ret").str("t", tp.name).str("op", name).i("s", s).i("m", m).i("n", n));
                }
              });
  }
  vf::Result res = vf::run();
  const char *oc = res.outcome == vf::Outcome::Done ? "done" : res.outcome == vf::Outcome::Stuck ? "stuck" : res.outcome == vf::Outcome::StepLimit ? "steplimit" : "external";
  tr->add(vf::Ev("End").str("outcome", oc).b("drift", res.drift));
  std::string text = tr->text();
  if (emitSched)
  {
    std::string s = "#S";
    for (auto &st : res.steps)
    {
      s += " " + std::to_string(st.tid) + ":";
      for (size_t i = 0; i < st.enabled.size(); ++i) s += (i ? "," : "") + std::to_string(st.enabled[i]);
    }
    text += s + "\n";
  }
  return text;
}

static bool parseHead(const std::string &head, const std::string &progText, Case &c)
{
  auto w = vf::words(head);
  if (w.size() < 2) return false;
  c.kind = w[0];
  c.n = atoi(w[1].c_str());
  std::string p;
  for (auto &x : vf::words(progText)) p += x;
  for (auto &pp : vf::split(p, ';'))
  {
    auto eq = pp.find('=');
    if (eq == std::string::npos) continue;
    ThreadProg tp;
    tp.name = pp.substr(0, eq);
    for (auto &x : vf::split(pp.substr(eq + 1), ','))
      if (!x.empty()) tp.ops.push_back(x);
    c.prog.push_back(tp);
  }
  return !c.prog.empty();
}

static int cmdRun(int argc, char **argv)
{
  if (argc < 4) return 2;
  auto lines = vf::readLines(argv[2]);
  int par = argc > 4 ? atoi(argv[4]) : 8;
  std::vector<Case> cases;
  for (auto &ln : lines)
  {
    auto parts = vf::split(ln, '|');
    if (parts.size() < 3) continue;
    Case c;
    if (!parseHead(parts[0], parts[1], c)) continue;
    auto w = vf::words(parts[2]);
    if (w.empty()) continue;
    if (w[0] == "random")
    {
      c.opt.policy = vf::Policy::Random;
      c.opt.seed = w.size() > 1 ? strtoull(w[1].c_str(), nullptr, 10) : 1;
      for (size_t i = 2; i < w.size(); ++i)
        if (w[i] == "au") c.opt.pointAfterUnlock = true;
    }
    else
    {
      c.opt.policy = w[0] == "prefix" ? vf::Policy::Prefix : vf::Policy::Replay;
      size_t from = 1;
      if (w.size() > 1 && w[1] == "au") // replay au <plan>: with the extra schedule point ("resume") after every unlock
      {
        c.opt.pointAfterUnlock = true;
        from = 2;
      }
      c.opt.plan.assign(w.begin() + from, w.end());
    }
    cases.push_back(std::move(c));
  }
  auto res = vf::runMany((int)cases.size(), par, 60.0, std::string(argv[3]) + ".d", argv[3], [&](int i) { return runOne(cases[i], false); });
  printf("executions=%d crashed=%d timedout=%d\n", res.executions, res.crashed, res.timedOut);
  return 0;
}

// Stateless DFS with a preemption bound over the schedules of the real objects (same algorithm as drv_bq.cpp).
static int cmdDfs(int argc, char **argv)
{
  if (argc < 6) return 2;
  auto parts = vf::split(argv[2], '|');
  Case base;
  if (parts.size() < 2 || !parseHead(parts[0], parts[1], base)) return 2;
  int bound = atoi(argv[3]);
  int maxExec = atoi(argv[4]);
  std::string outPath = argv[5];
  int par = argc > 6 ? atoi(argv[6]) : 8;
  struct Node
  {
    std::vector<int> prefix;
    int preemptions;
  };
  std::vector<Node> wave{{{}, 0}};
  std::set<std::vector<int>> seen;
  FILE *out = fopen(outPath.c_str(), "w");
  int total = 0;
  bool truncated = false;
  std::vector<std::string> nameOf;
  for (auto &tp : base.prog) nameOf.push_back(tp.name);
  while (!wave.empty() && total < maxExec)
  {
    if ((int)wave.size() > maxExec - total)
    {
      std::shuffle(wave.begin(), wave.end(), std::mt19937(12345u + (unsigned)total));
      wave.resize(maxExec - total);
      truncated = true;
    }
    std::string tmp = outPath + ".wave";
    vf::runMany((int)wave.size(), par, 60.0, outPath + ".d", tmp,
                [&](int i)
                {
                  Case c = base;
                  c.opt.policy = vf::Policy::Prefix;
                  for (int id : wave[i].prefix) c.opt.plan.push_back(nameOf[id]);
                  return runOne(c, true);
                });
    auto lines = vf::readLines(tmp);
    unlink(tmp.c_str());
    std::vector<Node> nextWave;
    int idx = 0;
    for (auto &ln : lines)
    {
      if (ln.rfind("#S", 0) == 0)
      {
        auto w = vf::words(ln.substr(2));
        std::vector<int> chosen;
        std::vector<std::vector<int>> en;
        for (auto &e : w)
        {
          auto cpos = e.find(':');
          chosen.push_back(atoi(e.substr(0, cpos).c_str()));
          std::vector<int> v;
          for (auto &x : vf::split(e.substr(cpos + 1), ','))
            if (!x.empty()) v.push_back(atoi(x.c_str()));
          en.push_back(v);
        }
        const Node &nd = wave[idx];
        int pre = 0;
        for (size_t k = 0; k < chosen.size(); ++k)
        {
          bool prevEnabled = false;
          if (k > 0)
            for (int x : en[k])
              if (x == chosen[k - 1]) prevEnabled = true;
          if (k >= nd.prefix.size())
          {
            for (int alt : en[k])
            {
              if (alt == chosen[k]) continue;
              int cost = pre + ((k > 0 && prevEnabled && alt != chosen[k - 1]) ? 1 : 0);
              if (cost > bound) continue;
              std::vector<int> p(chosen.begin(), chosen.begin() + k);
              p.push_back(alt);
              if (seen.insert(p).second) nextWave.push_back({p, cost});
            }
          }
          if (k > 0 && prevEnabled && chosen[k] != chosen[k - 1]) ++pre;
        }
        continue;
      }
      fprintf(out, "%s\n", ln.c_str());
      if (ln.find("\"e\":\"Reset\"") != std::string::npos) ++idx;
    }
    total += (int)wave.size();
    wave.swap(nextWave);
  }
  if (!wave.empty()) truncated = true;
  fclose(out);
  printf("executions=%d truncated=%d\n", total, truncated ? 1 : 0);
  return 0;
}

int main(int argc, char **argv)
{
  iora::core::Logger::setLevel(iora::core::Logger::Level::Fatal);
  if (argc < 2) return 2;
  std::string cmd = argv[1];
  if (cmd == "run") return cmdRun(argc, argv);
  if (cmd == "dfs") return cmdDfs(argc, argv);
  return 2;
}
