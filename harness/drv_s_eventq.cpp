// Extra (beyond the listed properties): iora::core::EventQueue under the deterministic scheduler.
//   drv_s_eventq run <cases.txt> <out.ndjson> [parallel]
//   case: <workers> | p1=1,2;p2=3 | random <seed> | replay ...      (event ids pushed by each producer; id 9xx = invalid event)
// Events: Begin{workers} PushCall{t,id} PushRet{t,id} Handled{id,h} LifeCall{op} LifeRet{op} End{outcome}
#include "iora/core/event_queue.hpp"
#include "vf/exec.hpp"
#include "vf/sched.hpp"
#include "vf/trace.hpp"

#include <memory>

using iora::core::EventQueue;
using iora::parsers::Json;

struct Prod
{
  std::string name;
  std::vector<int> ids;
};

static std::string runOne(int workers, const std::vector<Prod> &prods, const vf::Options &opt)
{
  auto tr = std::make_shared<vf::Trace>();
  tr->add(vf::Ev("Begin").i("workers", workers));
  vf::Options o = opt;
  o.maxSteps = 20000;
  o.pointAfterUnlock = true;
  o.earliestDeadlineFirst = true;
  vf::reset(o);
  vf::spawn("main",
            [tr, workers, &prods]()
            {
              vf::point("construct");
              auto *q = new EventQueue((std::size_t)workers);
              q->onEventName("ev", [tr](const Json &e) { tr->add(vf::Ev("Handled").i("id", atoi(e["eventId"].get<std::string>().c_str())).str("h", "name")); });
              q->onEventId("2", [tr](const Json &e) { tr->add(vf::Ev("Handled").i("id", atoi(e["eventId"].get<std::string>().c_str())).str("h", "id2")); });
              std::vector<std::thread> th;
              for (auto &p : prods)
              {
                vf::nameNextChild(p.name);
                th.emplace_back(
                  [tr, q, &p]()
                  {
                    for (int id : p.ids)
                    {
                      vf::point("call");
                      tr->add(vf::Ev("PushCall").str("t", p.name).i("id", id));
                      Json e = Json::object();
                      if (id < 900)
                      {
                        e["eventId"] = std::to_string(id);
                        e["eventName"] = "ev";
                      }
                      else
                        e["bogus"] = 1; // invalid: dropped
                      q->push(e);
                      tr->add(vf::Ev("PushRet").str("t", p.name).i("id", id));
                    }
                  });
              }
              for (auto &t : th) t.join();
              vf::point("call");
              tr->add(vf::Ev("LifeCall").str("op", "destroy"));
              delete q;
              tr->add(vf::Ev("LifeRet").str("op", "destroy"));
            });
  vf::Result r = vf::run();
  const char *oc = r.outcome == vf::Outcome::Done ? "done" : r.outcome == vf::Outcome::Stuck ? "stuck" : r.outcome == vf::Outcome::StepLimit ? "steplimit" : "external";
  tr->add(vf::Ev("End").str("outcome", oc).strs("stuck", r.stuck));
  return tr->text();
}

int main(int argc, char **argv)
{
  iora::core::Logger::setLevel(iora::core::Logger::Level::Fatal);
  if (argc < 4 || std::string(argv[1]) != "run") return 2;
  auto lines = vf::readLines(argv[2]);
  int par = argc > 4 ? atoi(argv[4]) : 8;
  struct Case
  {
    int workers;
    std::vector<Prod> prods;
    vf::Options opt;
  };
  std::vector<Case> cases;
  for (auto &ln : lines)
  {
    auto parts = vf::split(ln, '|');
    if (parts.size() < 3) continue;
    Case c;
    c.workers = atoi(parts[0].c_str());
    std::string p;
    for (auto &x : vf::words(parts[1])) p += x;
    for (auto &pp : vf::split(p, ';'))
    {
      auto eq = pp.find('=');
      if (eq == std::string::npos) continue;
      Prod pr;
      pr.name = pp.substr(0, eq);
      for (auto &x : vf::split(pp.substr(eq + 1), ','))
        if (!x.empty()) pr.ids.push_back(atoi(x.c_str()));
      c.prods.push_back(pr);
    }
    auto w = vf::words(parts[2]);
    if (w[0] == "random")
    {
      c.opt.policy = vf::Policy::Random;
      c.opt.seed = w.size() > 1 ? strtoull(w[1].c_str(), nullptr, 10) : 1;
    }
    else
    {
      c.opt.policy = vf::Policy::Replay;
      c.opt.plan.assign(w.begin() + 1, w.end());
    }
    cases.push_back(std::move(c));
  }
  auto res = vf::runMany((int)cases.size(), par, 60.0, std::string(argv[3]) + ".d", argv[3], [&](int i) { return runOne(cases[i].workers, cases[i].prods, cases[i].opt); });
  printf("executions=%d crashed=%d timedout=%d\n", res.executions, res.crashed, res.timedOut);
  return 0;
}
