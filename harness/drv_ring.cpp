// C10 conformance driver for iora::core::RingBuffer / DynamicRingBuffer (one producer thread, one consumer thread).
//
//   drv_ring lin <rounds> <seed> <out.ndjson>
//       linearizability mode: every call is logged as Call/Ret with a global sequence number (one seq_cst counter);
//       the merged log is validated against the Abs FIFO (spec/queue/QueueTrace.tla).  Random programs mixing
//       tryPush / tryPop / peek / tryPushBatch / tryPopBatch, capacities 1,2,4, wrap-around, and for the dynamic
//       ring a resize between two concurrent phases (quiescent, as its contract demands).
//   drv_ring race <rounds> <seed>
//       race mode (meant for the ThreadSanitizer build): the two threads share NOTHING but the ring (no logging
//       synchronisation that could hide a race); afterwards the popped sequence must be a prefix of the pushed one.
//       Prints "race-mode: rounds=.. ok=.. fifo_errors=..".  TSan reports go to stderr.
#include "iora/core/ring_buffer.hpp"
#include "vf/exec.hpp"
#include "vf/trace.hpp"

#include <algorithm>
#include <atomic>
#include <random>
#include <thread>

struct Item
{
  long a = 0;
  long b = 0; // b == ~a: a torn read shows up as a mismatch
};

struct Logged
{
  long seq;
  std::string line;
};

static std::atomic<long> g_seq{0};

struct OpR
{
  int kind; // 0 push 1 pop 2 peek 3 pushBatch 4 popBatch
  int n;    // batch size
};

template <class Ring>
static void producer(Ring &r, const std::vector<OpR> &ops, long &nextVal, std::vector<Logged> &log)
{
  for (auto &o : ops)
  {
    if (o.kind == 0)
    {
      long v = nextVal;
      log.push_back({g_seq.fetch_add(1), vf::Ev("Call").str("t", "P").str("op", "tryQueue").i("v", v).done()});
      bool ok = r.tryPush(Item{v, ~v});
      if (ok) ++nextVal;
      log.push_back({g_seq.fetch_add(1), vf::Ev("Ret").str("t", "P").str("op", "tryQueue").b("ok", ok).i("v", 0).done()});
    }
    else
    {
      std::vector<Item> items;
      std::vector<long> vs;
      for (int i = 0; i < o.n; ++i)
      {
        items.push_back(Item{nextVal + i, ~(nextVal + i)});
        vs.push_back(nextVal + i);
      }
      log.push_back({g_seq.fetch_add(1),
                     vf::Ev("Call").str("t", "P").str("op", "pushBatch").i("v", o.n).ints("vs", vs.begin(), vs.end()).done()});
      std::size_t k = r.tryPushBatch(items.data(), items.size());
      nextVal += (long)k;
      log.push_back({g_seq.fetch_add(1), vf::Ev("Ret").str("t", "P").str("op", "pushBatch").b("ok", true).i("v", (long)k).done()});
    }
  }
}

template <class Ring> static void consumer(Ring &r, const std::vector<OpR> &ops, std::vector<Logged> &log, int &torn)
{
  for (auto &o : ops)
  {
    if (o.kind == 1 || o.kind == 2)
    {
      const char *name = o.kind == 1 ? "tryDequeue" : "peek";
      log.push_back({g_seq.fetch_add(1), vf::Ev("Call").str("t", "C").str("op", name).i("v", 0).done()});
      Item it;
      bool ok = o.kind == 1 ? r.tryPop(it) : r.peek(it);
      if (ok && it.b != ~it.a) ++torn;
      log.push_back({g_seq.fetch_add(1), vf::Ev("Ret").str("t", "C").str("op", name).b("ok", ok).i("v", ok ? it.a : 0).done()});
    }
    else
    {
      log.push_back({g_seq.fetch_add(1), vf::Ev("Call").str("t", "C").str("op", "popBatch").i("v", o.n).done()});
      std::vector<Item> out(o.n);
      std::size_t k = r.tryPopBatch(out.data(), out.size());
      std::vector<long> vs;
      for (std::size_t i = 0; i < k; ++i)
      {
        if (out[i].b != ~out[i].a) ++torn;
        vs.push_back(out[i].a);
      }
      log.push_back({g_seq.fetch_add(1),
                     vf::Ev("Ret").str("t", "C").str("op", "popBatch").b("ok", true).i("v", (long)k).ints("vs", vs.begin(), vs.end()).done()});
    }
  }
}

static void genOps(std::mt19937_64 &rng, int n, std::vector<OpR> &p, std::vector<OpR> &c, int cap)
{
  for (int i = 0; i < n; ++i)
  {
    int r = (int)(rng() % 10);
    if (r < 7)
      p.push_back({0, 1});
    else
      p.push_back({3, 1 + (int)(rng() % (cap + 1))});
    r = (int)(rng() % 10);
    if (r < 6)
      c.push_back({1, 1});
    else if (r < 8)
      c.push_back({2, 1});
    else
      c.push_back({4, 1 + (int)(rng() % (cap + 1))});
  }
}

template <class Ring> static void phase(Ring &r, std::mt19937_64 &rng, int n, int cap, long &nextVal, std::vector<Logged> &log, int &torn)
{
  std::vector<OpR> po, co;
  genOps(rng, n, po, co, cap);
  std::vector<Logged> lp, lc;
  std::thread tp([&] { producer(r, po, nextVal, lp); });
  std::thread tc([&] { consumer(r, co, lc, torn); });
  tp.join();
  tc.join();
  log.insert(log.end(), lp.begin(), lp.end());
  log.insert(log.end(), lc.begin(), lc.end());
}

static std::string flush(std::vector<Logged> &log, int cap, int torn)
{
  std::sort(log.begin(), log.end(), [](const Logged &a, const Logged &b) { return a.seq < b.seq; });
  std::string t = vf::Ev("Begin").i("cap", cap).done() + "\n";
  for (auto &l : log) t += l.line + "\n";
  if (torn) t += vf::Ev("Torn").i("n", torn).done() + "\n";
  t += "{\"e\":\"End\",\"outcome\":\"done\",\"stuck\":[]}\n{\"e\":\"Reset\"}\n";
  return t;
}

static int cmdLin(int rounds, uint64_t seed, const char *outPath)
{
  FILE *out = fopen(outPath, "w");
  std::mt19937_64 rng(seed);
  for (int round = 0; round < rounds; ++round)
  {
    int which = round % 4;
    std::vector<Logged> log;
    int torn = 0;
    long nextVal = 1;
    g_seq = 0;
    int n = 6 + (int)(rng() % 8);
    if (which == 0)
    {
      iora::core::RingBuffer<Item, 1> r;
      phase(r, rng, n, 1, nextVal, log, torn);
      fputs(flush(log, 1, torn).c_str(), out);
    }
    else if (which == 1)
    {
      iora::core::RingBuffer<Item, 2> r;
      phase(r, rng, n, 2, nextVal, log, torn);
      fputs(flush(log, 2, torn).c_str(), out);
    }
    else if (which == 2)
    {
      iora::core::RingBuffer<Item, 4> r;
      phase(r, rng, n, 4, nextVal, log, torn);
      fputs(flush(log, 4, torn).c_str(), out);
    }
    else
    {
      int req = 1 + (int)(rng() % 4);
      iora::core::DynamicRingBuffer<Item> r(req);
      int cap0 = (int)r.capacity();
      phase(r, rng, n, cap0, nextVal, log, torn);
      // sequential prelude to the resize: make the LIVE range wrap around the end of the storage (fill, take some, refill)
      {
        std::vector<OpR> fill, takeSome, refill;
        for (int i = 0; i < cap0 + 1; ++i) fill.push_back({0, 1});
        int k = cap0 > 1 ? 1 + (int)(rng() % (cap0 - 1)) : 1;
        for (int i = 0; i < k; ++i) takeSome.push_back({1, 1});
        for (int i = 0; i < k; ++i) refill.push_back({0, 1});
        producer(r, fill, nextVal, log);
        consumer(r, takeSome, log, torn);
        producer(r, refill, nextVal, log);
      }
      // quiescent resize between two concurrent phases
      int newReq = 1 + (int)(rng() % 6);
      log.push_back({g_seq.fetch_add(1), vf::Ev("Call").str("t", "P").str("op", "resize").i("v", newReq).done()});
      std::size_t dropped = r.resize(newReq);
      log.push_back({g_seq.fetch_add(1),
                     vf::Ev("Ret").str("t", "P").str("op", "resize").b("ok", true).i("v", (long)dropped).i("cap", (long)r.capacity()).done()});
      phase(r, rng, n, (int)r.capacity(), nextVal, log, torn);
      fputs(flush(log, cap0, torn).c_str(), out);
    }
  }
  fclose(out);
  printf("lin-mode: rounds=%d\n", rounds);
  return 0;
}

template <class Ring> static bool raceRound(Ring &r, int n, std::mt19937_64 &rng, int batch)
{
  std::vector<long> popped;
  std::atomic<bool> done{false};
  (void)rng;
  std::thread tp(
    [&]
    {
      long v = 1;
      while (v <= n)
      {
        if (batch > 1)
        {
          Item items[4];
          int want = (int)std::min<long>(batch, n - v + 1);
          for (int i = 0; i < want; ++i) items[i] = Item{v + i, ~(v + i)};
          v += (long)r.tryPushBatch(items, want);
        }
        else if (r.tryPush(Item{v, ~v}))
          ++v;
      }
    });
  std::thread tc(
    [&]
    {
      while ((long)popped.size() < n)
      {
        Item it;
        if (batch > 1)
        {
          Item out[4];
          std::size_t k = r.tryPopBatch(out, batch);
          for (std::size_t i = 0; i < k; ++i) popped.push_back(out[i].b == ~out[i].a ? out[i].a : -1);
        }
        else if (r.tryPop(it))
          popped.push_back(it.b == ~it.a ? it.a : -1);
      }
    });
  tp.join();
  tc.join();
  for (long i = 0; i < (long)popped.size(); ++i)
    if (popped[i] != i + 1) return false;
  return (long)popped.size() == n;
}

static int cmdRace(int rounds, uint64_t seed)
{
  std::mt19937_64 rng(seed);
  int ok = 0, bad = 0;
  for (int i = 0; i < rounds; ++i)
  {
    bool good;
    int batch = (i % 3 == 2) ? 2 : 1;
    if (i % 2 == 0)
    {
      iora::core::RingBuffer<Item, 2> r;
      good = raceRound(r, 200, rng, batch);
    }
    else
    {
      iora::core::DynamicRingBuffer<Item> r(2);
      good = raceRound(r, 200, rng, batch);
    }
    good ? ++ok : ++bad;
  }
  printf("race-mode: rounds=%d ok=%d fifo_errors=%d\n", rounds, ok, bad);
  return 0;
}

int main(int argc, char **argv)
{
  if (argc >= 5 && std::string(argv[1]) == "lin") return cmdLin(atoi(argv[2]), strtoull(argv[3], nullptr, 10), argv[4]);
  if (argc >= 4 && std::string(argv[1]) == "race") return cmdRace(atoi(argv[2]), strtoull(argv[3], nullptr, 10));
  return 2;
}
