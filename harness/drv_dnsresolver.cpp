// Extra X19: the real iora::network::dns::DnsResolver (+ DnsCache + DnsTransport, UDP) against a zone-driven DNS server of
// this driver on 127.0.0.1.  The cases are the terminal states of spec/extra/DnsResolver.tla; the recorded events are
// judged by spec/extra/DnsResolverTrace.tla with the evaluator DnsResolverOps.tla.
//
//   drv_dnsresolver run <cases.txt> <out.ndjson> [parallel]
//   case (one line):  kind=S|H|Q prefs=<T,..|-> policy=<P> ops=<o,..|-> | <zone> | <zone2> | <Begin event as JSON>
//     zone:  entry;entry;...   entry = name,type,rc,rec/rec/...   rec fields separated by '~'
//            NAPTR order~pref~flags~svc~repl   SRV prio~weight~port~target   A|AAAA addr
//   kind S: resolveServiceDomain twice on one resolver (the second call meets the cache), then resolveServiceDomainAsync on
//           a fresh one;  kind H: resolveHostname("h1.test") under the policy;  kind Q: query (qs) / queryAsync (qa) of
//           (q.test, A) in the given order, sw = the server switches to zone2.
// Events: Begin{...}  Call{op,api,i}  SrvQuery{n,t}  Result{op,api,i,exc,targets|addrs}  Cb{api,count}  ZoneSwitch  End
// The server answers every question from the zone (absent: NXDOMAIN) and logs it; nothing of the library builds a response.
#include "iora/network/dns/dns_resolver.hpp"
#include "vf/exec.hpp"
#include "vf/trace.hpp"

#include <arpa/inet.h>
#include <netinet/in.h>
#include <poll.h>
#include <sys/socket.h>

using namespace iora::network::dns;

static double nowS()
{
  struct timespec ts;
  clock_gettime(CLOCK_MONOTONIC, &ts);
  return ts.tv_sec + ts.tv_nsec / 1e9;
}

struct Entry
{
  std::string n, t, rc;
  std::vector<std::vector<std::string>> recs;
};
using Zone = std::vector<Entry>;

static Zone parseZone(const std::string &s)
{
  Zone z;
  for (auto &es : vf::split(s, ';'))
  {
    auto w = vf::words(es);
    std::string e;
    for (auto &x : w) e += x;
    if (e.empty()) continue;
    auto f = vf::split(e, ',');
    if (f.size() < 3) continue;
    Entry en;
    en.n = f[0];
    en.t = f[1];
    en.rc = f[2];
    if (f.size() > 3 && !f[3].empty())
      for (auto &r : vf::split(f[3], '/')) en.recs.push_back(vf::split(r, '~'));
    z.push_back(en);
  }
  return z;
}

static void put16(std::vector<uint8_t> &b, unsigned v)
{
  b.push_back((v >> 8) & 0xff);
  b.push_back(v & 0xff);
}
static void put32(std::vector<uint8_t> &b, unsigned v)
{
  put16(b, v >> 16);
  put16(b, v & 0xffff);
}
static void putName(std::vector<uint8_t> &b, const std::string &n)
{
  if (n != "." && !n.empty())
    for (auto &lab : vf::split(n, '.'))
    {
      if (lab.empty()) continue;
      b.push_back((uint8_t)lab.size());
      b.insert(b.end(), lab.begin(), lab.end());
    }
  b.push_back(0);
}
static void putStr(std::vector<uint8_t> &b, const std::string &s)
{
  b.push_back((uint8_t)s.size());
  b.insert(b.end(), s.begin(), s.end());
}
static unsigned typeCode(const std::string &t) { return t == "A" ? 1 : t == "AAAA" ? 28 : t == "SRV" ? 33 : t == "NAPTR" ? 35 : 255; }
static std::string typeName(unsigned c) { return c == 1 ? "A" : c == 28 ? "AAAA" : c == 33 ? "SRV" : c == 35 ? "NAPTR" : "T" + std::to_string(c); }

static std::vector<uint8_t> rdata(const std::string &t, const std::vector<std::string> &r)
{
  std::vector<uint8_t> d;
  if (t == "A")
  {
    d.resize(4);
    inet_pton(AF_INET, r[0].c_str(), d.data());
  }
  else if (t == "AAAA")
  {
    d.resize(16);
    inet_pton(AF_INET6, r[0].c_str(), d.data());
  }
  else if (t == "SRV")
  {
    put16(d, atoi(r[0].c_str()));
    put16(d, atoi(r[1].c_str()));
    put16(d, atoi(r[2].c_str()));
    putName(d, r[3]);
  }
  else if (t == "NAPTR")
  {
    put16(d, atoi(r[0].c_str()));
    put16(d, atoi(r[1].c_str()));
    putStr(d, r[2]);
    putStr(d, r[3]);
    putStr(d, "");
    putName(d, r[4]);
  }
  return d;
}

struct Server
{
  int fd = -1;
  uint16_t port = 0;
  std::thread th;
  std::atomic<bool> stop{false};
  std::atomic<int> which{0};
  Zone zones[2];
  std::shared_ptr<vf::Trace> tr;

  bool open()
  {
    fd = socket(AF_INET, SOCK_DGRAM, 0);
    sockaddr_in a{};
    a.sin_family = AF_INET;
    a.sin_addr.s_addr = htonl(INADDR_LOOPBACK);
    if (fd < 0 || bind(fd, (sockaddr *)&a, sizeof a) != 0) return false;
    socklen_t al = sizeof a;
    getsockname(fd, (sockaddr *)&a, &al);
    port = ntohs(a.sin_port);
    th = std::thread([this]() { loop(); });
    return true;
  }
  void close_()
  {
    stop = true;
    if (th.joinable()) th.join();
    if (fd >= 0) close(fd);
  }
  void loop()
  {
    while (!stop.load())
    {
      pollfd p{fd, POLLIN, 0};
      if (poll(&p, 1, 10) <= 0) continue;
      uint8_t q[2048];
      sockaddr_in from{};
      socklen_t fl = sizeof from;
      ssize_t n = recvfrom(fd, q, sizeof q, MSG_DONTWAIT, (sockaddr *)&from, &fl);
      if (n < 17) continue;
      std::string name;
      size_t o = 12;
      while (o < (size_t)n && q[o] != 0)
      {
        size_t l = q[o];
        if (o + 1 + l > (size_t)n) break;
        if (!name.empty()) name += ".";
        name.append((const char *)q + o + 1, l);
        o += 1 + l;
      }
      if (o + 5 > (size_t)n) continue;
      unsigned qt = (unsigned)((q[o + 1] << 8) | q[o + 2]);
      std::string t = typeName(qt);
      tr->add(vf::Ev("SrvQuery").str("n", name).str("t", t));
      const Zone &z = zones[which.load()];
      const Entry *e = nullptr;
      for (auto &x : z)
        if (x.n == name && x.t == t) e = &x;
      int rcode = !e ? 3 : e->rc == "ok" ? 0 : e->rc == "nx" ? 3 : 2;
      std::vector<uint8_t> b;
      b.push_back(q[0]);
      b.push_back(q[1]);
      b.push_back(0x81);
      b.push_back((uint8_t)(0x80 | rcode));
      put16(b, 1);
      put16(b, (e && rcode == 0) ? (unsigned)e->recs.size() : 0);
      put16(b, 0);
      put16(b, 0);
      b.insert(b.end(), q + 12, q + o + 5); // the question as asked
      if (e && rcode == 0)
        for (auto &r : e->recs)
        {
          put16(b, 0xC00C);
          put16(b, qt);
          put16(b, 1);
          put32(b, 300);
          auto d = rdata(t, r);
          put16(b, (unsigned)d.size());
          b.insert(b.end(), d.begin(), d.end());
        }
      sendto(fd, b.data(), b.size(), 0, (sockaddr *)&from, fl);
    }
  }
};

static std::string normAddr(const std::string &a)
{
  uint8_t buf[16];
  char out[64];
  if (inet_pton(AF_INET, a.c_str(), buf) == 1 && inet_ntop(AF_INET, buf, out, sizeof out)) return out;
  if (inet_pton(AF_INET6, a.c_str(), buf) == 1 && inet_ntop(AF_INET6, buf, out, sizeof out)) return out;
  return "?" + a;
}
static const char *trName(ServiceType s)
{
  switch (s)
  {
  case ServiceType::SIPS_TLS: return "SIPS_TLS";
  case ServiceType::SIP_TCP: return "SIP_TCP";
  case ServiceType::SIP_UDP: return "SIP_UDP";
  case ServiceType::SIP_SCTP: return "SIP_SCTP";
  default: return "OTHER";
  }
}
static ServiceType trOf(const std::string &s)
{
  return s == "SIPS_TLS" ? ServiceType::SIPS_TLS : s == "SIP_TCP" ? ServiceType::SIP_TCP : s == "SIP_UDP" ? ServiceType::SIP_UDP : ServiceType::SIP_SCTP;
}
static std::string addrsJson(const std::vector<std::string> &v)
{
  std::string o = "[";
  for (size_t i = 0; i < v.size(); ++i) o += (i ? "," : "") + std::string("\"") + normAddr(v[i]) + "\"";
  return o + "]";
}
static std::string targetsJson(const ServiceResolutionResult &r)
{
  std::string o = "[";
  for (size_t i = 0; i < r.targets.size(); ++i)
  {
    auto &t = r.targets[i];
    o += (i ? "," : "") + std::string("{\"h\":\"") + t.hostname + "\",\"port\":" + std::to_string(t.port) + ",\"tr\":\"" + trName(t.transport) +
         "\",\"prio\":" + std::to_string(t.priority) + ",\"w\":" + std::to_string(t.weight) + ",\"np\":" + std::to_string(t.naptrPreference) +
         ",\"addrs\":" + addrsJson(t.addresses) + "}";
  }
  return o + "]";
}
static std::string excName(const std::exception_ptr &e)
{
  if (!e) return "-";
  try
  {
    std::rethrow_exception(e);
  }
  catch (const DnsNoRecordsException &)
  {
    return "norecords";
  }
  catch (const DnsResolutionFailedException &)
  {
    return "failed";
  }
  catch (const DnsResolverException &)
  {
    return "resolver";
  }
  catch (const DnsTimeoutException &)
  {
    return "timeout";
  }
  catch (const std::exception &)
  {
    return "other";
  }
  catch (...)
  {
    return "unknown";
  }
}

struct Stack
{
  std::shared_ptr<DnsTransport> t;
  std::shared_ptr<DnsCache> c;
  std::shared_ptr<DnsResolver> r;
  Stack(uint16_t port, const std::string &policy)
  {
    DnsConfig cfg(std::vector<std::string>{"127.0.0.1"}, port);
    cfg.timeout = std::chrono::milliseconds(8000);
    cfg.retryCount = 0;
    cfg.transportMode = DnsTransportMode::UDP;
    cfg.enableCache = true;
    cfg.addressResolutionPolicy = policy == "IPv4Only"    ? AddressResolutionPolicy::IPv4Only
                                  : policy == "IPv6Only"  ? AddressResolutionPolicy::IPv6Only
                                  : policy == "IPv6First" ? AddressResolutionPolicy::IPv6First
                                                          : AddressResolutionPolicy::IPv4First;
    c = std::make_shared<DnsCache>(cfg.maxCacheSize);
    t = std::make_shared<DnsTransport>(cfg);
    r = std::make_shared<DnsResolver>(t, c, cfg);
    t->start();
  }
  ~Stack() { t->stop(); }
};

static std::string runOne(const std::string &line)
{
  auto parts = vf::split(line, '|');
  auto tr = std::make_shared<vf::Trace>();
  if (parts.size() < 4) return "{\"e\":\"DriverError\",\"what\":\"case format\"}\n";
  std::string kind, policy = "IPv4First";
  std::vector<std::string> prefs, ops;
  for (auto &kv : vf::words(parts[0]))
  {
    auto eq = kv.find('=');
    std::string k = kv.substr(0, eq), v = kv.substr(eq + 1);
    if (k == "kind") kind = v;
    if (k == "policy") policy = v;
    if (k == "prefs" && v != "-") prefs = vf::split(v, ',');
    if (k == "ops" && v != "-") ops = vf::split(v, ',');
  }
  std::string begin = parts[3];
  for (size_t i = 4; i < parts.size(); ++i) begin += "|" + parts[i];
  while (!begin.empty() && begin[0] == ' ') begin.erase(0, 1);
  tr->addLine(begin);
  Server srv;
  srv.tr = tr;
  srv.zones[0] = parseZone(parts[1]);
  srv.zones[1] = parseZone(parts[2]);
  if (!srv.open())
  {
    tr->add(vf::Ev("DriverError").str("what", "bind"));
    return tr->text();
  }
  std::vector<ServiceType> pv;
  for (auto &p : prefs) pv.push_back(trOf(p));
  try
  {
    if (kind == "S")
    {
      {
        Stack s(srv.port, policy);
        for (int i = 1; i <= 2; ++i)
        {
          tr->add(vf::Ev("Call").str("op", "svc").str("api", "sync").i("i", i));
          try
          {
            auto res = s.r->resolveServiceDomain("d.test", pv);
            tr->add(vf::Ev("Result").str("op", "svc").str("api", "sync").i("i", i).str("exc", "-").b("cached", res.fromCache).raw("targets", targetsJson(res)));
          }
          catch (...)
          {
            tr->add(vf::Ev("Result").str("op", "svc").str("api", "sync").i("i", i).str("exc", excName(std::current_exception())).b("cached", false).raw("targets", "[]"));
          }
        }
      }
      {
        Stack s(srv.port, policy);
        auto count = std::make_shared<std::atomic<int>>(0);
        tr->add(vf::Ev("Call").str("op", "svc").str("api", "async").i("i", 1));
        s.r->resolveServiceDomainAsync(
          "d.test",
          [tr, count](const ServiceResolutionResult &res, const std::exception_ptr &e)
          {
            tr->add(vf::Ev("Result").str("op", "svc").str("api", "async").i("i", 1).str("exc", excName(e)).b("cached", res.fromCache).raw("targets", targetsJson(res)));
            count->fetch_add(1);
          },
          pv);
        double end = nowS() + 20.0;
        while (count->load() == 0 && nowS() < end) usleep(300);
        usleep(40000); // a second invocation of the callback would arrive now
        tr->add(vf::Ev("Cb").str("api", "async").i("count", count->load()));
      }
    }
    else if (kind == "H")
    {
      Stack s(srv.port, policy);
      tr->add(vf::Ev("Call").str("op", "host").str("api", "sync").i("i", 1));
      try
      {
        auto a = s.r->resolveHostname("h1.test");
        tr->add(vf::Ev("Result").str("op", "host").str("api", "sync").i("i", 1).str("exc", "-").raw("addrs", addrsJson(a)));
      }
      catch (...)
      {
        tr->add(vf::Ev("Result").str("op", "host").str("api", "sync").i("i", 1).str("exc", excName(std::current_exception())).raw("addrs", "[]"));
      }
    }
    else if (kind == "Q")
    {
      Stack s(srv.port, policy);
      DnsQuestion q("q.test", DnsType::A, DnsClass::IN);
      int i = 0;
      auto addrsOf = [](const DnsResult &r)
      {
        std::vector<std::string> v;
        for (auto &a : r.a_records) v.push_back(a.address);
        return v;
      };
      for (auto &op : ops)
      {
        ++i;
        if (op == "sw")
        {
          srv.which = 1;
          tr->add(vf::Ev("ZoneSwitch").i("i", i));
        }
        else if (op == "qs")
        {
          tr->add(vf::Ev("Call").str("op", "q").str("api", "sync").i("i", i));
          try
          {
            DnsResult r = s.r->query(q);
            tr->add(vf::Ev("Result").str("op", "q").str("api", "sync").i("i", i).str("exc", "-").raw("addrs", addrsJson(addrsOf(r))));
          }
          catch (...)
          {
            tr->add(vf::Ev("Result").str("op", "q").str("api", "sync").i("i", i).str("exc", excName(std::current_exception())).raw("addrs", "[]"));
          }
        }
        else if (op == "qa")
        {
          auto count = std::make_shared<std::atomic<int>>(0);
          tr->add(vf::Ev("Call").str("op", "q").str("api", "async").i("i", i));
          s.r->queryAsync(q,
                          [tr, count, i, addrsOf](const DnsResult &r, const std::exception_ptr &e)
                          {
                            tr->add(vf::Ev("Result").str("op", "q").str("api", "async").i("i", i).str("exc", excName(e)).raw("addrs", e ? std::string("[]") : addrsJson(addrsOf(r))));
                            count->fetch_add(1);
                          });
          double end = nowS() + 20.0;
          while (count->load() == 0 && nowS() < end) usleep(300);
          usleep(20000);
          tr->add(vf::Ev("Cb").str("api", "async").i("count", count->load()));
        }
      }
    }
  }
  catch (const std::exception &e)
  {
    tr->add(vf::Ev("DriverError").str("what", std::string("stack: ") + e.what()));
  }
  srv.close_();
  tr->add(vf::Ev("End"));
  return tr->text();
}

int main(int argc, char **argv)
{
  iora::core::Logger::setLevel(iora::core::Logger::Level::Fatal);
  if (argc < 4 || std::string(argv[1]) != "run") return 2;
  auto lines = vf::readLines(argv[2]);
  int par = argc > 4 ? atoi(argv[4]) : 12;
  auto res = vf::runMany((int)lines.size(), par, 120.0, std::string(argv[3]) + ".d", argv[3], [&](int i) { return runOne(lines[i]); });
  printf("executions=%d crashed=%d timedout=%d\n", res.executions, res.crashed, res.timedOut);
  return 0;
}
