// C19 conformance driver: iora::network::dns::DnsMessage (decoder, query builder) and DnsCache (TTL honouring).
//
//   drv_dns name  <cases> <out.ndjson> <shards>    one layout of DnsName.tla per line:  <cut> <start> <cell> <cell> ...
//   drv_dns rec   <cases> <out.ndjson> <shards>    one response plan of DnsRecords.tla per line (JSON, see renderPlan)
//   drv_dns query <cases> <out.ndjson> <shards>    one query plan per line (JSON)
//   drv_dns cache <cases> <out.ndjson> <shards>    one operation sequence of DnsCache.tla per line
//   drv_dns_e2e e2e <cases> <out.ndjson> <shards>  a response plan served over loopback UDP to a real DnsTransport::query
//                                                  (drv_dns_e2e.cpp = this file with DRV_DNS_E2E defined)
//
// Every case is executed in a supervised child process: a crash (signal, sanitizer abort) or a case that exceeds the
// per-case wall-clock limit is attributed to exactly that case ({"res":"crash"|"hang"}) and the run continues with the
// next case in a fresh child (after 5 such cases a shard reports its remaining cases as "skipped").  Decoder inputs end
// at an inaccessible page (GuardBuf); names and whole messages are decoded a second time from an exact-size heap
// buffer of the ASan+UBSan build: every read outside the message is seen.  The driver has its OWN encoder and
// compressor (renderPlan); nothing of the library is used to build a response.
//
// cache mode: CLOCK_MONOTONIC is virtual (clock_gettime is defined below and interposes libstdc++'s steady_clock);
// time moves only when the case says so, the purge thread of ExpiringCache sleeps (its deadline is in the far real
// future) and every get() is compared with the Abs map by TLC (spec/dns/DnsCacheTrace.tla).
#include "iora/network/dns/dns_cache.hpp"
#include "iora/network/dns/dns_message.hpp"
#ifdef DRV_DNS_E2E
#include "iora/network/dns/dns_transport.hpp"
#endif
#include "vf/exec.hpp"
#include "vf/trace.hpp"

#include <arpa/inet.h>
#include <fcntl.h>
#include <netinet/in.h>
#include <sys/socket.h>
#include <thread>
#include <functional>
#include <map>
#include <sys/mman.h>
#include <sys/syscall.h>

using namespace iora::network::dns;

// ------------------------------------------------------------------------------------------------ virtual clock
static std::atomic<long long> g_virtOffsetNs{0};
static std::atomic<bool> g_virtOn{false};
static long long g_virtBaseNs = 0;

extern "C" int clock_gettime(clockid_t id, struct timespec *ts)
{
  if (id == CLOCK_MONOTONIC && g_virtOn.load(std::memory_order_relaxed))
  {
    long long t = g_virtBaseNs + g_virtOffsetNs.load(std::memory_order_relaxed);
    ts->tv_sec = t / 1000000000LL;
    ts->tv_nsec = t % 1000000000LL;
    return 0;
  }
  return (int)syscall(SYS_clock_gettime, id, ts);
}

static double rawNow()
{
  struct timespec ts;
  syscall(SYS_clock_gettime, CLOCK_MONOTONIC_RAW, &ts);
  return ts.tv_sec + ts.tv_nsec / 1e9;
}

// ------------------------------------------------------------------------------------------------ supervisor
struct Shared
{
  volatile long cur;   // index of the case being executed
  volatile long sub;   // sub-step inside the case (e.g. truncation offset), for the failure report
  volatile double t0;  // start of the current case (CLOCK_MONOTONIC_RAW)
};

static const int kFailBudget = 5; // crashed / hung cases per shard after which the rest of the shard is skipped
using CaseFn = std::function<std::string(long, const std::string &, Shared *)>;
using FailFn = std::function<std::string(long, const std::string &, const char *, long)>;

// runs lines[from, to) ; appends the events to outPath ; returns the number of crashed + hung cases
static int supervise(const std::vector<std::string> &lines, long from, long to, const std::string &outPath,
                     const CaseFn &fn, const FailFn &fail, double limitSec)
{
  Shared *sh = (Shared *)mmap(nullptr, sizeof(Shared), PROT_READ | PROT_WRITE, MAP_SHARED | MAP_ANONYMOUS, -1, 0);
  int bad = 0;
  long start = from;
  {
    FILE *f = fopen(outPath.c_str(), "w");
    if (f) fclose(f);
  }
  while (start < to)
  {
    sh->cur = start;
    sh->sub = -1;
    sh->t0 = rawNow();
    fflush(nullptr);
    pid_t p = fork();
    if (p == 0)
    {
      int efd = open((outPath + ".stderr").c_str(), O_WRONLY | O_CREAT | O_APPEND, 0644);
      if (efd >= 0)
      {
        dup2(efd, 2);
        close(efd);
      }
      FILE *out = fopen(outPath.c_str(), "a");
      for (long i = start; i < to; ++i)
      {
        sh->sub = -1;
        sh->t0 = rawNow();
        sh->cur = i;
        std::string ev = fn(i, lines[i], sh);
        fputs(ev.c_str(), out);
        fflush(out);
      }
      sh->t0 = rawNow();
      sh->cur = to;
      fclose(out);
      fflush(nullptr);
      _exit(0);
    }
    const char *what = nullptr;
    for (;;)
    {
      int st = 0;
      pid_t w = waitpid(p, &st, WNOHANG);
      if (w == p)
      {
        if (!(WIFEXITED(st) && WEXITSTATUS(st) == 0 && sh->cur >= to)) what = "crash";
        break;
      }
      if (rawNow() - sh->t0 > limitSec)
      {
        kill(p, SIGKILL);
        waitpid(p, &st, 0);
        what = "hang";
        break;
      }
      usleep(300);
    }
    if (!what) break;
    long c = sh->cur;
    if (c >= to) break;
    ++bad;
    FILE *out = fopen(outPath.c_str(), "a");
    fputs(fail(c, lines[c], what, sh->sub).c_str(), out);
    start = c + 1;
    if (bad >= kFailBudget)
    {
      // enough evidence from this shard: do not spend the per-case limit on thousands of further hangs
      for (long i = start; i < to; ++i) fputs(fail(i, lines[i], "skipped", -1).c_str(), out);
      start = to;
    }
    fclose(out);
  }
  munmap(sh, sizeof(Shared));
  return bad;
}

static int runSharded(const std::string &casesPath, const std::string &outPath, int shards, const CaseFn &fn,
                      const FailFn &fail, double limitSec)
{
  std::vector<std::string> lines = vf::readLines(casesPath);
  long n = (long)lines.size();
  if (shards < 1) shards = 1;
  if (shards > n) shards = n > 0 ? (int)n : 1;
  std::vector<pid_t> pids;
  for (int s = 0; s < shards; ++s)
  {
    long from = n * s / shards, to = n * (s + 1) / shards;
    fflush(nullptr);
    pid_t p = fork();
    if (p == 0)
    {
      int bad = supervise(lines, from, to, outPath + ".s" + std::to_string(s), fn, fail, limitSec);
      _exit(bad > 250 ? 250 : bad);
    }
    pids.push_back(p);
  }
  int bad = 0;
  for (pid_t p : pids)
  {
    int st = 0;
    waitpid(p, &st, 0);
    if (WIFEXITED(st))
      bad += WEXITSTATUS(st);
    else
      bad += 1000;
  }
  FILE *out = fopen(outPath.c_str(), "w");
  FILE *err = fopen((outPath + ".stderr").c_str(), "w");
  for (int s = 0; s < shards; ++s)
  {
    for (int k = 0; k < 2; ++k)
    {
      std::string pth = outPath + ".s" + std::to_string(s) + (k ? ".stderr" : "");
      FILE *f = fopen(pth.c_str(), "r");
      if (!f) continue;
      char buf[65536];
      size_t got;
      while ((got = fread(buf, 1, sizeof buf, f)) > 0) fwrite(buf, 1, got, k ? err : out);
      fclose(f);
      unlink(pth.c_str());
    }
  }
  fclose(out);
  fclose(err);
  printf("cases=%ld failed=%d\n", n, bad);
  return 0;
}

// ------------------------------------------------------------------------------------------------ exact buffers
// Decoder inputs end exactly at a PROT_NONE page: a read of even one byte past the message is a SIGSEGV, also when it
// happens inside uninstrumented library code (libstdc++'s out-of-line std::string::append copies a single character
// without memcpy, which AddressSanitizer does not see).  Reads before the start stay AddressSanitizer's business.
struct GuardBuf
{
  uint8_t *base = nullptr;
  size_t cap = 0;
  GuardBuf()
  {
    long pg = sysconf(_SC_PAGESIZE);
    cap = (size_t)pg * 20; // 80 KiB >= the largest DNS message (64 KiB)
    base = (uint8_t *)mmap(nullptr, cap + (size_t)pg, PROT_READ | PROT_WRITE, MAP_PRIVATE | MAP_ANONYMOUS, -1, 0);
    if (base == MAP_FAILED || mprotect(base + cap, (size_t)pg, PROT_NONE) != 0)
    {
      fprintf(stderr, "GuardBuf: mmap/mprotect failed\n");
      _exit(3);
    }
  }
  // the message occupies [p, p + n) and p + n is the first byte of the inaccessible page
  uint8_t *place(const uint8_t *src, size_t n)
  {
    uint8_t *p = base + cap - n;
    if (n) memcpy(p, src, n);
    return p;
  }
};
static GuardBuf &guard()
{
  static GuardBuf g;
  return g;
}

// ------------------------------------------------------------------------------------------------ name mode
static const int kLabLen[4] = {0, 1, 2, 63};
static const char kLetters[] = "abcdefghijklmnopqrstuvwxyz0123456789ABCDEFGHIJKLMNOPQRSTUVWXYZ"; // DnsNameOps.Lid

static int cellSize(int c) { return c >= 10 ? 2 : (c >= 1 && c <= 3) ? kLabLen[c] + 1 : 1; }
static std::vector<int> cellOffsets(const std::vector<int> &cells)
{
  std::vector<int> off(cells.size() + 1, 0);
  for (size_t i = 0; i < cells.size(); ++i) off[i + 1] = off[i] + cellSize(cells[i]);
  return off;
}

static std::vector<uint8_t> renderCells(const std::vector<int> &cells, int cut)
{
  std::vector<int> off = cellOffsets(cells);
  int size = off[cells.size()] - cut;
  std::vector<uint8_t> b;
  for (size_t i = 0; i < cells.size(); ++i)
  {
    int c = cells[i];
    if (c == 0)
      b.push_back(0);
    else if (c >= 1 && c <= 3)
    {
      b.push_back((uint8_t)kLabLen[c]);
      for (int k = 0; k < kLabLen[c]; ++k) b.push_back((uint8_t)kLetters[i % 62]);
    }
    else if (c == 4)
      b.push_back((uint8_t)(0x40 + (i + 1) % 64));
    else
    {
      // 10 + k / 1000 + k: first byte of cell k; 20: offset = size; 21: 16383
      int t = c == 20 ? size : c == 21 ? 16383 : c >= 1000 ? off[c - 1000 - 1] : off[c - 10 - 1];
      b.push_back((uint8_t)(0xC0 | ((t >> 8) & 0x3F)));
      b.push_back((uint8_t)(t & 0xFF));
    }
  }
  b.resize(size < 0 ? 0 : size);
  return b;
}

// decoded presentation name -> [[letter id, len], ...] (letter id 0: a label this driver did not write)
static std::string nameAsCells(const std::string &name)
{
  std::string o = "[";
  if (!name.empty())
  {
    bool first = true;
    for (auto &lab : vf::split(name, '.'))
    {
      int id = 0;
      if (!lab.empty())
      {
        bool same = true;
        for (char ch : lab) same = same && ch == lab[0];
        const char *pos = strchr(kLetters, lab[0]);
        if (same && pos && lab[0] != 0) id = (int)(pos - kLetters) + 1;
      }
      if (!first) o += ",";
      first = false;
      o += "[" + std::to_string(id) + "," + std::to_string(lab.size()) + "]";
    }
  }
  return o + "]";
}

// case line: <cut> <start cell> <cell> <cell> ...
static void parseNameCase(const std::string &line, int &cut, int &start, std::vector<int> &cells)
{
  auto w = vf::words(line);
  cut = atoi(w[0].c_str());
  start = atoi(w[1].c_str());
  cells.clear();
  for (size_t i = 2; i < w.size(); ++i) cells.push_back(atoi(w[i].c_str()));
}

static std::string nameEvHead(int cut, int start, const std::vector<int> &cells)
{
  vf::Ev e("Name");
  e.i("cut", cut).i("start", start).ints("cells", cells.begin(), cells.end());
  return e.s;
}

static std::string nameCase(long, const std::string &line, Shared *)
{
  int cut, start;
  std::vector<int> cells;
  parseNameCase(line, cut, start, cells);
  std::vector<uint8_t> bytes = renderCells(cells, cut);
  const size_t startOff = (size_t)cellOffsets(cells)[start - 1];
  std::string name, res;
  long end = 0;
  for (int pass = 0; pass < 2; ++pass)
  {
    // pass 0: the message ends at an inaccessible page; pass 1: exact-size heap block (AddressSanitizer redzones)
    uint8_t *heap = pass ? new uint8_t[bytes.size()] : nullptr;
    if (heap && !bytes.empty()) memcpy(heap, bytes.data(), bytes.size());
    uint8_t *buf = pass ? heap : guard().place(bytes.data(), bytes.size());
    std::string n2, r2;
    long e2 = 0;
    try
    {
      e2 = (long)DnsMessage::decodeName(buf, startOff, bytes.size(), n2);
      r2 = "ok";
    }
    catch (const std::exception &)
    {
      r2 = "err";
    }
    delete[] heap;
    if (pass == 0)
    {
      name = n2;
      res = r2;
      end = e2;
    }
    else if (r2 != res || (res == "ok" && (n2 != name || e2 != end)))
      res = "unstable"; // the same bytes decoded differently: the decoder looked at something outside the message
  }
  std::string s = nameEvHead(cut, start, cells);
  s += ",\"res\":\"" + res + "\",\"name\":" + (res == "ok" ? nameAsCells(name) : std::string("[]")) +
       ",\"end\":" + std::to_string(res == "ok" ? end : 0) + "}\n";
  return s;
}

static std::string nameFail(long, const std::string &line, const char *what, long)
{
  int cut, start;
  std::vector<int> cells;
  parseNameCase(line, cut, start, cells);
  return nameEvHead(cut, start, cells) + ",\"res\":\"" + what + "\",\"name\":[],\"end\":0}\n";
}

// ------------------------------------------------------------------------------------------------ mini JSON
struct J
{
  enum K { Int, Str, Arr, Obj, Bool } k = Int;
  long long i = 0;
  std::string s;
  std::vector<J> a;
  std::map<std::string, J> o;
  const J &operator[](const char *key) const
  {
    static J none;
    auto it = o.find(key);
    return it == o.end() ? none : it->second;
  }
  std::vector<int> ints() const
  {
    std::vector<int> v;
    for (auto &x : a) v.push_back((int)x.i);
    return v;
  }
};
struct JP
{
  const std::string &t;
  size_t p = 0;
  explicit JP(const std::string &x) : t(x) {}
  void ws()
  {
    while (p < t.size() && (t[p] == ' ' || t[p] == '\t')) ++p;
  }
  J val()
  {
    ws();
    J j;
    if (p >= t.size()) throw std::runtime_error("json: eof");
    char c = t[p];
    if (c == '{')
    {
      j.k = J::Obj;
      ++p;
      ws();
      if (t[p] == '}') { ++p; return j; }
      for (;;)
      {
        J key = val();
        ws();
        if (t[p] != ':') throw std::runtime_error("json: ':'");
        ++p;
        j.o[key.s] = val();
        ws();
        if (t[p] == ',') { ++p; continue; }
        if (t[p] == '}') { ++p; break; }
        throw std::runtime_error("json: obj");
      }
    }
    else if (c == '[')
    {
      j.k = J::Arr;
      ++p;
      ws();
      if (t[p] == ']') { ++p; return j; }
      for (;;)
      {
        j.a.push_back(val());
        ws();
        if (t[p] == ',') { ++p; continue; }
        if (t[p] == ']') { ++p; break; }
        throw std::runtime_error("json: arr");
      }
    }
    else if (c == '"')
    {
      j.k = J::Str;
      ++p;
      while (p < t.size() && t[p] != '"')
      {
        if (t[p] == '\\') ++p;
        j.s += t[p++];
      }
      ++p;
    }
    else if (t.compare(p, 4, "true") == 0) { j.k = J::Bool; j.i = 1; p += 4; }
    else if (t.compare(p, 5, "false") == 0) { j.k = J::Bool; j.i = 0; p += 5; }
    else
    {
      size_t q = p;
      if (t[q] == '-') ++q;
      while (q < t.size() && isdigit((unsigned char)t[q])) ++q;
      if (q == p) throw std::runtime_error("json: value");
      j.i = atoll(t.substr(p, q - p).c_str());
      p = q;
    }
    return j;
  }
};

// ------------------------------------------------------------------------------------------------ rec / query mode
// label ids (spec/dns/DnsRecordsOps.tla) -> text
static std::string labelText(int id)
{
  switch (id)
  {
  case 1: return "www";
  case 2: return "example";
  case 3: return "com";
  case 4: return "mail";
  case 5: return "ns1";
  case 6: return "other";
  case 7: return "org";
  case 8: return "_sip";
  case 9: return "_udp";
  case 10: return std::string(63, 'x');
  case 11: return std::string(63, 'y');
  case 12: return std::string(63, 'z');
  case 13: return std::string(61, 'w');
  }
  if (id >= 100) return "d" + std::to_string(id - 100); // the labels of the deep subdomain chains
  return "bad" + std::to_string(id);
}
static int labelId(std::string lab)
{
  for (auto &c : lab) c = (char)tolower((unsigned char)c);
  for (int i = 1; i <= 13; ++i)
    if (labelText(i) == lab) return i;
  if (lab.size() >= 2 && lab.size() <= 4 && lab[0] == 'd')
  {
    bool digits = true;
    for (size_t i = 1; i < lab.size(); ++i) digits = digits && isdigit((unsigned char)lab[i]);
    if (digits && (lab[1] != '0' || lab.size() == 2)) return 100 + atoi(lab.c_str() + 1);
  }
  return 0;
}
static std::string namePresentation(const std::vector<int> &n)
{
  std::string s;
  for (size_t i = 0; i < n.size(); ++i) s += (i ? "." : "") + labelText(n[i]);
  return s;
}
static std::string nameIds(const std::string &name)
{
  std::string o = "[";
  if (!name.empty())
  {
    bool first = true;
    for (auto &lab : vf::split(name, '.'))
    {
      if (!first) o += ",";
      first = false;
      o += std::to_string(labelId(lab));
    }
  }
  return o + "]";
}
// ids of addresses / character strings
static std::vector<uint8_t> addr4(int c)
{
  if (c == 1) return {10, 0, 0, 1};
  if (c == 2) return {192, 0, 2, 1};
  return {192, 5, 0, 0}; // first octet >= 0xC0, second < 64, last two zero
}
static std::string addr4Text(int c) { return c == 1 ? "10.0.0.1" : c == 2 ? "192.0.2.1" : "192.5.0.0"; }
static std::vector<uint8_t> addr6(int c)
{
  std::vector<uint8_t> b(16, 0);
  if (c == 1) { b[0] = 0x20; b[1] = 0x01; b[2] = 0x0d; b[3] = 0xb8; b[15] = 1; }
  if (c == 2) { b[0] = 0xfe; b[1] = 0x80; b[15] = 1; }
  return b;
}
static std::string addr6Text(int c) { return c == 1 ? "2001:db8::1" : c == 2 ? "fe80::1" : "::"; }
static std::string strText(int id)
{
  switch (id)
  {
  case 0: return "";
  case 1: return "S";
  case 2: return "SIP+D2U";
  case 3: return "!^.*$!sip:info@example.com!";
  case 10: return "v=spf1 -all";
  case 11: return "a";
  case 12: return "bc";
  case 13: return "caf\xc3\xa9";
  case 14: return std::string(200, 't');
  }
  return "?";
}
static int strId(const std::string &s)
{
  static const int ids[] = {0, 1, 2, 3, 10, 11, 12, 13, 14};
  for (int id : ids)
    if (strText(id) == s) return id;
  return -1;
}
static int typeCode(const std::string &t)
{
  if (t == "A") return 1;
  if (t == "NS") return 2;
  if (t == "CNAME") return 5;
  if (t == "SOA") return 6;
  if (t == "PTR") return 12;
  if (t == "MX") return 15;
  if (t == "TXT") return 16;
  if (t == "AAAA") return 28;
  if (t == "SRV") return 33;
  if (t == "NAPTR") return 35;
  return 0;
}
static std::string typeName(int c)
{
  static const char *names[] = {"A", "NS", "CNAME", "SOA", "PTR", "MX", "TXT", "AAAA", "SRV", "NAPTR"};
  for (auto n : names)
    if (typeCode(n) == c) return n;
  return "T" + std::to_string(c);
}
static long long clamp31(unsigned long long v) { return v > 2147483647ULL ? -1 : (long long)v; }

// the driver's own encoder + compressor
struct Enc
{
  std::vector<uint8_t> b;
  std::map<std::vector<int>, int> table; // suffix -> offset of its first literal occurrence
  bool lenient = false;                  // malformed plans: a pointer whose target was replaced is written literally
  void u16(unsigned v)
  {
    b.push_back((uint8_t)(v >> 8));
    b.push_back((uint8_t)v);
  }
  void u32(unsigned long v)
  {
    u16((unsigned)(v >> 16));
    u16((unsigned)(v & 0xFFFF));
  }
  void cstr(const std::string &s)
  {
    b.push_back((uint8_t)s.size());
    b.insert(b.end(), s.begin(), s.end());
  }
  void name(const std::vector<int> &n, int lit)
  {
    for (int i = 0; i < lit; ++i)
    {
      std::vector<int> suf(n.begin() + i, n.end());
      if (!table.count(suf) && b.size() < 0x3FFF) table[suf] = (int)b.size();
      cstr(labelText(n[i]));
    }
    if (lit == (int)n.size())
    {
      b.push_back(0);
      return;
    }
    std::vector<int> suf(n.begin() + lit, n.end());
    auto it = table.find(suf);
    if (it == table.end())
    {
      if (!lenient) throw std::runtime_error("plan not realizable: no earlier occurrence of the suffix");
      for (int id : suf) cstr(labelText(id));
      b.push_back(0);
      return;
    }
    u16(0xC000 | (unsigned)it->second);
  }
};

static std::vector<uint8_t> renderPlan(const J &plan)
{
  Enc e;
  const std::string mm = plan["mm"].s;
  const auto &rrs = plan["rrs"].a;
  e.lenient = mm != "exact";
  unsigned counts[4] = {1, 0, 0, 0};
  for (auto &r : rrs) counts[r["sec"].i]++;
  int lastSec = (int)rrs.back()["sec"].i;
  if (mm == "more") counts[lastSec]++;
  if (mm == "less") counts[lastSec]--;
  e.u16(0x1234);
  e.u16(0x8180);
  for (int i = 0; i < 4; ++i) e.u16(counts[i]);
  e.name(plan["q"].ints(), (int)plan["q"].a.size());
  e.u16((unsigned)plan["qt"].i);
  e.u16(1);
  for (size_t ri = 0; ri < rrs.size(); ++ri)
  {
    const J &r = rrs[ri];
    bool last = ri + 1 == rrs.size();
    const std::string ty = r["ty"].s;
    if (last && mm == "oloop")
      e.u16(0xC000 | (unsigned)e.b.size());
    else if (last && mm == "ooor")
      e.u16(0xFFFF);
    else
      e.name(r["own"].ints(), (int)r["olit"].i);
    e.u16((unsigned)typeCode(ty));
    e.u16(1);
    e.u32((unsigned long)r["ttl"].i);
    size_t lenAt = e.b.size();
    e.u16(0);
    size_t start = e.b.size();
    std::vector<int> nums = r["nums"].ints(), strs = r["strs"].ints(), lits = r["lits"].ints();
    size_t nameNo = 0;
    auto rname = [&]()
    {
      if (last && nameNo == 0 && mm == "rloop")
        e.u16(0xC000 | (unsigned)e.b.size());
      else if (last && nameNo == 0 && mm == "roor")
        e.u16(0xFFFF);
      else
        e.name(r["names"].a[nameNo].ints(), lits[nameNo]);
      ++nameNo;
    };
    if (ty == "A")
    {
      auto a = addr4(strs[0]);
      e.b.insert(e.b.end(), a.begin(), a.end());
    }
    else if (ty == "AAAA")
    {
      auto a = addr6(strs[0]);
      e.b.insert(e.b.end(), a.begin(), a.end());
    }
    else if (ty == "TXT")
      for (int s : strs) e.cstr(strText(s));
    else if (ty == "CNAME" || ty == "NS" || ty == "PTR")
      rname();
    else if (ty == "MX")
    {
      e.u16((unsigned)nums[0]);
      rname();
    }
    else if (ty == "SRV")
    {
      for (int k = 0; k < 3; ++k) e.u16((unsigned)nums[k]);
      rname();
    }
    else if (ty == "SOA")
    {
      rname();
      rname();
      for (int k = 0; k < 5; ++k) e.u32((unsigned long)nums[k]);
    }
    else if (ty == "NAPTR")
    {
      e.u16((unsigned)nums[0]);
      e.u16((unsigned)nums[1]);
      for (int k = 0; k < 3; ++k) e.cstr(strText(strs[k]));
      rname();
    }
    size_t rdlen = e.b.size() - start;
    if (last && mm == "rdlen0")
    {
      e.b.resize(start);
      rdlen = 0;
    }
    if (last && mm == "rdbig") rdlen += 5;
    if (last && mm == "rdshort" && rdlen > 0) rdlen -= 1;
    e.b[lenAt] = (uint8_t)(rdlen >> 8);
    e.b[lenAt + 1] = (uint8_t)rdlen;
  }
  return e.b;
}

// parse `n` bytes that end at the inaccessible page (heap = true: in an exact-size heap block instead);
// 1 = decoded, 0 = DnsParseException / std::exception
static int parseExact(const uint8_t *src, size_t n, DnsResult *out, bool heap = false)
{
  std::unique_ptr<uint8_t[]> hb(heap ? new uint8_t[n] : nullptr);
  if (heap && n) memcpy(hb.get(), src, n);
  uint8_t *buf = heap ? hb.get() : guard().place(src, n);
  int ok = 0;
  try
  {
    DnsResult r = DnsMessage::parse(buf, n);
    if (out) *out = r;
    ok = 1;
  }
  catch (const std::exception &)
  {
    ok = 0;
  }
  return ok;
}

static std::string quesJson(const DnsResult &r)
{
  std::string s = "[";
  for (size_t i = 0; i < r.questions.size(); ++i)
  {
    if (i) s += ",";
    s += "[" + nameIds(r.questions[i].qname) + "," + std::to_string((int)r.questions[i].qtype) + "," +
         std::to_string((int)r.questions[i].qclass) + "]";
  }
  return s + "]";
}

static std::string typedEntry(const char *ty, const DnsResourceRecord &rr, const std::vector<long long> &nums,
                              const std::vector<std::string> &names, const std::vector<int> &strs)
{
  std::string s = std::string("[\"") + ty + "\"," + nameIds(rr.name) + "," + std::to_string(clamp31(rr.ttl)) + ",[";
  for (size_t i = 0; i < nums.size(); ++i) s += (i ? "," : "") + std::to_string(nums[i]);
  s += "],[";
  for (size_t i = 0; i < names.size(); ++i) s += (i ? "," : "") + nameIds(names[i]);
  s += "],[";
  for (size_t i = 0; i < strs.size(); ++i) s += (i ? "," : "") + std::to_string(strs[i]);
  return s + "]]";
}

static std::string decodedJson(const DnsResult &r)
{
  std::string s = ",\"ques\":" + quesJson(r) + ",\"raw\":[";
  bool first = true;
  const std::vector<DnsResourceRecord> *secs[3] = {&r.answers, &r.authority, &r.additional};
  for (int k = 0; k < 3; ++k)
    for (auto &rr : *secs[k])
    {
      if (!first) s += ",";
      first = false;
      s += "[" + std::to_string(k + 1) + ",\"" + typeName((int)rr.type) + "\"," + nameIds(rr.name) + "," +
           std::to_string(clamp31(rr.ttl)) + "]";
    }
  s += "],\"typed\":[";
  std::vector<std::string> t;
  for (auto &x : r.a_records)
  {
    int c = 0;
    for (int k = 1; k <= 3; ++k)
      if (addr4Text(k) == x.address) c = k;
    t.push_back(typedEntry("A", x, {}, {}, {c}));
  }
  for (auto &x : r.aaaa_records)
  {
    int c = 0;
    for (int k = 1; k <= 3; ++k)
      if (addr6Text(k) == x.address) c = k;
    t.push_back(typedEntry("AAAA", x, {}, {}, {c}));
  }
  for (auto &x : r.cname_records) t.push_back(typedEntry("CNAME", x, {}, {x.cname}, {}));
  for (auto &x : r.ptr_records) t.push_back(typedEntry("PTR", x, {}, {x.ptrdname}, {}));
  for (auto &x : r.mx_records) t.push_back(typedEntry("MX", x, {x.preference}, {x.exchange}, {}));
  for (auto &x : r.srv_records) t.push_back(typedEntry("SRV", x, {x.priority, x.weight, x.port}, {x.target}, {}));
  for (auto &x : r.soa_records)
    t.push_back(typedEntry("SOA", x,
                           {clamp31(x.serial), clamp31(x.refresh), clamp31(x.retry), clamp31(x.expire), clamp31(x.minimum)},
                           {x.mname, x.rname}, {}));
  for (auto &x : r.txt_records)
  {
    std::vector<int> ids;
    for (auto &str : x.text) ids.push_back(strId(str));
    t.push_back(typedEntry("TXT", x, {}, {}, ids));
  }
  for (auto &x : r.naptr_records)
    t.push_back(typedEntry("NAPTR", x, {x.order, x.preference}, {x.replacement},
                           {strId(x.flags), strId(x.service), strId(x.regexp)}));
  for (size_t i = 0; i < t.size(); ++i) s += (i ? "," : "") + t[i];
  return s + "]";
}

static unsigned long long mix(unsigned long long x)
{
  x += 0x9E3779B97F4A7C15ULL;
  x = (x ^ (x >> 30)) * 0xBF58476D1CE4E5B9ULL;
  x = (x ^ (x >> 27)) * 0x94D049BB133111EBULL;
  return x ^ (x >> 31);
}

static long g_seed = 1;
static int g_mutations = 16;

static std::string recCase(long idx, const std::string &line, Shared *sh)
{
  J plan = JP(line).val();
  std::string out;
  if (plan["qs"].k == J::Arr)
  { // ---- query plan
    std::vector<DnsQuestion> qs;
    std::vector<std::string> given;
    for (auto &q : plan["qs"].a)
    {
      std::string n = namePresentation(q["name"].ints());
      if (q["form"].s == "dot") n += ".";
      if (q["form"].s == "upper")
        for (auto &c : n) c = (char)toupper((unsigned char)c);
      given.push_back(n);
      qs.emplace_back(n, (DnsType)q["qt"].i, (DnsClass)q["qc"].i);
    }
    std::string ev = "{\"e\":\"Query\",\"plan\":" + line;
    std::vector<uint8_t> bytes;
    bool built = false;
    try
    {
      bytes = DnsMessage::buildQuery(qs, plan["rd"].i != 0, (uint16_t)plan["qid"].i);
      built = true;
    }
    catch (const std::exception &)
    {
    }
    if (!built) return ev + ",\"res\":\"refused\"}\n";
    DnsResult r;
    if (!parseExact(bytes.data(), bytes.size(), &r)) return ev + ",\"res\":\"err\"}\n";
    bool exact = r.questions.size() == given.size();
    for (size_t i = 0; exact && i < given.size(); ++i)
    {
      std::string g = given[i];
      if (!g.empty() && g.back() == '.') g.pop_back();
      exact = g == r.questions[i].qname;
    }
    ev += ",\"res\":\"ok\",\"id\":" + std::to_string(r.header.id) + ",\"rd\":" + (r.header.rd ? "true" : "false") +
          ",\"qr\":" + (r.header.qr ? "true" : "false") + ",\"counts\":[" + std::to_string(r.header.qdcount) + "," +
          std::to_string(r.header.ancount) + "," + std::to_string(r.header.nscount) + "," +
          std::to_string(r.header.arcount) + "],\"ques\":" + quesJson(r) + ",\"exact\":" + (exact ? "true" : "false") +
          "}\n";
    return ev;
  }
  // ---- response plan
  std::vector<uint8_t> bytes;
  try
  {
    bytes = renderPlan(plan);
  }
  catch (const std::exception &ex)
  {
    return std::string("{\"e\":\"DriverError\",\"what\":\"") + vf::Ev::esc(ex.what()) + "\",\"plan\":" + line + "}\n";
  }
  DnsResult r;
  sh->sub = -2;
  int ok = parseExact(bytes.data(), bytes.size(), &r);
  sh->sub = -3;
  bool stable = parseExact(bytes.data(), bytes.size(), nullptr, true) == ok; // again from an exact-size heap block
  out = "{\"e\":\"Rec\",\"plan\":" + line + ",\"len\":" + std::to_string(bytes.size()) + ",\"res\":\"" +
        (!stable ? "unstable" : ok ? "ok" : "err") + "\"";
  if (ok)
    out += decodedJson(r);
  else
    out += ",\"ques\":[],\"raw\":[],\"typed\":[]";
  out += "}\n";
  if (plan["mm"].s == "exact")
  {
    // every truncation of the well-formed message, then seeded single-byte mutations
    std::string tr = "{\"e\":\"Trunc\",\"len\":" + std::to_string(bytes.size()) + ",\"r\":[";
    for (size_t n = 0; n < bytes.size(); ++n)
    {
      sh->sub = (long)n;
      tr += (n ? "," : "") + std::to_string(parseExact(bytes.data(), n, nullptr));
    }
    out += tr + "]}\n";
    int okc = 0, errc = 0;
    for (int j = 0; j < g_mutations; ++j)
    {
      unsigned long long h = mix(mix((unsigned long long)g_seed) ^ mix((unsigned long long)idx * 131 + j));
      std::vector<uint8_t> m = bytes;
      size_t pos = h % m.size();
      uint8_t v = (uint8_t)(h >> 32);
      int kindOfMut = (int)((h >> 40) % 4);
      if (kindOfMut == 0) m[pos] = v;
      else if (kindOfMut == 1) m[pos] ^= (uint8_t)(1u << (v % 8));
      else if (kindOfMut == 2) m[pos] = (uint8_t)(0xC0 | (v & 0x3F));
      else m[pos] = (v & 1) ? 0xFF : 0x00;
      sh->sub = 100000 + j;
      (parseExact(m.data(), m.size(), nullptr) ? okc : errc)++;
    }
    out += "{\"e\":\"Mut\",\"n\":" + std::to_string(g_mutations) + ",\"ok\":" + std::to_string(okc) + ",\"err\":" +
           std::to_string(errc) + "}\n";
  }
  return out;
}

static std::string recFail(long, const std::string &line, const char *what, long sub)
{
  bool query = line.find("\"qs\"") != std::string::npos;
  return std::string("{\"e\":\"") + (query ? "Query" : "Rec") + "\",\"plan\":" + line + ",\"res\":\"" + what +
         "\",\"sub\":" + std::to_string(sub) + ",\"ques\":[],\"raw\":[],\"typed\":[]}\n";
}

// ------------------------------------------------------------------------------------------------ cache mode
static std::string cacheName(int n, int cs)
{
  // names 3..6: look-alikes that differ in one NON-letter octet 0x20 apart ('@' 0x40 / '`' 0x60, '[' 0x5b / '{' 0x7b) - distinct names
  std::string base = n == 1   ? "example.com"
                     : n == 2 ? "example.org"
                     : n == 3 ? "a@b.example.com"
                     : n == 4 ? "a`b.example.com"
                     : n == 5 ? "a[b.example.com"
                     : n == 6 ? "a{b.example.com"
                              : "n" + std::to_string(n) + ".example.net";
  if (cs == 2)
    for (auto &c : base) c = (char)toupper((unsigned char)c);
  if (cs == 3)
    for (size_t i = 0; i < base.size(); i += 2) base[i] = (char)toupper((unsigned char)base[i]);
  return base;
}
static DnsQuestion cacheQuestion(const J &q)
{
  return DnsQuestion(cacheName((int)q.a[0].i, (int)q.a[1].i), (DnsType)q.a[2].i, (DnsClass)q.a[3].i);
}
static std::string intsJson(const J &arr)
{
  std::string s = "[";
  for (size_t i = 0; i < arr.a.size(); ++i)
    s += (i ? "," : "") + (arr.a[i].k == J::Str ? "\"" + arr.a[i].s + "\"" : std::to_string(arr.a[i].i));
  return s + "]";
}

// one operation sequence on a fresh DnsCache under the virtual monotonic clock
static std::string cacheCase(long, const std::string &line, Shared *sh)
{
  J c = JP(line).val();
  g_virtOffsetNs.store(0);
  std::string out = "{\"e\":\"Begin\",\"dflt\":" + std::to_string(c["dflt"].i) + "}\n";
  {
    DnsCache cache{std::chrono::seconds(c["dflt"].i)};
    long step = 0;
    for (auto &op : c["ops"].a)
    {
      sh->sub = step++;
      const std::string o = op["op"].s;
      if (o == "P")
      {
        DnsResult r;
        r.header.id = (uint16_t)op["val"].i;
        std::vector<int> ttls = op["ttls"].ints();
        int pl = (int)op["pl"].i;
        for (size_t i = 0; i < ttls.size(); ++i)
        {
          DnsResourceRecord rr("example.com", DnsType::A, DnsClass::IN, (uint32_t)ttls[i]);
          bool firstOne = i == 0;
          switch (pl)
          {
          case 1: r.answers.push_back(rr); break;
          case 2: (firstOne ? r.answers : r.additional).push_back(rr); break;
          case 3:
            if (firstOne)
              r.authority.push_back(rr);
            else
              r.srv_records.push_back(SrvRecord("example.com", 1, 1, 5060, "sip.example.com", (uint32_t)ttls[i]));
            break;
          case 4:
            if (firstOne)
              r.txt_records.push_back(TxtRecord("example.com", {"x"}, (uint32_t)ttls[i]));
            else
              r.answers.push_back(rr);
            break;
          case 5:
            if (firstOne)
              r.aaaa_records.push_back(AAAARecord("example.com", "::1", (uint32_t)ttls[i]));
            else
              r.cname_records.push_back(CnameRecord("example.com", "c.example.com", (uint32_t)ttls[i]));
            break;
          default:
            if (firstOne)
              r.a_records.push_back(ARecord("example.com", "10.0.0.1", (uint32_t)ttls[i]));
            else
              r.mx_records.push_back(MxRecord("example.com", 10, "m.example.com", (uint32_t)ttls[i]));
            break;
          }
        }
        cache.put(cacheQuestion(op["q"]), r);
        out += "{\"e\":\"Put\",\"q\":" + intsJson(op["q"]) + ",\"ttls\":" + intsJson(op["ttls"]) + ",\"val\":" +
               std::to_string(op["val"].i) + "}\n";
      }
      else if (o == "N")
      {
        DnsResult r;
        r.header.id = (uint16_t)op["val"].i;
        r.header.rcode = DnsResponseCode::NXDOMAIN;
        const J &k = op["kind"];
        if (k.a[0].s == "e")
          cache.putNegative(cacheQuestion(op["q"]), r, (uint32_t)k.a[1].i, "NXDOMAIN");
        else
        {
          if (k.a[0].s == "s")
            r.soa_records.push_back(SoaRecord("example.com", "ns.example.com", "admin.example.com", 1, 2, 3, 4,
                                              (uint32_t)k.a[1].i, (uint32_t)k.a[2].i));
          cache.putNegative(cacheQuestion(op["q"]), r, "NXDOMAIN");
        }
        out += "{\"e\":\"PutNeg\",\"q\":" + intsJson(op["q"]) + ",\"kind\":" + intsJson(k) + ",\"val\":" +
               std::to_string(op["val"].i) + "}\n";
      }
      else if (o == "G")
      {
        DnsResult r;
        bool hit = cache.get(cacheQuestion(op["q"]), r);
        out += "{\"e\":\"Get\",\"q\":" + intsJson(op["q"]) + ",\"hit\":" + (hit ? "true" : "false") + ",\"val\":" +
               std::to_string(hit ? r.header.id : 0) + "}\n";
      }
      else if (o == "R")
      {
        cache.remove(cacheQuestion(op["q"]));
        out += "{\"e\":\"Remove\",\"q\":" + intsJson(op["q"]) + "}\n";
      }
      else if (o == "C")
      {
        cache.clear();
        out += "{\"e\":\"Clear\"}\n";
      }
      else if (o == "A")
      {
        g_virtOffsetNs.fetch_add(op["d"].i * 500000000LL); // one tick = half a second
        out += "{\"e\":\"Adv\",\"d\":" + std::to_string(op["d"].i) + "}\n";
      }
    }
  }
  return out + "{\"e\":\"Reset\"}\n";
}
static std::string cacheFail(long, const std::string &line, const char *what, long sub)
{
  return std::string("{\"e\":\"CacheFail\",\"what\":\"") + what + "\",\"step\":" + std::to_string(sub) + ",\"case\":" +
         line + "}\n{\"e\":\"Reset\"}\n";
}

// ------------------------------------------------------------------------------------------------ e2e mode
#ifdef DRV_DNS_E2E // built as drv_dns_e2e (the transport headers quadruple the compile time; thorough tier only)
// The response plan is served by a UDP socket of this driver to a real DnsTransport::query (loopback): the parse
// failure of a network response must be contained and complete the pending query (result or exception).
static std::string e2eCase(long, const std::string &line, Shared *)
{
  using namespace iora::network;
  J plan = JP(line).val();
  std::vector<uint8_t> bytes = renderPlan(plan);
  int sock = socket(AF_INET, SOCK_DGRAM, 0);
  sockaddr_in a{};
  a.sin_family = AF_INET;
  a.sin_addr.s_addr = htonl(INADDR_LOOPBACK);
  a.sin_port = 0;
  if (sock < 0 || bind(sock, (sockaddr *)&a, sizeof a) != 0) return "{\"e\":\"DriverError\",\"what\":\"udp bind\"}\n";
  socklen_t al = sizeof a;
  getsockname(sock, (sockaddr *)&a, &al);
  uint16_t port = ntohs(a.sin_port);
  struct timeval tv = {15, 0};
  setsockopt(sock, SOL_SOCKET, SO_RCVTIMEO, &tv, sizeof tv);
  std::atomic<int> served{0};
  std::thread srv(
    [&]()
    {
      uint8_t q[2048];
      sockaddr_in from{};
      socklen_t fl = sizeof from;
      ssize_t n = recvfrom(sock, q, sizeof q, 0, (sockaddr *)&from, &fl);
      if (n >= 2)
      {
        std::vector<uint8_t> r = bytes;
        r[0] = q[0]; // answer with the id of the query
        r[1] = q[1];
        sendto(sock, r.data(), r.size(), 0, (sockaddr *)&from, fl);
        served = 1;
      }
    });
  std::string res = "err", exc = "-";
  long nans = -1;
  double t0 = rawNow();
  {
    DnsConfig cfg(std::vector<std::string>{"127.0.0.1"}, port);
    cfg.timeout = std::chrono::milliseconds(6000);
    cfg.retryCount = 0;
    cfg.transportMode = DnsTransportMode::UDP;
    cfg.enableCache = false;
    auto t = std::make_shared<DnsTransport>(cfg);
    try
    {
      t->start();
      DnsResult r = t->query(DnsQuestion("www.example.com", DnsType::A, DnsClass::IN), "127.0.0.1", port);
      res = "ok";
      nans = (long)r.answers.size();
    }
    catch (const DnsTimeoutException &)
    {
      exc = "timeout";
    }
    catch (const DnsParseException &)
    {
      exc = "parse";
    }
    catch (const std::exception &)
    {
      exc = "other";
    }
    catch (...)
    {
      exc = "unknown";
    }
    t->stop();
  }
  long ms = (long)((rawNow() - t0) * 1000);
  shutdown(sock, SHUT_RDWR);
  srv.join();
  close(sock);
  return "{\"e\":\"E2E\",\"plan\":" + line + ",\"res\":\"" + res + "\",\"exc\":\"" + exc + "\",\"answers\":" +
         std::to_string(nans) + ",\"served\":" + std::to_string(served.load()) + ",\"ms\":" + std::to_string(ms) + "}\n";
}
static std::string e2eFail(long, const std::string &line, const char *what, long)
{
  return std::string("{\"e\":\"E2E\",\"plan\":") + line + ",\"res\":\"" + what + "\",\"exc\":\"-\",\"answers\":-1,\"served\":0,\"ms\":0}\n";
}

#endif // DRV_DNS_E2E

// ------------------------------------------------------------------------------------------------ main
int main(int argc, char **argv)
{
  iora::core::Logger::setLevel(iora::core::Logger::Level::Fatal);
  if (argc < 5)
  {
    fprintf(stderr, "usage: drv_dns name|rec|query|cache <cases> <out.ndjson> <shards>\n");
    return 2;
  }
  std::string mode = argv[1], cases = argv[2], out = argv[3];
  int shards = atoi(argv[4]);
  if (mode == "name") return runSharded(cases, out, shards, nameCase, nameFail, 10.0);
  if (mode == "rec" || mode == "query")
  {
    if (argc > 5) g_seed = atol(argv[5]);
    if (argc > 6) g_mutations = atoi(argv[6]);
    return runSharded(cases, out, shards, recCase, recFail, 30.0);
  }
#ifdef DRV_DNS_E2E
  if (mode == "e2e") return runSharded(cases, out, shards, e2eCase, e2eFail, 60.0);
#endif
  if (mode == "cache")
  {
    // virtual CLOCK_MONOTONIC: far ahead of the real clock (the purge thread's 5 s deadline is then in the far real
    // future: it sleeps until the destructor wakes it) and frozen between the Adv operations of a case
    struct timespec ts;
    syscall(SYS_clock_gettime, CLOCK_MONOTONIC, &ts);
    g_virtBaseNs = (ts.tv_sec + 1000000LL) * 1000000000LL;
    g_virtOn.store(true);
    return runSharded(cases, out, shards, cacheCase, cacheFail, 30.0);
  }
  fprintf(stderr, "unknown mode %s\n", mode.c_str());
  return 2;
}
