// vf::sched, I/O part - linked only into drivers that run code which blocks in epoll_wait() or in a raw futex wait
// (std::future::get(), std::promise) on a REGISTERED thread: the real TcpEngine / UdpEngine I/O loop and their synchronous
// addListener().  Both kinds of blocking call are turned into polling loops whose idle iterations are schedule points
// (sched_yield as interposed by vf/sched.cpp: low priority, virtual time advances with an exponential back-off), so
//   - the I/O thread runs only when the schedule says so, also between "the kernel has an event" and "the loop sees it";
//   - a thread waiting for a promise is simply not finished yet, never invisible to the controller.
// Sockets are loopback sockets: what one thread writes is readable for the next poll of another, so the only
// nondeterminism left outside the schedule is the kernel's (none observed for eventfd / UDP; TCP connect completion on
// loopback happens inside connect()).  timerfd timers of the engines run on REAL time and never fire in these short runs.
// Unregistered threads (the controller, forked runners) go straight to libc.
#include "sched.hpp"

#include <atomic>

#include <cerrno>
#include <cstdarg>
#include <dlfcn.h>
#include <linux/futex.h>
#include <sched.h>
#include <sys/epoll.h>
#include <sys/syscall.h>
#include <time.h>
#include <unistd.h>

namespace
{
long long nowNs(clockid_t clk)
{
  struct timespec ts;
  clock_gettime(clk, &ts); // interposed: virtual for registered threads
  return (long long)ts.tv_sec * 1000000000LL + ts.tv_nsec;
}
} // namespace

namespace vf
{
static std::atomic<long> g_badFdWrites{0};
long badFdWrites() { return g_badFdWrites.load(); }
void resetBadFdWrites() { g_badFdWrites.store(0); }
} // namespace vf

extern "C"
{

// a write() by a registered thread that hits a closed descriptor (EBADF) is counted: the engines promise that the wake-up
// write to the eventfd is serialised with closing it
ssize_t write(int fd, const void *buf, size_t n)
{
  static auto real = (ssize_t(*)(int, const void *, size_t))dlsym(RTLD_NEXT, "write");
  ssize_t r = real(fd, buf, n);
  if (r < 0 && errno == EBADF && vf::self() >= 0) vf::g_badFdWrites.fetch_add(1);
  return r;
}

int epoll_wait(int epfd, struct epoll_event *evs, int maxevents, int timeout)
{
  static auto real = (int (*)(int, struct epoll_event *, int, int))dlsym(RTLD_NEXT, "epoll_wait");
  if (vf::self() < 0) return real(epfd, evs, maxevents, timeout);
  long long deadline = timeout > 0 ? nowNs(CLOCK_MONOTONIC) + (long long)timeout * 1000000LL : -1;
  for (;;)
  {
    int n = real(epfd, evs, maxevents, 0);
    if (n != 0) return n; // events, or an error (EINTR, EBADF after close)
    if (timeout == 0) return 0;
    if (deadline >= 0 && nowNs(CLOCK_MONOTONIC) >= deadline) return 0;
    sched_yield(); // schedule point; an idle system lets virtual time move towards `deadline`
  }
}

long syscall(long number, ...)
{
  static auto real = (long (*)(long, ...))dlsym(RTLD_NEXT, "syscall");
  va_list ap;
  va_start(ap, number);
  long a[6];
  for (int i = 0; i < 6; ++i) a[i] = va_arg(ap, long);
  va_end(ap);
  if (number == SYS_futex && vf::self() >= 0)
  {
    int op = (int)a[1];
    int cmd = op & FUTEX_CMD_MASK;
    if (cmd == FUTEX_WAIT || cmd == FUTEX_WAIT_BITSET)
    {
      int *addr = (int *)a[0];
      int val = (int)a[2];
      const struct timespec *ts = (const struct timespec *)a[3];
      long long deadline = -1;
      clockid_t clk = (op & FUTEX_CLOCK_REALTIME) ? CLOCK_REALTIME : CLOCK_MONOTONIC;
      if (ts)
      {
        long long t = (long long)ts->tv_sec * 1000000000LL + ts->tv_nsec;
        deadline = cmd == FUTEX_WAIT ? nowNs(CLOCK_MONOTONIC) + t : t; // relative for WAIT, absolute for WAIT_BITSET
        if (cmd == FUTEX_WAIT) clk = CLOCK_MONOTONIC;
      }
      if (__atomic_load_n(addr, __ATOMIC_ACQUIRE) != val)
      {
        errno = EAGAIN;
        return -1;
      }
      while (__atomic_load_n(addr, __ATOMIC_ACQUIRE) == val)
      {
        if (deadline >= 0 && nowNs(clk) >= deadline)
        {
          errno = ETIMEDOUT;
          return -1;
        }
        sched_yield();
      }
      return 0;
    }
  }
  return real(number, a[0], a[1], a[2], a[3], a[4], a[5]);
}
}
