// vf::sched — a cooperative, deterministic thread scheduler for *unmodified* code.
//
// The harness executable defines pthread_mutex_*, pthread_cond_*, pthread_rwlock_*, pthread_create/join,
// sched_yield and nanosleep itself (symbol interposition: the definitions in the executable win over
// libc's for iora's inline std::mutex code and for libstdc++'s out-of-line condition_variable).  Every such
// call made by a *registered* thread is a schedule point: the thread parks, tells the controller which
// operation it is about to perform, and continues only when the controller grants it the step.  Exactly one
// registered thread runs at a time, so an execution is a sequence of steps "thread t performs its pending
// operation and runs up to its next operation" — the same grain as the Impl specifications' actions — and a
// TLC behaviour (a list of thread names) can be replayed exactly.  The real primitives are always used; the
// scheduler only decides *when*.  Condition variables are the exception: a registered waiter releases the real
// mutex and parks inside the scheduler; notify marks it runnable (tokens chosen by the schedule), so that a
// lost wake-up shows up as "no thread enabled although some are unfinished" (outcome Stuck) instead of a hang.
//
// Threads that are not registered (the controller, loggers, real I/O threads) pass straight through.
#pragma once
#include <cstdint>
#include <functional>
#include <string>
#include <vector>

namespace vf
{

enum class Outcome
{
  Done,      // every registered thread finished
  Stuck,     // unfinished threads exist and none is enabled (deadlock / lost wake-up)
  StepLimit, // too many steps (inconclusive)
  External   // a running thread did not reach a schedule point within the watchdog (blocked outside the scheduler)
};

enum class Policy
{
  Random, // seeded uniform choice among enabled threads
  Replay, // follow `plan` (thread names); when the plan is exhausted or names a disabled thread: drift, then FirstEnabled
  Prefix  // follow `plan` exactly, then non-preemptive default (continue current thread if enabled, else lowest id) — for DFS
};

struct Step
{
  int tid;
  std::string thread;           // name of the thread stepped
  std::string op;               // operation it performed in this step ("lock", "cv_wait", "wake", "timeout", ...)
  std::vector<int> enabled;     // tids that were enabled at this decision (for DFS)
};

struct Options
{
  Policy policy = Policy::Random;
  uint64_t seed = 1;
  std::vector<std::string> plan; // thread names (Replay/Prefix). An entry "name!" means: step `name` with a timeout wake-up.
  int maxSteps = 4000;
  int watchdogMs = 4000;
  bool timeoutsOnlyWhenIdle = true; // Random: timed waits time out / sleeps return only when nothing else is enabled
  int timeoutPermille = 0;          // Random: else probability (per decision) to prefer a timed-out waiter
  bool pointAfterUnlock = false;    // extra schedule point right after every mutex unlock (see sched.cpp)
  bool earliestDeadlineFirst = false; // Random, idle system: run the sleeper / timed waiter / spinner that is due first
                                      // (discrete-event simulation) instead of a uniformly random one; overlapping sleeps
                                      // then do not add up.  Off = time may jump by a whole sleep while others lag.
};

struct Result
{
  Outcome outcome = Outcome::Done;
  bool drift = false;        // Replay: the plan could not be followed exactly
  int driftAt = -1;
  std::vector<Step> steps;
  std::vector<std::string> stuck; // "name@op" of every unfinished thread when Stuck
};

// ---- controller side (call from the harness main thread, which is never registered) ----
void reset(const Options &o);
int spawn(const std::string &name, std::function<void()> body); // registered thread; starts parked
Result run();                                                  // drive until Done/Stuck/StepLimit/External

// ---- inside registered threads ----
void point(const char *label);   // explicit schedule point (API call boundaries)
int self();                      // tid or -1
const char *selfName();
// A region in which the thread may block on something the scheduler cannot see (future.get(), socket read):
// the controller does not wait for it.  Use sparingly.
// virtual time (registered threads see clock_gettime frozen at reset() plus this advance; it moves only when a
// timed wait times out or a registered thread sleeps)
long long virtualAdvanceNs();
// number of time-outs/sleeps granted so far while another thread could run or an earlier deadline was pending
long unfairJumps();
void advanceVirtualNs(long long ns);
// name the next thread the calling (registered) thread creates; threads created by the code under test without a
// name are called w1, w2, ... in creation order
void nameNextChild(const std::string &name);
// number of registered, unfinished threads whose name starts with prefix
int liveThreads(const char *prefix);
// 0 = active (running or at a schedule point), 1 = parked in a condition wait, 2 = finished / not created
int threadPhase(const std::string &name);
// only in drivers that link vf/sched_io.cpp: write() calls of registered threads that failed with EBADF since the last reset
long badFdWrites();
void resetBadFdWrites();
void externBegin();
void externEnd();

} // namespace vf
