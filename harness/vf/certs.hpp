// Test PKI for the C07 driver, generated with the libcrypto API (no openssl CLI in the sandbox) and cached on disk.
//
//   ca.pem / ca.key            the RIGHT certificate authority (self-signed, CA:TRUE)
//   ca2.pem / ca2.key          a second, unrelated authority (the WRONG trust anchor)
//   srv_valid.{pem,key}        CN=localhost, SAN DNS:localhost + IP:127.0.0.1 + IP:::1, signed by ca
//   srv_selfsigned.{pem,key}   same names, self-signed leaf (chains to nothing)
//   srv_expired.{pem,key}      same names, signed by ca, notAfter one day in the past
//   srv_wrongname.{pem,key}    CN=other.example, SAN DNS:other.example only, signed by ca
//   srv_mismatch.key           the certificate is srv_valid.pem, but this key's PRIVATE scalar belongs to another key pair
//                              while its PUBLIC point is srv_valid's (so libssl's load-time consistency check, which
//                              compares public parts, lets a peer present srv_valid.pem without possessing its key)
//   other.key                  an unrelated private key (the engine's own "key file does not match the cert" case)
//   cli_valid.{pem,key}        CN=client, signed by ca
//   cli_untrusted.{pem,key}    CN=client, signed by a third authority that is thrown away (never anybody's anchor)
//   cli_expired.{pem,key}      CN=client, signed by ca, expired
//   empty.pem                  an empty trust store;  emptydir/  an empty hashed directory
// All keys are EC P-256; signatures ecdsa-with-SHA256.
#pragma once
#include <openssl/bn.h>
#include <openssl/core_names.h>
#include <openssl/ec.h>
#include <openssl/evp.h>
#include <openssl/param_build.h>
#include <openssl/pem.h>
#include <openssl/x509.h>
#include <openssl/x509v3.h>

#include <cstdio>
#include <stdexcept>
#include <string>
#include <sys/stat.h>
#include <unistd.h>

namespace vf
{
namespace certs
{

static const char *const kStamp = "c07-certs-v4";

inline EVP_PKEY *newKey()
{
  EVP_PKEY *k = EVP_EC_gen("P-256");
  if (!k) throw std::runtime_error("EVP_EC_gen failed");
  return k;
}

inline void addExt(X509 *cert, X509 *issuer, int nid, const char *value)
{
  X509V3_CTX ctx;
  X509V3_set_ctx_nodb(&ctx);
  X509V3_set_ctx(&ctx, issuer, cert, nullptr, nullptr, 0);
  X509_EXTENSION *ex = X509V3_EXT_conf_nid(nullptr, &ctx, nid, value);
  if (!ex) throw std::runtime_error(std::string("X509V3_EXT_conf_nid failed for ") + value);
  X509_add_ext(cert, ex, -1);
  X509_EXTENSION_free(ex);
}

// seconds are relative to now (as time() reports it); issuer == nullptr -> self-signed
inline X509 *makeCertSec(EVP_PKEY *subjectKey, const char *cn, const char *san, bool isCa, X509 *issuer,
                         EVP_PKEY *issuerKey, long notBeforeSec, long notAfterSec, long serial)
{
  X509 *x = X509_new();
  X509_set_version(x, 2);
  ASN1_INTEGER_set(X509_get_serialNumber(x), serial);
  X509_gmtime_adj(X509_getm_notBefore(x), notBeforeSec);
  X509_gmtime_adj(X509_getm_notAfter(x), notAfterSec);
  X509_set_pubkey(x, subjectKey);
  X509_NAME *name = X509_get_subject_name(x);
  X509_NAME_add_entry_by_txt(name, "O", MBSTRING_ASC, (const unsigned char *)"verif-c07", -1, -1, 0);
  X509_NAME_add_entry_by_txt(name, "CN", MBSTRING_ASC, (const unsigned char *)cn, -1, -1, 0);
  X509_set_issuer_name(x, issuer ? X509_get_subject_name(issuer) : name);
  X509 *iss = issuer ? issuer : x;
  addExt(x, iss, NID_basic_constraints, isCa ? "critical,CA:TRUE" : "CA:FALSE");
  if (isCa) addExt(x, iss, NID_key_usage, "critical,keyCertSign,cRLSign");
  addExt(x, iss, NID_subject_key_identifier, "hash");
  if (san) addExt(x, iss, NID_subject_alt_name, san);
  if (!X509_sign(x, issuer ? issuerKey : subjectKey, EVP_sha256())) throw std::runtime_error("X509_sign failed");
  return x;
}

// days are relative to now
inline X509 *makeCert(EVP_PKEY *subjectKey, const char *cn, const char *san, bool isCa, X509 *issuer,
                      EVP_PKEY *issuerKey, long notBeforeDays, long notAfterDays, long serial)
{
  return makeCertSec(subjectKey, cn, san, isCa, issuer, issuerKey, 86400L * notBeforeDays, 86400L * notAfterDays, serial);
}

inline X509 *readCert(const std::string &path)
{
  FILE *f = fopen(path.c_str(), "r");
  if (!f) throw std::runtime_error("cannot read " + path);
  X509 *x = PEM_read_X509(f, nullptr, nullptr, nullptr);
  fclose(f);
  if (!x) throw std::runtime_error("cannot parse " + path);
  return x;
}
inline EVP_PKEY *readKey(const std::string &path)
{
  FILE *f = fopen(path.c_str(), "r");
  if (!f) throw std::runtime_error("cannot read " + path);
  EVP_PKEY *k = PEM_read_PrivateKey(f, nullptr, nullptr, nullptr);
  fclose(f);
  if (!k) throw std::runtime_error("cannot parse " + path);
  return k;
}

// a leaf issued NOW by the right CA of `dir` with a validity window given in seconds relative to now (kept in memory:
// the time-dimension tuples of C07 hand it to the scripted peer directly)
struct Leaf
{
  X509 *cert = nullptr;
  EVP_PKEY *key = nullptr;
  X509 *ca = nullptr;
};
inline Leaf makeLeafNow(const std::string &dir, const char *cn, const char *san, long notBeforeSec, long notAfterSec)
{
  Leaf l;
  l.ca = readCert(dir + "/ca.pem");
  EVP_PKEY *caK = readKey(dir + "/ca.key");
  l.key = newKey();
  l.cert = makeCertSec(l.key, cn, san, false, l.ca, caK, notBeforeSec, notAfterSec, 1000 + (long)getpid());
  EVP_PKEY_free(caK);
  return l;
}
// what libcrypto's own verification says about the leaf right now: 0 = ok, otherwise the X509_V_ERR_* code
inline int verifyNow(const Leaf &l)
{
  X509_STORE *st = X509_STORE_new();
  X509_STORE_add_cert(st, l.ca);
  X509_STORE_CTX *c = X509_STORE_CTX_new();
  X509_STORE_CTX_init(c, st, l.cert, nullptr);
  int r = X509_verify_cert(c);
  int e = X509_STORE_CTX_get_error(c);
  X509_STORE_CTX_free(c);
  X509_STORE_free(st);
  return r == 1 ? 0 : (e ? e : -1);
}

inline void writeCert(const std::string &path, X509 *x)
{
  FILE *f = fopen(path.c_str(), "w");
  if (!f || !PEM_write_X509(f, x)) throw std::runtime_error("cannot write " + path);
  fclose(f);
}
inline void writeKey(const std::string &path, EVP_PKEY *k)
{
  FILE *f = fopen(path.c_str(), "w");
  if (!f || !PEM_write_PrivateKey(f, k, nullptr, nullptr, 0, nullptr, nullptr)) throw std::runtime_error("cannot write " + path);
  fclose(f);
  chmod(path.c_str(), 0600);
}

// a key whose public point is `pubOf`'s and whose private scalar is `privOf`'s
inline EVP_PKEY *frankenKey(EVP_PKEY *pubOf, EVP_PKEY *privOf)
{
  unsigned char pub[256];
  size_t publen = 0;
  if (!EVP_PKEY_get_octet_string_param(pubOf, OSSL_PKEY_PARAM_PUB_KEY, pub, sizeof pub, &publen))
    throw std::runtime_error("get pub failed");
  BIGNUM *priv = nullptr;
  if (!EVP_PKEY_get_bn_param(privOf, OSSL_PKEY_PARAM_PRIV_KEY, &priv)) throw std::runtime_error("get priv failed");
  OSSL_PARAM_BLD *bld = OSSL_PARAM_BLD_new();
  OSSL_PARAM_BLD_push_utf8_string(bld, OSSL_PKEY_PARAM_GROUP_NAME, "prime256v1", 0);
  OSSL_PARAM_BLD_push_octet_string(bld, OSSL_PKEY_PARAM_PUB_KEY, pub, publen);
  OSSL_PARAM_BLD_push_BN(bld, OSSL_PKEY_PARAM_PRIV_KEY, priv);
  OSSL_PARAM *params = OSSL_PARAM_BLD_to_param(bld);
  EVP_PKEY_CTX *ctx = EVP_PKEY_CTX_new_from_name(nullptr, "EC", nullptr);
  EVP_PKEY *out = nullptr;
  if (EVP_PKEY_fromdata_init(ctx) <= 0 || EVP_PKEY_fromdata(ctx, &out, EVP_PKEY_KEYPAIR, params) <= 0)
    throw std::runtime_error("EVP_PKEY_fromdata failed");
  EVP_PKEY_CTX_free(ctx);
  OSSL_PARAM_free(params);
  OSSL_PARAM_BLD_free(bld);
  BN_clear_free(priv);
  return out;
}

inline bool upToDate(const std::string &dir)
{
  FILE *f = fopen((dir + "/STAMP").c_str(), "r");
  if (!f) return false;
  char buf[64] = {0};
  size_t n = fread(buf, 1, sizeof buf - 1, f);
  fclose(f);
  (void)n;
  return std::string(buf) == kStamp;
}

// generate everything under dir (idempotent; cached by a stamp file)
inline void ensure(const std::string &dir)
{
  if (upToDate(dir)) return;
  mkdir(dir.c_str(), 0777);
  mkdir((dir + "/emptydir").c_str(), 0777);
  const char *sanLocal = "DNS:localhost,IP:127.0.0.1,IP:::1";
  EVP_PKEY *caK = newKey(), *ca2K = newKey();
  X509 *ca = makeCert(caK, "verif C07 right CA", nullptr, true, nullptr, nullptr, -1, 3650, 1);
  X509 *ca2 = makeCert(ca2K, "verif C07 wrong CA", nullptr, true, nullptr, nullptr, -1, 3650, 2);
  writeCert(dir + "/ca.pem", ca);
  writeKey(dir + "/ca.key", caK);
  writeCert(dir + "/ca2.pem", ca2);
  writeKey(dir + "/ca2.key", ca2K);

  EVP_PKEY *validK = newKey();
  X509 *valid = makeCert(validK, "localhost", sanLocal, false, ca, caK, -1, 3650, 10);
  writeCert(dir + "/srv_valid.pem", valid);
  writeKey(dir + "/srv_valid.key", validK);

  EVP_PKEY *ssK = newKey();
  X509 *ss = makeCert(ssK, "localhost", sanLocal, false, nullptr, nullptr, -1, 3650, 11);
  writeCert(dir + "/srv_selfsigned.pem", ss);
  writeKey(dir + "/srv_selfsigned.key", ssK);

  EVP_PKEY *expK = newKey();
  X509 *exp = makeCert(expK, "localhost", sanLocal, false, ca, caK, -30, -1, 12);
  writeCert(dir + "/srv_expired.pem", exp);
  writeKey(dir + "/srv_expired.key", expK);

  EVP_PKEY *wnK = newKey();
  X509 *wn = makeCert(wnK, "other.example", "DNS:other.example", false, ca, caK, -1, 3650, 13);
  writeCert(dir + "/srv_wrongname.pem", wn);
  writeKey(dir + "/srv_wrongname.key", wnK);

  EVP_PKEY *otherK = newKey();
  writeKey(dir + "/other.key", otherK);
  EVP_PKEY *fk = frankenKey(validK, otherK);
  writeKey(dir + "/srv_mismatch.key", fk);

  EVP_PKEY *cvK = newKey();
  X509 *cv = makeCert(cvK, "client", nullptr, false, ca, caK, -1, 3650, 20);
  writeCert(dir + "/cli_valid.pem", cv);
  writeKey(dir + "/cli_valid.key", cvK);
  EVP_PKEY *cuK = newKey();
  EVP_PKEY *ca3K = newKey();
  X509 *ca3 = makeCert(ca3K, "verif C07 discarded CA", nullptr, true, nullptr, nullptr, -1, 3650, 3);
  X509 *cu = makeCert(cuK, "client", nullptr, false, ca3, ca3K, -1, 3650, 21);
  writeCert(dir + "/cli_untrusted.pem", cu);
  writeKey(dir + "/cli_untrusted.key", cuK);
  EVP_PKEY *ceK = newKey();
  X509 *ce = makeCert(ceK, "client", nullptr, false, ca, caK, -30, -1, 22);
  writeCert(dir + "/cli_expired.pem", ce);
  writeKey(dir + "/cli_expired.key", ceK);

  FILE *e = fopen((dir + "/empty.pem").c_str(), "w");
  if (e) fclose(e);
  FILE *s = fopen((dir + "/STAMP").c_str(), "w");
  if (s)
  {
    fputs(kStamp, s);
    fclose(s);
  }
  for (X509 *x : {ca, ca2, ca3, valid, ss, exp, wn, cv, cu, ce}) X509_free(x);
  for (EVP_PKEY *k : {caK, ca2K, ca3K, validK, ssK, expK, wnK, otherK, fk, cvK, cuK, ceK}) EVP_PKEY_free(k);
}

} // namespace certs
} // namespace vf
