// Run many independent executions, each in a forked child (so that threads left blocked by a lost wake-up, a
// crashed execution or a sanitizer abort never affect the next one), up to `parallel` at a time.  Each child
// returns its ndjson text through a file; the parent concatenates them in index order with {"e":"Reset"} lines.
#pragma once
#include <cstdio>
#include <cstdlib>
#include <cstring>
#include <functional>
#include <map>
#include <string>
#include <sys/stat.h>
#include <sys/wait.h>
#include <time.h>
#include <unistd.h>
#include <vector>

namespace vf
{

inline double nowSec()
{
  struct timespec ts;
  clock_gettime(CLOCK_MONOTONIC_RAW, &ts);
  return ts.tv_sec + ts.tv_nsec / 1e9;
}

struct ManyResult
{
  int executions = 0;
  int crashed = 0;   // child died on a signal or exited non-zero (includes sanitizer aborts)
  int timedOut = 0;  // child exceeded the per-execution wall-clock limit
};

// body(i) -> ndjson text of execution i.  outPath receives the concatenation.
inline ManyResult runMany(int n, int parallel, double perExecTimeoutSec, const std::string &scratchDir,
                          const std::string &outPath, const std::function<std::string(int)> &body)
{
  ManyResult r;
  mkdir(scratchDir.c_str(), 0777);
  std::map<pid_t, std::pair<int, double>> live;
  std::vector<int> status(n, -1);
  int next = 0;
  auto fileOf = [&](int i) { return scratchDir + "/x" + std::to_string(i) + ".ndjson"; };
  while (next < n || !live.empty())
  {
    while (next < n && (int)live.size() < parallel)
    {
      fflush(nullptr);
      pid_t p = fork();
      if (p == 0)
      {
        std::string t = body(next);
        FILE *f = fopen(fileOf(next).c_str(), "w");
        if (f)
        {
          fwrite(t.data(), 1, t.size(), f);
          fclose(f);
        }
        fflush(nullptr);
        _exit(0);
      }
      live[p] = {next, nowSec()};
      ++next;
    }
    int st = 0;
    pid_t w = waitpid(-1, &st, WNOHANG);
    if (w > 0 && live.count(w))
    {
      int i = live[w].first;
      live.erase(w);
      status[i] = (WIFEXITED(st) && WEXITSTATUS(st) == 0) ? 0 : 1;
      continue;
    }
    double now = nowSec();
    for (auto it = live.begin(); it != live.end();)
    {
      if (now - it->second.second > perExecTimeoutSec)
      {
        kill(it->first, SIGKILL);
        int s2;
        waitpid(it->first, &s2, 0);
        status[it->second.first] = 2;
        it = live.erase(it);
      }
      else
        ++it;
    }
    usleep(500);
  }
  FILE *out = fopen(outPath.c_str(), "w");
  for (int i = 0; i < n; ++i)
  {
    std::string path = fileOf(i);
    FILE *f = fopen(path.c_str(), "r");
    bool wrote = false;
    if (f)
    {
      char buf[65536];
      size_t k;
      while ((k = fread(buf, 1, sizeof buf, f)) > 0)
      {
        fwrite(buf, 1, k, out);
        wrote = true;
      }
      fclose(f);
      unlink(path.c_str());
    }
    (void)wrote;
    if (status[i] == 1)
    {
      fprintf(out, "{\"e\":\"Crashed\",\"x\":%d}\n", i);
      r.crashed++;
    }
    if (status[i] == 2)
    {
      fprintf(out, "{\"e\":\"HarnessTimeout\",\"x\":%d}\n", i);
      r.timedOut++;
    }
    fprintf(out, "{\"e\":\"Reset\"}\n");
    r.executions++;
  }
  fclose(out);
  return r;
}

// tiny helpers for the line-based driver input formats
inline std::vector<std::string> split(const std::string &s, char sep)
{
  std::vector<std::string> o;
  std::string cur;
  for (char c : s)
  {
    if (c == sep)
    {
      o.push_back(cur);
      cur.clear();
    }
    else
      cur += c;
  }
  o.push_back(cur);
  return o;
}
inline std::vector<std::string> words(const std::string &s)
{
  std::vector<std::string> o;
  std::string cur;
  for (char c : s)
  {
    if (c == ' ' || c == '\t' || c == '\n' || c == '\r')
    {
      if (!cur.empty()) o.push_back(cur);
      cur.clear();
    }
    else
      cur += c;
  }
  if (!cur.empty()) o.push_back(cur);
  return o;
}
inline std::vector<std::string> readLines(const std::string &path)
{
  std::vector<std::string> o;
  FILE *f = fopen(path.c_str(), "r");
  if (!f) return o;
  char *line = nullptr;
  size_t cap = 0;
  ssize_t k;
  while ((k = getline(&line, &cap, f)) > 0)
  {
    std::string s(line, k);
    while (!s.empty() && (s.back() == '\n' || s.back() == '\r')) s.pop_back();
    if (!s.empty()) o.push_back(s);
  }
  free(line);
  fclose(f);
  return o;
}

} // namespace vf
