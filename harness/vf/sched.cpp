// vf::sched implementation — see sched.hpp.  Built WITHOUT sanitizer instrumentation (so that the baton passing
// below adds no happens-before edges ThreadSanitizer could see) and uses raw futexes + a spin lock only.
#include "sched.hpp"

#include <atomic>
#include <cerrno>
#include <climits>
#include <cstdio>
#include <cstdlib>
#include <cstring>
#include <dlfcn.h>
#include <linux/futex.h>
#include <map>
#include <memory>
#include <pthread.h>
#include <sched.h>
#include <set>
#include <sys/syscall.h>
#include <time.h>
#include <unistd.h>

namespace
{

// ------------------------------------------------------------------ real functions
using mutex_fn = int (*)(pthread_mutex_t *);
using cond_fn = int (*)(pthread_cond_t *);
using condwait_fn = int (*)(pthread_cond_t *, pthread_mutex_t *);
using condtimed_fn = int (*)(pthread_cond_t *, pthread_mutex_t *, const struct timespec *);
using condclock_fn = int (*)(pthread_cond_t *, pthread_mutex_t *, clockid_t, const struct timespec *);
using rw_fn = int (*)(pthread_rwlock_t *);
using create_fn = int (*)(pthread_t *, const pthread_attr_t *, void *(*)(void *), void *);
using join_fn = int (*)(pthread_t, void **);
using yield_fn = int (*)();
using nanosleep_fn = int (*)(const struct timespec *, struct timespec *);
using clocknanosleep_fn = int (*)(clockid_t, int, const struct timespec *, struct timespec *);
using usleep_fn = int (*)(useconds_t);
using clockget_fn = int (*)(clockid_t, struct timespec *);

mutex_fn r_mutex_lock, r_mutex_trylock, r_mutex_unlock;
cond_fn r_cond_signal, r_cond_broadcast;
condwait_fn r_cond_wait;
condtimed_fn r_cond_timedwait;
condclock_fn r_cond_clockwait;
rw_fn r_rw_rdlock, r_rw_wrlock, r_rw_unlock, r_rw_tryrdlock, r_rw_trywrlock;
create_fn r_create;
join_fn r_join;
yield_fn r_yield;
// libc's syscall(): the scheduler's own futex calls must not go through vf/sched_io.cpp's interposer
long (*r_syscall)(long, ...) = nullptr;
nanosleep_fn r_nanosleep;
clocknanosleep_fn r_clock_nanosleep;
usleep_fn r_usleep;
clockget_fn r_clock_gettime;
bool g_resolved = false;

void resolve()
{
  if (g_resolved) return;
  r_mutex_lock = (mutex_fn)dlsym(RTLD_NEXT, "pthread_mutex_lock");
  r_mutex_trylock = (mutex_fn)dlsym(RTLD_NEXT, "pthread_mutex_trylock");
  r_mutex_unlock = (mutex_fn)dlsym(RTLD_NEXT, "pthread_mutex_unlock");
  r_cond_signal = (cond_fn)dlsym(RTLD_NEXT, "pthread_cond_signal");
  r_cond_broadcast = (cond_fn)dlsym(RTLD_NEXT, "pthread_cond_broadcast");
  r_cond_wait = (condwait_fn)dlsym(RTLD_NEXT, "pthread_cond_wait");
  r_cond_timedwait = (condtimed_fn)dlsym(RTLD_NEXT, "pthread_cond_timedwait");
  r_cond_clockwait = (condclock_fn)dlsym(RTLD_NEXT, "pthread_cond_clockwait");
  r_rw_rdlock = (rw_fn)dlsym(RTLD_NEXT, "pthread_rwlock_rdlock");
  r_rw_wrlock = (rw_fn)dlsym(RTLD_NEXT, "pthread_rwlock_wrlock");
  r_rw_unlock = (rw_fn)dlsym(RTLD_NEXT, "pthread_rwlock_unlock");
  r_rw_tryrdlock = (rw_fn)dlsym(RTLD_NEXT, "pthread_rwlock_tryrdlock");
  r_rw_trywrlock = (rw_fn)dlsym(RTLD_NEXT, "pthread_rwlock_trywrlock");
  r_create = (create_fn)dlsym(RTLD_NEXT, "pthread_create");
  r_join = (join_fn)dlsym(RTLD_NEXT, "pthread_join");
  r_yield = (yield_fn)dlsym(RTLD_NEXT, "sched_yield");
  r_syscall = (long (*)(long, ...))dlsym(RTLD_NEXT, "syscall");
  r_nanosleep = (nanosleep_fn)dlsym(RTLD_NEXT, "nanosleep");
  r_clock_nanosleep = (clocknanosleep_fn)dlsym(RTLD_NEXT, "clock_nanosleep");
  r_usleep = (usleep_fn)dlsym(RTLD_NEXT, "usleep");
  r_clock_gettime = (clockget_fn)dlsym(RTLD_NEXT, "clock_gettime");
  g_resolved = true;
}
__attribute__((constructor(101))) void resolveCtor() { resolve(); }

// ------------------------------------------------------------------ freed synchronisation objects (ASan builds)
// The scheduler itself is not instrumented and emulates condition variables, so an operation on a mutex / condition
// variable / rwlock that lives in memory the program has already freed would go unnoticed.  In an AddressSanitizer build
// of the driver the runtime can be asked: the operation is checked at the moment it is performed (after the grant).
extern "C" void *__asan_region_is_poisoned(void *beg, size_t size) __attribute__((weak));
static void checkLive(void *p, size_t n, const char *what)
{
  if (!__asan_region_is_poisoned || !p) return;
  if (__asan_region_is_poisoned(p, n))
  {
    char buf[160];
    int k = snprintf(buf, sizeof buf, "vf::sched: %s on a synchronisation object in freed (poisoned) memory at %p - use after free\n", what, p);
    if (k > 0) (void)!::write(2, buf, (size_t)k);
    abort();
  }
}

// ------------------------------------------------------------------ low-level blocking
long futexWait(std::atomic<int> *w, int val, int timeoutMs)
{
  struct timespec ts;
  ts.tv_sec = timeoutMs / 1000;
  ts.tv_nsec = (long)(timeoutMs % 1000) * 1000000L;
  return r_syscall(SYS_futex, (int *)w, FUTEX_WAIT_PRIVATE, val, timeoutMs >= 0 ? &ts : nullptr, nullptr, 0);
}
void futexWake(std::atomic<int> *w) { r_syscall(SYS_futex, (int *)w, FUTEX_WAKE_PRIVATE, INT_MAX, nullptr, nullptr, 0); }

std::atomic_flag g_spin = ATOMIC_FLAG_INIT;
struct Lock
{
  Lock()
  {
    while (g_spin.test_and_set(std::memory_order_acquire))
    {
      if (r_yield) r_yield();
    }
  }
  ~Lock() { g_spin.clear(std::memory_order_release); }
};

// ------------------------------------------------------------------ state
enum St
{
  Starting,
  Running,
  AtPoint,
  CvWaiting,
  Finished,
  Extern
};
enum Op
{
  OpNone,
  OpStart,
  OpPoint,
  OpLock,
  OpTryLock,
  OpUnlock,
  OpCvWait,
  OpSignal,
  OpBroadcast,
  OpRdLock,
  OpWrLock,
  OpRwUnlock,
  OpCreate,
  OpJoin,
  OpYield,
  OpSleep,
  OpResume
};
const char *opName(int op)
{
  static const char *n[] = {"none",   "start",     "point",  "lock",   "trylock",  "unlock", "cv_wait", "signal",
                            "bcast",  "rdlock",    "wrlock", "rwunlock", "create", "join",   "yield",   "sleep", "resume"};
  return n[op];
}

struct Th
{
  int id = -1;
  std::string name;
  int state = Starting;
  int op = OpNone;
  void *a = nullptr;
  void *b = nullptr;
  bool timed = false;
  bool notified = false;
  long waitInst = 0;
  long long deadlineAdv = 0; // virtual advance needed for this timed wait to be over
  long long wakeAt = 0;      // earliest-deadline-first idle policy: virtual time at which this low-priority step is due
  int yieldStreak = 0;
  std::atomic<int> go{0};
  int grantKind = 0; // 0 normal, 1 timeout
  pthread_t pth{};
  bool hasPth = false;
  int children = 0;
  std::string label;
  std::function<void()> body;
  void *(*start)(void *) = nullptr;
  void *arg = nullptr;
};

// fixed-size (no heap traffic between threads: the scheduler must stay invisible to ThreadSanitizer's allocator hooks)
struct Token
{
  void *cv = nullptr;
  int n = 0;
  long el[64];
  bool has(long w) const
  {
    for (int i = 0; i < n; ++i)
      if (el[i] == w) return true;
    return false;
  }
  void drop(long w)
  {
    for (int i = 0; i < n; ++i)
      if (el[i] == w)
      {
        el[i] = el[n - 1];
        --n;
        return;
      }
  }
};

struct RwState
{
  int readers = 0;
  bool writer = false;
};

struct Global
{
  std::vector<std::unique_ptr<Th>> th;
  std::map<void *, int> owner; // mutex -> tid
  std::map<void *, RwState> rw;
  Token tokens[128];
  int nTokens = 0;
  long nextWait = 1;
  std::atomic<int> ctl{0};
  vf::Options opt;
  uint64_t rng = 1;
  bool active = false;
  // virtual time for registered threads: frozen at reset, advanced only by timed-out waits and sleeps
  long long mono0 = 0, real0 = 0;
  std::atomic<long long> vadv{0};
  std::atomic<long> unfairJumps{0};
  int idleStreak = 0; // consecutive scheduling decisions with no normally enabled thread (guarded by the scheduler lock)
};
Global *G = nullptr;
thread_local Th *t_cur = nullptr;
thread_local int t_pass = 0;
thread_local std::string *t_nextChild = nullptr; // name for the next thread this thread creates
std::atomic<int> g_anon{0};                      // unnamed children (created by the code under test): w1, w2, ...

void bumpCtl()
{
  G->ctl.fetch_add(1, std::memory_order_release);
  futexWake(&G->ctl);
}

uint64_t nextRand()
{
  // xorshift64*
  uint64_t x = G->rng;
  x ^= x >> 12;
  x ^= x << 25;
  x ^= x >> 27;
  G->rng = x;
  return x * 2685821657736338717ULL;
}

inline Th *cur() { return (G && G->active && t_pass == 0) ? t_cur : nullptr; }

// Park at a schedule point until the controller grants the step. Returns grant kind.
int atPoint(Th *t, int op, void *a, void *b, bool timed, const char *label = nullptr)
{
  int g;
  {
    Lock l;
    t->op = op;
    t->a = a;
    t->b = b;
    t->timed = timed;
    t->label = label ? label : "";
    if (op == OpYield)
    {
      // a spinning thread is treated as sleeping for a tiny, exponentially growing virtual time (1 us .. 100 ms): it never
      // starves sleepers and timed waiters, and they never overtake it by more than that
      // (the exponent also grows while the whole system is idle - only sleepers, spinners and timed waiters left -, so a
      // poll loop that passes a labelled point or takes a lock between two yields still lets virtual time reach the next
      // deadline in a few dozen steps instead of hundreds of thousands)
      int streak = t->yieldStreak > G->idleStreak ? t->yieldStreak : G->idleStreak;
      long long back = 1000LL << (streak < 17 ? streak : 17);
      if (back > 100000000LL) back = 100000000LL;
      t->wakeAt = G->vadv.load() + back;
      ++t->yieldStreak;
    }
    else if (op != OpSleep && op != OpResume && op != OpPoint)
      t->yieldStreak = 0;
    t->state = AtPoint;
    g = t->go.load(std::memory_order_relaxed);
  }
  bumpCtl();
  while (t->go.load(std::memory_order_acquire) == g) futexWait(&t->go, g, -1);
  return t->grantKind;
}

void *trampoline(void *p)
{
  Th *t = (Th *)p;
  t_cur = t;
  void *rv = nullptr;
  if (t->start)
  {
    // a thread created by the code under test: its first step is "Start"
    atPoint(t, OpStart, nullptr, nullptr, false);
    rv = t->start(t->arg);
  }
  else
  {
    // a driver thread: parks at its own first explicit schedule point
    t->body();
  }
  t_cur = nullptr;
  {
    Lock l;
    t->state = Finished;
  }
  bumpCtl();
  return rv;
}

Th *newThread(const std::string &name)
{
  auto u = std::make_unique<Th>();
  Th *t = u.get();
  t->id = (int)G->th.size();
  t->name = name;
  t->state = Starting;
  G->th.push_back(std::move(u));
  return t;
}

bool mutexFree(void *m) { return G->owner.find(m) == G->owner.end(); }

bool hasToken(Th *t)
{
  for (int i = 0; i < G->nTokens; ++i)
    if (G->tokens[i].cv == t->a && G->tokens[i].has(t->waitInst)) return true;
  return false;
}
void removeTokenAt(int i)
{
  G->tokens[i] = G->tokens[G->nTokens - 1];
  --G->nTokens;
}
void consumeToken(Th *t)
{
  // the OLDEST matching token (tokens are kept in creation order except for swaps on removal; any match is admissible)
  for (int i = 0; i < G->nTokens; ++i)
    if (G->tokens[i].cv == t->a && G->tokens[i].has(t->waitInst))
    {
      removeTokenAt(i);
      break;
    }
}
void leaveTokens(Th *t)
{
  for (int i = 0; i < G->nTokens;)
  {
    G->tokens[i].drop(t->waitInst);
    if (G->tokens[i].n == 0)
      removeTokenAt(i);
    else
      ++i;
  }
}

// cls: 0 = not enabled, 1 = normal, 2 = low priority (timeout of a timed wait, sleep, yield)
int enabledClass(Th *t, int *kind)
{
  *kind = 0;
  if (t->state == AtPoint)
  {
    switch (t->op)
    {
    case OpLock:
      return mutexFree(t->a) ? 1 : 0;
    case OpRdLock:
    {
      auto it = G->rw.find(t->a);
      return (it == G->rw.end() || !it->second.writer) ? 1 : 0;
    }
    case OpWrLock:
    {
      auto it = G->rw.find(t->a);
      return (it == G->rw.end() || (!it->second.writer && it->second.readers == 0)) ? 1 : 0;
    }
    case OpJoin:
    {
      Th *u = (Th *)t->a;
      return u->state == Finished ? 1 : 0;
    }
    case OpYield:
    case OpSleep:
      return 2;
    default:
      return 1;
    }
  }
  if (t->state == CvWaiting)
  {
    if (!mutexFree(t->b)) return 0;
    if (t->notified || hasToken(t)) return 1;
    if (t->timed)
    {
      *kind = 1;
      return 2;
    }
  }
  return 0;
}

void grant(Th *t, int kind)
{
  {
    Lock l;
    t->grantKind = kind;
    t->state = Running;
    t->go.fetch_add(1, std::memory_order_release);
  }
  futexWake(&t->go);
}

// shared implementation of the three condition waits
long long tsNs(const struct timespec *ts) { return (long long)ts->tv_sec * 1000000000LL + ts->tv_nsec; }

void advanceTo(long long adv)
{
  long long cur = G->vadv.load();
  while (adv > cur && !G->vadv.compare_exchange_weak(cur, adv))
  {
  }
}

// deadlineAdv: how far virtual time must have advanced for the wait to be over (-1: untimed)
int doCondWait(Th *t, pthread_cond_t *c, pthread_mutex_t *m, bool timed, long long deadlineAdv = 0)
{
  atPoint(t, OpCvWait, c, m, timed);
  checkLive(c, sizeof *c, "pthread_cond_wait");
  checkLive(m, sizeof *m, "pthread_cond_wait (mutex)");
  t->deadlineAdv = deadlineAdv;
  t->wakeAt = deadlineAdv;
  // granted: atomically (w.r.t. the schedule: nobody else runs) release the mutex and park
  r_mutex_unlock(m);
  int g;
  {
    Lock l;
    G->owner.erase(m);
    t->a = c;
    t->b = m;
    t->timed = timed;
    t->notified = false;
    t->waitInst = G->nextWait++;
    t->state = CvWaiting;
    g = t->go.load(std::memory_order_relaxed);
  }
  bumpCtl();
  while (t->go.load(std::memory_order_acquire) == g) futexWait(&t->go, g, -1);
  int kind = t->grantKind;
  if (kind == 1) advanceTo(t->deadlineAdv);
  {
    Lock l;
    if (kind == 0 && !t->notified) consumeToken(t);
    leaveTokens(t);
    t->notified = false;
  }
  checkLive(m, sizeof *m, "pthread_cond_wait (re-acquiring the mutex)");
  r_mutex_lock(m);
  {
    Lock l;
    G->owner[m] = t->id;
  }
  return kind == 1 ? ETIMEDOUT : 0;
}

void markSignal(void *cv, bool all)
{
  if (!G || !G->active) return;
  Lock l;
  if (all)
  {
    for (auto &u : G->th)
      if (u->state == CvWaiting && u->a == cv) u->notified = true;
  }
  else
  {
    if (G->nTokens >= 128) return;
    Token &k = G->tokens[G->nTokens];
    k.cv = cv;
    k.n = 0;
    for (auto &u : G->th)
      if (u->state == CvWaiting && u->a == cv && !u->notified && k.n < 64) k.el[k.n++] = u->waitInst;
    if (k.n > 0) ++G->nTokens;
  }
}

} // namespace

// ==================================================================== interposed functions
extern "C"
{

int pthread_mutex_lock(pthread_mutex_t *m)
{
  if (!g_resolved) resolve();
  Th *t = cur();
  if (!t) return r_mutex_lock(m);
  atPoint(t, OpLock, m, nullptr, false);
  checkLive(m, sizeof *m, "pthread_mutex_lock");
  int rc = r_mutex_lock(m);
  {
    Lock l;
    G->owner[m] = t->id;
  }
  return rc;
}

int pthread_mutex_trylock(pthread_mutex_t *m)
{
  if (!g_resolved) resolve();
  Th *t = cur();
  if (!t) return r_mutex_trylock(m);
  atPoint(t, OpTryLock, m, nullptr, false);
  checkLive(m, sizeof *m, "pthread_mutex_trylock");
  int rc = r_mutex_trylock(m);
  if (rc == 0)
  {
    Lock l;
    G->owner[m] = t->id;
  }
  return rc;
}

int pthread_mutex_unlock(pthread_mutex_t *m)
{
  if (!g_resolved) resolve();
  Th *t = cur();
  if (!t) return r_mutex_unlock(m);
  atPoint(t, OpUnlock, m, nullptr, false);
  checkLive(m, sizeof *m, "pthread_mutex_unlock");
  {
    Lock l;
    G->owner.erase(m);
  }
  int rc = r_mutex_unlock(m);
  // optionally a second schedule point right AFTER the unlock: the code between an unlock and the thread's next
  // synchronisation operation (a callback invoked outside the lock, a spawn, a notify decision) is then a step of its
  // own, so other threads can run inside that window
  if (G->opt.pointAfterUnlock) atPoint(t, OpResume, nullptr, nullptr, false);
  return rc;
}

int pthread_cond_wait(pthread_cond_t *c, pthread_mutex_t *m)
{
  if (!g_resolved) resolve();
  Th *t = cur();
  if (!t) return r_cond_wait(c, m);
  return doCondWait(t, c, m, false);
}

int pthread_cond_timedwait(pthread_cond_t *c, pthread_mutex_t *m, const struct timespec *ts)
{
  if (!g_resolved) resolve();
  Th *t = cur();
  if (!t) return r_cond_timedwait(c, m, ts);
  return doCondWait(t, c, m, true, tsNs(ts) - G->real0 + 1);
}

int pthread_cond_clockwait(pthread_cond_t *c, pthread_mutex_t *m, clockid_t clk, const struct timespec *ts)
{
  if (!g_resolved) resolve();
  Th *t = cur();
  if (!t) return r_cond_clockwait(c, m, clk, ts);
  return doCondWait(t, c, m, true, tsNs(ts) - (clk == CLOCK_REALTIME ? G->real0 : G->mono0) + 1);
}

int pthread_cond_signal(pthread_cond_t *c)
{
  if (!g_resolved) resolve();
  Th *t = cur();
  if (t) atPoint(t, OpSignal, c, nullptr, false);
  if (t) checkLive(c, sizeof *c, "pthread_cond_signal");
  markSignal(c, false);
  return r_cond_signal(c);
}

int pthread_cond_broadcast(pthread_cond_t *c)
{
  if (!g_resolved) resolve();
  Th *t = cur();
  if (t) atPoint(t, OpBroadcast, c, nullptr, false);
  if (t) checkLive(c, sizeof *c, "pthread_cond_broadcast");
  markSignal(c, true);
  return r_cond_broadcast(c);
}

int pthread_rwlock_rdlock(pthread_rwlock_t *m)
{
  if (!g_resolved) resolve();
  Th *t = cur();
  if (!t) return r_rw_rdlock(m);
  atPoint(t, OpRdLock, m, nullptr, false);
  int rc = r_rw_rdlock(m);
  {
    Lock l;
    G->rw[m].readers++;
  }
  return rc;
}

int pthread_rwlock_wrlock(pthread_rwlock_t *m)
{
  if (!g_resolved) resolve();
  Th *t = cur();
  if (!t) return r_rw_wrlock(m);
  atPoint(t, OpWrLock, m, nullptr, false);
  int rc = r_rw_wrlock(m);
  {
    Lock l;
    G->rw[m].writer = true;
  }
  return rc;
}

int pthread_rwlock_unlock(pthread_rwlock_t *m)
{
  if (!g_resolved) resolve();
  Th *t = cur();
  if (!t) return r_rw_unlock(m);
  atPoint(t, OpRwUnlock, m, nullptr, false);
  {
    Lock l;
    auto &s = G->rw[m];
    if (s.writer)
      s.writer = false;
    else if (s.readers > 0)
      s.readers--;
  }
  return r_rw_unlock(m);
}

int pthread_create(pthread_t *out, const pthread_attr_t *attr, void *(*start)(void *), void *arg)
{
  if (!g_resolved) resolve();
  Th *t = cur();
  if (!t) return r_create(out, attr, start, arg);
  atPoint(t, OpCreate, nullptr, nullptr, false);
  Th *c;
  {
    Lock l;
    std::string nm;
    if (t_nextChild && !t_nextChild->empty())
    {
      nm = *t_nextChild;
      t_nextChild->clear();
    }
    else
      nm = "w" + std::to_string(g_anon.fetch_add(1) + 1);
    c = newThread(nm);
    c->start = start;
    c->arg = arg;
  }
  int rc = r_create(out, attr, trampoline, c);
  {
    Lock l;
    if (rc == 0)
    {
      c->pth = *out;
      c->hasPth = true;
    }
    else
      c->state = Finished;
  }
  return rc;
}

int pthread_join(pthread_t th, void **rv)
{
  if (!g_resolved) resolve();
  Th *t = cur();
  if (!t) return r_join(th, rv);
  Th *target = nullptr;
  {
    Lock l;
    for (auto &u : G->th)
      if (u->hasPth && pthread_equal(u->pth, th)) target = u.get();
  }
  if (!target) return r_join(th, rv);
  atPoint(t, OpJoin, target, nullptr, false);
  return r_join(th, rv);
}

int sched_yield(void)
{
  if (!g_resolved) resolve();
  Th *t = cur();
  if (!t) return r_yield();
  atPoint(t, OpYield, nullptr, nullptr, false);
  if (G->opt.earliestDeadlineFirst) advanceTo(t->wakeAt);
  return 0;
}

int nanosleep(const struct timespec *req, struct timespec *rem)
{
  if (!g_resolved) resolve();
  Th *t = cur();
  if (!t) return r_nanosleep(req, rem);
  t->wakeAt = G->vadv.load() + tsNs(req);
  atPoint(t, OpSleep, nullptr, nullptr, false);
  if (G->opt.earliestDeadlineFirst)
    advanceTo(t->wakeAt);
  else
    G->vadv.fetch_add(tsNs(req));
  if (rem) rem->tv_sec = 0, rem->tv_nsec = 0;
  return 0;
}

int clock_nanosleep(clockid_t clk, int flags, const struct timespec *req, struct timespec *rem)
{
  if (!g_resolved) resolve();
  Th *t = cur();
  if (!t) return r_clock_nanosleep(clk, flags, req, rem);
  t->wakeAt = (flags & TIMER_ABSTIME) ? tsNs(req) - (clk == CLOCK_REALTIME ? G->real0 : G->mono0) : G->vadv.load() + tsNs(req);
  atPoint(t, OpSleep, nullptr, nullptr, false);
  if ((flags & TIMER_ABSTIME) || G->opt.earliestDeadlineFirst)
    advanceTo(t->wakeAt);
  else
    G->vadv.fetch_add(tsNs(req));
  if (rem) rem->tv_sec = 0, rem->tv_nsec = 0;
  return 0;
}

int usleep(useconds_t us)
{
  if (!g_resolved) resolve();
  Th *t = cur();
  if (!t) return r_usleep(us);
  t->wakeAt = G->vadv.load() + (long long)us * 1000LL;
  atPoint(t, OpSleep, nullptr, nullptr, false);
  if (G->opt.earliestDeadlineFirst)
    advanceTo(t->wakeAt);
  else
    G->vadv.fetch_add((long long)us * 1000LL);
  return 0;
}

int clock_gettime(clockid_t clk, struct timespec *ts)
{
  if (!g_resolved) resolve();
  Th *t = cur();
  if (!t || (clk != CLOCK_MONOTONIC && clk != CLOCK_REALTIME && clk != CLOCK_MONOTONIC_COARSE && clk != CLOCK_REALTIME_COARSE))
    return r_clock_gettime(clk, ts);
  long long v = ((clk == CLOCK_REALTIME || clk == CLOCK_REALTIME_COARSE) ? G->real0 : G->mono0) + G->vadv.load();
  ts->tv_sec = v / 1000000000LL;
  ts->tv_nsec = v % 1000000000LL;
  return 0;
}

} // extern "C"

// ==================================================================== controller
namespace vf
{

void reset(const Options &o)
{
  resolve();
  // a fresh Global per execution; the old one (if any) is leaked on purpose: abandoned threads may still point into it
  G = new Global();
  G->th.reserve(256);
  G->opt = o;
  G->rng = o.seed * 0x9E3779B97F4A7C15ULL + 0x1234567ULL;
  if (G->rng == 0) G->rng = 1;
  g_anon = 0;
  struct timespec ts;
  r_clock_gettime(CLOCK_MONOTONIC, &ts);
  G->mono0 = tsNs(&ts);
  r_clock_gettime(CLOCK_REALTIME, &ts);
  G->real0 = tsNs(&ts);
  G->active = true;
}

int spawn(const std::string &name, std::function<void()> body)
{
  Th *c;
  {
    Lock l;
    c = newThread(name);
    c->body = std::move(body);
  }
  pthread_t p;
  int rc = r_create(&p, nullptr, trampoline, c);
  if (rc != 0)
  {
    fprintf(stderr, "vf::spawn: pthread_create failed: %d\n", rc);
    abort();
  }
  {
    Lock l;
    c->pth = p;
    c->hasPth = true;
  }
  return c->id;
}

static bool waitQuiescent(int watchdogMs)
{
  int waited = 0;
  for (;;)
  {
    int v = G->ctl.load(std::memory_order_acquire);
    bool busy = false;
    {
      Lock l;
      for (auto &u : G->th)
        if (u->state == Starting || u->state == Running) busy = true;
    }
    if (!busy) return true;
    if (waited >= watchdogMs) return false;
    futexWait(&G->ctl, v, 20);
    waited += 20;
    // (a wake-up before the timeout is counted as 20 ms as well: the watchdog is an upper bound, coarse on purpose)
    if (G->ctl.load(std::memory_order_acquire) != v) waited -= 20;
  }
}

Result run()
{
  Result res;
  size_t planPos = 0;
  int last = -1;
  int extWait = 0;
  const bool stepLog = getenv("VF_STEPLOG") != nullptr; // debugging aid: one line per scheduling decision on stderr
  for (int step = 0;; ++step)
  {
    if (!waitQuiescent(G->opt.watchdogMs))
    {
      res.outcome = Outcome::External;
      Lock l;
      for (auto &u : G->th)
        if (u->state == Starting || u->state == Running) res.stuck.push_back(u->name + "@running");
      return res;
    }
    std::vector<int> normal, low;
    std::vector<int> kinds;
    bool allDone = true;
    {
      Lock l;
      kinds.assign(G->th.size(), 0);
      for (auto &u : G->th)
      {
        if (u->state == Extern) continue;
        if (u->state != Finished) allDone = false;
        int k = 0;
        int c = enabledClass(u.get(), &k);
        kinds[u->id] = k;
        if (c == 1) normal.push_back(u->id);
        if (c == 2) low.push_back(u->id);
      }
    }
    if (allDone)
    {
      res.outcome = Outcome::Done;
      return res;
    }
    if (normal.empty() && low.empty())
    {
      bool ext = false;
      {
        Lock l;
        for (auto &u : G->th)
          if (u->state == Extern) ext = true;
      }
      if (ext)
      {
        // somebody is blocked outside the scheduler: give it real time
        int v = G->ctl.load();
        futexWait(&G->ctl, v, 20);
        extWait += 20;
        if (extWait > G->opt.watchdogMs)
        {
          res.outcome = Outcome::External;
          return res;
        }
        --step;
        continue;
      }
      res.outcome = Outcome::Stuck;
      Lock l;
      for (auto &u : G->th)
        if (u->state != Finished)
          res.stuck.push_back(u->name + "@" + (u->state == CvWaiting ? "cv_parked" : opName(u->op)));
      return res;
    }
    if (step >= G->opt.maxSteps)
    {
      res.outcome = Outcome::StepLimit;
      return res;
    }

    auto inVec = [](const std::vector<int> &v, int x)
    {
      for (int y : v)
        if (y == x) return true;
      return false;
    };
    // earliest-deadline-first: of the low-priority candidates only those that are due first are eligible (for the random
    // choice, the non-preemptive default and the alternatives recorded for the DFS); an explicit plan may still name any
    std::vector<int> lowDue = low;
    if (G->opt.earliestDeadlineFirst && low.size() > 1)
    {
      long long best = 0;
      lowDue.clear();
      Lock l;
      for (int id : low)
      {
        long long w = G->th[id]->wakeAt;
        if (lowDue.empty() || w < best)
        {
          best = w;
          lowDue.assign(1, id);
        }
        else if (w == best)
          lowDue.push_back(id);
      }
    }
    int pick = -1;
    int kind = 0;
    bool fromPlan = false;
    if ((G->opt.policy == Policy::Replay || G->opt.policy == Policy::Prefix) && !res.drift)
    {
      // plan entries:  "t"      step thread t once
      //                "t!"     step t (a timed waiter) with a timeout wake-up
      //                "t*op"   keep stepping t until its pending operation is `op` (e.g. create, unlock, cv_wait,
      //                         point:<label>) or it is no longer enabled; "t*" = until it blocks or finishes.
      //                         Lets a coarse (critical-section grain) behaviour be replayed on the sync-op grain.
      while (planPos < G->opt.plan.size() && pick < 0 && !res.drift)
      {
        std::string e = G->opt.plan[planPos];
        bool wantTimeout = false, until = false;
        std::string stopOp;
        auto star = e.find('*');
        if (star != std::string::npos)
        {
          until = true;
          stopOp = e.substr(star + 1);
          e = e.substr(0, star);
        }
        else if (!e.empty() && e.back() == '!')
        {
          wantTimeout = true;
          e.pop_back();
        }
        int id = -1;
        std::string pendingOp;
        {
          Lock l;
          for (auto &u : G->th)
            if (u->name == e)
            {
              id = u->id;
              if (u->state == CvWaiting)
                pendingOp = "wake";
              else if (u->state == AtPoint)
                pendingOp = u->op == OpPoint ? "point:" + u->label : opName(u->op);
            }
        }
        bool en = id >= 0 && (inVec(normal, id) || inVec(low, id));
        if (until)
        {
          // "t*" (no stop operation) ends when t is no longer *normally* enabled: it blocked, finished, or only a
          // timeout / sleep / yield could move it
          if (!en || (!stopOp.empty() && pendingOp == stopOp) || (stopOp.empty() && !inVec(normal, id)))
          {
            ++planPos; // this entry is complete: go on with the next one
            continue;
          }
          if (inVec(low, id) && !inVec(normal, id)) kind = kinds[id];
          pick = id;
          fromPlan = true;
          break;
        }
        ++planPos;
        if (en)
        {
          // a timed waiter that holds a token may still be asked to time out
          if (wantTimeout)
          {
            Lock l;
            Th *u = G->th[id].get();
            if (u->state == CvWaiting && u->timed)
              kind = 1;
            else
              id = -1;
          }
          else if (inVec(low, id) && !inVec(normal, id))
            kind = kinds[id];
        }
        else
          id = -1;
        if (id >= 0)
        {
          pick = id;
          fromPlan = true;
        }
        else
        {
          res.drift = true;
          res.driftAt = step;
        }
      }
    }
    if (pick < 0)
    {
      if (G->opt.policy == Policy::Random)
      {
        bool preferLow = !low.empty() && !normal.empty() && !G->opt.timeoutsOnlyWhenIdle &&
                         (int)(nextRand() % 1000) < G->opt.timeoutPermille;
        if (!normal.empty() && !preferLow)
          pick = normal[nextRand() % normal.size()];
        else if (!preferLow)
          pick = lowDue[nextRand() % lowDue.size()];
        else
          pick = low[nextRand() % low.size()];
      }
      else
      {
        // non-preemptive default: keep running the last thread while it is (normally) enabled
        if (inVec(normal, last))
          pick = last;
        else if (!normal.empty())
          pick = normal[0];
        else
        {
          // rotate among low-priority threads so that a spinning thread cannot starve the others
          pick = lowDue[0];
          for (int x : lowDue)
            if (x > last)
            {
              pick = x;
              break;
            }
        }
      }
      if (inVec(low, pick) && !inVec(normal, pick)) kind = kinds[pick];
    }
    // a time-out or sleep taken while another thread could run, or ahead of an earlier deadline, moves virtual time
    // "unfairly": the oracle's real-time rules do not judge intervals that contain one
    if (inVec(low, pick) && !inVec(normal, pick) && (!normal.empty() || !inVec(lowDue, pick)))
    {
      Lock l;
      if (G->th[pick]->wakeAt > G->vadv.load()) G->unfairJumps.fetch_add(1);
    }
    (void)fromPlan;
    Step s;
    s.tid = pick;
    {
      Lock l;
      Th *u = G->th[pick].get();
      s.thread = u->name;
      if (u->state == CvWaiting)
        s.op = kind == 1 ? "timeout" : "wake";
      else if (u->op == OpPoint)
        s.op = "point:" + u->label;
      else
        s.op = opName(u->op);
    }
    s.enabled = normal;
    for (int x : lowDue) s.enabled.push_back(x);
    {
      Lock l;
      G->idleStreak = normal.empty() ? G->idleStreak + 1 : 0;
    }
    if (stepLog) fprintf(stderr, "[step %d] %s/%s%s\n", step, s.thread.c_str(), s.op.c_str(), fromPlan ? " (plan)" : "");
    res.steps.push_back(std::move(s));
    last = pick;
    grant(G->th[pick].get(), kind);
  }
}

void point(const char *label)
{
  Th *t = cur();
  if (!t) return;
  atPoint(t, OpPoint, nullptr, nullptr, false, label);
}

long long virtualAdvanceNs() { return G ? G->vadv.load() : 0; }
long unfairJumps() { return G ? G->unfairJumps.load() : 0; }
void advanceVirtualNs(long long ns)
{
  if (G) G->vadv.fetch_add(ns);
}

void nameNextChild(const std::string &name)
{
  if (!t_nextChild) t_nextChild = new std::string();
  *t_nextChild = name;
}

int liveThreads(const char *prefix)
{
  if (!G) return 0;
  int n = 0;
  Lock l;
  for (auto &u : G->th)
    if (u->state != Finished && u->name.rfind(prefix, 0) == 0) ++n;
  return n;
}

int threadPhase(const std::string &name)
{
  if (!G) return 2;
  Lock l;
  for (auto &u : G->th)
    if (u->name == name)
    {
      if (u->state == Finished) return 2;
      if (u->state == CvWaiting) return 1;
      return 0;
    }
  return 2; // not created (yet) or unknown: callers treat it as "not active"
}

int self() { return t_cur ? t_cur->id : -1; }
const char *selfName() { return t_cur ? t_cur->name.c_str() : "-"; }

void externBegin()
{
  Th *t = cur();
  if (!t) return;
  {
    Lock l;
    t->state = Extern;
  }
  ++t_pass;
  bumpCtl();
}

void externEnd()
{
  if (!t_cur) return;
  --t_pass;
  Th *t = t_cur;
  // come back through a schedule point so that the controller regains control
  atPoint(t, OpPoint, nullptr, nullptr, false, "extern_end");
}

} // namespace vf
