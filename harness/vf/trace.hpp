// ndjson event log shared by all drivers: one JSON object per line, field "e" = event name.
// The log is protected by a spin lock (never by a pthread mutex, which would be a schedule point).
#pragma once
#include <atomic>
#include <cstdio>
#include <string>
#include <vector>

namespace vf
{

struct Ev
{
  std::string s;
  explicit Ev(const char *e)
  {
    s = "{\"e\":\"";
    s += e;
    s += "\"";
  }
  Ev &i(const char *k, long long v)
  {
    s += ",\"";
    s += k;
    s += "\":";
    s += std::to_string(v);
    return *this;
  }
  Ev &b(const char *k, bool v)
  {
    s += ",\"";
    s += k;
    s += "\":";
    s += v ? "true" : "false";
    return *this;
  }
  static std::string esc(const std::string &v)
  {
    std::string o;
    for (unsigned char c : v)
    {
      if (c == '"' || c == '\\')
      {
        o += '\\';
        o += (char)c;
      }
      else if (c < 0x20 || c >= 0x7f)
      {
        char b[8];
        snprintf(b, sizeof b, "\\u%04x", c);
        o += b;
      }
      else
        o += (char)c;
    }
    return o;
  }
  Ev &str(const char *k, const std::string &v)
  {
    s += ",\"";
    s += k;
    s += "\":\"";
    s += esc(v);
    s += "\"";
    return *this;
  }
  template <class It> Ev &ints(const char *k, It b, It e)
  {
    s += ",\"";
    s += k;
    s += "\":[";
    bool first = true;
    for (; b != e; ++b)
    {
      if (!first) s += ",";
      first = false;
      s += std::to_string((long long)*b);
    }
    s += "]";
    return *this;
  }
  Ev &strs(const char *k, const std::vector<std::string> &v)
  {
    s += ",\"";
    s += k;
    s += "\":[";
    for (size_t i = 0; i < v.size(); ++i)
    {
      if (i) s += ",";
      s += "\"" + esc(v[i]) + "\"";
    }
    s += "]";
    return *this;
  }
  Ev &raw(const char *k, const std::string &json)
  {
    s += ",\"";
    s += k;
    s += "\":";
    s += json;
    return *this;
  }
  std::string done() const { return s + "}"; }
};

class Trace
{
public:
  void add(const Ev &e)
  {
    lock();
    _lines.push_back(e.done());
    unlock();
  }
  void addLine(const std::string &s)
  {
    lock();
    _lines.push_back(s);
    unlock();
  }
  std::string text()
  {
    std::string o;
    lock();
    for (auto &l : _lines)
    {
      o += l;
      o += "\n";
    }
    unlock();
    return o;
  }
  size_t size()
  {
    lock();
    size_t n = _lines.size();
    unlock();
    return n;
  }
  void clear()
  {
    lock();
    _lines.clear();
    unlock();
  }

private:
  void lock()
  {
    while (_f.test_and_set(std::memory_order_acquire))
    {
    }
  }
  void unlock() { _f.clear(std::memory_order_release); }
  std::atomic_flag _f = ATOMIC_FLAG_INIT;
  std::vector<std::string> _lines;
};

} // namespace vf
