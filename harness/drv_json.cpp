// C13 conformance driver: iora::parsers::Json (parse / parseOrThrow / dump / serialize) and JsonFileStore.
//
//   drv_json run <cases> <out.ndjson> <batch> <parallel>     cases are processed by forked workers (parsers_run.hpp): a sanitizer
//                                                           abort or a hang costs one case, reported as {"e":"Crashed"|"Hung","k":line}
//   drv_json store <cases> <out.ndjson> <dir>                JsonFileStore set -> flush -> reopen -> get
//
// case lines (written by checks/C13.py, all fields without blanks):
//   P <id> <flags> <depthMax> <arrayItemsMax> <membersMax> <stringLengthMax> <hex of the input | ->
//        flags: b = echo the input bytes into the event (inputs the generator did not produce), d = also serialise the
//        parsed value in four variants, - = none
//   B <id> <canonical value>          build the value through the C++ API (no parser involved), then serialise it
// events (one JSON object per line; judged by spec/parsers/JsonTrace.tla):
//   Parse {id,n,ld,la,lm,ls,ok,oval,off,thr,tsame[,bytes]}   oval = canonical form of the decoded value (see JsonEval.tla)
//   Build {id,want,got}
//   Dump  {id,opt,of,fin,u8,bytes,rok,rval}   of = canonical form of the value that was serialised, bytes = the output,
//                                             rok/rval = what the real parser makes of that output
// The input is handed to the parser in an exact-size heap block without a trailing NUL, so that a cursor running past the
// end is an AddressSanitizer report (the .asan build is the one the check runs).
#include "iora/parsers/json.hpp"
#include "parsers_run.hpp"
#include "vf/exec.hpp"
#include "vf/trace.hpp"
#include <charconv>
#include <cmath>
#include <map>
#include <set>

using iora::parsers::Json;
using iora::parsers::ParseLimits;

static std::string hexOf(const std::string &s)
{
  static const char *d = "0123456789abcdef";
  std::string o;
  for (unsigned char c : s)
  {
    o += d[c >> 4];
    o += d[c & 15];
  }
  return o;
}
static std::string unhex(const std::string &h)
{
  std::string o;
  if (h == "-") return o;
  auto v = [](char c) { return c <= '9' ? c - '0' : (c | 32) - 'a' + 10; };
  for (size_t i = 0; i + 1 < h.size(); i += 2) o += (char)(v(h[i]) * 16 + v(h[i + 1]));
  return o;
}

// decimal mantissa/exponent form shared with the specification: #<digits>e<exp>, no leading/trailing zeros in digits
static std::string canonDigits(bool neg, std::string digs, long e)
{
  size_t lz = 0;
  while (lz < digs.size() && digs[lz] == '0') ++lz;
  digs = digs.substr(lz);
  while (!digs.empty() && digs.back() == '0')
  {
    digs.pop_back();
    ++e;
  }
  if (digs.empty()) return "#0";
  return std::string("#") + (neg ? "-" : "") + digs + "e" + std::to_string(e);
}
static std::string canonInt(std::int64_t i)
{
  bool neg = i < 0;
  unsigned long long u = neg ? 0ULL - (unsigned long long)i : (unsigned long long)i;
  return canonDigits(neg, std::to_string(u), 0);
}
static std::string canonDouble(double d)
{
  if (std::isnan(d)) return "#nan";
  if (std::isinf(d)) return d < 0 ? "#-inf" : "#inf";
  if (d == 0) return "#0";
  char buf[64];
  auto r = std::to_chars(buf, buf + sizeof buf, d, std::chars_format::scientific); // shortest round-trip form
  std::string s(buf, r.ptr);                                                       // [-]d[.ddd]e[+-]dd
  bool neg = s[0] == '-';
  if (neg) s = s.substr(1);
  size_t epos = s.find('e');
  std::string mant = s.substr(0, epos);
  long ex = std::strtol(s.c_str() + epos + 1, nullptr, 10);
  std::string digs;
  long frac = 0;
  bool dot = false;
  for (char c : mant)
  {
    if (c == '.')
      dot = true;
    else
    {
      digs += c;
      if (dot) ++frac;
    }
  }
  return canonDigits(neg, digs, ex - frac);
}

struct Facts
{
  bool finite = true;
  bool utf8 = true;
};
static bool validUtf8(const std::string &s)
{
  size_t i = 0, n = s.size();
  while (i < n)
  {
    unsigned char c = s[i];
    int need;
    unsigned lo = 0x80, hi = 0xbf;
    if (c < 0x80)
    {
      ++i;
      continue;
    }
    else if (c >= 0xc2 && c <= 0xdf)
      need = 1;
    else if (c == 0xe0)
      need = 2, lo = 0xa0;
    else if ((c >= 0xe1 && c <= 0xec) || c == 0xee || c == 0xef)
      need = 2;
    else if (c == 0xed)
      need = 2, hi = 0x9f;
    else if (c == 0xf0)
      need = 3, lo = 0x90;
    else if (c >= 0xf1 && c <= 0xf3)
      need = 3;
    else if (c == 0xf4)
      need = 3, hi = 0x8f;
    else
      return false;
    ++i;
    for (int k = 0; k < need; ++k, ++i)
    {
      if (i >= n) return false;
      unsigned char d = s[i];
      if (d < lo || d > hi) return false;
      lo = 0x80;
      hi = 0xbf;
    }
  }
  return true;
}

static std::string canon(const Json &j, Facts &f)
{
  if (j.isNull()) return "n";
  if (j.isBool()) return j.getBool() ? "t" : "f";
  if (j.isInt()) return canonInt(j.getInt());
  if (j.isDouble())
  {
    if (!std::isfinite(j.getDouble())) f.finite = false;
    return canonDouble(j.getDouble());
  }
  if (j.isString())
  {
    if (!validUtf8(j.getString())) f.utf8 = false;
    return "'" + hexOf(j.getString()) + "'";
  }
  if (j.isArray())
  {
    std::string o = "[";
    bool first = true;
    for (const auto &e : j.getArray())
    {
      if (!first) o += ",";
      first = false;
      o += canon(e, f);
    }
    return o + "]";
  }
  // object: keys in unsigned byte order
  auto less = [](const std::string &a, const std::string &b)
  { return std::lexicographical_compare(a.begin(), a.end(), b.begin(), b.end(), [](char x, char y) { return (unsigned char)x < (unsigned char)y; }); };
  std::map<std::string, const Json *, decltype(less)> m(less);
  for (const auto &kv : j.getObject())
  {
    if (!validUtf8(kv.first)) f.utf8 = false;
    m[kv.first] = &kv.second;
  }
  std::string o = "{";
  bool first = true;
  for (const auto &kv : m)
  {
    if (!first) o += ",";
    first = false;
    o += "'" + hexOf(kv.first) + "':" + canon(*kv.second, f);
  }
  return o + "}";
}

// ---- build a value from its canonical form through the C++ API (numbers: mode 'i' = integer if it fits, 'd' = double)
struct Builder
{
  const std::string &c;
  size_t pos = 0;
  char numMode;
  bool ok = true;
  Builder(const std::string &s, char m) : c(s), numMode(m) {}
  std::string str()
  {
    size_t e = c.find('\'', pos + 1);
    std::string h = c.substr(pos + 1, e - pos - 1);
    pos = e + 1;
    return unhex(h.empty() ? "-" : h);
  }
  Json val()
  {
    char ch = c[pos];
    if (ch == 'n')
    {
      ++pos;
      return Json(nullptr);
    }
    if (ch == 't' || ch == 'f')
    {
      ++pos;
      return Json(ch == 't');
    }
    if (ch == '#')
    {
      size_t e = pos + 1;
      while (e < c.size() && (isdigit((unsigned char)c[e]) || c[e] == '-' || c[e] == 'e')) ++e;
      std::string t = c.substr(pos + 1, e - pos - 1);
      pos = e;
      if (t == "0") return numMode == 'i' ? Json((std::int64_t)0) : Json(0.0);
      double d = std::strtod(t.c_str(), nullptr); // libc, not the code under test
      if (numMode == 'i' && std::fabs(d) < 9e15 && d == std::floor(d)) return Json((std::int64_t)d);
      return Json(d);
    }
    if (ch == '\'') return Json(str());
    if (ch == '[')
    {
      ++pos;
      Json a = Json::array();
      if (c[pos] == ']')
      {
        ++pos;
        return a;
      }
      while (true)
      {
        a.push_back(val());
        if (c[pos] == ',')
        {
          ++pos;
          continue;
        }
        ++pos; // ]
        return a;
      }
    }
    if (ch == '{')
    {
      ++pos;
      Json o = Json::object();
      if (c[pos] == '}')
      {
        ++pos;
        return o;
      }
      while (true)
      {
        std::string k = str();
        ++pos; // :
        o[k] = val();
        if (c[pos] == ',')
        {
          ++pos;
          continue;
        }
        ++pos; // }
        return o;
      }
    }
    ok = false;
    pos = c.size();
    return Json();
  }
};

static std::string bytesJson(const std::string &s)
{
  std::string o = "[";
  for (size_t i = 0; i < s.size(); ++i)
  {
    if (i) o += ",";
    o += std::to_string((unsigned char)s[i]);
  }
  return o + "]";
}

struct ExactBuf
{
  char *p;
  size_t n;
  explicit ExactBuf(const std::string &s) : p(new char[s.size()]), n(s.size()) { memcpy(p, s.data(), n); }
  ~ExactBuf() { delete[] p; }
  std::string_view view() const { return std::string_view(p, n); }
};

static long clampOff(size_t v) { return v > (1u << 30) ? (1 << 30) : (long)v; }

static void dumps(vf::Trace &tr, long id, const Json &v, std::set<std::string> &seen)
{
  Facts f;
  std::string of = canon(v, f);
  struct Var
  {
    const char *name;
    int indent;
    bool sort;
  } vars[] = {{"c", -1, false}, {"p", 2, false}, {"s", -1, true}, {"ps", 1, true}};
  for (auto &va : vars)
  {
    std::string text = va.sort || va.indent >= 0 ? v.dump(va.indent, ' ', false, va.sort) : v.dump();
    if (va.name[0] == 'p' && va.name[1] == 's')
    {
      // the options structure directly, with a tab as indentation
      iora::parsers::SerializeOptions o;
      o.pretty = true;
      o.sortKeys = true;
      o.indent = "\t";
      text = v.serialize(o);
    }
    std::string key = std::string(va.name) + "|" + text + "|" + of;
    if (!seen.insert(key).second) continue;
    if (text.size() > 400) continue; // keep events small; inputs are small, so this does not trigger
    ExactBuf b(text);
    auto r = Json::parse(b.view());
    Facts f2;
    std::string rval = r.ok ? canon(r.value, f2) : "";
    tr.add(vf::Ev("Dump").i("id", id).str("opt", va.name).str("of", of).b("fin", f.finite).b("u8", f.utf8).raw("bytes", bytesJson(text)).b("rok", r.ok).str("rval", rval));
  }
}

static std::string runCase(const std::string &line)
{
  vf::Trace tr;
  static std::set<std::string> seen; // per worker process: identical serialisations are reported once
  {
    auto w = vf::words(line);
    if (w.empty()) return "";
    if (w[0] == "P" && w.size() >= 8)
    {
      long id = atol(w[1].c_str());
      const std::string &flags = w[2];
      ParseLimits lim;
      lim.depthMax = strtoul(w[3].c_str(), nullptr, 10);
      lim.arrayItemsMax = strtoul(w[4].c_str(), nullptr, 10);
      lim.membersMax = strtoul(w[5].c_str(), nullptr, 10);
      lim.stringLengthMax = strtoul(w[6].c_str(), nullptr, 10);
      std::string input = unhex(w[7]);
      ExactBuf b(input);
      auto r = Json::parse(b.view(), lim);
      Facts f;
      std::string oval = r.ok ? canon(r.value, f) : "";
      bool thr = false, tsame = false;
      try
      {
        Json t = Json::parseOrThrow(b.view(), lim);
        Facts f2;
        tsame = canon(t, f2) == oval;
      }
      catch (const std::exception &)
      {
        thr = true;
      }
      vf::Ev e("Parse");
      e.i("id", id).i("n", (long)input.size()).i("ld", (long)lim.depthMax).i("la", (long)lim.arrayItemsMax).i("lm", (long)lim.membersMax).i("ls", (long)lim.stringLengthMax);
      e.b("ok", r.ok).str("oval", oval).i("off", r.ok ? 0 : clampOff(r.error.where.offset)).b("thr", thr).b("tsame", tsame);
      if (flags.find('b') != std::string::npos) e.raw("bytes", bytesJson(input));
      tr.add(e);
      if (r.ok && flags.find('d') != std::string::npos) dumps(tr, id, r.value, seen);
    }
    else if (w[0] == "B" && w.size() >= 3)
    {
      long id = atol(w[1].c_str());
      for (char mode : {'i', 'd'})
      {
        Builder bd(w[2], mode);
        Json v = bd.val();
        Facts f;
        std::string got = bd.ok ? canon(v, f) : "?";
        tr.add(vf::Ev("Build").i("id", id).str("mode", std::string(1, mode)).str("want", w[2]).str("got", got));
        dumps(tr, id, v, seen);
      }
    }
  }
  return tr.text();
}

#ifndef DRV_JSON_NO_STORE
#include "iora/storage/json_file_store.hpp"
static int storeMode(const std::string &casesPath, const std::string &outPath, const std::string &dir)
{
  iora::core::Logger::setLevel(iora::core::Logger::Level::Fatal);
  auto lines = vf::readLines(casesPath);
  vf::Trace tr;
  mkdir(dir.c_str(), 0777);
  std::string file = dir + "/store.json";
  int n = 0;
  for (auto &ln : lines)
  {
    auto w = vf::words(ln);
    if (w.size() < 3 || w[0] != "B") continue;
    unlink(file.c_str());
    Builder bd(w[2], 'd');
    Json v = bd.val();
    std::string key = "k" + std::to_string(n++);
    std::string got = "?";
    {
      iora::storage::JsonFileStore st(file);
      if (v.isString())
        st.set(key, v.getString());
      else if (v.isDouble())
        st.set(key, v.getDouble());
      else if (v.isInt())
        st.set(key, v.getInt());
      else
        continue;
      st.flush();
    }
    {
      iora::storage::JsonFileStore st(file);
      if (v.isString())
      {
        auto g = st.get(key);
        if (g) got = "'" + hexOf(*g) + "'";
      }
      else if (v.isDouble())
      {
        auto g = st.get<double>(key);
        if (g) got = canonDouble(*g);
      }
      else
      {
        auto g = st.get<std::int64_t>(key);
        if (g) got = canonInt(*g);
      }
    }
    tr.add(vf::Ev("Store").i("id", atol(w[1].c_str())).str("want", w[2]).str("got", got));
  }
  unlink(file.c_str());
  FILE *f = fopen(outPath.c_str(), "w");
  std::string t = tr.text();
  fwrite(t.data(), 1, t.size(), f);
  fclose(f);
  return 0;
}
#endif

int main(int argc, char **argv)
{
  if (argc >= 6 && std::string(argv[1]) == "run")
  {
    auto lines = vf::readLines(argv[2]);
    size_t batch = strtoul(argv[4], nullptr, 10);
    int par = atoi(argv[5]);
    if (batch == 0) batch = 1;
    auto r = vfp::runResilient((int)lines.size(), (int)batch, par, 30.0, argv[3], [&](int k) { return runCase(lines[k]); });
    printf("cases=%d crashed=%d hung=%d workers=%d\n", r.cases, r.crashed, r.hung, r.workers);
    return 0;
  }
#ifndef DRV_JSON_NO_STORE
  if (argc >= 5 && std::string(argv[1]) == "store") return storeMode(argv[2], argv[3], argv[4]);
#endif
  fprintf(stderr, "usage: drv_json run <cases> <out> <batch> <parallel> | store <cases> <out> <dir>\n");
  return 2;
}
