// Extra X11: iora::network::EventBatchProcessor replayed along TLC behaviours of spec/extra/BatchProc.tla.
// The ENVIRONMENT is scripted: this executable defines epoll_wait itself (symbol interposition, like vf/sched.cpp does for
// pthread_*), so iora's inline ::epoll_wait call lands here.  Level-triggered model: every scripted descriptor has a count
// of unread tokens, it stays in the ready queue while it has tokens; epoll_wait reports the first min(maxevents, |queue|)
// descriptors and moves them to the tail; a handler invocation that takes an event reads one token.  One scheduled thread
// only - the scheduler is used for its VIRTUAL CLOCK (clock_gettime interposed): handler cost / wait cost / idle time
// advance virtual time exactly, so elapsed times, the 100 ms adjustment throttle and the statistics are deterministic.
//
//   drv_s_batchproc run <cases.txt> <out.ndjson> [chunk]
// case (one line, ops separated by blanks; "real" as first word: real epoll + eventfds instead of the script):
//   N,max,ad,delay,thr,lfn,lfd,spmask  construct (loadFactor = lfn/lfd, spmask: bit f set = special handler takes fd f)
//   S,fd   make fd ready once more        B,w,c  processBatch: wait costs w us, each taking handler call costs c us
//   I      processBatch, wait -> EINTR    F      processBatch, wait -> EBADF       W,d   idle d us
//   U,max,ad,delay,thr,lfn,lfd  updateConfig      X,k  setFixedBatchSize(k)        R     resetStats
//   D      drain: processBatch until a wait comes back empty (or throws), then End{left}
// Events: Begin Submit Batch Idle UpdateConfig SetFixed ResetStats End   (fields: see BatchProcTrace.tla)
#include "iora/network/event_batch_processor.hpp"
#include "vf/exec.hpp"
#include "vf/sched.hpp"
#include "vf/trace.hpp"
#include <algorithm>
#include <map>
#include <memory>
#include <sys/eventfd.h>
#include <sys/syscall.h>
#include <unistd.h>
using namespace iora::network;

namespace
{
struct Env
{
  bool active = false;
  bool real = false;
  // script
  std::vector<int> rq;
  std::map<int, int> pend;
  int mode = 0; // 0 ok, 1 EINTR, 2 EBADF
  long long waitUs = 0;
  // record of the last processBatch
  int calls = 0, maxev = 0, timeout = 0;
  std::string res = "-";
  std::vector<int> ret;
  // real mode
  std::map<int, int> real2script, script2real;
  int epfd = -1;
} E;

void take(int fd) // a handler reads one token
{
  if (E.real)
  {
    uint64_t v;
    auto it = E.script2real.find(fd);
    if (it != E.script2real.end() && ::read(it->second, &v, sizeof v) == (ssize_t)sizeof v && E.pend[fd] > 0) E.pend[fd]--;
    return;
  }
  if (E.pend[fd] > 0) E.pend[fd]--;
  if (E.pend[fd] == 0) E.rq.erase(std::remove(E.rq.begin(), E.rq.end(), fd), E.rq.end());
}
} // namespace

extern "C" int epoll_wait(int epfd, struct epoll_event *ev, int maxevents, int timeout)
{
  if (!E.active) return (int)syscall(SYS_epoll_wait, epfd, ev, maxevents, timeout);
  E.calls++;
  E.maxev = maxevents;
  E.timeout = timeout;
  E.ret.clear();
  if (E.real)
  {
    int n = (int)syscall(SYS_epoll_wait, epfd, ev, maxevents, timeout);
    if (n < 0)
      E.res = errno == EINVAL ? "einval" : errno == EBADF ? "ebadf" : errno == EINTR ? "eintr" : "other";
    else if (n == 0)
    {
      E.res = "empty";
      vf::advanceVirtualNs((long long)timeout * 1000000LL);
    }
    else
    {
      E.res = "ok";
      for (int i = 0; i < n; ++i) E.ret.push_back(E.real2script.count(ev[i].data.fd) ? E.real2script[ev[i].data.fd] : -1);
    }
    return n;
  }
  if (maxevents <= 0) // Linux: EINVAL is tested before the descriptor is looked at
  {
    E.res = "einval";
    errno = EINVAL;
    return -1;
  }
  if (E.mode == 1)
  {
    E.res = "eintr";
    errno = EINTR;
    return -1;
  }
  if (E.mode == 2)
  {
    E.res = "ebadf";
    errno = EBADF;
    return -1;
  }
  if (E.rq.empty())
  {
    E.res = "empty";
    vf::advanceVirtualNs((long long)timeout * 1000000LL); // the wait lasts the whole timeout
    return 0;
  }
  if (E.waitUs > 0) vf::advanceVirtualNs(E.waitUs * 1000LL);
  int k = std::min<int>(maxevents, (int)E.rq.size());
  for (int i = 0; i < k; ++i)
  {
    ev[i].events = EPOLLIN;
    ev[i].data.u64 = 0;
    ev[i].data.fd = E.rq[i];
    E.ret.push_back(E.rq[i]);
  }
  std::rotate(E.rq.begin(), E.rq.begin() + k, E.rq.end());
  E.res = "ok";
  return k;
}

namespace
{
long long nowUs() { return vf::virtualAdvanceNs() / 1000; }

BatchProcessingConfig mkCfg(const std::vector<std::string> &a, size_t at)
{
  BatchProcessingConfig c;
  c.maxBatchSize = (std::size_t)atoll(a[at].c_str());
  c.enableAdaptiveSizing = atoi(a[at + 1].c_str()) != 0;
  c.maxBatchDelay = std::chrono::microseconds(atoll(a[at + 2].c_str()));
  c.adaptiveThreshold = std::chrono::microseconds(atoll(a[at + 3].c_str()));
  c.loadFactor = (double)atoll(a[at + 4].c_str()) / (double)atoll(a[at + 5].c_str());
  return c;
}
void cfgFields(vf::Ev &ev, const std::vector<std::string> &a, size_t at)
{
  ev.i("max", atoll(a[at].c_str())).b("ad", atoi(a[at + 1].c_str()) != 0).i("delay", atoll(a[at + 2].c_str()));
  ev.i("thr", atoll(a[at + 3].c_str())).i("lfn", atoll(a[at + 4].c_str())).i("lfd", atoll(a[at + 5].c_str()));
}
void observe(vf::Ev &ev, EventBatchProcessor &p)
{
  auto c = p.getConfig();
  auto s = p.getStats();
  ev.i("cmax", (long long)c.maxBatchSize).b("cad", c.enableAdaptiveSizing).i("cdelay", (long long)c.maxBatchDelay.count());
  ev.i("tb", (long long)s.totalBatches).i("te", (long long)s.totalEvents).i("mx", (long long)s.maxBatchSize);
  ev.i("mn", (long long)s.minBatchSize).i("adj", (long long)s.adaptiveAdjustments).i("tt", (long long)s.totalBatchTime.count());
  ev.i("avg", (long long)s.avgBatchTime.count());
}

// one processBatch with the scripted environment; returns the result class
std::string doBatch(vf::Trace &tr, EventBatchProcessor &p, unsigned spmask, int mode, long long w, long long c)
{
  std::vector<int> sp, gen;
  long long cb = -1, cbel = -1;
  E.mode = mode;
  E.waitUs = w;
  E.calls = 0;
  E.maxev = 0;
  E.timeout = 0;
  E.res = "-";
  E.ret.clear();
  auto scripted = [&](int fd) { return !E.real ? fd : E.real2script.count(fd) ? E.real2script[fd] : -1; };
  auto special = [&](int rfd, std::uint32_t) -> bool
  {
    int fd = scripted(rfd);
    sp.push_back(fd);
    if (fd >= 0 && fd < 32 && (spmask >> fd & 1))
    {
      take(fd);
      if (c > 0) vf::advanceVirtualNs(c * 1000LL);
      return true;
    }
    return false;
  };
  EventHandler general = [&](int rfd, std::uint32_t)
  {
    int fd = scripted(rfd);
    gen.push_back(fd);
    take(fd);
    if (c > 0) vf::advanceVirtualNs(c * 1000LL);
  };
  BatchCompleteHandler done = [&](std::size_t n, std::chrono::microseconds t)
  {
    cb = cb >= 0 ? 1000000 + (long long)n : (long long)n; // a second call would show
    cbel = (long long)t.count();
  };
  bool thrown = false;
  long long errc = 0;
  long long t0 = nowUs();
  try
  {
    p.processBatch(E.epfd, general, special, done);
  }
  catch (const std::system_error &e)
  {
    thrown = true;
    errc = e.code().value();
  }
  catch (...)
  {
    thrown = true;
    errc = -1;
  }
  long long dt = nowUs() - t0;
  vf::Ev ev("Batch");
  ev.str("mode", mode == 0 ? "ok" : mode == 1 ? "eintr" : "ebadf").i("w", E.real ? 0 : w).i("c", c).i("calls", E.calls);
  ev.i("maxev", E.maxev).i("timeout", E.timeout).str("res", E.res);
  ev.ints("ret", E.ret.begin(), E.ret.end()).ints("sp", sp.begin(), sp.end()).ints("gen", gen.begin(), gen.end());
  ev.i("cb", cb).i("cbel", cbel).b("thrown", thrown).i("errc", errc).i("dt", dt);
  observe(ev, p);
  tr.add(ev);
  return thrown ? "thrown" : E.res;
}

void runCase(vf::Trace &tr, const std::vector<std::string> &opsIn, int idx)
{
  std::vector<std::string> ops = opsIn;
  E = Env();
  E.active = true;
  if (!ops.empty() && ops[0] == "real")
  {
    E.real = true;
    ops.erase(ops.begin());
    E.epfd = epoll_create1(0);
    for (int f = 1; f <= 3; ++f)
    {
      int r = eventfd(0, EFD_SEMAPHORE | EFD_NONBLOCK);
      E.real2script[r] = f;
      E.script2real[f] = r;
      epoll_event ee{};
      ee.events = EPOLLIN;
      ee.data.fd = r;
      epoll_ctl(E.epfd, EPOLL_CTL_ADD, r, &ee);
    }
  }
  else
    E.epfd = 1000; // never looked at by the script
  std::unique_ptr<EventBatchProcessor> p;
  unsigned spmask = 0;
  for (auto &op : ops)
  {
    auto a = vf::split(op, ',');
    const std::string &k = a[0];
    if (k == "N")
    {
      spmask = (unsigned)atoi(a[7].c_str());
      p = std::make_unique<EventBatchProcessor>(mkCfg(a, 1));
      vf::Ev ev("Begin");
      ev.i("x", idx).b("real", E.real);
      cfgFields(ev, a, 1);
      std::vector<int> sps;
      unsigned sm = (unsigned)atoi(a[7].c_str());
      for (int f = 0; f < 32; ++f)
        if (sm >> f & 1) sps.push_back(f);
      ev.ints("special", sps.begin(), sps.end());
      observe(ev, *p);
      tr.add(ev);
      continue;
    }
    if (!p) continue;
    if (k == "S")
    {
      int fd = atoi(a[1].c_str());
      if (E.real)
      {
        uint64_t one = 1;
        if (::write(E.script2real[fd], &one, sizeof one) != (ssize_t)sizeof one) abort();
        E.pend[fd]++;
      }
      else
      {
        if (E.pend[fd]++ == 0) E.rq.push_back(fd);
      }
      tr.add(vf::Ev("Submit").i("fd", fd));
    }
    else if (k == "B")
      doBatch(tr, *p, spmask, 0, atoll(a[1].c_str()), atoll(a[2].c_str()));
    else if (k == "I")
      doBatch(tr, *p, spmask, 1, 0, 0);
    else if (k == "F")
      doBatch(tr, *p, spmask, 2, 0, 0);
    else if (k == "W")
    {
      long long d = atoll(a[1].c_str());
      vf::advanceVirtualNs(d * 1000LL);
      tr.add(vf::Ev("Idle").i("d", d));
    }
    else if (k == "U")
    {
      p->updateConfig(mkCfg(a, 1));
      vf::Ev ev("UpdateConfig");
      cfgFields(ev, a, 1);
      observe(ev, *p);
      tr.add(ev);
    }
    else if (k == "X")
    {
      p->setFixedBatchSize((std::size_t)atoll(a[1].c_str()));
      vf::Ev ev("SetFixed");
      ev.i("k", atoll(a[1].c_str()));
      observe(ev, *p);
      tr.add(ev);
    }
    else if (k == "R")
    {
      p->resetStats();
      vf::Ev ev("ResetStats");
      observe(ev, *p);
      tr.add(ev);
    }
    else if (k == "D")
    {
      for (int i = 0; i < 64; ++i)
        if (doBatch(tr, *p, spmask, 0, 0, 0) != "ok") break;
      long long left = 0;
      for (auto &kv : E.pend) left += kv.second;
      tr.add(vf::Ev("End").i("left", left));
    }
  }
  if (E.real)
  {
    for (auto &kv : E.real2script) ::close(kv.first);
    ::close(E.epfd);
  }
  E.active = false;
}

std::string runChunk(const std::vector<std::vector<std::string>> &cases, int from, int to)
{
  auto tr = std::make_shared<vf::Trace>();
  vf::Options o;
  o.policy = vf::Policy::Random;
  o.maxSteps = 1000000;
  vf::reset(o);
  vf::spawn("main",
            [tr, &cases, from, to]()
            {
              vf::point("start");
              for (int i = from; i < to; ++i)
              {
                if (i > from) tr->addLine("{\"e\":\"Reset\"}");
                runCase(*tr, cases[i], i);
              }
            });
  vf::run();
  return tr->text();
}
} // namespace

int main(int argc, char **argv)
{
  if (argc < 4 || std::string(argv[1]) != "run") return 2;
  auto lines = vf::readLines(argv[2]);
  std::vector<std::vector<std::string>> cases;
  for (auto &ln : lines) cases.push_back(vf::words(ln));
  int chunk = argc > 4 ? atoi(argv[4]) : 100;
  if (chunk < 1) chunk = 1;
  int nchunks = ((int)cases.size() + chunk - 1) / chunk;
  auto res = vf::runMany(nchunks, 8, 120.0, std::string(argv[3]) + ".d", argv[3],
                         [&](int i) { return runChunk(cases, i * chunk, std::min<int>((int)cases.size(), (i + 1) * chunk)); });
  printf("cases=%d chunks=%d crashed=%d timedout=%d\n", (int)cases.size(), res.executions, res.crashed, res.timedOut);
  return 0;
}
