// Extra: iora::network::CircuitBreaker replayed along TLC behaviours under virtual time (one scheduled thread).
//   drv_s_circuit run <cases.txt> <out.ndjson>        case: A S F T ...   (Allow, Success, Failure, Tick = 1 s)
// Events: Begin  Allow{ret,state,failures,successes,requests}  Success{..}  Failure{..}  Tick
#include "iora/network/circuit_breaker.hpp"
#include "vf/exec.hpp"
#include "vf/sched.hpp"
#include "vf/trace.hpp"
#include <memory>
#include <thread>
using namespace iora::network;
static const char *sname(CircuitBreakerState s) { return s == CircuitBreakerState::Closed ? "Closed" : s == CircuitBreakerState::Open ? "Open" : "HalfOpen"; }
static std::string runOne(const std::vector<std::string> &ops)
{
  auto tr = std::make_shared<vf::Trace>();
  tr->add(vf::Ev("Begin"));
  vf::Options o;
  o.policy = vf::Policy::Random;
  o.maxSteps = 100000;
  vf::reset(o);
  vf::spawn("main",
            [tr, &ops]()
            {
              vf::point("start");
              CircuitBreakerConfig cfg;
              cfg.failureThreshold = 2;
              cfg.timeout = std::chrono::seconds(2);
              cfg.successThreshold = 2;
              cfg.minimumRequests = 4;
              cfg.failureRateThreshold = 0.5;
              // the object stores steady_clock time points: start well away from the epoch so that "time since the last
              // failure" of a fresh breaker is large, as on a real machine (uptime >> timeout)
              CircuitBreaker cb(cfg);
              auto log = [&](const char *e, const char *ret)
              {
                auto st = cb.getStats();
                vf::Ev ev(e);
                if (ret) ev.str("ret", ret);
                ev.str("state", sname(st.state)).i("failures", st.failureCount).i("successes", st.successCount).i("requests", (long long)st.totalRequests);
                tr->add(ev);
              };
              for (auto &op : ops)
              {
                if (op == "A")
                {
                  bool r = cb.allowRequest();
                  log("Allow", r ? "true" : "false");
                }
                else if (op == "S")
                {
                  cb.recordSuccess();
                  log("Success", nullptr);
                }
                else if (op == "F")
                {
                  cb.recordFailure();
                  log("Failure", nullptr);
                }
                else if (op == "T")
                {
                  std::this_thread::sleep_for(std::chrono::seconds(1));
                  tr->add(vf::Ev("Tick"));
                }
              }
            });
  vf::run();
  return tr->text();
}
int main(int argc, char **argv)
{
  if (argc < 4 || std::string(argv[1]) != "run") return 2;
  auto lines = vf::readLines(argv[2]);
  std::vector<std::vector<std::string>> cases;
  for (auto &ln : lines) cases.push_back(vf::words(ln));
  auto res = vf::runMany((int)cases.size(), 16, 30.0, std::string(argv[3]) + ".d", argv[3], [&](int i) { return runOne(cases[i]); });
  printf("executions=%d crashed=%d timedout=%d\n", res.executions, res.crashed, res.timedOut);
  return 0;
}
