// C05, real engines: two threads call stop() concurrently while sessions are open.  "No callback is invoked after stop has
// returned to a non-callback caller": each close callback reads at its START whether some stop() call had already returned
// (flag set by the caller right after its stop() returned - a happens-before fact, no timestamps are compared).
//   drv_stoprace <tcp|udp> <out.ndjson>
// Events: Begin{proto}  Cb{k,as}  StopRet{t}  End{closes}
#include "iora/network/transport.hpp"
#include "iora/network/transport_impl.hpp"
#include "vf/trace.hpp"

#include <arpa/inet.h>
#include <atomic>
#include <netinet/in.h>
#include <sys/socket.h>
#include <thread>
#include <unistd.h>

using namespace iora::network;

int main(int argc, char **argv)
{
  if (argc < 3) return 2;
  iora::core::Logger::setLevel(iora::core::Logger::Level::Fatal);
  std::string proto = argv[1];
  vf::Trace tr;
  tr.add(vf::Ev("Begin").str("proto", proto));
  TransportConfig cfg;
  auto t = proto == "tcp" ? Transport::tcp(cfg) : Transport::udp(cfg);
  std::atomic<bool> stopReturned{false};
  std::atomic<int> closes{0}, accepts{0};
  t->onAccept([&](SessionId, const TransportAddress &) { ++accepts; });
  t->onClose(
    [&](SessionId, const TransportErrorInfo &)
    {
      bool as = stopReturned.load(std::memory_order_acquire);
      int k = ++closes;
      tr.add(vf::Ev("Cb").i("k", k).b("as", as));
      if (k == 1) std::this_thread::sleep_for(std::chrono::milliseconds(400)); // the shutdown is now in the middle of its fan-out
    });
  t->onData([&](SessionId, iora::core::BufferView, std::chrono::steady_clock::time_point) {});
  if (!t->start().isOk()) return 3;
  auto lr = t->addListener("127.0.0.1", 0, TlsMode::None);
  if (!lr.isOk()) return 3;
  auto addr = t->getListenerAddress(lr.value());
  int fds[3];
  for (int i = 0; i < 3; ++i)
  {
    fds[i] = socket(AF_INET, proto == "tcp" ? SOCK_STREAM : SOCK_DGRAM, 0);
    sockaddr_in sa{};
    sa.sin_family = AF_INET;
    sa.sin_port = htons(addr.port);
    inet_pton(AF_INET, "127.0.0.1", &sa.sin_addr);
    if (connect(fds[i], (sockaddr *)&sa, sizeof sa) != 0) return 4;
    char c = 'x';
    if (proto != "tcp") (void)!write(fds[i], &c, 1); // UDP: a datagram creates the session
  }
  for (int i = 0; i < 300 && accepts.load() < 3; ++i) std::this_thread::sleep_for(std::chrono::milliseconds(10));
  if (accepts.load() < 3) return 5;
  std::thread a(
    [&]
    {
      t->stop();
      stopReturned.store(true, std::memory_order_release);
      tr.add(vf::Ev("StopRet").str("t", "a"));
    });
  std::this_thread::sleep_for(std::chrono::milliseconds(150)); // a's stop() is inside the first (slow) close callback
  std::thread b(
    [&]
    {
      t->stop();
      stopReturned.store(true, std::memory_order_release);
      tr.add(vf::Ev("StopRet").str("t", "b"));
    });
  a.join();
  b.join();
  for (int i = 0; i < 3; ++i) close(fds[i]);
  tr.add(vf::Ev("End").i("closes", closes.load()));
  FILE *f = fopen(argv[2], "w");
  std::string s = tr.text() + "{\"e\":\"Reset\"}\n";
  fwrite(s.data(), 1, s.size(), f);
  fclose(f);
  return 0;
}
