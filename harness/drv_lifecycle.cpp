// C02, engine level: session life cycle on the REAL TcpEngine / UdpEngine (through Transport) over loopback.
//   drv_lifecycle run <cases.txt> <out.ndjson> [parallel]
//   case: <tcp|udp> | op,op,...
//     listen   peer:<k>   psend:<k>:<n>   pclose:<k>   preset:<k> (RST)   aclose:<nth announced session>
//     connect:self   connect:refused   asend:<nth>:<n>   wait:<ms>   stop   windowconnect
//   windowconnect = stop() on a second thread with the I/O thread paused at the first pthread_rwlock_wrlock it takes inside
//   shutdownDrain (after its process(), before the command queue is closed; interposed here, no source hook), a connect()
//   issued in that window, then release.
// All callbacks run on the single I/O thread; every callback also samples the open-sessions gauge.
// Events: Begin{proto} Accept{s,g} Connect{s,g} Data{s,n,g} Close{s,g} ConnRet{s,ok} LifeCall{op} LifeRet{op} End{g}
#include "iora/network/transport.hpp"
#include "iora/network/transport_impl.hpp"
#include "vf/exec.hpp"
#include "vf/trace.hpp"

#include <arpa/inet.h>
#include <dlfcn.h>
#include <map>
#include <netinet/in.h>
#include <pthread.h>
#include <sys/socket.h>
#include <thread>
#include <unistd.h>

using namespace iora::network;

static std::atomic<int> g_arm{0}, g_at{0}, g_go{0};
extern "C" int pthread_rwlock_wrlock(pthread_rwlock_t *rw)
{
  static auto real = (int (*)(pthread_rwlock_t *))dlsym(RTLD_NEXT, "pthread_rwlock_wrlock");
  int exp = 1;
  if (g_arm.compare_exchange_strong(exp, 2))
  {
    g_at = 1;
    for (int i = 0; i < 3000 && !g_go.load(); ++i) usleep(1000); // bounded: never hang the engine
  }
  return real(rw);
}

static std::string runOne(const std::string &proto, const std::vector<std::string> &ops)
{
  iora::core::Logger::setLevel(iora::core::Logger::Level::Fatal);
  vf::Trace tr;
  tr.add(vf::Ev("Begin").str("proto", proto));
  TransportConfig cfg;
  auto t = proto == "tcp" ? Transport::tcp(cfg) : Transport::udp(cfg);
  std::vector<SessionId> announced;
  std::atomic_flag annLock = ATOMIC_FLAG_INIT;
  auto gauge = [&]() { return (long long)t->getStats().sessionsCurrent; };
  auto addAnn = [&](SessionId s)
  {
    while (annLock.test_and_set())
    {
    }
    announced.push_back(s);
    annLock.clear();
  };
  auto nth = [&](int n) -> SessionId
  {
    SessionId s = 0;
    while (annLock.test_and_set())
    {
    }
    if (n >= 1 && n <= (int)announced.size()) s = announced[n - 1];
    annLock.clear();
    return s;
  };
  t->onAccept([&](SessionId s, const TransportAddress &) { addAnn(s); tr.add(vf::Ev("Accept").i("s", (long long)s).i("g", gauge())); });
  t->onConnect([&](SessionId s, const TransportAddress &) { addAnn(s); tr.add(vf::Ev("Connect").i("s", (long long)s).i("g", gauge())); });
  std::atomic<int> busyMs{0};
  t->onData(
    [&](SessionId s, iora::core::BufferView d, std::chrono::steady_clock::time_point)
    {
      tr.add(vf::Ev("Data").i("s", (long long)s).i("n", (long long)d.size()).i("g", gauge()));
      int b = busyMs.exchange(0);
      if (b > 0) std::this_thread::sleep_for(std::chrono::milliseconds(b)); // a slow application callback keeps the I/O thread busy
    });
  std::atomic<int> reconnects{0};
  std::atomic<int> reconnectPort{0};
  t->onClose(
    [&](SessionId s, const TransportErrorInfo &)
    {
      tr.add(vf::Ev("Close").i("s", (long long)s).i("g", gauge()));
      // reconnect-on-close handler (armed by the op reconnect:<n>): a connect issued from inside the close callback
      if (reconnects.load() > 0 && reconnects.fetch_sub(1) > 0)
      {
        auto r = t->connect("127.0.0.1", (std::uint16_t)reconnectPort.load(), TlsMode::None);
        tr.add(vf::Ev("ConnRet").i("s", r.isOk() ? (long long)r.value() : 0).b("ok", r.isOk()).b("incb", true));
      }
    });
  if (!t->start().isOk()) return tr.text() + "{\"e\":\"SetupFailed\"}\n";
  std::uint16_t port = 0;
  ListenerId lid = 0;
  std::map<int, int> peers;
  bool stopped = false;
  auto settle = [](int ms) { std::this_thread::sleep_for(std::chrono::milliseconds(ms)); };
  for (auto &o : ops)
  {
    auto f = vf::split(o, ':');
    const std::string &op = f[0];
    if (op == "listen")
    {
      auto lr = t->addListener("127.0.0.1", 0, TlsMode::None);
      if (!lr.isOk()) return tr.text() + "{\"e\":\"SetupFailed\"}\n";
      lid = lr.value();
      port = t->getListenerAddress(lr.value()).port;
    }
    else if (op == "peer")
    {
      int k = atoi(f[1].c_str());
      int fd = socket(AF_INET, proto == "tcp" ? SOCK_STREAM : SOCK_DGRAM, 0);
      sockaddr_in sa{};
      sa.sin_family = AF_INET;
      sa.sin_port = htons(port);
      inet_pton(AF_INET, "127.0.0.1", &sa.sin_addr);
      if (connect(fd, (sockaddr *)&sa, sizeof sa) != 0) return tr.text() + "{\"e\":\"SetupFailed\"}\n";
      if (proto != "tcp")
      {
        char c = 'x';
        (void)!write(fd, &c, 1);
      }
      peers[k] = fd;
      settle(40);
    }
    else if (op == "psend")
    {
      std::string buf((size_t)atoi(f[2].c_str()), 'p');
      (void)!write(peers[atoi(f[1].c_str())], buf.data(), buf.size());
      settle(30);
    }
    else if (op == "pclose" || op == "preset")
    {
      int fd = peers[atoi(f[1].c_str())];
      if (op == "preset")
      {
        linger lg{1, 0};
        setsockopt(fd, SOL_SOCKET, SO_LINGER, &lg, sizeof lg);
      }
      close(fd);
      peers.erase(atoi(f[1].c_str()));
      settle(40);
    }
    else if (op == "aclose")
    {
      SessionId s = nth(atoi(f[1].c_str()));
      if (s) t->close(s);
      settle(40);
    }
    else if (op == "asend")
    {
      SessionId s = nth(atoi(f[1].c_str()));
      std::string buf((size_t)atoi(f[2].c_str()), 'a');
      if (s) t->send(s, iora::core::BufferView{(const std::uint8_t *)buf.data(), buf.size()});
      settle(30);
    }
    else if (op == "connect")
    {
      std::uint16_t p = port;
      if (f[1] == "refused")
      {
        int fd = socket(AF_INET, SOCK_STREAM, 0);
        sockaddr_in sa{};
        sa.sin_family = AF_INET;
        inet_pton(AF_INET, "127.0.0.1", &sa.sin_addr);
        bind(fd, (sockaddr *)&sa, sizeof sa);
        socklen_t sl = sizeof sa;
        getsockname(fd, (sockaddr *)&sa, &sl);
        p = ntohs(sa.sin_port);
        close(fd); // nobody listens there now
      }
      auto r = t->connect("127.0.0.1", p, TlsMode::None);
      tr.add(vf::Ev("ConnRet").i("s", r.isOk() ? (long long)r.value() : 0).b("ok", r.isOk()));
      settle(80);
    }
    else if (op == "busy")
      busyMs = atoi(f[1].c_str());
    else if (op == "psendnow")
    {
      std::string buf((size_t)atoi(f[2].c_str()), 'p');
      (void)!write(peers[atoi(f[1].c_str())], buf.data(), buf.size());
      settle(15); // just enough for the data callback to have started
    }
    else if (op == "connectnow")
    {
      auto r = t->connect("127.0.0.1", port, TlsMode::None);
      tr.add(vf::Ev("ConnRet").i("s", r.isOk() ? (long long)r.value() : 0).b("ok", r.isOk()));
    }
    else if (op == "reconnect")
    {
      reconnectPort = port ? port : 9;
      reconnects = atoi(f[1].c_str());
    }
    else if (op == "via")
    {
      // UDP: connectViaListener to the address of raw peer k (a second session on a peer that may already have one)
      int k = atoi(f[1].c_str());
      sockaddr_in sa{};
      socklen_t sl = sizeof sa;
      getsockname(peers[k], (sockaddr *)&sa, &sl);
      auto r = t->connectViaListener(lid, "127.0.0.1", ntohs(sa.sin_port));
      tr.add(vf::Ev("ConnRet").i("s", r.isOk() ? (long long)r.value() : 0).b("ok", r.isOk()));
      settle(60);
      tr.add(vf::Ev("Gauge").i("g", gauge()));
    }
    else if (op == "gauge")
      tr.add(vf::Ev("Gauge").i("g", gauge()));
    else if (op == "wait")
      settle(atoi(f[1].c_str()));
    else if (op == "stop")
    {
      tr.add(vf::Ev("LifeCall").str("op", "stop"));
      t->stop();
      stopped = true;
      tr.add(vf::Ev("LifeRet").str("op", "stop"));
    }
    else if (op == "windowconnect")
    {
      g_arm = 1;
      tr.add(vf::Ev("LifeCall").str("op", "stop"));
      std::thread stopper([&] { t->stop(); });
      for (int i = 0; i < 3000 && !g_at.load(); ++i) usleep(1000);
      auto r = t->connect("127.0.0.1", port ? port : 9, TlsMode::None);
      tr.add(vf::Ev("ConnRet").i("s", r.isOk() ? (long long)r.value() : 0).b("ok", r.isOk()).b("window", g_at.load() == 1));
      g_go = 1;
      stopper.join();
      stopped = true;
      tr.add(vf::Ev("LifeRet").str("op", "stop"));
    }
  }
  if (!stopped)
  {
    tr.add(vf::Ev("LifeCall").str("op", "stop"));
    t->stop();
    tr.add(vf::Ev("LifeRet").str("op", "stop"));
  }
  settle(20);
  tr.add(vf::Ev("End").i("g", gauge()));
  for (auto &kv : peers) close(kv.second);
  return tr.text();
}

int main(int argc, char **argv)
{
  if (argc < 4 || std::string(argv[1]) != "run") return 2;
  auto lines = vf::readLines(argv[2]);
  int par = argc > 4 ? atoi(argv[4]) : 8;
  struct Case
  {
    std::string proto;
    std::vector<std::string> ops;
  };
  std::vector<Case> cases;
  for (auto &ln : lines)
  {
    auto parts = vf::split(ln, '|');
    if (parts.size() < 2) continue;
    Case c;
    c.proto = vf::words(parts[0])[0];
    std::string p;
    for (auto &x : vf::words(parts[1])) p += x;
    c.ops = vf::split(p, ',');
    cases.push_back(c);
  }
  auto res = vf::runMany((int)cases.size(), par, 60.0, std::string(argv[3]) + ".d", argv[3],
                         [&](int i) { return runOne(cases[i].proto, cases[i].ops); });
  printf("executions=%d crashed=%d timedout=%d\n", res.executions, res.crashed, res.timedOut);
  return 0;
}
