// C08 conformance driver for iora::core::TimerService (epoll thread, real time; also through TimerServicePool / SteadyTimer).
//
//   drv_timersvc run <cases.txt> <out.ndjson> [parallel]
//     case: svc <mode> | <ops>          mode: svc (TimerService)  pool (TimerServicePool(2).getService())
//     ops (one controller thread, comma separated):
//        at:<k>:<ms>[:g]     scheduleAfter one-shot timer k (g = its handler blocks on a gate until release:<k>)
//        atsame:<k>:<k2>     one-shot k scheduled with scheduleAt 1 us BEFORE the (periodic) timer k2's first deadline
//        per:<k>:<ms>[:g]    schedulePeriodic
//        cancel:<k>   wait:<ms>   waitstart:<k> (until handler k has started, <= 3 s)   release:<k>
//        stop   drain:<ms>   late:<k>:<ms> (schedule after stop/drain: must be refused or fire)
//        thread:<ops separated by '+'>  run these ops on a second application thread concurrently with the rest
//   Facts that cross threads are taken as happens-before-safe flags, never by comparing timestamps of different threads:
//   a handler reads at its START the flags "cancel(k) has returned true" and "stop()/drain() has returned" (both set by the
//   thread that made the call, right after it returned).  Early firing is judged on one clock: the handler's own
//   steady_clock stamp versus (stamp taken BEFORE the schedule call + delay).
// Events: Begin  Sched{k,d,per,t,ok}  Fire{k,n,t,ac,as}  CancelRet{k,ok}  LifeCall{op} LifeRet{op,ok}  Late{k,ok}  End{}
//   t in microseconds since the start of the execution; n = 1,2,.. count of starts of k; ac = started after cancel(k)
//   returned true; as = started after stop/drain returned.
#include "iora/core/timer.hpp"
#include "vf/exec.hpp"
#include "vf/trace.hpp"

#include <atomic>
#include <condition_variable>
#include <map>
#include <memory>
#include <mutex>
#include <thread>

using iora::core::TimerService;
using Clock = std::chrono::steady_clock;

// ---- pause plan for the service's own thread(s): "stop at your n-th mutex unlock for a while" -----------------------------
// pthread_mutex_unlock is defined here (symbol interposition, no source hook).  Threads of the driver itself are marked
// and never paused; once armed, the n-th unlock made by any OTHER thread (the timer service's epoll thread) is followed by
// a sleep.  This is how the window between "batch collected, mutex released" and "handlers run" is entered.
#include <dlfcn.h>
#include <pthread.h>
static thread_local bool t_driverThread = false;
static std::atomic<int> g_pauseCountdown{0};
static std::atomic<int> g_pauseMs{0};
extern "C" int pthread_mutex_unlock(pthread_mutex_t *m)
{
  static auto real = (int (*)(pthread_mutex_t *))dlsym(RTLD_NEXT, "pthread_mutex_unlock");
  int rc = real(m);
  if (!t_driverThread && g_pauseCountdown.load(std::memory_order_relaxed) > 0)
  {
    if (g_pauseCountdown.fetch_sub(1) == 1)
    {
      int ms = g_pauseMs.load();
      struct timespec ts = {ms / 1000, (long)(ms % 1000) * 1000000L};
      nanosleep(&ts, nullptr);
    }
  }
  return rc;
}

struct TimerInfo
{
  std::uint64_t id = 0;
  std::atomic<int> starts{0};
  std::atomic<bool> cancelTrueReturned{false};
  std::atomic<bool> released{false};
  bool gated = false;
  Clock::time_point firstDeadlineLowerBound;
};

struct Ctx
{
  vf::Trace tr;
  Clock::time_point t0;
  std::map<int, std::shared_ptr<TimerInfo>> timers;
  std::mutex mapMx;
  std::atomic<bool> lifeReturned{false};
  long long us() { return std::chrono::duration_cast<std::chrono::microseconds>(Clock::now() - t0).count(); }
  std::shared_ptr<TimerInfo> get(int k)
  {
    std::lock_guard<std::mutex> g(mapMx);
    auto &p = timers[k];
    if (!p) p = std::make_shared<TimerInfo>();
    return p;
  }
};

static std::function<void()> handlerFor(std::shared_ptr<Ctx> cx, int k, std::shared_ptr<TimerInfo> ti)
{
  return [cx, k, ti]()
  {
    bool ac = ti->cancelTrueReturned.load(std::memory_order_acquire);
    bool as = cx->lifeReturned.load(std::memory_order_acquire);
    int n = ti->starts.fetch_add(1) + 1;
    cx->tr.add(vf::Ev("Fire").i("k", k).i("n", n).i("t", cx->us()).b("ac", ac).b("as", as));
    if (ti->gated)
    {
      auto until = Clock::now() + std::chrono::seconds(12);
      while (!ti->released.load() && Clock::now() < until) std::this_thread::sleep_for(std::chrono::milliseconds(1));
    }
  };
}

static iora::core::TimerServicePool *g_pool = nullptr; // pool mode: the pool whose (single) service the case drives

static void runOps(std::shared_ptr<Ctx> cx, TimerService &svc, const std::vector<std::string> &ops)
{
  t_driverThread = true;
  std::vector<std::thread> side;
  for (auto &o : ops)
  {
    auto f = vf::split(o, ':');
    const std::string &op = f[0];
    if (op == "at" || op == "per")
    {
      int k = atoi(f[1].c_str());
      int ms = atoi(f[2].c_str());
      auto ti = cx->get(k);
      ti->gated = f.size() > 3 && f[3] == "g";
      long long t = cx->us();
      // (the handler may start before this thread gets to log the result: announce the call first)
      cx->tr.add(vf::Ev("SchedCall").i("k", k).i("d", ms * 1000LL).b("per", op == "per").i("t", t));
      std::uint64_t id = op == "at" ? svc.scheduleAfter(std::chrono::milliseconds(ms), handlerFor(cx, k, ti))
                                    : svc.schedulePeriodic(std::chrono::milliseconds(ms), handlerFor(cx, k, ti));
      ti->id = id;
      cx->tr.add(vf::Ev("Sched").i("k", k).b("ok", id != 0));
    }
    else if (op == "atsame")
    {
      // one-shot k due 1 us before periodic k2 (scheduled right after): both are collected in the same batch, k first
      int k = atoi(f[1].c_str());
      int k2 = atoi(f[2].c_str());
      int ms = atoi(f[3].c_str());
      auto ti = cx->get(k);
      ti->gated = true;
      auto ti2 = cx->get(k2);
      long long t = cx->us();
      cx->tr.add(vf::Ev("SchedCall").i("k", k).i("d", ms * 1000LL).b("per", false).i("t", t));
      cx->tr.add(vf::Ev("SchedCall").i("k", k2).i("d", ms * 1000LL).b("per", true).i("t", t));
      auto tp = Clock::now() + std::chrono::milliseconds(ms); // read BEFORE the periodic timer computes its own now()+ms
      std::uint64_t id2 = svc.schedulePeriodic(std::chrono::milliseconds(ms), handlerFor(cx, k2, ti2));
      std::uint64_t id = svc.scheduleAt(tp, handlerFor(cx, k, ti));
      ti->id = id;
      ti2->id = id2;
      cx->tr.add(vf::Ev("Sched").i("k", k).b("ok", id != 0));
      cx->tr.add(vf::Ev("Sched").i("k", k2).b("ok", id2 != 0));
    }
    else if (op == "cancel")
    {
      int k = atoi(f[1].c_str());
      auto ti = cx->get(k);
      bool ok = svc.cancel(ti->id);
      if (ok) ti->cancelTrueReturned.store(true, std::memory_order_release);
      cx->tr.add(vf::Ev("CancelRet").i("k", k).b("ok", ok).i("seen", ti->starts.load()));
    }
    else if (op == "pauseunlock")
    {
      g_pauseMs = atoi(f[2].c_str());
      g_pauseCountdown = atoi(f[1].c_str());
    }
    else if (op == "wait")
      std::this_thread::sleep_for(std::chrono::milliseconds(atoi(f[1].c_str())));
    else if (op == "waitstart")
    {
      auto ti = cx->get(atoi(f[1].c_str()));
      auto until = Clock::now() + std::chrono::seconds(3);
      while (ti->starts.load() == 0 && Clock::now() < until) std::this_thread::sleep_for(std::chrono::microseconds(200));
    }
    else if (op == "release")
      cx->get(atoi(f[1].c_str()))->released.store(true);
    else if (op == "stop" || op == "drain")
    {
      cx->tr.add(vf::Ev("LifeCall").str("op", op));
      auto r = op == "stop" ? svc.stop() : svc.drain((std::uint32_t)atoi(f[1].c_str()));
      bool done = op == "stop" || r.success;
      if (done) cx->lifeReturned.store(true, std::memory_order_release);
      cx->tr.add(vf::Ev("LifeRet").str("op", op).b("ok", r.success).b("closed", done));
    }
    else if (op == "poolstop")
    {
      // TimerServicePool::stop() (pool mode only): every service of the pool is stopped, whatever state it is in
      if (!g_pool) continue;
      cx->tr.add(vf::Ev("LifeCall").str("op", "stop"));
      g_pool->stop();
      cx->lifeReturned.store(true, std::memory_order_release);
      cx->tr.add(vf::Ev("LifeRet").str("op", "stop").b("ok", true).b("closed", true));
    }
    else if (op == "restart")
    {
      // a full cycle: stop (logged like any stop), reset, start.  Timers that were still pending are gone with the reset;
      // identifiers start again, so a new timer must not inherit anything from one that had the same id before.
      cx->tr.add(vf::Ev("LifeCall").str("op", "stop"));
      auto r0 = svc.stop();
      cx->lifeReturned.store(true, std::memory_order_release);
      cx->tr.add(vf::Ev("LifeRet").str("op", "stop").b("ok", r0.success).b("closed", true));
      auto r1 = svc.reset();
      cx->lifeReturned.store(false, std::memory_order_release);
      auto r2 = svc.start();
      cx->tr.add(vf::Ev("Restart").b("ok", r1.success && r2.success).i("t", cx->us()));
    }
    else if (op == "late")
    {
      int k = atoi(f[1].c_str());
      auto ti = cx->get(k);
      long long t = cx->us();
      cx->tr.add(vf::Ev("LateCall").i("k", k).i("t", t));
      std::uint64_t id = svc.scheduleAfter(std::chrono::milliseconds(atoi(f[2].c_str())), handlerFor(cx, k, ti));
      ti->id = id;
      cx->tr.add(vf::Ev("Late").i("k", k).b("ok", id != 0).i("t", t));
    }
    else if (op == "thread")
    {
      std::vector<std::string> sub = vf::split(o.substr(7), '+');
      side.emplace_back([cx, &svc, sub]() { runOps(cx, svc, sub); });
    }
  }
  for (auto &t : side) t.join();
}

static std::string runOne(const std::string &mode, const std::vector<std::string> &ops)
{
  t_driverThread = true;
  g_pauseCountdown = 0;
  auto cx = std::make_shared<Ctx>();
  cx->t0 = Clock::now();
  cx->tr.add(vf::Ev("Begin").str("mode", mode));
  {
    std::unique_ptr<iora::core::TimerServicePool> pool;
    std::unique_ptr<TimerService> own;
    TimerService *svc = nullptr;
    g_pool = nullptr;
    if (mode == "pool")
    {
      pool = std::make_unique<iora::core::TimerServicePool>(2);
      svc = &pool->getService();
      g_pool = pool.get();
    }
    else if (mode == "nostat")
    {
      // statistics off (as the DNS transport configures its retry timers): results of the API must not depend on it
      iora::core::TimerServiceConfig cfg;
      cfg.enableStatistics = false;
      own = std::make_unique<TimerService>(cfg);
      svc = own.get();
    }
    else
    {
      own = std::make_unique<TimerService>();
      svc = own.get();
    }
    runOps(cx, *svc, ops);
    // release every gate, let periodic timers show a few firings, then destroy (= stop)
    for (auto &kv : cx->timers) kv.second->released.store(true);
    cx->tr.add(vf::Ev("LifeCall").str("op", "destroy"));
    own.reset();
    g_pool = nullptr;
    pool.reset();
    cx->lifeReturned.store(true, std::memory_order_release);
    cx->tr.add(vf::Ev("LifeRet").str("op", "destroy").b("ok", true).b("closed", true));
  }
  std::this_thread::sleep_for(std::chrono::milliseconds(30)); // anything that still fires now is "after stop"
  cx->tr.add(vf::Ev("End").str("outcome", "done"));
  return cx->tr.text();
}

int main(int argc, char **argv)
{
  if (argc < 4 || std::string(argv[1]) != "run") return 2;
  auto lines = vf::readLines(argv[2]);
  int par = argc > 4 ? atoi(argv[4]) : 8;
  struct Case
  {
    std::string mode;
    std::vector<std::string> ops;
  };
  std::vector<Case> cases;
  for (auto &ln : lines)
  {
    auto parts = vf::split(ln, '|');
    if (parts.size() < 2) continue;
    Case c;
    auto w = vf::words(parts[0]);
    c.mode = w.size() > 1 ? w[1] : "svc";
    std::string p;
    for (auto &x : vf::words(parts[1])) p += x;
    c.ops = vf::split(p, ',');
    cases.push_back(c);
  }
  auto res = vf::runMany((int)cases.size(), par, 40.0, std::string(argv[3]) + ".d", argv[3],
                         [&](int i) { return runOne(cases[i].mode, cases[i].ops); });
  printf("executions=%d crashed=%d timedout=%d\n", res.executions, res.crashed, res.timedOut);
  return 0;
}
