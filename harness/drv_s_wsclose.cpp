// C18 conformance driver, schedule part: application sends racing the close handshake on a real WebSocketServer /
// WebSocketClient, under the deterministic scheduler vf/sched (every pthread mutex operation of a registered thread is a
// schedule point, so the interleavings of WsClose.tla's critical sections - and finer ones - are enumerated on the code).
//
//   drv_s_wsclose explore <seed> <nrandom> <maxdfs> <out.ndjson> <parallel> <prog> [<prog> ...]
//       prog:  <s|c>|a=T,T;b=C,T;io=rC       threads and their calls: T B P (sendText/Binary/Ping), C (sendClose),
//              rC / rP (an inbound close / ping frame handed to the endpoint's receive path, as the I/O thread does)
//       per prog: <nrandom> seeded random schedules, then a stateless DFS of all schedules with <= 2 preemptions, at most
//       <maxdfs> executions
//   drv_s_wsclose replay <case-json> <out.ndjson>        re-run one recorded execution (its policy, seed / plan)
//
// Events per execution:  {"e":"Case","k":"script","ep","prog","policy","seed","plan"}  and
//   {"e":"Script","ep","steps":[calls in the order they STARTED],"outs":[frames read from the wire],...,"outcome","sched"}
// The oracle (WsFramingTrace.tla) looks at the wire image only: no data frame after the endpoint's own close frame.
#include "ws_rig.hpp"

#include "vf/sched.hpp"

#include <set>

struct ThreadProg
{
  std::string name;
  std::vector<std::string> calls;
};
struct Program
{
  bool server = true;
  std::string text;
  std::vector<ThreadProg> threads;
};

static Program parseProgram(const std::string &s)
{
  Program p;
  p.text = s;
  auto bar = s.find('|');
  p.server = s.substr(0, bar) == "s";
  for (auto &part : vf::split(s.substr(bar + 1), ';'))
  {
    auto eq = part.find('=');
    if (eq == std::string::npos) continue;
    ThreadProg t;
    t.name = part.substr(0, eq);
    for (auto &c : vf::split(part.substr(eq + 1), ','))
      if (!c.empty()) t.calls.push_back(c);
    p.threads.push_back(t);
  }
  return p;
}

static std::string jsonStrs(const std::vector<std::string> &v)
{
  std::string o = "[";
  for (size_t i = 0; i < v.size(); ++i) o += (i ? ",\"" : "\"") + v[i] + "\"";
  return o + "]";
}

static std::string caseLine(const Program &p, const vf::Options &opt)
{
  vf::Ev ev("Case");
  ev.str("k", "script").str("ep", p.server ? "s" : "c").str("prog", p.text);
  ev.str("policy", opt.policy == vf::Policy::Random ? "random" : "prefix").i("seed", (long long)opt.seed).raw("plan", jsonStrs(opt.plan));
  return ev.done() + "\n";
}

static std::string runOne(const Program &p, const vf::Options &opt, bool emitSched)
{
  std::string text = caseLine(p, opt);
  Obs o;
  vf::Trace calls;
  std::function<void(const std::string &)> doCall;
  ServerRig *rg = nullptr;
  ClientRig cr;
  SessionId sid = 0;
  int fd = -1;
  if (p.server)
  {
    rg = &rig();
    bool acc = false;
    std::string why;
    fd = rg->open(sid, acc, why);
    if (fd < 0) return text + vf::Ev("Infra").str("why", "server open: " + why).done() + "\n";
    doCall = [&](const std::string &c)
    {
      if (c == "T") rg->srv->sendText(sid, "app-text");
      else if (c == "B") rg->srv->sendBinary(sid, Bytes{1, 2, 3});
      else if (c == "P") rg->srv->sendPing(sid, Bytes{'p'});
      else if (c == "C") rg->srv->sendClose(sid, 1000, "bye");
      else if (c == "rC")
      {
        Bytes f = mkFrame(8, std::string("\x03\xe8", 2), true);
        rg->srv->feed(sid, f.data(), f.size());
      }
      else if (c == "rP")
      {
        Bytes f = mkFrame(9, "q", true);
        rg->srv->feed(sid, f.data(), f.size());
      }
    };
  }
  else
  {
    std::string why;
    if (!cr.open(1024, why))
    {
      cr.shut();
      return text + vf::Ev("Infra").str("why", "client open: " + why).done() + "\n";
    }
    fd = cr.fd;
    doCall = [&](const std::string &c)
    {
      if (c == "T") cr.cl->sendText("app-text");
      else if (c == "B") cr.cl->sendBinary(Bytes{1, 2, 3});
      else if (c == "P") cr.cl->sendPing(Bytes{'p'});
      else if (c == "C") cr.cl->sendClose(1000, "bye");
      else if (c == "rC")
      {
        Bytes f = mkFrame(8, std::string("\x03\xe8", 2), false);
        Access::feed(*cr.cl, f.data(), f.size());
      }
      else if (c == "rP")
      {
        Bytes f = mkFrame(9, "q", false);
        Access::feed(*cr.cl, f.data(), f.size());
      }
    };
  }
  setObs(&o);
  vf::reset(opt);
  for (auto &tp : p.threads)
  {
    vf::spawn(tp.name,
              [&, tp]()
              {
                for (auto &c : tp.calls)
                {
                  vf::point("call");
                  calls.addLine(c);
                  try
                  {
                    doCall(c);
                  }
                  catch (...)
                  {
                    o.thrown = true;
                  }
                }
              });
  }
  vf::Result r = vf::run();
  const char *oc = r.outcome == vf::Outcome::Done        ? "done"
                   : r.outcome == vf::Outcome::Stuck     ? "stuck"
                   : r.outcome == vf::Outcome::StepLimit ? "steplimit"
                                                         : "external";
  Bytes rb;
  if (r.outcome == vf::Outcome::Done)
  {
    if (p.server)
      rg->srv->rawOut(sid, sentinelFrame(10));
    else
      Access::raw(*cr.cl, sentinelFrame(10));
    drain(fd, rb, o);
  }
  setObs(nullptr);
  std::vector<std::string> steps;
  for (auto &l : vf::split(calls.text(), '\n'))
    if (!l.empty()) steps.push_back(l);
  std::string sched;
  for (auto &st : r.steps) sched += st.thread.substr(0, 1);
  vf::Ev ev("Script");
  ev.str("ep", p.server ? "s" : "c").raw("steps", jsonStrs(steps));
  {
    std::lock_guard<SpinLock> g(o.m);
    ev.raw("msgs", "[" + o.msgs + "]").raw("outs", "[" + o.outs + "]").raw("closed", "[" + o.closed + "]");
    ev.i("errs", o.errs).b("thrown", o.thrown).b("to", o.timeout).b("eof", o.eof).b("unreadable", o.unreadable).b("strict", o.strictOk);
  }
  ev.str("outcome", oc).b("drift", r.drift).i("nsteps", (long long)r.steps.size()).str("sched", sched);
  text += ev.done() + "\n";
  if (emitSched)
  {
    std::string s = "#S";
    for (auto &st : r.steps)
    {
      s += " " + std::to_string(st.tid) + ":";
      for (size_t i = 0; i < st.enabled.size(); ++i) s += (i ? "," : "") + std::to_string(st.enabled[i]);
    }
    text += s + "\n";
  }
  // the child exits without tearing the endpoint down (its threads die with the process)
  return text;
}

static int explore(int argc, char **argv)
{
  if (argc < 8) return 2;
  uint64_t seed = strtoull(argv[2], nullptr, 10);
  int nrandom = atoi(argv[3]), maxdfs = atoi(argv[4]);
  std::string outPath = argv[5];
  int par = atoi(argv[6]);
  FILE *out = fopen(outPath.c_str(), "w");
  int total = 0, truncated = 0;
  for (int a = 7; a < argc; ++a)
  {
    Program p = parseProgram(argv[a]);
    // ---- seeded random schedules
    {
      std::string tmp = outPath + ".rnd";
      vf::runMany(nrandom, par, 60.0, outPath + ".d", tmp,
                  [&](int i)
                  {
                    vf::Options o;
                    o.policy = vf::Policy::Random;
                    o.seed = seed * 1000003ull + (uint64_t)a * 7919ull + (uint64_t)i;
                    o.maxSteps = 20000;
                    o.watchdogMs = 8000;
                    return runOne(p, o, false);
                  });
      for (auto &ln : vf::readLines(tmp)) fprintf(out, "%s\n", ln.c_str());
      unlink(tmp.c_str());
      total += nrandom;
    }
    // ---- stateless DFS, preemption bound 2
    struct Node
    {
      std::vector<int> prefix;
      int preemptions;
    };
    std::vector<std::string> nameOf;
    for (auto &t : p.threads) nameOf.push_back(t.name);
    std::vector<Node> wave{{{}, 0}};
    std::set<std::vector<int>> seen;
    int done = 0;
    const int bound = 2;
    while (!wave.empty() && done < maxdfs)
    {
      if ((int)wave.size() > maxdfs - done)
      {
        wave.resize(maxdfs - done);
        truncated = 1;
      }
      std::string tmp = outPath + ".wave";
      vf::runMany((int)wave.size(), par, 60.0, outPath + ".d", tmp,
                  [&](int i)
                  {
                    vf::Options o;
                    o.policy = vf::Policy::Prefix;
                    o.maxSteps = 20000;
                    o.watchdogMs = 8000;
                    for (int id : wave[i].prefix) o.plan.push_back(nameOf[id]);
                    return runOne(p, o, true);
                  });
      auto lines = vf::readLines(tmp);
      unlink(tmp.c_str());
      std::vector<Node> nextWave;
      int idx = 0;
      for (auto &ln : lines)
      {
        if (ln.rfind("#S", 0) == 0)
        {
          auto w = vf::words(ln.substr(2));
          std::vector<int> chosen;
          std::vector<std::vector<int>> en;
          for (auto &e : w)
          {
            auto c = e.find(':');
            chosen.push_back(atoi(e.substr(0, c).c_str()));
            std::vector<int> v;
            for (auto &x : vf::split(e.substr(c + 1), ','))
              if (!x.empty()) v.push_back(atoi(x.c_str()));
            en.push_back(v);
          }
          const Node &nd = wave[idx];
          int pre = 0;
          for (size_t k = 0; k < chosen.size(); ++k)
          {
            bool prevEnabled = false;
            if (k > 0)
              for (int x : en[k])
                if (x == chosen[k - 1]) prevEnabled = true;
            if (k >= nd.prefix.size())
            {
              for (int alt : en[k])
              {
                if (alt == chosen[k]) continue;
                int cost = pre + ((k > 0 && prevEnabled && alt != chosen[k - 1]) ? 1 : 0);
                if (cost > bound) continue;
                std::vector<int> pfx(chosen.begin(), chosen.begin() + k);
                pfx.push_back(alt);
                if (seen.insert(pfx).second) nextWave.push_back({pfx, cost});
              }
            }
            if (k > 0 && prevEnabled && chosen[k] != chosen[k - 1]) ++pre;
          }
          continue;
        }
        fprintf(out, "%s\n", ln.c_str());
        if (ln.find("\"e\":\"Reset\"") != std::string::npos) ++idx;
      }
      done += (int)wave.size();
      wave.swap(nextWave);
    }
    if (!wave.empty()) truncated = 1;
    total += done;
  }
  fclose(out);
  printf("executions=%d dfs_truncated=%d\n", total, truncated);
  return 0;
}

// minimal extraction of "key":"value" / "key":number / "plan":[...] from the recorded Case line
static std::string jstr(const std::string &j, const std::string &k)
{
  auto p = j.find("\"" + k + "\":\"");
  if (p == std::string::npos) return "";
  p += k.size() + 4;
  return j.substr(p, j.find('"', p) - p);
}

static int replayCmd(int argc, char **argv)
{
  if (argc < 4) return 2;
  std::string j = argv[2];
  Program p = parseProgram(jstr(j, "prog"));
  vf::Options o;
  o.maxSteps = 20000;
  o.watchdogMs = 8000;
  if (jstr(j, "policy") == "random")
  {
    o.policy = vf::Policy::Random;
    auto sp = j.find("\"seed\":");
    o.seed = sp == std::string::npos ? 1 : strtoull(j.c_str() + sp + 7, nullptr, 10);
  }
  else
  {
    o.policy = vf::Policy::Prefix;
    auto pp = j.find("\"plan\":[");
    if (pp != std::string::npos)
    {
      auto e = j.find(']', pp);
      for (auto &x : vf::split(j.substr(pp + 8, e - pp - 8), ','))
      {
        std::string n;
        for (char c : x)
          if (c != '"' && c != ' ') n += c;
        if (!n.empty()) o.plan.push_back(n);
      }
    }
  }
  vf::runMany(1, 1, 60.0, std::string(argv[3]) + ".d", argv[3], [&](int) { return runOne(p, o, false); });
  return 0;
}

int main(int argc, char **argv)
{
  if (argc < 2) return 2;
  signal(SIGPIPE, SIG_IGN);
  iora::core::Logger::setLevel(iora::core::Logger::Level::Fatal);
  std::string cmd = argv[1];
  if (cmd == "explore") return explore(argc, argv);
  if (cmd == "replay") return replayCmd(argc, argv);
  return 2;
}
