// X16 conformance driver: iora::parsers::toml (include/iora/parsers/minimal_toml.hpp): parse -> flatten -> serialize ->
// parse -> flatten -> serialize.
//
//   drv_toml run <cases> <out.ndjson> <batch> <parallel>          forked workers (parsers_run.hpp)
// case lines (written by checks/X16.py from the states of spec/extra/Toml.tla):
//   T <flags> <nl 0|1> <lexeme names joined by ','| -> <hex of the document text | ->
//      flags: h = the case runs in a child of its own under a CPU-time limit (ITIMER_VIRTUAL, 300 ms of CPU - no wall-clock
//             dependence): p1 = "hang" if the first parse does not return, p2 = "hang" if the re-parse does not (checks/X16.py
//             guards every case); - = run in the worker (a hang there is caught by the worker's stall detection: Hung)
// events (judged by spec/extra/TomlTrace.tla):
//   Toml {lex,nl,doc,p1,x1,t1,ser,p2,t2,fix}
//      t1 / t2: the tree as a sorted list of entries [key, ..., key, value]; value = i:<int> b:<bool> s:<hex> f:<%.17g>
//      a:[v,...]; an element of an array of tables is the key #k; a childless table has the entry [..., "{}"]
#include "iora/parsers/minimal_toml.hpp"
#include "parsers_run.hpp"
#include "vf/exec.hpp"
#include "vf/trace.hpp"
#include <algorithm>
#include <functional>
#include <sys/time.h>

namespace toml = iora::parsers::toml;

static std::string unhex(const std::string &h)
{
  std::string o;
  if (h == "-") return o;
  auto v = [](char c) { return c <= '9' ? c - '0' : (c | 32) - 'a' + 10; };
  for (size_t i = 0; i + 1 < h.size(); i += 2) o += (char)(v(h[i]) * 16 + v(h[i + 1]));
  return o;
}
static std::string hexOf(const std::string &s)
{
  static const char *d = "0123456789abcdef";
  std::string o;
  for (unsigned char c : s)
  {
    o += d[c >> 4];
    o += d[c & 15];
  }
  return o;
}
static std::string canon(const toml::value_type &v)
{
  if (auto *i = std::get_if<int64_t>(&v)) return "i:" + std::to_string(*i);
  if (auto *b = std::get_if<bool>(&v)) return *b ? "b:true" : "b:false";
  if (auto *s = std::get_if<std::string>(&v)) return "s:" + hexOf(*s);
  if (auto *d = std::get_if<double>(&v))
  {
    char buf[64];
    snprintf(buf, sizeof buf, "%.17g", *d);
    return std::string("f:") + buf;
  }
  if (auto *a = std::get_if<std::shared_ptr<toml::array>>(&v))
  {
    std::string o = "a:[";
    bool first = true;
    for (const auto &e : **a)
    {
      if (!first) o += ",";
      first = false;
      o += canon(e);
    }
    return o + "]";
  }
  if (std::get_if<std::shared_ptr<toml::table>>(&v)) return "t:?";
  return "none";
}
using Entries = std::vector<std::vector<std::string>>;
static void flat(const toml::table &t, std::vector<std::string> path, Entries &out)
{
  for (const auto &kv : t)
  {
    auto p = path;
    p.push_back(kv.first);
    const toml::node &n = kv.second;
    if (n.is_table())
    {
      const toml::table *sub = n.as_table();
      if (sub->empty())
      {
        p.push_back("{}");
        out.push_back(p);
      }
      else
        flat(*sub, p, out);
    }
    else if (n.is_array() && !n.as_array()->empty() && std::get_if<std::shared_ptr<toml::table>>(&(*n.as_array())[0]))
    {
      const toml::array *a = n.as_array();
      for (size_t i = 0; i < a->size(); ++i)
      {
        auto pe = p;
        pe.push_back("#" + std::to_string(i));
        auto *tp = std::get_if<std::shared_ptr<toml::table>>(&(*a)[i]);
        if (!tp)
        {
          pe.push_back(canon((*a)[i]));
          out.push_back(pe);
        }
        else if ((*tp)->empty())
        {
          pe.push_back("{}");
          out.push_back(pe);
        }
        else
          flat(**tp, pe, out);
      }
    }
    else
    {
      p.push_back(canon(n.get_value()));
      out.push_back(p);
    }
  }
}
static std::string entriesJson(Entries e)
{
  std::sort(e.begin(), e.end());
  std::string o = "[";
  for (size_t i = 0; i < e.size(); ++i)
  {
    if (i) o += ",";
    o += "[";
    for (size_t j = 0; j < e[i].size(); ++j)
    {
      if (j) o += ",";
      o += "\"" + vf::Ev::esc(e[i][j]) + "\"";
    }
    o += "]";
  }
  return o + "]";
}

// sink: called with the event as it would read if the process died right now (after phase 1: p2 = "hang")
static std::string body(const std::vector<std::string> &lex, bool nl, const std::string &doc,
                        const std::function<void(const std::string &)> &sink = nullptr)
{
  std::string p1 = "rej", x1 = "none", ser = "na", p2 = "na";
  Entries t1, t2;
  bool fix = false;
  std::string text1, text2;
  toml::table tree;
  try
  {
    tree = toml::parse(doc);
    p1 = "ok";
  }
  catch (const std::runtime_error &)
  {
    x1 = "runtime_error";
  }
  catch (const std::exception &)
  {
    x1 = "std"; // std::invalid_argument / std::out_of_range of stoll / stod
  }
  catch (...)
  {
    p1 = "crash";
    x1 = "foreign";
  }
  if (p1 == "ok")
  {
    flat(tree, {}, t1);
    try
    {
      text1 = toml::serializer::serialize(tree);
      ser = "ok";
    }
    catch (const std::exception &)
    {
      ser = "throw";
      p2 = "rej";
    }
    if (ser == "ok")
    {
      if (sink)
        sink(vf::Ev("Toml").strs("lex", lex).b("nl", nl).str("doc", doc).str("p1", p1).str("x1", x1).raw("t1", entriesJson(t1)).str("ser", ser)
               .str("p2", "hang").raw("t2", "[]").b("fix", false).done() + "\n");
      try
      {
        toml::table again = toml::parse(text1);
        p2 = "ok";
        flat(again, {}, t2);
        text2 = toml::serializer::serialize(again);
        fix = text2 == text1;
      }
      catch (const std::exception &)
      {
        p2 = "rej";
      }
    }
  }
  return vf::Ev("Toml").strs("lex", lex).b("nl", nl).str("doc", doc).str("p1", p1).str("x1", x1).raw("t1", entriesJson(t1)).str("ser", ser)
           .str("p2", p2).raw("t2", entriesJson(t2)).b("fix", fix).done() + "\n";
}

static std::string runCase(const std::string &line)
{
  auto w = vf::words(line);
  if (w.size() < 5 || w[0] != "T") return "";
  bool guarded = w[1].find('h') != std::string::npos;
  bool nl = w[2] == "1";
  std::vector<std::string> lex;
  if (w[3] != "-") lex = vf::split(w[3], ',');
  std::string doc = unhex(w[4]);
  if (!guarded) return body(lex, nl, doc);
  // own child under a CPU-time limit
  int fd[2];
  if (pipe(fd) != 0) return "";
  fflush(nullptr);
  pid_t p = fork();
  if (p == 0)
  {
    close(fd[0]);
    struct itimerval tv = {};
    tv.it_value.tv_usec = 300000;
    setitimer(ITIMER_VIRTUAL, &tv, nullptr); // default action of SIGVTALRM: terminate
    auto put = [&](const std::string &t)
    {
      size_t off = 0;
      while (off < t.size())
      {
        ssize_t k = write(fd[1], t.data() + off, t.size() - off);
        if (k <= 0) break;
        off += (size_t)k;
      }
    };
    put(body(lex, nl, doc, put));
    _exit(0);
  }
  close(fd[1]);
  std::string got;
  char buf[4096];
  ssize_t k;
  while ((k = read(fd[0], buf, sizeof buf)) > 0) got.append(buf, (size_t)k);
  close(fd[0]);
  int st = 0;
  waitpid(p, &st, 0);
  // the last complete line is the verdict (a preliminary line after phase 1 says p2 = "hang")
  bool timedOut = WIFSIGNALED(st) && WTERMSIG(st) == SIGVTALRM;
  if (!got.empty() && got.back() == '\n' && ((WIFEXITED(st) && WEXITSTATUS(st) == 0) || timedOut))
  {
    size_t e = got.size() - 1;
    size_t b = got.rfind('\n', e - 1);
    return got.substr(b == std::string::npos ? 0 : b + 1);
  }
  std::string p1 = timedOut ? "hang" : "crash";
  return vf::Ev("Toml").strs("lex", lex).b("nl", nl).str("doc", doc).str("p1", p1).str("x1", "none").raw("t1", "[]").str("ser", "na")
           .str("p2", "na").raw("t2", "[]").b("fix", false).done() + "\n";
}

int main(int argc, char **argv)
{
  if (argc >= 6 && std::string(argv[1]) == "run")
  {
    auto lines = vf::readLines(argv[2]);
    int batch = atoi(argv[4]), par = atoi(argv[5]);
    if (batch <= 0) batch = 1;
    auto r = vfp::runResilient((int)lines.size(), batch, par, 30.0, argv[3], [&](int k) { return runCase(lines[k]); });
    printf("cases=%d crashed=%d hung=%d workers=%d\n", r.cases, r.crashed, r.hung, r.workers);
    return 0;
  }
  fprintf(stderr, "usage: drv_toml run <cases> <out> <batch> <parallel>\n");
  return 2;
}
