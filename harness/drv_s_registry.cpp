// X22 (extra): iora::ServiceRegistry under the deterministic scheduler.
//   drv_s_registry run <cases.txt> <out.ndjson> [parallel]
//   drv_s_registry dfs "<case line without schedule>" <preemption bound> <max executions> <out.ndjson> [parallel]
//   drv_s_registry reentrant <out.ndjson>    probe (no scheduler): an implementation whose destructor looks up another
//                                            interface, destroyed by unregister<T>() (observation O-22a)
//   case:  | a=set:1:1:1,get:2:2,drop:1;b=unmod:1,unreg:2 | random <seed> / replay ... / prefix ...
//   thread ops (T = interface 1..3, m = module code: 1..3 -> "m1".."m3", 0 -> "" (rejected), 9 -> the core overload
//   set<T>(impl); h = one of the thread's own handles 1..3, 0 = none):
//     set:T:m:h   make an implementation, register it, keep the caller's own reference in handle h (0: let go of it)
//     setnull:T   set<T>(nullptr, "m1")
//     get:T:h     handle h = get<T>()          drop:h   handle h.reset()
//     unreg:T     unregister<T>()              unmod:m  unregisterModule(m)
//   After the threads, main drops every handle, unregisters every module and every interface (core entries), so that
//   every implementation made must have been destroyed at End.
// Events: Call{t,op,ty,m,o,keep}  Ret{t,op,r,o}  Dtor{o,t,lk}  End{outcome,..}
//   r: set -> "ok" | "dup" (runtime_error) | "inval" (invalid_argument) | "other";  unreg -> "true" | "false"
//   Dtor.lk = 1: the destructor ran inside a registry call of the same thread while the registry mutex was write-locked
// The registry storage (ServiceRegistry::storage(), non-inline by design: src/core/iora_core.cpp) is defined here the same
// way; each execution runs in a forked child, so every execution starts with an empty registry.
#include "iora/core/service_registry.hpp"
#include "drv_xcore.hpp"

#include <dlfcn.h>
#include <memory>
#include <shared_mutex>
#include <thread>

static std::shared_mutex *g_regMutex = nullptr;
namespace iora
{
ServiceRegistry::Storage &ServiceRegistry::storage()
{
  static Storage s;
  g_regMutex = &s.mutex;
  return s;
}
} // namespace iora

using iora::ServiceRegistry;

static vf::Trace *g_tr = nullptr;
static int g_nextObj = 0;
static thread_local bool tl_inCall = false;

// the real (not interposed) try-rdlock: is the registry mutex write-locked right now?  No schedule point.
static bool regWriteLockedNow()
{
  if (!g_regMutex) return false;
  using fn = int (*)(pthread_rwlock_t *);
  static fn tr = (fn)dlsym(RTLD_NEXT, "pthread_rwlock_tryrdlock");
  static fn ul = (fn)dlsym(RTLD_NEXT, "pthread_rwlock_unlock");
  auto *rw = (pthread_rwlock_t *)g_regMutex->native_handle();
  if (!tr || !ul) return false;
  if (tr(rw) == 0)
  {
    ul(rw);
    return false;
  }
  return true;
}

static std::string me()
{
  const char *n = vf::selfName();
  return n && *n ? n : "main";
}

template <int N> struct IFace
{
  virtual ~IFace() = default;
  virtual int id() = 0;
};
template <int N> struct Svc : IFace<N>
{
  int _id;
  explicit Svc(int i) : _id(i) {}
  int id() override { return _id; }
  ~Svc() override { g_tr->add(vf::Ev("Dtor").i("o", _id).str("t", me()).i("lk", tl_inCall && regWriteLockedNow() ? 1 : 0)); }
};

static const char *modName(int m)
{
  switch (m)
  {
  case 0: return "";
  case 1: return "m1";
  case 2: return "m2";
  case 3: return "m3";
  default: return "core";
  }
}

struct Hands
{
  std::shared_ptr<void> h[4];
  int id[4] = {0, 0, 0, 0};
};

static void dropHandle(const std::string &t, Hands &H, int h)
{
  if (!H.h[h]) return;
  g_tr->add(vf::Ev("Call").str("t", t).str("op", "drop").i("o", H.id[h]));
  H.h[h].reset();
  H.id[h] = 0;
  g_tr->add(vf::Ev("Ret").str("t", t).str("op", "drop"));
}

template <int N> static void opSet(const std::string &t, Hands &H, int m, int h)
{
  if (h) dropHandle(t, H, h);
  int id = ++g_nextObj;
  std::shared_ptr<IFace<N>> p = std::make_shared<Svc<N>>(id);
  g_tr->add(vf::Ev("Call").str("t", t).str("op", "set").i("ty", N).str("m", modName(m)).i("o", id).i("keep", h ? 1 : 0));
  const char *r = "ok";
  tl_inCall = true;
  try
  {
    if (m == 9)
      ServiceRegistry::set<IFace<N>>(p);
    else
      ServiceRegistry::set<IFace<N>>(p, modName(m));
  }
  catch (const std::invalid_argument &)
  {
    r = "inval";
  }
  catch (const std::runtime_error &)
  {
    r = "dup";
  }
  catch (...)
  {
    r = "other";
  }
  tl_inCall = false;
  if (h)
  {
    H.h[h] = p;
    H.id[h] = id;
  }
  p.reset(); // the caller lets go of its temporary: a rejected, unkept implementation dies here
  g_tr->add(vf::Ev("Ret").str("t", t).str("op", "set").str("r", r));
}
template <int N> static void opSetNull(const std::string &t)
{
  g_tr->add(vf::Ev("Call").str("t", t).str("op", "setnull").i("ty", N));
  const char *r = "ok";
  try
  {
    ServiceRegistry::set<IFace<N>>(std::shared_ptr<IFace<N>>(), "m1");
  }
  catch (const std::invalid_argument &)
  {
    r = "inval";
  }
  catch (const std::runtime_error &)
  {
    r = "dup";
  }
  catch (...)
  {
    r = "other";
  }
  g_tr->add(vf::Ev("Ret").str("t", t).str("op", "setnull").str("r", r));
}
template <int N> static void opGet(const std::string &t, Hands &H, int h)
{
  dropHandle(t, H, h);
  g_tr->add(vf::Ev("Call").str("t", t).str("op", "get").i("ty", N));
  auto p = ServiceRegistry::get<IFace<N>>();
  int o = p ? p->id() : 0; // use the implementation through the handle
  g_tr->add(vf::Ev("Ret").str("t", t).str("op", "get").i("o", o));
  H.h[h] = p;
  H.id[h] = o;
}
template <int N> static void opUnreg(const std::string &t)
{
  g_tr->add(vf::Ev("Call").str("t", t).str("op", "unreg").i("ty", N));
  tl_inCall = true;
  bool b = ServiceRegistry::unregister<IFace<N>>();
  tl_inCall = false;
  g_tr->add(vf::Ev("Ret").str("t", t).str("op", "unreg").str("r", b ? "true" : "false"));
}
static void opUnmod(const std::string &t, int m)
{
  g_tr->add(vf::Ev("Call").str("t", t).str("op", "unmod").str("m", modName(m)));
  tl_inCall = true;
  ServiceRegistry::unregisterModule(modName(m));
  tl_inCall = false;
  g_tr->add(vf::Ev("Ret").str("t", t).str("op", "unmod"));
}

#define BY_TYPE(T, CALL)                                                                                                \
  switch (T)                                                                                                            \
  {                                                                                                                     \
  case 1: CALL(1); break;                                                                                               \
  case 2: CALL(2); break;                                                                                               \
  case 3: CALL(3); break;                                                                                               \
  default: break;                                                                                                       \
  }

static void runOp(const std::string &t, Hands &H, const xc::Op &op)
{
  int a0 = op.arg(0), a1 = op.arg(1), a2 = op.arg(2);
  if (op.op == "set")
  {
    if (a2 < 0 || a2 > 3) return;
#define C(N) opSet<N>(t, H, a1, a2)
    BY_TYPE(a0, C)
#undef C
  }
  else if (op.op == "setnull")
  {
#define C(N) opSetNull<N>(t)
    BY_TYPE(a0, C)
#undef C
  }
  else if (op.op == "get")
  {
    if (a1 < 1 || a1 > 3) return;
#define C(N) opGet<N>(t, H, a1)
    BY_TYPE(a0, C)
#undef C
  }
  else if (op.op == "unreg")
  {
#define C(N) opUnreg<N>(t)
    BY_TYPE(a0, C)
#undef C
  }
  else if (op.op == "unmod")
    opUnmod(t, a0);
  else if (op.op == "drop")
  {
    if (a0 < 1 || a0 > 3) return;
    dropHandle(t, H, a0);
  }
}

struct Case
{
  std::vector<xc::ThreadProg> prog;
  vf::Options opt;
};

static std::string runOne(const Case &c, const vf::Options &opt, bool emitSched)
{
  auto tr = std::make_shared<vf::Trace>();
  g_tr = tr.get();
  g_nextObj = 0;
  vf::Options o = opt;
  o.maxSteps = 20000;
  vf::reset(o);
  vf::spawn("main",
            [tr, &c]()
            {
              vf::point("start");
              std::vector<Hands> hands(c.prog.size());
              std::vector<std::thread> th;
              for (size_t i = 0; i < c.prog.size(); ++i)
              {
                vf::nameNextChild(c.prog[i].name);
                th.emplace_back(
                  [&c, &hands, i]()
                  {
                    for (auto &op : c.prog[i].ops)
                    {
                      vf::point("call");
                      runOp(c.prog[i].name, hands[i], op);
                    }
                    vf::point("call");
                  });
              }
              for (auto &t : th) t.join();
              vf::point("teardown");
              for (auto &H : hands)
                for (int h = 1; h < 4; ++h) dropHandle("main", H, h);
              for (int m = 1; m <= 3; ++m) opUnmod("main", m);
              opUnreg<1>("main");
              opUnreg<2>("main");
              opUnreg<3>("main");
            });
  vf::Result r = vf::run();
  tr->add(xc::endEvent(r));
  std::string text = tr->text();
  if (emitSched) text += xc::schedLine(r);
  return text;
}

static bool parseCase(const std::string &ln, Case &c, bool withSched)
{
  auto parts = vf::split(ln, '|');
  if (parts.size() < (withSched ? 3u : 2u)) return false;
  c.prog = xc::parseProg(parts[1]);
  if (withSched) c.opt = xc::parseSched(parts[2]);
  return true;
}

// O-22a: the destructor of an implementation is plugin code; here it looks up another interface.
struct Reentrant : IFace<1>
{
  int id() override { return 1; }
  ~Reentrant() override
  {
    g_tr->add(vf::Ev("DtorBegin").i("lk", regWriteLockedNow() ? 1 : 0));
    fflush(nullptr);
    auto other = ServiceRegistry::get<IFace<2>>();
    g_tr->add(vf::Ev("DtorLookupDone").i("o", other ? other->id() : 0));
  }
};

int main(int argc, char **argv)
{
  if (argc < 3) return 2;
  std::string cmd = argv[1];
  if (cmd == "run" && argc >= 4)
  {
    std::vector<Case> cases;
    for (auto &ln : vf::readLines(argv[2]))
    {
      Case c;
      if (parseCase(ln, c, true)) cases.push_back(std::move(c));
    }
    int par = argc > 4 ? atoi(argv[4]) : 8;
    auto res = vf::runMany((int)cases.size(), par, 60.0, std::string(argv[3]) + ".d", argv[3], [&](int i) { return runOne(cases[i], cases[i].opt, false); });
    printf("executions=%d crashed=%d timedout=%d\n", res.executions, res.crashed, res.timedOut);
    return 0;
  }
  if (cmd == "dfs" && argc >= 6)
  {
    Case c;
    if (!parseCase(argv[2], c, false)) return 2;
    return xc::dfs([&](const vf::Options &o, bool s) { return runOne(c, o, s); }, atoi(argv[3]), atoi(argv[4]), argv[5], argc > 6 ? atoi(argv[6]) : 8);
  }
  if (cmd == "reentrant")
  {
    // two children: [0] the destructor runs because a HANDLE is dropped after unregister (no lock held: fine);
    //               [1] the destructor runs because unregister<T>() drops the registry's (last) reference
    std::string outp = argv[2];
    auto res = vf::runMany(2, 1, 20.0, outp + ".d", outp,
                           [&](int i)
                           {
                             static vf::Trace tr; // must outlive everything in this child
                             g_tr = &tr;
                             tr.add(vf::Ev("ProbeBegin").i("variant", i));
                             ServiceRegistry::set<IFace<2>>(std::make_shared<Svc<2>>(2), "m2");
                             {
                               std::shared_ptr<IFace<1>> p = std::make_shared<Reentrant>();
                               ServiceRegistry::set<IFace<1>>(p, "m1");
                               if (i == 0)
                               {
                                 ServiceRegistry::unregister<IFace<1>>();
                                 p.reset();
                               }
                               else
                               {
                                 p.reset();
                                 // flush what we have: the child may die inside the next call
                                 FILE *f = fopen((outp + ".d/x1.ndjson").c_str(), "w");
                                 if (f)
                                 {
                                   std::string t = tr.text();
                                   fwrite(t.data(), 1, t.size(), f);
                                   fclose(f);
                                 }
                                 ServiceRegistry::unregister<IFace<1>>();
                               }
                             }
                             tr.add(vf::Ev("ProbeSurvived").i("variant", i));
                             return tr.text();
                           });
    printf("executions=%d crashed=%d timedout=%d\n", res.executions, res.crashed, res.timedOut);
    return 0;
  }
  return 2;
}
