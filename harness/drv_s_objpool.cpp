// X08 (extra): iora::network::ObjectPool<T> / PooledObject<T> under the deterministic scheduler.
//   drv_s_objpool run <cases.txt> <out.ndjson> [parallel]
//   drv_s_objpool dfs "<case line without schedule>" <preemption bound> <max executions> <out.ndjson> [parallel]
//   drv_s_objpool outlive <out.ndjson>      probe: a PooledObject that outlives its pool (meaningful in the .asan build)
//   case:  <initial> <resetter 0|1> <max | -1 = leave the default> | a=acq:1,rel:1;b=pacq:1,stats | random <seed> / replay ...
//   thread ops (h = index of one of the thread's own handles, 1..4):
//     acq:h  rel:h  relnull  setmax:n  clear  stats  drop:h (destroy the object without returning it)
//     pacq:h (makePooled into PooledObject handle h)  pdrop:h (~PooledObject)  pmove:h1:h2 (p[h2] = std::move(p[h1]))
//     pdetach:h:h2 (unique handle h2 = p[h].release())
//   After the threads: main destroys the remaining PooledObjects, then the pool, then the objects still held
//   (objects outstanding at pool destruction survive it and are destroyed by their holders).
// Events: Begin{init,reset} Call{t,op,o,n} Ret{t,op,o,d,av,cr,ac,rl,ds} Created{o} ResetObj{o} Dtor{o} End{outcome,..}
//   PooledObject operations are logged as the pool operation they must amount to (see spec/extra/PoolTrace.tla).
#include "iora/network/object_pool.hpp"
#include "drv_xcore.hpp"

#include <memory>
#include <thread>

static vf::Trace *g_tr = nullptr;
static int g_nextObj = 0;

struct Obj
{
  int id;
  bool dirty = false;
  explicit Obj(int i) : id(i) {}
  ~Obj() { g_tr->add(vf::Ev("Dtor").i("o", id)); }
};
using Pool = iora::network::ObjectPool<Obj>;
using Pooled = iora::network::PooledObject<Obj>;

struct Hands
{
  std::unique_ptr<Obj> u[5];
  std::unique_ptr<Pooled> p[5];
};

struct Case
{
  int initial = 0, reset = 1, max = -1;
  std::vector<xc::ThreadProg> prog;
  vf::Options opt;
};

static void doRelease(Pool *pool, const std::string &t, std::unique_ptr<Obj> o)
{
  g_tr->add(vf::Ev("Call").str("t", t).str("op", "release").i("o", o ? o->id : 0));
  pool->release(std::move(o));
  g_tr->add(vf::Ev("Ret").str("t", t).str("op", "release"));
}
// ~PooledObject / move-assignment over a held object: must amount to release(object held)
template <class F> static void pooledRelease(const std::string &t, Pooled *p, F &&f)
{
  g_tr->add(vf::Ev("Call").str("t", t).str("op", "release").i("o", (p && *p) ? (*p)->id : 0));
  f();
  g_tr->add(vf::Ev("Ret").str("t", t).str("op", "release"));
}

static void dropHandle(const std::string &t, std::unique_ptr<Obj> &u)
{
  if (!u) return;
  g_tr->add(vf::Ev("Call").str("t", t).str("op", "drop").i("o", u->id));
  u.reset();
  g_tr->add(vf::Ev("Ret").str("t", t).str("op", "drop"));
}

static void runOp(Pool *pool, const std::string &t, Hands &H, const xc::Op &op)
{
  int h = op.arg(0), h2 = op.arg(1);
  if (h < 0 || h > 4 || h2 < 0 || h2 > 4) return;
  // a handle that is overwritten gives up what it holds first, as a logged operation of its own
  if (op.op == "acq") dropHandle(t, H.u[h]);
  if (op.op == "pdetach" && H.p[h]) dropHandle(t, H.u[h2]);
  if (op.op == "pacq" && H.p[h]) pooledRelease(t, H.p[h].get(), [&] { H.p[h].reset(); });
  if (op.op == "acq")
  {
    g_tr->add(vf::Ev("Call").str("t", t).str("op", "acquire"));
    auto o = pool->acquire();
    g_tr->add(vf::Ev("Ret").str("t", t).str("op", "acquire").i("o", o ? o->id : 0).i("d", o && o->dirty ? 1 : 0));
    if (o) o->dirty = true; // the holder uses the object
    H.u[h] = std::move(o);
  }
  else if (op.op == "rel")
    doRelease(pool, t, std::move(H.u[h]));
  else if (op.op == "relnull")
  {
    g_tr->add(vf::Ev("Call").str("t", t).str("op", "relnull"));
    pool->release(nullptr);
    g_tr->add(vf::Ev("Ret").str("t", t).str("op", "relnull"));
  }
  else if (op.op == "setmax")
  {
    g_tr->add(vf::Ev("Call").str("t", t).str("op", "setmax").i("n", h));
    pool->setMaxPoolSize((std::size_t)h);
    g_tr->add(vf::Ev("Ret").str("t", t).str("op", "setmax"));
  }
  else if (op.op == "clear")
  {
    g_tr->add(vf::Ev("Call").str("t", t).str("op", "clear"));
    pool->clear();
    g_tr->add(vf::Ev("Ret").str("t", t).str("op", "clear"));
  }
  else if (op.op == "stats")
  {
    g_tr->add(vf::Ev("Call").str("t", t).str("op", "stats"));
    auto s = pool->getStats();
    g_tr->add(vf::Ev("Ret").str("t", t).str("op", "stats").i("av", (long long)s.available).i("cr", (long long)s.totalCreated).i("ac", (long long)s.totalAcquired).i("rl", (long long)s.totalReleased).i("ds", (long long)s.totalDestroyed));
  }
  else if (op.op == "drop")
    dropHandle(t, H.u[h]);
  else if (op.op == "pacq")
  {
    g_tr->add(vf::Ev("Call").str("t", t).str("op", "acquire"));
    auto p = std::make_unique<Pooled>(iora::network::makePooled(*pool));
    g_tr->add(vf::Ev("Ret").str("t", t).str("op", "acquire").i("o", *p ? (*p)->id : 0).i("d", (*p && (*p)->dirty) ? 1 : 0));
    if (*p) (*p)->dirty = true;
    H.p[h] = std::move(p);
  }
  else if (op.op == "pdrop")
  {
    if (!H.p[h]) return;
    pooledRelease(t, H.p[h].get(), [&] { H.p[h].reset(); });
  }
  else if (op.op == "pmove")
  {
    if (!H.p[h] || h == h2) return;
    if (!H.p[h2]) H.p[h2] = std::make_unique<Pooled>(nullptr, pool);
    pooledRelease(t, H.p[h2].get(), [&] { *H.p[h2] = std::move(*H.p[h]); });
    H.p[h].reset(); // moved-from: holds nothing, its destructor must not touch the pool
  }
  else if (op.op == "pdetach")
  {
    if (!H.p[h]) return;
    g_tr->add(vf::Ev("Call").str("t", t).str("op", "pdetach"));
    H.u[h2] = H.p[h]->release();
    g_tr->add(vf::Ev("Ret").str("t", t).str("op", "pdetach"));
    H.p[h].reset(); // detached: its destructor must not touch the pool
  }
}

static std::string runOne(const Case &c, const vf::Options &opt, bool emitSched)
{
  auto tr = std::make_shared<vf::Trace>();
  g_tr = tr.get();
  g_nextObj = 0;
  tr->add(vf::Ev("Begin").i("init", c.initial).i("reset", c.reset));
  vf::Options o = opt;
  o.maxSteps = 20000;
  vf::reset(o);
  vf::spawn("main",
            [tr, &c]()
            {
              vf::point("start");
              tr->add(vf::Ev("Call").str("t", "main").str("op", "ctor"));
              Pool::Factory fac = []()
              {
                int id = ++g_nextObj;
                g_tr->add(vf::Ev("Created").i("o", id));
                return std::make_unique<Obj>(id);
              };
              Pool::Resetter rs = nullptr;
              if (c.reset)
                rs = [](Obj *o)
                {
                  g_tr->add(vf::Ev("ResetObj").i("o", o->id));
                  o->dirty = false;
                };
              auto *pool = new Pool(fac, rs, (std::size_t)c.initial);
              tr->add(vf::Ev("Ret").str("t", "main").str("op", "ctor"));
              std::vector<Hands> hands(c.prog.size() + 1);
              if (c.max >= 0)
              {
                xc::Op sm;
                sm.op = "setmax";
                sm.a = {c.max};
                runOp(pool, "main", hands[c.prog.size()], sm);
              }
              std::vector<std::thread> th;
              for (size_t i = 0; i < c.prog.size(); ++i)
              {
                vf::nameNextChild(c.prog[i].name);
                th.emplace_back(
                  [pool, &c, &hands, i]()
                  {
                    for (auto &op : c.prog[i].ops)
                    {
                      vf::point("call");
                      runOp(pool, c.prog[i].name, hands[i], op);
                    }
                  });
              }
              for (auto &t : th) t.join();
              vf::point("teardown");
              for (auto &H : hands)
                for (int h = 0; h < 5; ++h)
                  if (H.p[h]) pooledRelease("main", H.p[h].get(), [&] { H.p[h].reset(); });
              tr->add(vf::Ev("Call").str("t", "main").str("op", "dtor"));
              delete pool;
              tr->add(vf::Ev("Ret").str("t", "main").str("op", "dtor"));
              for (auto &H : hands)
                for (int h = 0; h < 5; ++h)
                  if (H.u[h])
                  {
                    tr->add(vf::Ev("Call").str("t", "main").str("op", "drop").i("o", H.u[h]->id));
                    H.u[h].reset();
                    tr->add(vf::Ev("Ret").str("t", "main").str("op", "drop"));
                  }
            });
  vf::Result r = vf::run();
  tr->add(xc::endEvent(r));
  std::string text = tr->text();
  if (emitSched) text += xc::schedLine(r);
  return text;
}

static bool parseCase(const std::string &ln, Case &c, bool withSched)
{
  auto parts = vf::split(ln, '|');
  if (parts.size() < (withSched ? 3u : 2u)) return false;
  auto w = vf::words(parts[0]);
  if (w.size() < 3) return false;
  c.initial = atoi(w[0].c_str());
  c.reset = atoi(w[1].c_str());
  c.max = atoi(w[2].c_str());
  c.prog = xc::parseProg(parts[1]);
  if (withSched) c.opt = xc::parseSched(parts[2]);
  return true;
}

int main(int argc, char **argv)
{
  if (argc < 3) return 2;
  std::string cmd = argv[1];
  if (cmd == "run" && argc >= 4)
  {
    std::vector<Case> cases;
    for (auto &ln : vf::readLines(argv[2]))
    {
      Case c;
      if (parseCase(ln, c, true)) cases.push_back(std::move(c));
    }
    int par = argc > 4 ? atoi(argv[4]) : 8;
    auto res = vf::runMany((int)cases.size(), par, 60.0, std::string(argv[3]) + ".d", argv[3], [&](int i) { return runOne(cases[i], cases[i].opt, false); });
    printf("executions=%d crashed=%d timedout=%d\n", res.executions, res.crashed, res.timedOut);
    return 0;
  }
  if (cmd == "dfs" && argc >= 6)
  {
    Case c;
    if (!parseCase(argv[2], c, false)) return 2;
    return xc::dfs([&](const vf::Options &o, bool s) { return runOne(c, o, s); }, atoi(argv[3]), atoi(argv[4]), argv[5], argc > 6 ? atoi(argv[6]) : 8);
  }
  if (cmd == "outlive")
  {
    // a PooledObject holds a raw ObjectPool*: destroying the pool first makes ~PooledObject call release() on freed memory
    auto res = vf::runMany(1, 1, 60.0, std::string(argv[2]) + ".d", argv[2],
                           [&](int)
                           {
                             auto tr = std::make_shared<vf::Trace>();
                             g_tr = tr.get();
                             tr->add(vf::Ev("Begin").i("init", 0).i("reset", 0));
                             {
                               auto *pool = new Pool([]() { return std::make_unique<Obj>(++g_nextObj); });
                               auto p = iora::network::makePooled(*pool);
                               delete pool;
                               tr->add(vf::Ev("PoolDestroyed"));
                             } // ~PooledObject -> pool_->release(): use after free
                             tr->add(vf::Ev("HolderDestroyed"));
                             return tr->text();
                           });
    printf("executions=%d crashed=%d timedout=%d\n", res.executions, res.crashed, res.timedOut);
    return 0;
  }
  return 2;
}
