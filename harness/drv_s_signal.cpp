// X06 (extra): iora::core::Signal<int> / ScopedConnection under the deterministic scheduler.
//   drv_s_signal run <cases.txt> <out.ndjson> [parallel]
//   drv_s_signal dfs "<case line without schedule>" <preemption bound> <max executions> <out.ndjson> [parallel]
//   case:  <max ids a 'connector' slot may still create> | a=conn:plain,emit,disc:1;b=conn:weak:1,expire:1,emit | random <seed> / replay ...
//   thread ops:
//     conn:<kind>[:<w>]   kind: plain | selfdisc (disconnects itself when run) | killnext (disconnects id+1 when run) |
//                               connector (connects a new plain slot when run) | thrower (throws) | reemit (emits again, once) |
//                               weak (member function of weak target <w>, a fresh shared object per w)
//     disc:<id>  discall  count  emit  expire:<w>  sethandler:<0|1>
//     sconn:<h>:<kind>  sdrop:<h>  sreset:<h>  srel:<h>  smove:<h1>:<h2>      ScopedConnection handles of the thread (1..4)
//   The signal's argument is the emit instance number x, so every slot knows (and logs) which emit runs it.
//   Every slot body starts with a schedule point ("slot") so that a TLC behaviour can be replayed step by step.
// Events: see spec/extra/SignalTrace.tla.  Slots are identified by a driver-assigned tag g (known before connect returns).
#include "iora/core/signal.hpp"
#include "drv_xcore.hpp"

#include <atomic>
#include <memory>
#include <thread>

using Sig = iora::core::Signal<int>;
static vf::Trace *g_tr = nullptr;
static std::atomic<int> g_call{0}, g_emit{0}, g_tag{0}, g_connects{0};
static int g_maxIds = 3;
static thread_local const char *t_name = "?";
static thread_local int t_depth = 0;

struct XErr
{
  int x;
};
struct Listener
{
  int w;
  explicit Listener(int w_) : w(w_) {}
  ~Listener() { g_tr->add(vf::Ev("Expire").i("w", w)); }
  void onEvent(const int &x)
  {
    vf::point("slot");
    g_tr->add(vf::Ev("Slot").str("t", t_name).i("x", x).i("g", 0).i("w", w));
  }
};
static std::shared_ptr<Listener> g_targets[3];

struct World
{
  Sig sig;
};

static uint64_t doConnect(Sig &sig, const std::string &kind, int w);

static void doDisconnect(Sig &sig, uint64_t id)
{
  int c = ++g_call;
  g_tr->add(vf::Ev("Call").str("t", t_name).i("c", c).str("op", "disconnect").i("id", (long long)id));
  sig.disconnect(id);
  g_tr->add(vf::Ev("Ret").str("t", t_name).i("c", c).str("op", "disconnect"));
}
static void doEmit(Sig &sig)
{
  int x = ++g_emit;
  g_tr->add(vf::Ev("EmitCall").str("t", t_name).i("x", x));
  ++t_depth;
  sig.emit(x);
  --t_depth;
  g_tr->add(vf::Ev("EmitRet").str("t", t_name).i("x", x));
}

// the slot bodies
static std::function<void(const int &)> makeSlot(Sig &sig, const std::string &kind, int g, std::shared_ptr<std::atomic<uint64_t>> self)
{
  return [&sig, kind, g, self](const int &x)
  {
    vf::point("slot");
    bool thr = kind == "thrower";
    g_tr->add(vf::Ev("Slot").str("t", t_name).i("x", x).i("g", g).i("thr", thr ? 1 : 0));
    if (kind == "selfdisc")
      doDisconnect(sig, self->load());
    else if (kind == "killnext")
      doDisconnect(sig, self->load() ? self->load() + 1 : 0);
    else if (kind == "connector")
    {
      if (g_connects.load() < g_maxIds) doConnect(sig, "plain", 0);
    }
    else if (kind == "reemit")
    {
      if (t_depth == 1) doEmit(sig);
    }
    else if (thr)
      throw XErr{x};
  };
}

// returns the id; *cell receives it for slots that need their own id
static uint64_t connectLogged(Sig &sig, const std::string &kind, int w, bool scoped, Sig::ScopedConnection *out, const std::string &hk = "")
{
  int c = ++g_call, g = ++g_tag;
  ++g_connects;
  const char *opn = scoped ? "sconn" : "connect";
  g_tr->add(vf::Ev("Call").str("t", t_name).i("c", c).str("op", opn).i("g", g).i("w", kind == "weak" ? w : 0).str("kind", kind).str("h", hk));
  uint64_t id = 0;
  if (kind == "weak")
  {
    std::weak_ptr<Listener> wp = (w >= 0 && w < 3) ? g_targets[w] : nullptr;
    id = sig.connect(wp, &Listener::onEvent);
  }
  else
  {
    auto cell = std::make_shared<std::atomic<uint64_t>>(0);
    id = sig.connect(makeSlot(sig, kind, g, cell));
    cell->store(id);
  }
  if (scoped && out)
  {
    *out = Sig::ScopedConnection(&sig, id); // move-assignment over an empty ScopedConnection
    id = out->id();
  }
  g_tr->add(vf::Ev("Ret").str("t", t_name).i("c", c).str("op", opn).i("id", (long long)id));
  return id;
}
static uint64_t doConnect(Sig &sig, const std::string &kind, int w) { return connectLogged(sig, kind, w, false, nullptr); }

// ScopedConnection operations are logged by NAME and handle; what they must do to the signal is SignalTrace.tla's business
template <class F> static void scopedOp(const char *op, const std::string &h, const std::string &h2, F &&f)
{
  int c = ++g_call;
  g_tr->add(vf::Ev("Call").str("t", t_name).i("c", c).str("op", op).str("h", h).str("h2", h2));
  long long rv = f();
  g_tr->add(vf::Ev("Ret").str("t", t_name).i("c", c).str("op", op).i("id", rv));
}

struct Hands
{
  std::string owner;
  std::unique_ptr<Sig::ScopedConnection> sc[5];
  std::string key(int h) const { return owner + std::to_string(h); }
};

static const char *KINDS[] = {"plain", "selfdisc", "killnext", "connector", "thrower", "reemit", "weak"};

struct Case
{
  int maxIds = 3;
  std::vector<std::string> kinds; // kind names by op argument index (see parseCase)
  std::vector<xc::ThreadProg> prog;
  vf::Options opt;
};

static void runOp(Sig &sig, Hands &H, const xc::Op &op)
{
  int a0 = op.arg(0), a1 = op.arg(1);
  if (op.op == "conn")
    doConnect(sig, KINDS[a0 % 7], a1);
  else if (op.op == "disc")
    doDisconnect(sig, (uint64_t)a0);
  else if (op.op == "discall")
  {
    int c = ++g_call;
    g_tr->add(vf::Ev("Call").str("t", t_name).i("c", c).str("op", "disconnectAll"));
    sig.disconnectAll();
    g_tr->add(vf::Ev("Ret").str("t", t_name).i("c", c).str("op", "disconnectAll"));
  }
  else if (op.op == "count")
  {
    int c = ++g_call;
    g_tr->add(vf::Ev("Call").str("t", t_name).i("c", c).str("op", "count"));
    auto n = sig.connectionCount();
    bool e = sig.empty();
    g_tr->add(vf::Ev("Ret").str("t", t_name).i("c", c).str("op", "count").i("n", (long long)n).b("empty", e));
  }
  else if (op.op == "emit")
    doEmit(sig);
  else if (op.op == "expire")
  {
    if (a0 >= 0 && a0 < 3) g_targets[a0].reset(); // ~Listener logs Expire when the last owner lets go
  }
  else if (op.op == "sethandler")
  {
    int c = ++g_call;
    g_tr->add(vf::Ev("Call").str("t", t_name).i("c", c).str("op", "sethandler").i("on", a0));
    if (a0)
      sig.setExceptionHandler(
        [](std::exception_ptr ep)
        {
          try
          {
            std::rethrow_exception(ep);
          }
          catch (const XErr &e)
          {
            g_tr->add(vf::Ev("Handler").str("t", t_name).i("x", e.x));
          }
          catch (...)
          {
            g_tr->add(vf::Ev("Handler").str("t", t_name).i("x", -1));
          }
        });
    else
      sig.setExceptionHandler(nullptr);
    g_tr->add(vf::Ev("Ret").str("t", t_name).i("c", c).str("op", "sethandler"));
  }
  else if (op.op == "sconn")
  {
    if (a0 < 1 || a0 > 4) return;
    if (H.sc[a0]) scopedOp("sdrop", H.key(a0), "", [&] { H.sc[a0].reset(); return 0; });
    H.sc[a0] = std::make_unique<Sig::ScopedConnection>();
    connectLogged(sig, KINDS[a1 % 7], 0, true, H.sc[a0].get(), H.key(a0));
  }
  else if (op.op == "sdrop")
  {
    if (a0 < 1 || a0 > 4 || !H.sc[a0]) return;
    scopedOp("sdrop", H.key(a0), "", [&] { H.sc[a0].reset(); return 0; });
  }
  else if (op.op == "sreset")
  {
    if (a0 < 1 || a0 > 4 || !H.sc[a0]) return;
    scopedOp("sreset", H.key(a0), "", [&] { H.sc[a0]->reset(); return (long long)H.sc[a0]->id(); });
  }
  else if (op.op == "srel")
  {
    if (a0 < 1 || a0 > 4 || !H.sc[a0]) return;
    scopedOp("srel", H.key(a0), "", [&] { return (long long)H.sc[a0]->release(); });
  }
  else if (op.op == "smove")
  {
    if (a0 < 1 || a0 > 4 || a1 < 1 || a1 > 4 || a0 == a1 || !H.sc[a0]) return;
    if (!H.sc[a1]) H.sc[a1] = std::make_unique<Sig::ScopedConnection>();
    scopedOp("smove", H.key(a0), H.key(a1), [&] { *H.sc[a1] = std::move(*H.sc[a0]); return (long long)H.sc[a1]->id(); });
  }
}

static std::string runOne(const Case &c, const vf::Options &opt, bool emitSched)
{
  auto tr = std::make_shared<vf::Trace>();
  g_tr = tr.get();
  g_call = 0;
  g_emit = 0;
  g_tag = 0;
  g_connects = 0;
  g_maxIds = c.maxIds;
  tr->add(vf::Ev("Begin"));
  vf::Options o = opt;
  o.maxSteps = 40000;
  vf::reset(o);
  vf::spawn("main",
            [tr, &c]()
            {
              t_name = "main";
              vf::point("start");
              for (int w = 0; w < 3; ++w) g_targets[w] = std::make_shared<Listener>(w);
              auto *sig = new Sig();
              std::vector<Hands> hands(c.prog.size());
              for (size_t i = 0; i < c.prog.size(); ++i) hands[i].owner = c.prog[i].name;
              std::vector<std::thread> th;
              for (size_t i = 0; i < c.prog.size(); ++i)
              {
                vf::nameNextChild(c.prog[i].name);
                th.emplace_back(
                  [sig, &c, &hands, i]()
                  {
                    t_name = c.prog[i].name.c_str();
                    for (auto &op : c.prog[i].ops)
                    {
                      vf::point("call");
                      runOp(*sig, hands[i], op);
                    }
                  });
              }
              for (auto &t : th) t.join();
              vf::point("teardown");
              // remaining ScopedConnections disconnect at destruction; then one last emit shows what is still connected
              for (auto &H : hands)
                for (int h = 1; h <= 4; ++h)
                  if (H.sc[h]) scopedOp("sdrop", H.key(h), "", [&] { H.sc[h].reset(); return 0; });
              doEmit(*sig);
              {
                int cc = ++g_call;
                g_tr->add(vf::Ev("Call").str("t", t_name).i("c", cc).str("op", "count"));
                auto n = sig->connectionCount();
                g_tr->add(vf::Ev("Ret").str("t", t_name).i("c", cc).str("op", "count").i("n", (long long)n).b("empty", sig->empty()));
              }
              delete sig;
              for (int w = 0; w < 3; ++w) g_targets[w].reset();
            });
  vf::Result r = vf::run();
  tr->add(xc::endEvent(r));
  std::string text = tr->text();
  if (emitSched) text += xc::schedLine(r);
  return text;
}

// ops carry integers only: kinds are written by name in the case file and translated here
static std::string kindsToInts(const std::string &prog)
{
  std::string s = prog;
  for (int k = 6; k >= 0; --k)
  {
    std::string name = std::string(":") + KINDS[k];
    size_t p;
    while ((p = s.find(name)) != std::string::npos)
    {
      size_t end = p + name.size();
      if (end < s.size() && (isalnum((unsigned char)s[end]))) break; // (no kind name is a prefix of another)
      s.replace(p, name.size(), ":" + std::to_string(k));
    }
  }
  return s;
}

static bool parseCase(const std::string &ln, Case &c, bool withSched)
{
  auto parts = vf::split(ln, '|');
  if (parts.size() < (withSched ? 3u : 2u)) return false;
  auto w = vf::words(parts[0]);
  if (!w.empty()) c.maxIds = atoi(w[0].c_str());
  c.prog = xc::parseProg(kindsToInts(parts[1]));
  // sconn:<h>:<kind> has the kind second; conn:<kind>[:w] first - both are integers now
  if (withSched) c.opt = xc::parseSched(parts[2]);
  return true;
}

int main(int argc, char **argv)
{
  if (argc < 3) return 2;
  std::string cmd = argv[1];
  if (cmd == "run" && argc >= 4)
  {
    std::vector<Case> cases;
    for (auto &ln : vf::readLines(argv[2]))
    {
      Case c;
      if (parseCase(ln, c, true)) cases.push_back(std::move(c));
    }
    int par = argc > 4 ? atoi(argv[4]) : 8;
    auto res = vf::runMany((int)cases.size(), par, 60.0, std::string(argv[3]) + ".d", argv[3], [&](int i) { return runOne(cases[i], cases[i].opt, false); });
    printf("executions=%d crashed=%d timedout=%d\n", res.executions, res.crashed, res.timedOut);
    return 0;
  }
  if (cmd == "dfs" && argc >= 6)
  {
    Case c;
    if (!parseCase(argv[2], c, false)) return 2;
    return xc::dfs([&](const vf::Options &o, bool s) { return runOne(c, o, s); }, atoi(argv[3]), atoi(argv[4]), argv[5], argc > 6 ? atoi(argv[6]) : 8);
  }
  return 2;
}
