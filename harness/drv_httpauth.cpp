// X15 conformance driver: iora::network::requireBasicAuth (include/iora/network/http_auth.hpp).
//
//   drv_httpauth run <cases> <out.ndjson> <batch> <parallel>      forked workers (parsers_run.hpp)
// case lines (written by checks/X15.py from the terminal states of spec/extra/HttpAuth.tla):
//   A <present 0|1> <key spelling 0|1|2> <header value hex|-> <verify behaviour> <realm hex|->
//        verify behaviour: true | false | throw (std::runtime_error) | throw2 (an int) | true_ithrow (true, then the
//        protected handler throws std::runtime_error)
//   R <realm hex|->          construction with this realm, then (if accepted) one request without Authorization
// events (judged by spec/extra/HttpAuthTrace.tla):
//   Auth  {present,kc,hdr,vb,realm,status,vcalls,user,pass,icalls,exc,haswww,www,body}
//   Realm {realm,threw,status,haswww,www}
// The protected handler sets status 299 and body "inner"; verify records every call with the exact octets it was given.
#include "iora/network/http_auth.hpp"
#include "parsers_run.hpp"
#include "vf/exec.hpp"
#include "vf/trace.hpp"

using iora::network::HttpServer;

static std::string unhex(const std::string &h)
{
  std::string o;
  if (h == "-") return o;
  auto v = [](char c) { return c <= '9' ? c - '0' : (c | 32) - 'a' + 10; };
  for (size_t i = 0; i + 1 < h.size(); i += 2) o += (char)(v(h[i]) * 16 + v(h[i + 1]));
  return o;
}
static std::vector<int> ints(const std::string &s)
{
  std::vector<int> o;
  for (unsigned char c : s) o.push_back(c);
  return o;
}
static vf::Ev &put(vf::Ev &e, const char *k, const std::string &s)
{
  auto v = ints(s);
  return e.ints(k, v.begin(), v.end());
}

struct Probe
{
  int vcalls = 0, icalls = 0;
  std::string user, pass;
};

static HttpServer::Handler build(const std::string &realm, const std::string &vb, Probe &p)
{
  return iora::network::requireBasicAuth(
    realm,
    [&p, vb](const std::string &u, const std::string &pw) -> bool
    {
      ++p.vcalls;
      if (p.vcalls == 1)
      {
        p.user = u;
        p.pass = pw;
      }
      if (vb == "throw") throw std::runtime_error("boom");
      if (vb == "throw2") throw 42;
      return vb == "true" || vb == "true_ithrow";
    },
    [&p, vb](const HttpServer::Request &, HttpServer::Response &res)
    {
      ++p.icalls;
      if (vb == "true_ithrow") throw std::runtime_error("inner boom");
      res.status = 299;
      res.set_content("inner", "text/plain");
    });
}

static std::string runCase(const std::string &line)
{
  static bool quiet = (freopen("/dev/null", "w", stdout) != nullptr); // the logger prints to std::cout
  (void)quiet;
  auto w = vf::words(line);
  if (w.empty()) return "";
  if (w[0] == "A" && w.size() >= 6)
  {
    bool present = w[1] == "1";
    int kc = atoi(w[2].c_str());
    std::string hdr = unhex(w[3]), vb = w[4], realm = unhex(w[5]);
    Probe p;
    HttpServer::Request req;
    HttpServer::Response res;
    req.path = "/x";
    static const char *keys[] = {"Authorization", "authorization", "AUTHORIZATION"};
    if (present) req.headers[keys[kc % 3]] = hdr;
    std::string exc = "none";
    try
    {
      auto h = build(realm, vb, p);
      h(req, res);
    }
    catch (const std::exception &)
    {
      exc = "std";
    }
    catch (...)
    {
      exc = "other";
    }
    bool haswww = res.headers.find("WWW-Authenticate") != res.headers.end();
    vf::Ev e("Auth");
    e.b("present", present).i("kc", kc);
    put(e, "hdr", hdr).str("vb", vb);
    put(e, "realm", realm).i("status", exc == "none" ? res.status : 0).i("vcalls", p.vcalls);
    put(e, "user", p.user);
    put(e, "pass", p.pass).i("icalls", p.icalls).str("exc", exc).b("haswww", haswww);
    put(e, "www", haswww ? res.headers["WWW-Authenticate"] : std::string());
    put(e, "body", res.body);
    return e.done() + "\n";
  }
  if (w[0] == "R" && w.size() >= 2)
  {
    std::string realm = unhex(w[1]);
    Probe p;
    bool threw = false;
    std::string other = "none";
    HttpServer::Request req;
    HttpServer::Response res;
    try
    {
      auto h = build(realm, "true", p);
      h(req, res);
    }
    catch (const std::invalid_argument &)
    {
      threw = true;
    }
    catch (...)
    {
      other = "other";
    }
    bool haswww = res.headers.find("WWW-Authenticate") != res.headers.end();
    vf::Ev e("Realm");
    put(e, "realm", realm).b("threw", threw).str("exc", other).i("status", res.status).b("haswww", haswww).i("vcalls", p.vcalls).i("icalls", p.icalls);
    put(e, "www", haswww ? res.headers["WWW-Authenticate"] : std::string());
    return e.done() + "\n";
  }
  return "";
}

int main(int argc, char **argv)
{
  if (argc >= 6 && std::string(argv[1]) == "run")
  {
    auto lines = vf::readLines(argv[2]);
    int batch = atoi(argv[4]), par = atoi(argv[5]);
    if (batch <= 0) batch = 1;
    auto r = vfp::runResilient((int)lines.size(), batch, par, 30.0, argv[3], [&](int k) { return runCase(lines[k]); });
    printf("cases=%d crashed=%d hung=%d workers=%d\n", r.cases, r.crashed, r.hung, r.workers);
    return 0;
  }
  fprintf(stderr, "usage: drv_httpauth run <cases> <out> <batch> <parallel>\n");
  return 2;
}
