// C15 conformance driver: HTTP/1.1 message framing of the real iora code under exact segmentations.
//
//   drv_httpframe run <cases.txt> <out.ndjson> <parallel> [callTimeoutMs]
//
// One line of <cases.txt> = one generated stream (rendered to bytes by checks/C15.py from the lexemes TLC produced)
// plus the segmentations to run.  Fields are separated by " | ":
//   0  side rm mode wantMsgs wantEnd waitMs      side = req|resp, mode = direct|sock|e2e|fuzz
//                                                wantMsgs / wantEnd only bound how long the driver WAITS for the
//                                                server's worker threads, they never decide anything
//   1  lexemes as JSON (echoed into the Begin event, not interpreted here)
//   2  stream: comma separated parts  h<hex> | z<count> (count octets 'Z')
//   3  eof: 1 = the peer closes after the last octet
//   4  header table: kind:arg:name:valuehex;...   (to report which generated fields the application was handed;
//                                                 value z<count> = count octets 'Z')
//   5  data table:   id:hex;...                    (to report the body as generated DATA lexemes; 99 = anything else)
//   6  cuts: S = no cut, every single cut, every octet alone;  P = S + every pair of cuts;
//            L:<c1,c2;c3;;...> explicit cut sets;  R:<n>:<seed> n random cut sets of 1..4 cuts (plus S if short)
//
// Every stream runs in its own forked child.  Server side: a real HttpServer on a loopback port; for every
// segmentation a fresh raw TCP connection (so the session really exists and responses / closes travel through the
// real transport), the segments are handed to the protected handleIncomingData of that session one call at a time
// (mode direct) or written to the socket with pauses (mode sock); a default handler records every Request the
// application is handed.  Client side: the private frameResponse is fed through the IORA_VERIF friend hook with the
// receive loop of executeRequest around it (mode direct), or a real HttpClient talks to a scripted socket server
// that writes the segments (mode e2e).  A framing call that does not return within callTimeoutMs is reported as
// "hang" by a watchdog thread, which then writes the child's output and ends the child.
//
// Output per stream: Begin{side,rm,mode,lex}, one Obs per DISTINCT observation {n = segmentations that produced it,
// seg = one of them, msgs = [{start,h,nh,b}], err, hang, threw, ...}, End, Reset.  Merging equal observations is
// only a compression of the log; the verdict is TLC's (spec/http/HttpFramingTrace.tla).
#include "iora/network/http_client.hpp"
#include "iora/network/http_server.hpp"
#include "vf/exec.hpp"
#include "vf/trace.hpp"

#include <arpa/inet.h>
#include <fcntl.h>
#include <netinet/tcp.h>
#include <poll.h>
#include <random>
#include <sys/file.h>
#include <sys/socket.h>

using namespace iora::network;

namespace iora
{
namespace verif
{
struct Access
{
  using C = HttpClient;
  struct St
  {
    std::string data;
    bool headersDone = false;
    std::size_t headerScanPos = 0, bodyStart = 0;
    C::Response resp;
    C::Framing framing;
    C::ChunkState cs;
    bool forceEvict = false;
  };
  static bool frame(const C &c, const std::string &method, St &s, std::size_t cap)
  {
    return c.frameResponse(method, s.data, s.headersDone, s.headerScanPos, s.bodyStart, s.resp, s.framing, s.cs,
                           s.forceEvict, cap);
  }
  static bool closeDelimited(const St &s) { return s.headersDone && s.framing.mode == C::BodyMode::CloseDelimited; }
};
} // namespace verif
} // namespace iora
using iora::verif::Access;

// ------------------------------------------------------------------------------------------------ case
struct HdrEnt
{
  std::string kind;
  long arg;
  std::string name, value;
};
struct Case
{
  std::string side, rm, mode, wantEnd, lexJson, cutSpec;
  int wantMsgs = 0, waitMs = 1500;
  std::string stream;
  bool eof = false;
  std::vector<HdrEnt> hdrs;
  std::vector<std::pair<int, std::string>> data;
};

static std::string unhex(const std::string &h)
{
  std::string o;
  for (size_t i = 0; i + 1 < h.size(); i += 2) o += (char)std::stoi(h.substr(i, 2), nullptr, 16);
  return o;
}
static std::string trim(const std::string &s)
{
  size_t a = s.find_first_not_of(" \t"), b = s.find_last_not_of(" \t");
  return a == std::string::npos ? "" : s.substr(a, b - a + 1);
}
static std::vector<std::string> splitStr(const std::string &s, const std::string &sep)
{
  std::vector<std::string> o;
  size_t p = 0;
  for (;;)
  {
    size_t q = s.find(sep, p);
    if (q == std::string::npos)
    {
      o.push_back(s.substr(p));
      break;
    }
    o.push_back(s.substr(p, q - p));
    p = q + sep.size();
  }
  return o;
}
static bool parseCase(const std::string &line, Case &c)
{
  auto f = splitStr(line, " | ");
  if (f.size() < 7) return false;
  auto w = vf::words(f[0]);
  if (w.size() < 6) return false;
  c.side = w[0];
  c.rm = w[1];
  c.mode = w[2];
  c.wantMsgs = atoi(w[3].c_str());
  c.wantEnd = w[4];
  c.waitMs = atoi(w[5].c_str());
  c.lexJson = trim(f[1]);
  for (auto &part : vf::split(trim(f[2]), ','))
  {
    if (part.empty()) continue;
    if (part[0] == 'h') c.stream += unhex(part.substr(1));
    if (part[0] == 'z') c.stream += std::string((size_t)atol(part.c_str() + 1), 'Z');
  }
  c.eof = trim(f[3]) == "1";
  for (auto &e : vf::split(trim(f[4]), ';'))
  {
    auto p = vf::split(e, ':');
    // value: hex, or z<count> = count octets 'Z' (the big header / trailer fields)
    if (p.size() == 4)
      c.hdrs.push_back({p[0], atol(p[1].c_str()), p[2],
                        !p[3].empty() && p[3][0] == 'z' ? std::string((size_t)atol(p[3].c_str() + 1), 'Z') : unhex(p[3])});
  }
  for (auto &e : vf::split(trim(f[5]), ';'))
  {
    auto p = vf::split(e, ':');
    if (p.size() == 2) c.data.push_back({atoi(p[0].c_str()), unhex(p[1])});
  }
  c.cutSpec = trim(f[6]);
  return true;
}

using Cuts = std::vector<size_t>;
static std::vector<Cuts> cutSets(const Case &c)
{
  std::vector<Cuts> o;
  size_t n = c.stream.size();
  auto addS = [&]()
  {
    o.push_back({});
    for (size_t i = 1; i < n; ++i) o.push_back({i});
    if (n > 2 && n <= 4096)
    {
      Cuts all;
      for (size_t i = 1; i < n; ++i) all.push_back(i);
      o.push_back(all);
    }
  };
  if (c.cutSpec == "S")
    addS();
  else if (c.cutSpec == "P")
  {
    addS();
    for (size_t i = 1; i < n; ++i)
      for (size_t j = i + 1; j < n; ++j) o.push_back({i, j});
  }
  else if (c.cutSpec.rfind("L:", 0) == 0)
  {
    for (auto &set : vf::split(c.cutSpec.substr(2), ';'))
    {
      Cuts cs;
      for (auto &x : vf::split(set, ','))
        if (!x.empty())
        {
          size_t v = (size_t)atol(x.c_str());
          if (v > 0 && v < n) cs.push_back(v);
        }
      std::sort(cs.begin(), cs.end());
      cs.erase(std::unique(cs.begin(), cs.end()), cs.end());
      o.push_back(cs);
    }
  }
  else if (c.cutSpec.rfind("R:", 0) == 0)
  {
    auto p = vf::split(c.cutSpec, ':');
    int cnt = atoi(p[1].c_str());
    std::mt19937_64 rng(p.size() > 2 ? atoll(p[2].c_str()) : 1);
    o.push_back({});
    for (int k = 0; k < cnt && n > 1; ++k)
    {
      Cuts cs;
      int m = 1 + (int)(rng() % 4);
      for (int j = 0; j < m; ++j) cs.push_back(1 + rng() % (n - 1));
      std::sort(cs.begin(), cs.end());
      cs.erase(std::unique(cs.begin(), cs.end()), cs.end());
      o.push_back(cs);
    }
  }
  else
    o.push_back({});
  return o;
}
static std::vector<std::pair<size_t, size_t>> segments(size_t n, const Cuts &cuts)
{
  std::vector<std::pair<size_t, size_t>> o;
  size_t p = 0;
  for (size_t cpos : cuts)
  {
    o.push_back({p, cpos - p});
    p = cpos;
  }
  o.push_back({p, n - p});
  return o;
}

// ------------------------------------------------------------------------------------------------ observations
struct MsgObs
{
  std::string start; // JSON ["REQ", 12]
  std::string h;     // JSON [["CL",3],...]
  long nh = 0;
  std::string b; // JSON [1,2]
  long key = 0;  // order key (path id)
  unsigned long long sid = 0; // session the request arrived on
  std::string json() const
  {
    return "{\"start\":" + start + ",\"h\":" + h + ",\"nh\":" + std::to_string(nh) + ",\"b\":" + b + "}";
  }
};

template <class Map> static std::string headerFacts(const Case &c, const Map &headers)
{
  std::string o = "[";
  bool first = true;
  for (auto &e : c.hdrs)
  {
    auto it = headers.find(e.name);
    if (it != headers.end() && it->second == e.value)
    {
      if (!first) o += ",";
      first = false;
      o += "[\"" + e.kind + "\"," + std::to_string(e.arg) + "]";
    }
  }
  return o + "]";
}
static std::string bodyFacts(const Case &c, const std::string &body)
{
  std::string o = "[";
  size_t p = 0;
  bool first = true;
  while (p < body.size())
  {
    int best = -1;
    size_t bl = 0;
    for (auto &d : c.data)
      if (d.second.size() > bl && body.compare(p, d.second.size(), d.second) == 0)
      {
        best = d.first;
        bl = d.second.size();
      }
    if (best < 0) return "[99]";
    if (!first) o += ",";
    first = false;
    o += std::to_string(best);
    p += bl;
  }
  return o + "]";
}

struct Group
{
  long n = 0;
  std::string seg;
};
struct Run
{
  const Case *c = nullptr;
  std::string outPath;
  std::vector<std::pair<std::string, Group>> groups; // observation JSON (without n/seg) -> count
  std::string curSeg;
  std::atomic<long long> callStartMs{0}; // 0 = not inside a framing call
  long evaluations = 0;
  std::string infra;
};
static Run g_run;

static std::string cutsJson(const Cuts &cs)
{
  std::string o = "[";
  for (size_t i = 0; i < cs.size() && i < 8; ++i) o += (i ? "," : "") + std::to_string(cs[i]);
  return o + "]";
}
static void addObs(const std::string &obs, const std::string &seg)
{
  g_run.evaluations++;
  for (auto &g : g_run.groups)
    if (g.first == obs)
    {
      g.second.n++;
      return;
    }
  g_run.groups.push_back({obs, Group{1, seg}});
}
static std::string renderOutput(const std::string &extra)
{
  const Case &c = *g_run.c;
  std::string o = "{\"e\":\"Begin\",\"side\":\"" + c.side + "\",\"rm\":\"" + c.rm + "\",\"mode\":\"" + c.mode +
                  "\",\"lex\":" + c.lexJson + "}\n";
  for (auto &g : g_run.groups)
    o += "{\"e\":\"Obs\",\"n\":" + std::to_string(g.second.n) + ",\"seg\":" + g.second.seg + "," + g.first + "}\n";
  o += extra;
  if (!g_run.infra.empty()) o += "{\"e\":\"Infra\",\"what\":\"" + vf::Ev::esc(g_run.infra) + "\"}\n";
  o += "{\"e\":\"End\",\"runs\":" + std::to_string(g_run.evaluations) + "}\n";
  return o;
}
static void writeFile(const std::string &path, const std::string &text)
{
  FILE *f = fopen(path.c_str(), "w");
  if (f)
  {
    fwrite(text.data(), 1, text.size(), f);
    fclose(f);
  }
}
static long long nowMs() { return (long long)(vf::nowSec() * 1000.0); }
static std::string obsJson(const std::vector<MsgObs> &msgs, bool err, bool hang, bool threw, const std::string &more)
{
  std::string o = "\"msgs\":[";
  for (size_t i = 0; i < msgs.size(); ++i) o += (i ? "," : "") + msgs[i].json();
  o += "],\"err\":";
  o += err ? "true" : "false";
  o += ",\"hang\":";
  o += hang ? "true" : "false";
  o += ",\"threw\":";
  o += threw ? "true" : "false";
  o += more;
  return o;
}
static void startWatchdog(long timeoutMs)
{
  std::thread(
    [timeoutMs]
    {
      for (;;)
      {
        usleep(20000);
        long long st = g_run.callStartMs.load();
        if (st != 0 && nowMs() - st > timeoutMs)
        {
          // the framing call did not return: report what was seen so far plus the hang, end the child
          std::string extra = "{\"e\":\"Obs\",\"n\":1,\"seg\":" + g_run.curSeg + "," + obsJson({}, false, true, false, "") + "}\n";
          writeFile(g_run.outPath, renderOutput(extra));
          _exit(0);
        }
      }
    })
    .detach();
}
struct InCall
{
  InCall() { g_run.callStartMs.store(nowMs()); }
  ~InCall() { g_run.callStartMs.store(0); }
};

// ------------------------------------------------------------------------------------------------ sockets
static int listenLoopback(int &port)
{
  int s = socket(AF_INET, SOCK_STREAM, 0);
  int one = 1;
  setsockopt(s, SOL_SOCKET, SO_REUSEADDR, &one, sizeof one);
  sockaddr_in a{};
  a.sin_family = AF_INET;
  a.sin_addr.s_addr = inet_addr("127.0.0.1");
  a.sin_port = 0;
  if (bind(s, (sockaddr *)&a, sizeof a) != 0 || listen(s, 16) != 0)
  {
    close(s);
    return -1;
  }
  socklen_t l = sizeof a;
  getsockname(s, (sockaddr *)&a, &l);
  port = ntohs(a.sin_port);
  return s;
}
// A loopback port nobody else uses: the transport sets SO_REUSEPORT on its listeners, so two servers of two
// concurrently running children that happened to pick the same "free" port would silently SHARE the incoming
// connections.  Ports come from the range reserved for these drivers (21000-21999) and are held with an flock on a
// lock file for the life of the process.
static int lockedPort()
{
  mkdir("/tmp/vf_http_ports", 0777);
  unsigned start = (unsigned)getpid() * 7919u + (unsigned)(vf::nowSec() * 1000.0);
  for (unsigned k = 0; k < 1000; ++k)
  {
    int port = 21000 + (int)((start + k) % 1000);
    std::string path = "/tmp/vf_http_ports/" + std::to_string(port) + ".lock";
    int fd = open(path.c_str(), O_CREAT | O_RDWR | O_CLOEXEC, 0666);
    if (fd < 0) continue;
    if (flock(fd, LOCK_EX | LOCK_NB) == 0) return port; // fd stays open (and locked) until the process ends
    close(fd);
  }
  return 0;
}
static int connectTo(int port)
{
  int c = socket(AF_INET, SOCK_STREAM, 0);
  sockaddr_in a{};
  a.sin_family = AF_INET;
  a.sin_addr.s_addr = inet_addr("127.0.0.1");
  a.sin_port = htons(port);
  if (connect(c, (sockaddr *)&a, sizeof a) != 0)
  {
    close(c);
    return -1;
  }
  int one = 1;
  setsockopt(c, IPPROTO_TCP, TCP_NODELAY, &one, sizeof one);
  return c;
}
static void closeHard(int fd)
{
  linger lg{1, 0};
  setsockopt(fd, SOL_SOCKET, SO_LINGER, &lg, sizeof lg);
  close(fd);
}
// read whatever is there within waitMs; returns false on EOF / error
static bool pump(int fd, std::string &buf, int waitMs, bool &eof)
{
  pollfd p{fd, POLLIN, 0};
  int r = poll(&p, 1, waitMs);
  if (r <= 0) return false;
  char tmp[65536];
  ssize_t n = recv(fd, tmp, sizeof tmp, MSG_DONTWAIT);
  if (n > 0)
  {
    buf.append(tmp, n);
    return true;
  }
  if (n == 0 || (errno != EAGAIN && errno != EINTR)) eof = true;
  return false;
}
// responses of the harness' own handler / of the server: status line + Content-Length framed
struct RespScan
{
  int count = 0;
  bool sawError = false;
  std::string lastBody;
  size_t pos = 0;
};
static void scanResponses(const std::string &buf, RespScan &rs)
{
  for (;;)
  {
    size_t he = buf.find("\r\n\r\n", rs.pos);
    if (he == std::string::npos) return;
    std::string head = buf.substr(rs.pos, he - rs.pos);
    int status = head.size() > 12 ? atoi(head.c_str() + 9) : 0;
    size_t cl = 0;
    std::string lower = head;
    std::transform(lower.begin(), lower.end(), lower.begin(), ::tolower);
    size_t p = lower.find("content-length:");
    if (p != std::string::npos) cl = (size_t)atol(lower.c_str() + p + 15);
    if (buf.size() < he + 4 + cl) return;
    rs.count++;
    if (status >= 400) rs.sawError = true;
    rs.lastBody = buf.substr(he + 4, cl);
    rs.pos = he + 4 + cl;
  }
}

// ------------------------------------------------------------------------------------------------ server side
struct Srv : HttpServer
{
  using HttpServer::HttpServer;
  void feed(SessionId sid, const char *d, size_t n) { handleIncomingData(sid, reinterpret_cast<const std::uint8_t *>(d), n); }
};
struct Deliveries
{
  std::mutex m;
  std::vector<MsgObs> v;
  unsigned long long currentSid = 0; // only requests of the connection under observation count (a late worker thread of
                                     // an earlier segmentation must not leak into this one)
  std::atomic<int> count{0};
  // have the requests /m1 .. /m<n> of the connection under observation all been handed over?
  bool haveIds(long n)
  {
    std::lock_guard<std::mutex> lk(m);
    for (long id = 1; id <= n; ++id)
    {
      bool found = false;
      for (auto &x : v)
        if (x.sid == currentSid && x.key == id) found = true;
      if (!found) return false;
    }
    return true;
  }
};

static void runServerSide(const Case &c, long callTimeoutMs)
{
  iora::core::Logger::setLevel(iora::core::Logger::Level::Fatal);
  Srv *srv = nullptr; // never destroyed: the child ends with _exit (a graceful stop sleeps, waits for the pool and
                      // would join an I/O thread that may be the very thing that hangs)
  int port = 0;
  Deliveries &del = *new Deliveries; // never freed: a late worker thread may still touch it when the child ends
  for (int attempt = 0; attempt < 6 && !srv; ++attempt)
  {
    port = lockedPort();
    auto *s = new Srv("127.0.0.1", port);
    s->setDefaultHandler(
      [&](const HttpServer::Request &q, HttpServer::Response &r)
      {
        if (q.path == "/sid")
        {
          // session id + the pid of this child: the driver refuses to go on if somebody else's server answered
          r.set_content(std::to_string((unsigned long long)q.sid) + " " + std::to_string((long)getpid()), "text/plain");
          return;
        }
        MsgObs m;
        long id = 0, meth = q.method == HttpMethod::GET ? 1 : q.method == HttpMethod::POST ? 2 : 9;
        if (q.path.size() > 2 && q.path[0] == '/' && q.path[1] == 'm') id = atol(q.path.c_str() + 2);
        m.key = id;
        m.sid = (unsigned long long)q.sid;
        m.start = "[\"REQ\"," + std::to_string(10 * id + meth) + "]";
        m.h = headerFacts(c, q.headers);
        m.nh = (long)q.headers.size();
        m.b = bodyFacts(c, q.body);
        {
          std::lock_guard<std::mutex> lk(del.m);
          del.v.push_back(m);
          if (m.sid == del.currentSid) del.count.fetch_add(1);
        }
        r.set_content("ok", "text/plain");
      });
    try
    {
      s->start();
      srv = s;
    }
    catch (...)
    {
    }
  }
  if (!srv)
  {
    g_run.infra = "HttpServer could not be started on a loopback port";
    return;
  }
  startWatchdog(callTimeoutMs);
  bool timedOutOnce = false;
  for (auto &cuts : cutSets(c))
  {
    g_run.curSeg = cutsJson(cuts);
    int fd = -1;
    for (int a = 0; a < 50 && fd < 0; ++a)
    {
      fd = connectTo(port);
      if (fd < 0) usleep(2000);
    }
    if (fd < 0)
    {
      g_run.infra = "cannot connect to the HttpServer under test";
      return;
    }
    // learn the session id of this connection through one ordinary request
    std::string buf;
    bool eof = false;
    RespScan warm;
    const char *w = "GET /sid HTTP/1.1\r\nHost: x\r\n\r\n";
    if (send(fd, w, strlen(w), MSG_NOSIGNAL) < 0)
    {
      g_run.infra = "warm-up send failed";
      return;
    }
    long long t0 = nowMs();
    while (warm.count < 1 && !eof && nowMs() - t0 < 20000)
    {
      pump(fd, buf, 50, eof);
      scanResponses(buf, warm);
    }
    if (warm.count < 1)
    {
      g_run.infra = "warm-up request got no response";
      return;
    }
    SessionId sid = (SessionId)strtoull(warm.lastBody.c_str(), nullptr, 10);
    {
      size_t sp = warm.lastBody.find(' ');
      if (sp == std::string::npos || atol(warm.lastBody.c_str() + sp + 1) != (long)getpid())
      {
        g_run.infra = "the warm-up request was answered by another process' server";
        return;
      }
    }
    buf.erase(0, warm.pos);
    {
      std::lock_guard<std::mutex> lk(del.m);
      del.v.clear();
      del.currentSid = (unsigned long long)sid;
      del.count.store(0);
    }
    // the stream, exactly in these segments
    bool threw = false;
    auto segs = segments(c.stream.size(), cuts);
    for (auto &sg : segs)
    {
      if (c.mode == "sock")
      {
        if (sg.second > 0 && send(fd, c.stream.data() + sg.first, sg.second, MSG_NOSIGNAL) < 0) break;
        if (segs.size() > 1) usleep(700);
      }
      else
      {
        InCall guard;
        try
        {
          srv->feed(sid, c.stream.data() + sg.first, sg.second);
        }
        catch (...)
        {
          threw = true;
        }
      }
    }
    // mode sock: the segments went through the real I/O thread.  Is it still alive?  A second connection must get
    // an ordinary request answered within the watchdog limit; if not, the data callback did not return.
    bool ioHang = false;
    if (c.mode == "sock")
    {
      int fd2 = connectTo(port);
      std::string b2;
      bool eof2 = false;
      RespScan r2;
      if (fd2 >= 0 && send(fd2, w, strlen(w), MSG_NOSIGNAL) > 0)
      {
        long long tp = nowMs();
        while (r2.count < 1 && !eof2 && nowMs() - tp < callTimeoutMs)
        {
          pump(fd2, b2, 50, eof2);
          scanResponses(b2, r2);
        }
      }
      ioHang = r2.count < 1;
      if (fd2 >= 0) closeHard(fd2);
      if (ioHang)
      {
        addObs(obsJson({}, false, true, false, ""), g_run.curSeg);
        closeHard(fd);
        return; // nothing else can be observed on this server
      }
    }
    // wait for the worker threads: bounded by what the specification says will come (never more than waitMs).
    // Once a segmentation of this stream has used up the whole wait, the later ones wait a tenth of it: the check
    // re-runs every rejected observation alone with the full wait before it reports anything.
    RespScan rs;
    bool wantErr = c.wantEnd == "reject";
    long long t1 = nowMs();
    long limit = timedOutOnce ? std::max(150, c.waitMs / 10) : c.waitMs;
    // what MUST be handed over are the requests /m1../m<mandatory> (waiting by id: a later request that is handed over
    // first must not end the wait); an optional message (msgopt) is either handed over too or rejected
    const bool opt = c.wantEnd == "msgopt";
    const long mandatory = c.wantMsgs - (opt ? 1 : 0);
    long long errSeenAt = 0;
    for (;;)
    {
      scanResponses(buf, rs);
      bool err = eof || rs.sawError;
      if (err && !errSeenAt) errSeenAt = nowMs();
      bool have = del.haveIds(mandatory) && (rs.count >= mandatory || eof) && (!wantErr || err);
      if (have && opt) have = del.haveIds(mandatory + 1) || (err && nowMs() - errSeenAt > 40);
      if (have) break;
      if (nowMs() - t1 > limit)
      {
        timedOutOnce = true;
        break;
      }
      pump(fd, buf, 5, eof);
    }
    // settle: anything beyond what was expected (an extra delivery, a late close) gets a short chance to show up
    // (a wrong delivery racing with a close needs a little longer; the re-run of a rejection waits much longer)
    const long long settleMs = c.waitMs >= 6000 ? 300 : (wantErr || eof ? 10 : 3);
    for (long long ts = nowMs(); nowMs() - ts < settleMs;)
    {
      pump(fd, buf, 1, eof);
      scanResponses(buf, rs);
    }
    std::vector<MsgObs> msgs;
    {
      std::lock_guard<std::mutex> lk(del.m);
      for (auto &m : del.v)
        if (m.sid == (unsigned long long)sid) msgs.push_back(m);
    }
    std::stable_sort(msgs.begin(), msgs.end(), [](const MsgObs &a, const MsgObs &b) { return a.key < b.key; });
    addObs(obsJson(msgs, eof || rs.sawError, false, threw, ""), g_run.curSeg);
    closeHard(fd);
  }
}

// ------------------------------------------------------------------------------------------------ client side
static MsgObs clientMsg(const Case &c, const HttpClient::Response &r)
{
  MsgObs m;
  m.start = "[\"RESP\"," + std::to_string(r.statusCode) + "]";
  m.h = headerFacts(c, r.headers);
  m.nh = (long)r.headers.size();
  m.b = bodyFacts(c, r.body);
  return m;
}

static void runClientDirect(const Case &c, long callTimeoutMs)
{
  iora::core::Logger::setLevel(iora::core::Logger::Level::Fatal);
  HttpClient::Config cfg;
  HttpClient client(cfg);
  const std::size_t cap = std::max(cfg.maxResponseBytes, cfg.jsonConfig.maxPayloadSize);
  startWatchdog(callTimeoutMs);
  for (auto &cuts : cutSets(c))
  {
    g_run.curSeg = cutsJson(cuts);
    Access::St st;
    bool complete = false, err = false, framingErr = false;
    std::vector<MsgObs> msgs;
    // the receive loop of executeRequest around the real frameResponse
    try
    {
      for (auto &sg : segments(c.stream.size(), cuts))
      {
        if (sg.second == 0 || complete) continue;
        st.data.append(c.stream, sg.first, sg.second);
        if (st.data.size() > cap) throw HttpFramingError("cap");
        InCall guard;
        complete = Access::frame(client, c.rm, st, cap);
      }
      if (!complete && c.eof)
      {
        if (Access::closeDelimited(st))
        {
          st.resp.body = st.data.substr(st.bodyStart);
          complete = true;
        }
        else
          err = true; // "Connection closed before receiving complete HTTP response"
      }
    }
    catch (const HttpFramingError &)
    {
      err = framingErr = true;
      complete = false;
    }
    catch (const std::exception &)
    {
      err = true;
      complete = false;
    }
    if (complete) msgs.push_back(clientMsg(c, st.resp));
    addObs(obsJson(msgs, err, false, false, std::string(",\"fe\":") + (framingErr ? "true" : "false")), g_run.curSeg);
  }
}

static void runClientE2e(const Case &c)
{
  iora::core::Logger::setLevel(iora::core::Logger::Level::Fatal);
  int port = 0;
  int ls = listenLoopback(port);
  if (ls < 0)
  {
    g_run.infra = "cannot listen on loopback";
    return;
  }
  HttpClient::Config cfg;
  cfg.connectTimeout = std::chrono::milliseconds(2000);
  cfg.requestTimeout = std::chrono::milliseconds(c.waitMs);
  cfg.reuseConnections = false;
  cfg.maxResponseBytes = 64 * 1024;
  cfg.jsonConfig.maxPayloadSize = 64 * 1024;
  HttpClient &client = *new HttpClient(cfg);
  for (auto &cuts : cutSets(c))
  {
    g_run.curSeg = cutsJson(cuts);
    std::atomic<bool> clientDone{false};
    std::thread peer(
      [&]
      {
        pollfd p{ls, POLLIN, 0};
        if (poll(&p, 1, 5000) <= 0) return;
        int fd = accept(ls, nullptr, nullptr);
        if (fd < 0) return;
        int one = 1;
        setsockopt(fd, IPPROTO_TCP, TCP_NODELAY, &one, sizeof one);
        std::string req;
        bool eof = false;
        long long t0 = nowMs();
        while (req.find("\r\n\r\n") == std::string::npos && !eof && nowMs() - t0 < 5000) pump(fd, req, 50, eof);
        for (auto &sg : segments(c.stream.size(), cuts))
        {
          size_t off = 0;
          while (off < sg.second)
          {
            ssize_t n = send(fd, c.stream.data() + sg.first + off, sg.second - off, MSG_NOSIGNAL);
            if (n <= 0) break;
            off += (size_t)n;
          }
          usleep(600);
        }
        if (!c.eof)
        {
          long long t1 = nowMs();
          while (!clientDone.load() && nowMs() - t1 < 8000) usleep(500);
        }
        else
          shutdown(fd, SHUT_WR);
        long long t2 = nowMs();
        while (!clientDone.load() && nowMs() - t2 < 8000) usleep(500);
        close(fd);
      });
    std::vector<MsgObs> msgs;
    bool err = false, framingErr = false;
    {
      std::string url = "http://127.0.0.1:" + std::to_string(port) + "/x";
      try
      {
        HttpClient::Response r = c.rm == "HEAD" ? client.head(url) : client.get(url);
        msgs.push_back(clientMsg(c, r));
      }
      catch (const HttpFramingError &)
      {
        err = framingErr = true;
      }
      catch (const std::exception &)
      {
        err = true;
      }
      clientDone.store(true);
      peer.join();
    }
    addObs(obsJson(msgs, err, false, false, std::string(",\"fe\":") + (framingErr ? "true" : "false")), g_run.curSeg);
  }
  close(ls);
}

// ------------------------------------------------------------------------------------------------ main
int main(int argc, char **argv)
{
  if (argc < 5 || std::string(argv[1]) != "run")
  {
    fprintf(stderr, "usage: drv_httpframe run <cases.txt> <out.ndjson> <parallel> [callTimeoutMs]\n");
    return 2;
  }
  signal(SIGPIPE, SIG_IGN);
  auto lines = vf::readLines(argv[2]);
  std::string outPath = argv[3];
  int parallel = atoi(argv[4]);
  long callTimeoutMs = argc > 5 ? atol(argv[5]) : 4000;
  std::string scratch = outPath + ".d";
  mkdir(scratch.c_str(), 0777);
  const int n = (int)lines.size();
  // fork per stream; a child may write its own file early (watchdog) - the parent only collects files
  std::map<pid_t, std::pair<int, double>> live;
  std::vector<int> status(n, -1);
  int next = 0;
  auto fileOf = [&](int i) { return scratch + "/x" + std::to_string(i) + ".ndjson"; };
  const double perChildLimit = 600.0;
  while (next < n || !live.empty())
  {
    while (next < n && (int)live.size() < parallel)
    {
      fflush(nullptr);
      pid_t p = fork();
      if (p == 0)
      {
        Case c;
        g_run.outPath = fileOf(next);
        if (!parseCase(lines[next], c))
        {
          writeFile(g_run.outPath, "{\"e\":\"Infra\",\"what\":\"unparsable case line\"}\n");
          _exit(0);
        }
        g_run.c = &c;
        if (c.side == "req")
          runServerSide(c, callTimeoutMs);
        else if (c.mode == "e2e")
          runClientE2e(c);
        else
          runClientDirect(c, callTimeoutMs);
        writeFile(g_run.outPath, renderOutput(""));
        fflush(nullptr);
        _exit(0);
      }
      live[p] = {next, vf::nowSec()};
      ++next;
    }
    int st = 0;
    pid_t w = waitpid(-1, &st, WNOHANG);
    if (w > 0 && live.count(w))
    {
      status[live[w].first] = (WIFEXITED(st) && WEXITSTATUS(st) == 0) ? 0 : 1;
      live.erase(w);
      continue;
    }
    double now = vf::nowSec();
    for (auto it = live.begin(); it != live.end();)
    {
      if (now - it->second.second > perChildLimit)
      {
        kill(it->first, SIGKILL);
        int s2;
        waitpid(it->first, &s2, 0);
        status[it->second.first] = 2;
        it = live.erase(it);
      }
      else
        ++it;
    }
    usleep(300);
  }
  FILE *out = fopen(outPath.c_str(), "w");
  int crashed = 0, timedOut = 0;
  for (int i = 0; i < n; ++i)
  {
    std::string path = fileOf(i);
    FILE *f = fopen(path.c_str(), "r");
    if (f)
    {
      char b[65536];
      size_t k;
      while ((k = fread(b, 1, sizeof b, f)) > 0) fwrite(b, 1, k, out);
      fclose(f);
      unlink(path.c_str());
    }
    if (status[i] == 1)
    {
      fprintf(out, "{\"e\":\"Crashed\",\"x\":%d}\n", i);
      crashed++;
    }
    if (status[i] == 2)
    {
      fprintf(out, "{\"e\":\"HarnessTimeout\",\"x\":%d}\n", i);
      timedOut++;
    }
    fprintf(out, "{\"e\":\"Reset\"}\n");
  }
  fclose(out);
  rmdir(scratch.c_str());
  printf("streams=%d crashed=%d harness_timeouts=%d\n", n, crashed, timedOut);
  return 0;
}
