// X24 conformance driver: iora::network IPv4 / IPv6 / IpAddress / CidrNetwork (include/iora/network/ip_utils.hpp).
//
//   drv_iputils run <cases> <out.ndjson> <batch> <parallel>   forked workers (parsers_run.hpp): a sanitizer abort, an uncaught
//                                                             exception or a hang costs one case: {"e":"Crashed"|"Hung","k":line}
// case lines (written by checks/X24.py from the terminal states of spec/extra/IpUtils.tla; <hex> = text bytes, "-" = empty):
//   P4 <hex>            IPv4::parse + isValid                 P6 <hex>            IPv6::parse + isValid
//   F4 a b c d          IPv4::toString                        F6 g1..g8           IPv6::toString
//   N4 net(4) ip(4) p   IPv4::inNetwork (u32 and strings)     N6 net(16) ip(16) p IPv6::inNetwork
//   C4 a b c d          isPrivate (u32, string) / isLoopback  C6 b1..b16          isLoopback/isLinkLocal/isUniqueLocal/isIPv4Mapped
//   A  <hex>            IpAddress(s): isValid, family, toString; isValidIpAddress(s)
//   CI <hex>            CidrNetwork::parse: ok, family, prefixLength, toString, isSingleHost
//   H  <hexc> <hexip>   CidrNetwork c; c.parse(cidr) && c.contains(ip)
//   RP <hex1> <hex2>    CidrNetwork c; c.parse(first); ok2 = c.parse(second); isValid, family, prefixLength, toString
//   TL <hexnets> <hexip>  TrustedNetworkList: addCidr of each ','-separated text, then size() and contains(ip)
// events: judged by spec/extra/IpUtilsTrace.tla.  The API takes std::string, so the texts are std::string objects built from
// an exact-size heap block (texts longer than the SSO buffer live in an exact-size heap allocation + NUL).
#include "iora/network/ip_utils.hpp"
#include "parsers_run.hpp"
#include "vf/exec.hpp"
#include "vf/trace.hpp"
#include <cstring>
#include <memory>

using namespace iora::network;

static std::string unhex(const std::string &h)
{
  std::string o;
  if (h == "-") return o;
  auto v = [](char c) { return c <= '9' ? c - '0' : (c | 32) - 'a' + 10; };
  for (size_t i = 0; i + 1 < h.size(); i += 2) o += (char)(v(h[i]) * 16 + v(h[i + 1]));
  return o;
}
static std::string exact(const std::string &in)
{
  std::unique_ptr<char[]> blk(new char[in.size()]);
  if (!in.empty()) memcpy(blk.get(), in.data(), in.size());
  std::string s(blk.get(), in.size());
  s.shrink_to_fit();
  return s;
}
template <class T> static std::vector<int> ints(const T &s)
{
  std::vector<int> o;
  for (auto c : s) o.push_back((unsigned char)c);
  return o;
}
static std::uint32_t u32(const std::vector<std::string> &w, size_t at)
{
  return ((std::uint32_t)atoi(w[at].c_str()) << 24) | ((std::uint32_t)atoi(w[at + 1].c_str()) << 16) |
         ((std::uint32_t)atoi(w[at + 2].c_str()) << 8) | (std::uint32_t)atoi(w[at + 3].c_str());
}
static std::vector<int> octets(std::uint32_t v) { return {(int)(v >> 24), (int)((v >> 16) & 255), (int)((v >> 8) & 255), (int)(v & 255)}; }
static std::vector<int> groups(const IPv6::Address &a)
{
  std::vector<int> g;
  for (int i = 0; i < 8; ++i) g.push_back((a[2 * i] << 8) | a[2 * i + 1]);
  return g;
}
static IPv6::Address bytes16(const std::vector<std::string> &w, size_t at)
{
  IPv6::Address a{};
  for (int i = 0; i < 16; ++i) a[i] = (std::uint8_t)atoi(w[at + i].c_str());
  return a;
}
#define INTS(k, v) ints(k, (v).begin(), (v).end())

static std::string runCase(const std::string &line)
{
  auto w = vf::words(line);
  if (w.size() < 2) return "";
  const std::string &k = w[0];
  try
  {
    if (k == "P4")
    {
      std::string s = exact(unhex(w[1]));
      auto iv = ints(s);
      std::uint32_t v = 0;
      bool ok = IPv4::parse(s, v);
      bool valid = IPv4::isValid(s);
      auto o = ok ? octets(v) : std::vector<int>{};
      return vf::Ev("P4").INTS("in", iv).b("ok", ok).INTS("v", o).b("iv", valid).done() + "\n";
    }
    if (k == "F4" && w.size() >= 5)
    {
      std::uint32_t v = u32(w, 1);
      auto o = octets(v), t = ints(IPv4::toString(v));
      return vf::Ev("F4").INTS("v", o).INTS("out", t).done() + "\n";
    }
    if (k == "N4" && w.size() >= 10)
    {
      std::uint32_t net = u32(w, 1), ip = u32(w, 5), p = (std::uint32_t)atoi(w[9].c_str());
      bool r = IPv4::inNetwork(ip, net, p);
      bool sr = IPv4::inNetwork(exact(IPv4::toString(ip)), exact(IPv4::toString(net)), p);
      auto a = octets(ip), b = octets(net);
      return vf::Ev("N4").INTS("ip", a).INTS("net", b).i("p", p).b("r", r).b("sr", sr).done() + "\n";
    }
    if (k == "C4" && w.size() >= 5)
    {
      std::uint32_t v = u32(w, 1);
      auto o = octets(v);
      return vf::Ev("C4").INTS("v", o).b("priv", IPv4::isPrivate(v)).b("loop", IPv4::isLoopback(v))
               .b("spriv", IPv4::isPrivate(exact(IPv4::toString(v)))).done() + "\n";
    }
    if (k == "P6")
    {
      std::string s = exact(unhex(w[1]));
      auto iv = ints(s);
      IPv6::Address a{};
      a.fill(0xEE); // parse must not depend on the previous content
      bool ok = IPv6::parse(s, a);
      bool valid = IPv6::isValid(s);
      auto g = ok ? groups(a) : std::vector<int>{};
      return vf::Ev("P6").INTS("in", iv).b("ok", ok).INTS("g", g).b("iv", valid).done() + "\n";
    }
    if (k == "F6" && w.size() >= 9)
    {
      IPv6::Address a{};
      std::vector<int> g;
      for (int i = 0; i < 8; ++i)
      {
        int v = atoi(w[1 + i].c_str());
        g.push_back(v);
        a[2 * i] = (std::uint8_t)(v >> 8);
        a[2 * i + 1] = (std::uint8_t)(v & 255);
      }
      auto t = ints(IPv6::toString(a));
      return vf::Ev("F6").INTS("g", g).INTS("out", t).done() + "\n";
    }
    if (k == "N6" && w.size() >= 34)
    {
      IPv6::Address net = bytes16(w, 1), ip = bytes16(w, 17);
      std::uint32_t p = (std::uint32_t)atoi(w[33].c_str());
      bool r = IPv6::inNetwork(ip, net, p);
      return vf::Ev("N6").INTS("ip", ip).INTS("net", net).i("p", p).b("r", r).done() + "\n";
    }
    if (k == "C6" && w.size() >= 17)
    {
      IPv6::Address a = bytes16(w, 1);
      return vf::Ev("C6").INTS("b", a).b("loop", IPv6::isLoopback(a)).b("ll", IPv6::isLinkLocal(a)).b("ula", IPv6::isUniqueLocal(a))
               .b("m4", IPv6::isIPv4Mapped(a)).done() + "\n";
    }
    if (k == "A")
    {
      std::string s = exact(unhex(w[1]));
      auto iv = ints(s);
      IpAddress a(s);
      bool ok = a.isValid();
      auto t = ints(a.toString());
      return vf::Ev("A").INTS("in", iv).b("ok", ok).i("fam", a.family() == AddressFamily::IPv6 ? 6 : 4).INTS("str", t)
               .b("any", isValidIpAddress(s)).done() + "\n";
    }
    if (k == "CI")
    {
      std::string s = exact(unhex(w[1]));
      auto iv = ints(s);
      CidrNetwork c;
      bool ok = c.parse(s);
      auto t = ok ? ints(c.toString()) : std::vector<int>{};
      return vf::Ev("CI").INTS("in", iv).b("ok", ok).i("fam", c.isIPv6() ? 6 : 4).i("p", c.prefixLength).INTS("str", t)
               .b("single", c.isSingleHost()).done() + "\n";
    }
    if (k == "H" && w.size() >= 3)
    {
      std::string cs = exact(unhex(w[1])), ip = exact(unhex(w[2]));
      auto cv = ints(cs), iv = ints(ip);
      CidrNetwork c;
      bool cok = c.parse(cs);
      bool r = cok && c.contains(ip);
      return vf::Ev("H").INTS("c", cv).INTS("ip", iv).b("cok", cok).b("r", r).done() + "\n";
    }
    if (k == "RP" && w.size() >= 3)
    {
      std::string a = exact(unhex(w[1])), b = exact(unhex(w[2]));
      auto av = ints(a), bv = ints(b);
      CidrNetwork c;
      c.parse(a);
      bool ok2 = c.parse(b);
      bool valid = c.isValid();
      auto t = valid ? ints(c.toString()) : std::vector<int>{};
      return vf::Ev("RP").INTS("first", av).INTS("second", bv).b("ok2", ok2).b("valid", valid).i("fam", c.isIPv6() ? 6 : 4)
               .i("p", c.prefixLength).INTS("str", t).done() + "\n";
    }
    if (k == "TL" && w.size() >= 3)
    {
      std::string nets = unhex(w[1]), ip = exact(unhex(w[2]));
      auto nv = ints(nets), iv = ints(ip);
      TrustedNetworkList tl;
      size_t at = 0;
      for (;;)
      {
        size_t c = nets.find(',', at);
        tl.addCidr(exact(nets.substr(at, c == std::string::npos ? std::string::npos : c - at)));
        if (c == std::string::npos) break;
        at = c + 1;
      }
      return vf::Ev("TL").INTS("nets", nv).INTS("ip", iv).i("n", (long long)tl.size()).b("r", tl.contains(ip)).done() + "\n";
    }
  }
  catch (...)
  {
    return vf::Ev("Crashed").i("k", -1).done() + "\n"; // none of these functions may throw on a malformed text
  }
  return "";
}

int main(int argc, char **argv)
{
  if (argc >= 6 && std::string(argv[1]) == "run")
  {
    auto lines = vf::readLines(argv[2]);
    int batch = atoi(argv[4]), par = atoi(argv[5]);
    if (batch <= 0) batch = 1;
    auto r = vfp::runResilient((int)lines.size(), batch, par, 30.0, argv[3], [&](int k) { return runCase(lines[k]); });
    printf("cases=%d crashed=%d hung=%d workers=%d\n", r.cases, r.crashed, r.hung, r.workers);
    return 0;
  }
  fprintf(stderr, "usage: drv_iputils run <cases> <out> <batch> <parallel>\n");
  return 2;
}
