// C14 conformance driver: iora::parsers::xml pull parser, SAX dispatch, DOM builder, Parser::decodeEntities.
//
//   drv_xml run <cases> <out.ndjson> <batch> <parallel>     forked workers (parsers_run.hpp): a sanitizer abort or a hang
//                                                          costs one case, reported as {"e":"Crashed"|"Hung","k":line}
// case lines (written by checks/C14.py):
//   D <id> <flags> <maxDepth> <maxAttrs> <maxName> <maxText> <maxTokens> <hex of the document | ->
//        flags: m = also emit Dec events (entity decoding of every text / attribute slice), - = none
// events (judged by spec/parsers/XmlBalanceTrace.tla):
//   Doc {id,n,ld,la,ln,lt,lk}                     start of a document, size and limits
//   Tok {k,name,na,nl,tl,in}                      one per token the pull interface reported: kind S E M T C K P D X,
//                                                 number of attributes, longest name, longest text/attribute slice,
//                                                 in = every string_view of the token lies inside the input buffer
//   End {ok,off,exc}                              verdict of the pull interface, error offset; exc = "pull:<type>" if an exception
//                                                 escaped next() (the parser reports errors through error(), it must not throw)
//   Dec {raw,ok,out}                              Parser::decodeEntities on one slice (bytes in, bytes out)
//   Api {id,pok,ptoks,sok,stoks,dok,dtoks,pdtoks,decok,expanded,off,n,exc}   exc = first exception that escaped pull / sax / dom
//        limits in Doc are clamped to 2^30 (clampLim); the case line carries them as decimal size_t up to SIZE_MAX
//        canonical token lists (see XmlDoc.tla): ptoks from the pull interface, stoks from SAX, dtoks from a walk of the
//        DOM, pdtoks = the pull tokens with every value decoded (what the DOM should hold).  White-space-only text,
//        the XML declaration (or a PI named xml) and the DOCTYPE are left out; PI data is stripped of leading white space.
// The document is handed over in an exact-size heap block without a trailing NUL (ASan sees any over-read).
#include "iora/parsers/xml.hpp"
#include "parsers_run.hpp"
#include "vf/exec.hpp"
#include "vf/trace.hpp"
#include <new>
#include <set>
#include <stdexcept>

namespace x = iora::parsers::xml;

static std::string hexOf(std::string_view s)
{
  static const char *d = "0123456789abcdef";
  std::string o;
  for (unsigned char c : s)
  {
    o += d[c >> 4];
    o += d[c & 15];
  }
  return o;
}
static std::string unhex(const std::string &h)
{
  std::string o;
  if (h == "-") return o;
  auto v = [](char c) { return c <= '9' ? c - '0' : (c | 32) - 'a' + 10; };
  for (size_t i = 0; i + 1 < h.size(); i += 2) o += (char)(v(h[i]) * 16 + v(h[i + 1]));
  return o;
}
static std::string bytesJson(std::string_view s)
{
  std::string o = "[";
  for (size_t i = 0; i < s.size(); ++i)
  {
    if (i) o += ",";
    o += std::to_string((unsigned char)s[i]);
  }
  return o + "]";
}
static bool isWs(char c) { return c == ' ' || c == '\t' || c == '\n' || c == '\r'; }
static bool allWs(std::string_view s)
{
  for (char c : s)
    if (!isWs(c)) return false;
  return true;
}
static std::string_view stripLead(std::string_view s)
{
  while (!s.empty() && isWs(s.front())) s.remove_prefix(1);
  return s;
}
static std::string nameOf(std::string_view n)
{
  for (unsigned char c : n)
    if (!(isalnum(c) || c == ':' || c == '_' || c == '.' || c == '-')) return "!" + hexOf(n);
  return std::string(n);
}
// occurrences of the replacement text of the generator's internal entity (see lexemes D2/D3 of XmlDoc.tla)
static int countMarker(std::string_view s)
{
  int n = 0;
  for (size_t p = s.find("XPND"); p != std::string_view::npos; p = s.find("XPND", p + 1)) ++n;
  return n;
}
static bool isXmlTarget(std::string_view n) { return n.size() == 3 && (n[0] | 32) == 'x' && (n[1] | 32) == 'm' && (n[2] | 32) == 'l'; }

struct ExactBuf
{
  char *p;
  size_t n;
  explicit ExactBuf(const std::string &s) : p(new char[s.size()]), n(s.size()) { memcpy(p, s.data(), n); }
  ~ExactBuf() { delete[] p; }
  std::string_view view() const { return std::string_view(p, n); }
  bool inside(std::string_view v) const
  {
    if (v.data() == nullptr) return v.size() == 0;
    return v.data() >= p && v.data() + v.size() <= p + n;
  }
};

static const char *kindOf(x::TokenKind k)
{
  switch (k)
  {
  case x::TokenKind::StartElement: return "S";
  case x::TokenKind::EndElement: return "E";
  case x::TokenKind::EmptyElement: return "M";
  case x::TokenKind::Text: return "T";
  case x::TokenKind::CData: return "C";
  case x::TokenKind::Comment: return "K";
  case x::TokenKind::ProcessingInstruction: return "P";
  case x::TokenKind::Doctype: return "D";
  case x::TokenKind::XmlDecl: return "X";
  default: return "O";
  }
}

// canonical form of one token as the pull / SAX interfaces report it (raw slices); "" = left out
static std::string ptok(const x::Token &t)
{
  std::string k = kindOf(t.kind);
  if (k == "S" || k == "M")
  {
    std::string o = k + ":" + nameOf(t.name) + "(";
    for (size_t i = 0; i < t.attributes.size(); ++i)
    {
      if (i) o += ",";
      o += nameOf(t.attributes[i].name) + "=" + hexOf(t.attributes[i].value);
    }
    return o + ")";
  }
  if (k == "E") return "E:" + nameOf(t.name);
  if (k == "T") return allWs(t.text) ? "" : "T:" + hexOf(t.text);
  if (k == "C" || k == "K") return k + ":" + hexOf(t.text);
  if (k == "P") return isXmlTarget(t.name) ? "" : "P:" + nameOf(t.name) + "=" + hexOf(stripLead(t.text));
  return ""; // D X O
}
// the same token with every value decoded, in the shape a DOM walk produces; ok=false if a slice does not decode
static std::string pdtok(const x::Token &t, bool &ok, bool &expanded)
{
  std::string k = kindOf(t.kind);
  auto dec = [&](std::string_view raw)
  {
    std::string out;
    if (!x::Parser::decodeEntities(raw, out)) ok = false;
    if (countMarker(out) > countMarker(raw)) expanded = true; // the text appeared by decoding, it was not in the slice
    return out;
  };
  if (k == "S" || k == "M")
  {
    std::string o = "S:" + nameOf(t.name) + "(";
    for (size_t i = 0; i < t.attributes.size(); ++i)
    {
      if (i) o += ",";
      o += nameOf(t.attributes[i].name) + "=" + hexOf(dec(t.attributes[i].value));
    }
    o += ")";
    if (k == "M") o += ";E:" + nameOf(t.name);
    return o;
  }
  if (k == "T")
  {
    std::string d = dec(t.text);
    return allWs(d) ? "" : "T:" + hexOf(d);
  }
  return ptok(t);
}
static void domWalk(const x::Node &n, std::vector<std::string> &out, int &markers)
{
  for (const auto &c : n.children)
  {
    markers += countMarker(c->value);
    switch (c->type)
    {
    case x::NodeType::Element:
    {
      std::string o = "S:" + nameOf(c->name) + "(";
      for (size_t i = 0; i < c->attributes.size(); ++i)
      {
        if (i) o += ",";
        markers += countMarker(c->attributes[i].value);
        o += nameOf(c->attributes[i].name) + "=" + hexOf(c->attributes[i].value);
      }
      out.push_back(o + ")");
      domWalk(*c, out, markers);
      out.push_back("E:" + nameOf(c->name));
      break;
    }
    case x::NodeType::Text:
      if (!allWs(c->value)) out.push_back("T:" + hexOf(c->value));
      break;
    case x::NodeType::CData: out.push_back("C:" + hexOf(c->value)); break;
    case x::NodeType::Comment: out.push_back("K:" + hexOf(c->value)); break;
    case x::NodeType::ProcessingInstruction:
      if (!isXmlTarget(c->name)) out.push_back("P:" + nameOf(c->name) + "=" + hexOf(stripLead(c->value)));
      break;
    default: break;
    }
  }
}
static std::string join(const std::vector<std::string> &v)
{
  std::string o;
  for (const auto &s : v)
  {
    if (s.empty()) continue;
    if (!o.empty()) o += ";";
    o += s;
  }
  return o;
}
static long clampOff(size_t v) { return v > (1u << 30) ? (1 << 30) : (long)v; }
// limits are size_t (up to SIZE_MAX); TLC's integers are 32-bit: logged exactly below 2^30, as 2^30 from there on (every
// measure of a document the driver is given is far below, so every comparison with a measure keeps its truth value; the
// same clamp is the `abs` field of spec/parsers/XmlLimits.tla)
static long clampLim(size_t v) { return v > (size_t(1) << 30) ? (long(1) << 30) : (long)v; }
static std::string excName(const char *where, const std::exception *e)
{
  std::string o = where;
  o += ":";
  if (!e) return o + "unknown";
  if (dynamic_cast<const std::length_error *>(e)) return o + "std::length_error";
  if (dynamic_cast<const std::bad_alloc *>(e)) return o + "std::bad_alloc";
  if (dynamic_cast<const std::out_of_range *>(e)) return o + "std::out_of_range";
  if (dynamic_cast<const std::logic_error *>(e)) return o + "std::logic_error";
  if (dynamic_cast<const std::runtime_error *>(e)) return o + "std::runtime_error";
  return o + "std::exception";
}

static std::string runCase(const std::string &line)
{
  vf::Trace tr;
  auto w = vf::words(line);
  if (w.size() < 9 || w[0] != "D") return "";
  long id = atol(w[1].c_str());
  const std::string &flags = w[2];
  x::Options opt;
  static_assert(sizeof(std::size_t) == sizeof(unsigned long long), "limits are read as 64-bit decimal numbers");
  opt.maxDepth = strtoull(w[3].c_str(), nullptr, 10);
  opt.maxAttrsPerElement = strtoull(w[4].c_str(), nullptr, 10);
  opt.maxNameLength = strtoull(w[5].c_str(), nullptr, 10);
  opt.maxTextSpan = strtoull(w[6].c_str(), nullptr, 10);
  opt.maxTotalTokens = strtoull(w[7].c_str(), nullptr, 10);
  std::string exc; // first exception that escaped one of the interfaces ("" = none): the parser reports errors through error()
  std::string doc = unhex(w[8]);
  ExactBuf b(doc);
  tr.add(vf::Ev("Doc").i("id", id).i("n", (long)b.n).i("ld", clampLim(opt.maxDepth)).i("la", clampLim(opt.maxAttrsPerElement)).i("ln", clampLim(opt.maxNameLength)).i("lt", clampLim(opt.maxTextSpan)).i("lk", clampLim(opt.maxTotalTokens)));
  // ---- pull
  std::vector<std::string> ptoks, pdtoks;
  bool decok = true, expanded = false;
  int rawMarkers = 0; // occurrences of the marker in the slices outside the DOCTYPE
  std::set<std::string> decSeen;
  std::vector<std::string> decEvents;
  bool pok = false;
  long off = 0;
  try
  {
    x::Parser p(b.view(), opt);
    int guard = 0;
    while (p.next())
    {
      const x::Token &t = p.current();
      bool in = b.inside(t.name) && b.inside(t.text);
      size_t nl = t.name.size(), al = 0;
      for (const auto &a : t.attributes)
      {
        in = in && b.inside(a.name) && b.inside(a.value);
        nl = std::max(nl, a.name.size());
        al = std::max(al, a.value.size());
      }
      std::string k = kindOf(t.kind);
      // names only bound the name limit for elements and attributes; a PI target is reported separately
      tr.add(vf::Ev("Tok").str("k", k).str("name", nameOf(t.name)).i("na", (long)t.attributes.size()).i("nl", (long)(k == "P" ? 0 : nl)).i("tl", (long)std::max(k == "T" ? t.text.size() : 0, al)).b("in", in));
      ptoks.push_back(ptok(t));
      pdtoks.push_back(pdtok(t, decok, expanded));
      if (t.kind != x::TokenKind::Doctype)
      {
        rawMarkers += countMarker(t.text);
        for (const auto &a : t.attributes) rawMarkers += countMarker(a.value);
      }
      if (flags.find('m') != std::string::npos)
      {
        auto one = [&](std::string_view raw)
        {
          if (raw.size() > 48 || !decSeen.insert(std::string(raw)).second) return;
          std::string out;
          bool ok = x::Parser::decodeEntities(raw, out);
          decEvents.push_back(vf::Ev("Dec").raw("raw", bytesJson(raw)).b("ok", ok).raw("out", bytesJson(ok ? out : std::string())).done());
        };
        if (t.kind == x::TokenKind::Text) one(t.text);
        for (const auto &a : t.attributes) one(a.value);
      }
      if (++guard > 100000) break; // a token stream longer than the input is a defect the trace shows as a missing End
    }
    pok = p.error() == nullptr;
    if (!pok) off = clampOff(p.error()->offset);
    tr.add(vf::Ev("End").b("ok", pok).i("off", off).str("exc", ""));
  }
  catch (const std::exception &e)
  {
    pok = false;
    if (exc.empty()) exc = excName("pull", &e);
    tr.add(vf::Ev("End").b("ok", false).i("off", 0).str("exc", exc));
  }
  catch (...)
  {
    pok = false;
    if (exc.empty()) exc = excName("pull", nullptr);
    tr.add(vf::Ev("End").b("ok", false).i("off", 0).str("exc", exc));
  }
  for (auto &d : decEvents) tr.addLine(d);
  // ---- SAX
  std::vector<std::string> stoks;
  bool sok = false;
  try
  {
    x::Parser p(b.view(), opt);
    x::SaxCallbacks cb;
    auto add = [&](const x::Token &t) { stoks.push_back(ptok(t)); };
    cb.onXmlDecl = [&](const x::Token &t) { if (t.kind != x::TokenKind::XmlDecl) stoks.push_back("!wrong-callback"); };
    cb.onDoctype = [&](const x::Token &t) { if (t.kind != x::TokenKind::Doctype) stoks.push_back("!wrong-callback"); };
    cb.onStartElement = [&](const x::Token &t) { if (t.kind != x::TokenKind::StartElement) stoks.push_back("!wrong-callback"); add(t); };
    cb.onEndElement = [&](const x::Token &t) { if (t.kind != x::TokenKind::EndElement) stoks.push_back("!wrong-callback"); add(t); };
    cb.onEmptyElement = [&](const x::Token &t) { if (t.kind != x::TokenKind::EmptyElement) stoks.push_back("!wrong-callback"); add(t); };
    cb.onText = [&](const x::Token &t) { if (t.kind != x::TokenKind::Text) stoks.push_back("!wrong-callback"); add(t); };
    cb.onCData = [&](const x::Token &t) { if (t.kind != x::TokenKind::CData) stoks.push_back("!wrong-callback"); add(t); };
    cb.onComment = [&](const x::Token &t) { if (t.kind != x::TokenKind::Comment) stoks.push_back("!wrong-callback"); add(t); };
    cb.onPI = [&](const x::Token &t) { if (t.kind != x::TokenKind::ProcessingInstruction) stoks.push_back("!wrong-callback"); add(t); };
    sok = x::runSax(p, cb);
  }
  catch (const std::exception &e)
  {
    sok = false;
    if (exc.empty()) exc = excName("sax", &e);
  }
  catch (...)
  {
    sok = false;
    if (exc.empty()) exc = excName("sax", nullptr);
  }
  // ---- DOM
  std::vector<std::string> dtoks;
  bool dok = false;
  try
  {
    x::Parser p(b.view(), opt);
    x::Error err;
    auto root = x::DomBuilder::build(p, &err);
    dok = root != nullptr;
    int domMarkers = 0;
    if (dok) domWalk(*root, dtoks, domMarkers);
    if (domMarkers > rawMarkers) expanded = true; // the DOM holds the replacement text although the document does not
  }
  catch (const std::exception &e)
  {
    dok = false;
    dtoks.clear();
    if (exc.empty()) exc = excName("dom", &e);
  }
  catch (...)
  {
    dok = false;
    dtoks.clear();
    if (exc.empty()) exc = excName("dom", nullptr);
  }
  tr.add(vf::Ev("Api").i("id", id).i("n", (long)b.n).i("off", off).b("pok", pok).str("ptoks", join(ptoks)).b("sok", sok).str("stoks", join(stoks)).b("dok", dok).str("dtoks", join(dtoks)).str("pdtoks", decok ? join(pdtoks) : "").b("decok", decok).b("expanded", expanded).str("exc", exc));
  return tr.text();
}

int main(int argc, char **argv)
{
  if (argc >= 6 && std::string(argv[1]) == "run")
  {
    auto lines = vf::readLines(argv[2]);
    int batch = atoi(argv[4]), par = atoi(argv[5]);
    if (batch <= 0) batch = 1;
    auto r = vfp::runResilient((int)lines.size(), batch, par, 30.0, argv[3], [&](int k) { return runCase(lines[k]); });
    printf("cases=%d crashed=%d hung=%d workers=%d\n", r.cases, r.crashed, r.hung, r.workers);
    return 0;
  }
  fprintf(stderr, "usage: drv_xml run <cases> <out> <batch> <parallel>\n");
  return 2;
}
