// C18 conformance driver: WebSocketFrame codec, WebSocketServer and WebSocketClient receive paths, close handshake.
//
//   drv_ws run <cases.txt> <out.ndjson> [parallel]
//
// cases.txt (written by checks/C18.py from TLC-enumerated cases; one token list per line):
//   X                                   begin of an execution
//   C <json-object>                     echoed as {"e":"Case", ...}: the model's facts of this case (the driver never reads them)
//   F <op> <fin> <masked> <mask8hex> <payload>
//                                       codec: build the frame, serialize(masked), parse it back (also with trailing junk and on
//                                       every proper prefix), all on exact-size heap buffers          -> {"e":"Codec",...}
//   P <data>                            raw parse of arbitrary bytes and of all its prefixes          -> {"e":"Parse",...}
//   D <s|c> <data>                      the byte stream of this execution for the server / client side ("=" below)
//   R <s|c> <d|w> <max> <segs> <data>   feed <data> to the server / client in segments                -> {"e":"Run",...}
//                                       d = direct (subclass calls onUpgradedData / friend hook calls handleData; the endpoint
//                                       is really connected over loopback so that its answers are read from the socket),
//                                       w = through the socket (server: one segment at a time, waiting until the I/O thread has
//                                       handed it over; client: short pauses)
//                                       g = (server) all bytes in the same write as the upgrade request: the HTTP layer finds them
//                                       behind the request and hands them over after the 101 (http_server.hpp buffer-drain)
//   S <s|c> <max> <steps>               close-handshake script, steps comma separated:                 -> {"e":"Script",...}
//                                       T B P C (application sendText/sendBinary/sendPing/sendClose), rC rT rP (inbound
//                                       close/text/ping), rTe (inbound text whose message callback sends a text), cbT (arm: the
//                                       close callback sends a text), rCg (inbound close while ANOTHER thread sends a text from
//                                       inside the close callback window), D (client disconnect())
//   E                                   end of the execution                                          -> {"e":"Reset"}
//   <data>  = parts joined by '+': hex string | r<N>x<HH> (N bytes HH) | R<N>x<hex> (the hex string N times) | '-' (empty)
//   <segs>  = comma separated sizes (last segment takes the rest) | b (byte by byte) | c<N> (chunks of N bytes) | w (whole)
// Payload bytes are never logged: messages and frames are logged as (length, h) with h the polynomial hash
//   h(s) = fold (h*263 + byte + 1) mod 32749, which the trace specification recombines from the per-frame facts.
#include "ws_rig.hpp"

#include <malloc.h>
#include <new>

// ------------------------------------------------------------------------------------------- allocation accounting
static std::atomic<long long> g_live{0}, g_peak{0};
static std::atomic<unsigned long long> g_maxReq{0};
static const unsigned long long kRefuse = 1ull << 31; // a request this large is recorded and refused, never attempted

static void *vfAlloc(std::size_t n, std::size_t align)
{
  unsigned long long cur = g_maxReq.load(std::memory_order_relaxed);
  while (n > cur && !g_maxReq.compare_exchange_weak(cur, n, std::memory_order_relaxed))
  {
  }
  if (n >= kRefuse) return nullptr;
  void *p = nullptr;
  if (align > 16)
  {
    if (posix_memalign(&p, align, n ? n : 1) != 0) p = nullptr;
  }
  else
    p = malloc(n ? n : 1);
  if (!p) return nullptr;
  long long u = (long long)malloc_usable_size(p);
  long long l = g_live.fetch_add(u, std::memory_order_relaxed) + u;
  long long pk = g_peak.load(std::memory_order_relaxed);
  while (l > pk && !g_peak.compare_exchange_weak(pk, l, std::memory_order_relaxed))
  {
  }
  return p;
}
static void vfFree(void *p) noexcept
{
  if (!p) return;
  g_live.fetch_sub((long long)malloc_usable_size(p), std::memory_order_relaxed);
  free(p);
}
void *operator new(std::size_t n)
{
  void *p = vfAlloc(n, 0);
  if (!p) throw std::bad_alloc();
  return p;
}
void *operator new[](std::size_t n)
{
  void *p = vfAlloc(n, 0);
  if (!p) throw std::bad_alloc();
  return p;
}
void *operator new(std::size_t n, const std::nothrow_t &) noexcept { return vfAlloc(n, 0); }
void *operator new[](std::size_t n, const std::nothrow_t &) noexcept { return vfAlloc(n, 0); }
void *operator new(std::size_t n, std::align_val_t a)
{
  void *p = vfAlloc(n, (std::size_t)a);
  if (!p) throw std::bad_alloc();
  return p;
}
void *operator new[](std::size_t n, std::align_val_t a)
{
  void *p = vfAlloc(n, (std::size_t)a);
  if (!p) throw std::bad_alloc();
  return p;
}
void operator delete(void *p) noexcept { vfFree(p); }
void operator delete[](void *p) noexcept { vfFree(p); }
void operator delete(void *p, std::size_t) noexcept { vfFree(p); }
void operator delete[](void *p, std::size_t) noexcept { vfFree(p); }
void operator delete(void *p, std::align_val_t) noexcept { vfFree(p); }
void operator delete[](void *p, std::align_val_t) noexcept { vfFree(p); }
void operator delete(void *p, std::size_t, std::align_val_t) noexcept { vfFree(p); }
void operator delete[](void *p, std::size_t, std::align_val_t) noexcept { vfFree(p); }

static long long cap30(unsigned long long v) { return v > (1ull << 30) ? (1ll << 30) : (long long)v; }

struct AllocScope
{
  long long base;
  AllocScope()
  {
    base = g_live.load();
    g_peak.store(base);
    g_maxReq.store(0);
  }
  long long peak() const
  {
    long long d = g_peak.load() - base;
    return d < 0 ? 0 : cap30((unsigned long long)d);
  }
  long long maxReq() const { return cap30(g_maxReq.load()); }
};

// ------------------------------------------------------------------------------------------- commands
static const char *stName(bool thrown, bool frame) { return thrown ? "throw" : frame ? "frame" : "incomplete"; }

struct ParseOut
{
  bool thrown = false, frame = false;
  std::size_t consumed = 0;
  std::optional<WebSocketFrame> f;
};
static ParseOut parseExact(const std::uint8_t *p, std::size_t n)
{
  ParseOut r;
  Exact e(p, n);
  try
  {
    std::size_t c = 0;
    r.f = WebSocketFrame::parse(BufferView{e.p, e.n}, c);
    r.frame = r.f.has_value();
    r.consumed = c;
  }
  catch (...)
  {
    r.thrown = true;
  }
  return r;
}
static std::vector<std::size_t> prefixLens(std::size_t n)
{
  std::vector<std::size_t> v;
  for (std::size_t i = 0; i < n; ++i)
    if (i < 40 || i + 24 >= n || i % 4099 == 0 || (i >= 120 && i < 140) || (i >= 65530 && i < 65560)) v.push_back(i);
  return v;
}

static std::string cmdCodec(const std::vector<std::string> &w)
{
  // F <op> <fin> <masked> <mask8hex> <payload>
  int op = atoi(w[1].c_str());
  bool fin = w[2] == "1", masked = w[3] == "1";
  Bytes mk = expandData(w[4]);
  Bytes payload = expandData(w[5]);
  AllocScope as;
  WebSocketFrame f;
  f.fin = fin;
  f.opcode = static_cast<WsOpcode>(op);
  f.masked = masked;
  for (int i = 0; i < 4 && i < (int)mk.size(); ++i) f.maskKey[i] = mk[i];
  f.payload = payload;
  Bytes wire;
  bool sthrow = false;
  try
  {
    wire = f.serialize(masked);
  }
  catch (...)
  {
    sthrow = true;
  }
  vf::Ev ev("Codec");
  ev.b("sthrow", sthrow).i("wire", (long long)wire.size());
  int enc = 0;
  if (wire.size() >= 2)
  {
    int l7 = wire[1] & 0x7F;
    enc = l7 == 126 ? 16 : l7 == 127 ? 64 : 7;
    ev.i("enc", enc).b("mbit", (wire[1] & 0x80) != 0).i("opw", wire[0] & 0x0F).b("finw", (wire[0] & 0x80) != 0).i("rsvw", (wire[0] >> 4) & 7);
    // the harness' own strict reader must read the same frame back (masking applied correctly on the wire)
    Bytes copy = wire;
    WFrame hf;
    int r = extractFrame(copy, hf);
    ev.b("hread", r == 1 && copy.empty() && hf.payload == payload && hf.op == op && hf.fin == fin && hf.masked == masked && hf.minimal);
  }
  auto same = [&](const ParseOut &r)
  {
    return r.frame && r.f->fin == fin && (int)r.f->opcode == op && r.f->masked == masked && r.f->payload == payload &&
           (!masked || memcmp(r.f->maskKey, f.maskKey, 4) == 0);
  };
  ParseOut r = parseExact(wire.data(), wire.size());
  ev.str("st", stName(r.thrown, r.frame)).i("consumed", (long long)r.consumed).b("eq", same(r));
  Bytes t = wire;
  t.push_back(0x81);
  t.push_back(0xFF);
  t.push_back(0x00);
  ParseOut rt = parseExact(t.data(), t.size());
  ev.str("tst", stName(rt.thrown, rt.frame)).i("tconsumed", (long long)rt.consumed).b("teq", same(rt));
  int npfx = 0, inc = 0;
  for (std::size_t k : prefixLens(wire.size()))
  {
    ParseOut rp = parseExact(wire.data(), k);
    ++npfx;
    if (!rp.thrown && !rp.frame && rp.consumed == 0) ++inc;
  }
  ev.i("pfx", npfx).i("pfxinc", inc).i("alloc", as.maxReq());
  return ev.done() + "\n";
}

static std::string cmdParse(const std::vector<std::string> &w)
{
  Bytes data = expandData(w[1]);
  AllocScope as;
  ParseOut r = parseExact(data.data(), data.size());
  vf::Ev ev("Parse");
  ev.i("avail", (long long)data.size()).str("st", stName(r.thrown, r.frame)).i("consumed", (long long)r.consumed);
  ev.i("plen", r.frame ? (long long)r.f->payload.size() : -1);
  int npfx = 0, bad = 0;
  for (std::size_t k : prefixLens(data.size()))
  {
    ParseOut rp = parseExact(data.data(), k);
    ++npfx;
    if (rp.thrown || rp.consumed > k) ++bad;
  }
  ev.i("pfx", npfx).i("pfxbad", bad).i("alloc", as.maxReq());
  return ev.done() + "\n";
}

static void finishRun(vf::Ev &ev, Obs &o, const AllocScope &as)
{
  std::lock_guard<SpinLock> g(o.m);
  ev.raw("msgs", "[" + o.msgs + "]").raw("outs", "[" + o.outs + "]").raw("closed", "[" + o.closed + "]");
  ev.i("errs", o.errs).b("thrown", o.thrown).b("to", o.timeout).b("eof", o.eof).b("unreadable", o.unreadable).b("strict", o.strictOk);
  ev.i("peak", as.peak()).i("alloc", as.maxReq());
}

static std::string infra(const std::string &why) { return vf::Ev("Infra").str("why", why).done() + "\n"; }

static std::string runServer(char mode, std::size_t maxMsg, const std::vector<std::size_t> &segsIn, const Bytes &data)
{
  const bool wire = mode == 'w', glued = mode == 'g';
  std::vector<std::size_t> segs = segsIn;
  ServerRig &rg = rig();
  rg.srv->setMaxFrameSize(maxMsg);
  rg.onText = nullptr;
  rg.onCloseHook = nullptr;
  SessionId sid = 0;
  bool acc = false;
  std::string why;
  Obs o;
  Bytes rb;
  setObs(&o); // before the connection exists: in glued mode the messages are delivered during the upgrade
  unsigned long long done0 = rg.srv->doneBytes.load();
  int chunks0 = rg.srv->chunks.load();
  int fd = glued ? rg.open(sid, acc, why, &data, &rb) : rg.open(sid, acc, why);
  if (fd < 0)
  {
    setObs(nullptr);
    return infra("server open: " + why);
  }
  std::size_t maxSeg = 0;
  AllocScope as;
  std::size_t off = 0;
  if (glued)
  {
    // everything went out with the upgrade request; wait until the upgraded handler has been given all of it (if the
    // kernel or the server split it so that this never happens the run is inconclusive: "to")
    segs.clear();
    maxSeg = data.size();
    double t0 = vf::nowSec();
    while (rg.srv->doneBytes.load() - done0 < data.size() && vf::nowSec() - t0 < 3.0) usleep(200);
    if (rg.srv->doneBytes.load() - done0 < data.size()) o.timeout = true;
  }
  for (std::size_t k : segs)
  {
    maxSeg = std::max(maxSeg, k);
    if (!wire)
    {
      Exact e(data.data() + off, k);
      try
      {
        rg.srv->feed(sid, e.p, e.n);
      }
      catch (...)
      {
        o.thrown = true;
      }
    }
    else
    {
      unsigned long long target = rg.srv->doneBytes.load() + k;
      if (!sendAll(fd, data.data() + off, k)) break; // the server closed the connection
      double t0 = vf::nowSec();
      while (rg.srv->doneBytes.load() < target && vf::nowSec() - t0 < 5.0)
      {
        // the server may have closed the session (then the bytes are never handed over): stop waiting on EOF
        pollfd pf{fd, POLLIN, 0};
        if (poll(&pf, 1, 0) > 0)
        {
          char c;
          if (recv(fd, &c, 1, MSG_PEEK) == 0) break;
        }
        usleep(200);
      }
    }
    off += k;
  }
  long long peak = as.peak(), alloc = as.maxReq();
  (void)peak;
  (void)alloc;
  rg.srv->rawOut(sid, sentinelFrame(10));
  drain(fd, rb, o, glued && o.timeout ? 500 : 20000);
  vf::Ev ev("Run");
  ev.str("ep", "s").str("feed", wire ? "w" : glued ? "g" : "d").i("max", (long long)cap30(maxMsg)).i("n", (long long)data.size()).i("segs", (long long)segs.size());
  ev.i("maxseg", (long long)maxSeg).b("acc", acc).b("lim", true).i("chunks", rg.srv->chunks.load() - chunks0);
  finishRun(ev, o, as);
  setObs(nullptr);
  close(fd);
  return ev.done() + "\n";
}

static std::string runClient(bool wire, std::size_t maxMsg, const std::vector<std::size_t> &segs, const Bytes &data)
{
  ClientRig cr;
  std::string why;
  if (!cr.open(maxMsg, why))
  {
    cr.shut();
    return infra("client open: " + why);
  }
  Obs o;
  setObs(&o);
  std::size_t maxSeg = 0;
  AllocScope as;
  std::size_t off = 0;
  Bytes rb;
  for (std::size_t k : segs)
  {
    maxSeg = std::max(maxSeg, k);
    if (!wire)
    {
      Exact e(data.data() + off, k);
      try
      {
        Access::feed(*cr.cl, e.p, e.n);
      }
      catch (...)
      {
        o.thrown = true;
      }
    }
    else
    {
      if (!sendAll(cr.fd, data.data() + off, k)) break;
      usleep(1500);
    }
    off += k;
  }
  if (!wire)
  {
    Access::raw(*cr.cl, sentinelFrame(10));
    drain(cr.fd, rb, o);
  }
  else
  {
    // a ping the client must answer once it has processed everything before it
    Bytes s = sentinelFrame(9);
    sendAll(cr.fd, s.data(), s.size());
    drain(cr.fd, rb, o);
  }
  vf::Ev ev("Run");
  ev.str("ep", "c").str("feed", wire ? "w" : "d").i("max", (long long)cap30(maxMsg)).i("n", (long long)data.size()).i("segs", (long long)segs.size());
  ev.i("maxseg", (long long)maxSeg).b("acc", true).b("lim", cr.hasMax).i("chunks", 0);
  finishRun(ev, o, as);
  setObs(nullptr);
  cr.shut();
  return ev.done() + "\n";
}

// close-handshake scripts: every step is one complete API call / one complete inbound frame, executed on this thread;
// "cbT"/"rTe" make the endpoint's own callbacks call the send API (the library's re-entrancy windows); "rCg" parks the
// thread that handles the inbound close inside the close callback while a second thread calls sendText.
static std::string runScript(bool server, std::size_t maxMsg, const std::string &script)
{
  auto steps = vf::split(script, ',');
  Obs o;
  std::string calls;
  int ncalls = 0;
  auto call = [&](const std::string &s)
  {
    if (ncalls++) calls += ",";
    calls += "\"" + s + "\"";
  };
  bool cbSend = false;
  Bytes rb;
  if (server)
  {
    ServerRig &rg = rig();
    rg.srv->setMaxFrameSize(maxMsg);
    SessionId sid = 0;
    bool acc = false;
    std::string why;
    int fd = rg.open(sid, acc, why);
    if (fd < 0) return infra("server open: " + why);
    setObs(&o);
    bool echo = false, gate = false;
    rg.onText = [&](SessionId s, const std::string &)
    {
      if (echo) rg.srv->sendText(s, "echo-from-callback");
    };
    rg.onCloseHook = [&](SessionId s)
    {
      if (cbSend) rg.srv->sendText(s, "text-from-close-callback");
      if (gate)
      {
        std::thread t([&] { rg.srv->sendText(s, "text-from-second-thread"); });
        t.join();
      }
    };
    for (auto &st : steps)
    {
      call(st);
      try
      {
        if (st == "T") rg.srv->sendText(sid, "app-text");
        else if (st == "B") rg.srv->sendBinary(sid, Bytes{1, 2, 3});
        else if (st == "P") rg.srv->sendPing(sid, Bytes{'p'});
        else if (st == "C") rg.srv->sendClose(sid, 1000, "bye");
        else if (st == "cbT") cbSend = true;
        else if (st == "rC" || st == "rCg")
        {
          gate = st == "rCg";
          Bytes f = mkFrame(8, std::string("\x03\xe9", 2), true);
          rg.srv->feed(sid, f.data(), f.size());
          gate = false;
        }
        else if (st == "rT" || st == "rTe")
        {
          echo = st == "rTe";
          Bytes f = mkFrame(1, "hi", true);
          rg.srv->feed(sid, f.data(), f.size());
          echo = false;
        }
        else if (st == "rP")
        {
          Bytes f = mkFrame(9, "q", true);
          rg.srv->feed(sid, f.data(), f.size());
        }
      }
      catch (...)
      {
        o.thrown = true;
      }
    }
    rg.srv->rawOut(sid, sentinelFrame(10));
    drain(fd, rb, o);
    setObs(nullptr);
    rg.onText = nullptr;
    rg.onCloseHook = nullptr;
    close(fd);
  }
  else
  {
    ClientRig cr;
    std::string why;
    if (!cr.open(maxMsg, why))
    {
      cr.shut();
      return infra("client open: " + why);
    }
    setObs(&o);
    bool echo = false, gate = false, disconnected = false;
    cr.onText = [&](const std::string &)
    {
      if (echo) cr.cl->sendText("echo-from-callback");
    };
    cr.onCloseHook = [&]
    {
      if (cbSend) cr.cl->sendText("text-from-close-callback");
      if (gate)
      {
        std::thread t([&] { cr.cl->sendText("text-from-second-thread"); });
        t.join();
      }
    };
    for (auto &st : steps)
    {
      call(st);
      try
      {
        if (st == "T") cr.cl->sendText("app-text");
        else if (st == "B") cr.cl->sendBinary(Bytes{1, 2, 3});
        else if (st == "P") cr.cl->sendPing(Bytes{'p'});
        else if (st == "C") cr.cl->sendClose(1000, "bye");
        else if (st == "cbT") cbSend = true;
        else if (st == "D")
        {
          cr.cl->disconnect(1000, "bye");
          disconnected = true;
        }
        else if (st == "rC" || st == "rCg")
        {
          gate = st == "rCg";
          Bytes f = mkFrame(8, std::string("\x03\xe9", 2), false);
          Access::feed(*cr.cl, f.data(), f.size());
          gate = false;
        }
        else if (st == "rT" || st == "rTe")
        {
          echo = st == "rTe";
          Bytes f = mkFrame(1, "hi", false);
          Access::feed(*cr.cl, f.data(), f.size());
          echo = false;
        }
        else if (st == "rP")
        {
          Bytes f = mkFrame(9, "q", false);
          Access::feed(*cr.cl, f.data(), f.size());
        }
      }
      catch (...)
      {
        o.thrown = true;
      }
    }
    if (!disconnected) Access::raw(*cr.cl, sentinelFrame(10));
    drain(cr.fd, rb, o);
    setObs(nullptr);
    cr.shut();
  }
  vf::Ev ev("Script");
  ev.str("ep", server ? "s" : "c").raw("steps", "[" + calls + "]");
  AllocScope dummy;
  finishRun(ev, o, dummy);
  return ev.done() + "\n";
}

static std::map<std::string, Bytes> g_data; // "D <ep> <data>": the byte stream later "R ... =" lines of this execution refer to

static std::string doLine(const std::string &ln)
{
  auto w = vf::words(ln);
  if (w.empty()) return "";
  const std::string &c = w[0];
  if (c == "X")
  {
    g_data.clear();
    return "";
  }
  if (c == "D" && w.size() >= 3)
  {
    g_data[w[1]] = expandData(w[2]);
    return "";
  }
  if (c == "E") return "{\"e\":\"Reset\"}\n";
  if (c == "C" && w.size() >= 2)
  {
    std::string j = ln.substr(ln.find('{'));
    return "{\"e\":\"Case\"," + j.substr(1) + "\n";
  }
  if (c == "F" && w.size() >= 6) return cmdCodec(w);
  if (c == "P" && w.size() >= 2) return cmdParse(w);
  if (c == "R" && w.size() >= 6)
  {
    Bytes data = w[5] == "=" ? g_data[w[1]] : expandData(w[5]);
    auto segs = expandSegs(w[4], data.size());
    std::size_t mx = strtoull(w[3].c_str(), nullptr, 10);
    return w[1] == "s" ? runServer(w[2][0], mx, segs, data) : runClient(w[2] == "w", mx, segs, data);
  }
  if (c == "S" && w.size() >= 4) return runScript(w[1] == "s", strtoull(w[2].c_str(), nullptr, 10), w[3]);
  return infra("bad case line: " + ln.substr(0, 40));
}

int main(int argc, char **argv)
{
  if (argc < 4 || std::string(argv[1]) != "run") return 2;
  signal(SIGPIPE, SIG_IGN);
  iora::core::Logger::setLevel(iora::core::Logger::Level::Fatal);
  auto lines = vf::readLines(argv[2]);
  int par = argc > 4 ? atoi(argv[4]) : 8;
  // split into executions (X ... E), distribute contiguous batches over `par` children
  std::vector<std::pair<std::size_t, std::size_t>> execs;
  std::size_t start = 0;
  for (std::size_t i = 0; i < lines.size(); ++i)
    if (lines[i] == "E")
    {
      execs.push_back({start, i + 1});
      start = i + 1;
    }
  int nb = std::max(1, std::min<int>(par * 4, (int)execs.size()));
  std::string scratch = std::string(argv[3]) + ".d";
  mkdir(scratch.c_str(), 0777);
  auto fileOf = [&](int b) { return scratch + "/b" + std::to_string(b) + ".ndjson"; };
  std::map<pid_t, std::pair<int, double>> live;
  std::vector<int> status(nb, -1);
  int next = 0;
  double limit = 900.0;
  while (next < nb || !live.empty())
  {
    while (next < nb && (int)live.size() < par)
    {
      fflush(nullptr);
      pid_t p = fork();
      if (p == 0)
      {
        FILE *f = fopen(fileOf(next).c_str(), "w");
        std::size_t lo = execs.size() * next / nb, hi = execs.size() * (next + 1) / nb;
        for (std::size_t x = lo; x < hi; ++x)
        {
          // the case header is flushed before the case runs, so that a crash is attributable
          for (std::size_t i = execs[x].first; i < execs[x].second; ++i)
          {
            std::string out = doLine(lines[i]);
            if (!out.empty())
            {
              fwrite(out.data(), 1, out.size(), f);
              fflush(f);
            }
          }
        }
        fclose(f);
        fflush(nullptr);
        _exit(0);
      }
      live[p] = {next, vf::nowSec()};
      ++next;
    }
    int st = 0;
    pid_t wp = waitpid(-1, &st, WNOHANG);
    if (wp > 0 && live.count(wp))
    {
      status[live[wp].first] = (WIFEXITED(st) && WEXITSTATUS(st) == 0) ? 0 : 1;
      live.erase(wp);
      continue;
    }
    double now = vf::nowSec();
    for (auto it = live.begin(); it != live.end();)
    {
      if (now - it->second.second > limit)
      {
        kill(it->first, SIGKILL);
        int s2;
        waitpid(it->first, &s2, 0);
        status[it->second.first] = 2;
        it = live.erase(it);
      }
      else
        ++it;
    }
    usleep(1000);
  }
  FILE *out = fopen(argv[3], "w");
  int crashed = 0, timedOut = 0;
  for (int b = 0; b < nb; ++b)
  {
    FILE *f = fopen(fileOf(b).c_str(), "r");
    bool endsWithReset = true;
    if (f)
    {
      char *line = nullptr;
      size_t capn = 0;
      ssize_t k;
      while ((k = getline(&line, &capn, f)) > 0)
      {
        fwrite(line, 1, k, out);
        endsWithReset = strstr(line, "\"e\":\"Reset\"") != nullptr;
      }
      free(line);
      fclose(f);
      unlink(fileOf(b).c_str());
    }
    if (status[b] != 0)
    {
      // the batch died: the last case written is the one that was running; the rest of the batch is not executed
      std::size_t lo = execs.size() * b / nb, hi = execs.size() * (b + 1) / nb;
      fprintf(out, "{\"e\":\"%s\",\"batch\":%d,\"lo\":%zu,\"hi\":%zu}\n", status[b] == 1 ? "Crashed" : "HarnessTimeout", b, lo, hi);
      fprintf(out, "{\"e\":\"Reset\"}\n");
      (status[b] == 1 ? crashed : timedOut)++;
    }
    else if (!endsWithReset)
      fprintf(out, "{\"e\":\"Reset\"}\n");
  }
  fclose(out);
  rmdir(scratch.c_str());
  printf("executions=%zu batches=%d crashed=%d timedout=%d\n", execs.size(), nb, crashed, timedOut);
  return 0;
}
