// X13 conformance driver: iora::util::Base64 (encode / decode / decodeToString) and Base64Url::encode.
//
//   drv_b64 run <cases> <out.ndjson> <batch> <parallel>    forked workers (parsers_run.hpp): a sanitizer abort or a hang
//                                                         costs one case, reported as {"e":"Crashed"|"Hung","k":line}
// case lines (written by checks/X13.py from the terminal states of spec/extra/Base64.tla):
//   E <hex|->   Base64::encode      U <hex|->   Base64Url::encode      D <hex|->   Base64::decode + decodeToString
// events (judged by spec/extra/Base64Trace.tla):
//   Enc {url,in,out,vout}          out: encode(ptr,len), vout: encode(vector)
//   Dec {in,ok,out,sok,sout}       out: decode(), sout: decodeToString()
// Every input is handed over in an exact-size heap block (no trailing NUL): ASan sees any read outside [data, data+len).
#include "iora/util/base64.hpp"
#include "parsers_run.hpp"
#include "vf/exec.hpp"
#include "vf/trace.hpp"
#include <cstring>
#include <memory>

static std::string unhex(const std::string &h)
{
  std::string o;
  if (h == "-") return o;
  auto v = [](char c) { return c <= '9' ? c - '0' : (c | 32) - 'a' + 10; };
  for (size_t i = 0; i + 1 < h.size(); i += 2) o += (char)(v(h[i]) * 16 + v(h[i + 1]));
  return o;
}
template <class T> static std::vector<int> ints(const T &s)
{
  std::vector<int> o;
  for (auto c : s) o.push_back((unsigned char)c);
  return o;
}

static std::string runCase(const std::string &line)
{
  auto w = vf::words(line);
  if (w.size() < 2) return "";
  std::string in = unhex(w[1]);
  // exact-size block: new char[0] is a valid, distinct, zero-size allocation as well
  std::unique_ptr<char[]> blk(new char[in.size()]);
  if (!in.empty()) memcpy(blk.get(), in.data(), in.size());
  auto iv = ints(in);
  if (w[0] == "E" || w[0] == "U")
  {
    bool url = w[0] == "U";
    const std::uint8_t *p = reinterpret_cast<const std::uint8_t *>(blk.get());
    std::vector<std::uint8_t> vec(p, p + in.size());
    vec.shrink_to_fit();
    std::string out = url ? iora::util::Base64Url::encode(p, in.size()) : iora::util::Base64::encode(p, in.size());
    std::string vout = url ? iora::util::Base64Url::encode(vec) : iora::util::Base64::encode(vec);
    auto ov = ints(out), vv = ints(vout);
    return vf::Ev("Enc").b("url", url).ints("in", iv.begin(), iv.end()).ints("out", ov.begin(), ov.end())
             .ints("vout", vv.begin(), vv.end()).done() + "\n";
  }
  if (w[0] == "D")
  {
    std::string_view sv(blk.get(), in.size());
    bool ok = false, sok = false, threw = false;
    std::vector<int> ov, sv2;
    try
    {
      auto r = iora::util::Base64::decode(sv);
      ok = r.has_value();
      if (ok) ov = ints(*r);
      auto s = iora::util::Base64::decodeToString(sv);
      sok = s.has_value();
      if (sok) sv2 = ints(*s);
    }
    catch (...)
    {
      threw = true; // "does not throw on malformed input": an exception is reported as a crash of the case
    }
    if (threw) return vf::Ev("Crashed").i("k", -1).done() + "\n";
    return vf::Ev("Dec").ints("in", iv.begin(), iv.end()).b("ok", ok).ints("out", ov.begin(), ov.end()).b("sok", sok)
             .ints("sout", sv2.begin(), sv2.end()).done() + "\n";
  }
  return "";
}

int main(int argc, char **argv)
{
  if (argc >= 6 && std::string(argv[1]) == "run")
  {
    auto lines = vf::readLines(argv[2]);
    int batch = atoi(argv[4]), par = atoi(argv[5]);
    if (batch <= 0) batch = 1;
    auto r = vfp::runResilient((int)lines.size(), batch, par, 30.0, argv[3], [&](int k) { return runCase(lines[k]); });
    printf("cases=%d crashed=%d hung=%d workers=%d\n", r.cases, r.crashed, r.hung, r.workers);
    return 0;
  }
  fprintf(stderr, "usage: drv_b64 run <cases> <out> <batch> <parallel>\n");
  return 2;
}
