// X21: iora::util::ExpiringCache<std::string,int> under the deterministic scheduler (one std::mutex, a purge thread that wakes
// every 5 s of VIRTUAL time, eviction callbacks invoked outside the lock).
//   drv_s_expcache run <cases.txt> <out.ndjson>
//   case:  <ttl s> <cb 0|1> | a=set:k1:1,sleep:1500,get:k1,remove:k1,size;b=get:k1,set:k1:2:3,psize ; main=sleep:9000,destroy | random <seed>
//          set:<key>:<value id>[:<custom ttl s>]   get:<key>   remove:<key>   size   sleep:<ms>
//          psize = size() where the program guarantees that every thread is quiet (used after a long sleep: what expired more
//                  than a purge period ago must be gone)
//          "main" runs its ops like any thread; after ALL threads are done the cache is destroyed by main (DtorCall/DtorRet)
// Events (judged by spec/extra/CacheTrace.tla; vt = virtual milliseconds, uj = unfair time jumps so far):
//   Begin{ttl,cb} Call{t,op,k,v,ttl,vt} Ret{t,op,hit,rv,vt} Evict{th,k,v,vt} DtorCall{vt} DtorRet{vt} End{outcome}
#include "iora/util/expiring_cache.hpp"
#include "vf/exec.hpp"
#include "vf/sched.hpp"
#include "vf/trace.hpp"
#include <memory>
#include <thread>
using Cache = iora::util::ExpiringCache<std::string, int>;
struct Op { std::string op, k; int v = 0; long a = 0; };
struct TP { std::string name; std::vector<Op> ops; };
static long long vms() { return vf::virtualAdvanceNs() / 1000000; }
static std::string runOne(int ttl, bool cb, const std::vector<TP> &prog, const vf::Options &opt)
{
  auto tr = std::make_shared<vf::Trace>();
  tr->add(vf::Ev("Begin").i("ttl", ttl * 1000LL).b("cb", cb));
  vf::Options o = opt;
  o.maxSteps = 40000;
  o.earliestDeadlineFirst = true;
  vf::reset(o);
  vf::spawn("main", [tr, &prog, ttl, cb]() {
    vf::point("start");
    vf::nameNextChild("purge");
    std::unique_ptr<Cache> c;
    auto onEvict = [tr](const std::string &k, const int &v) {
      tr->add(vf::Ev("Evict").str("th", vf::selfName()).str("k", k).i("v", v).i("vt", vms()));
    };
    if (cb) c = std::make_unique<Cache>(std::chrono::seconds(ttl), onEvict);
    else c = std::make_unique<Cache>(std::chrono::seconds(ttl));
    Cache *m = c.get();
    auto body = [tr, m, ttl](const TP &tp) {
      for (auto &op : tp.ops) {
        if (op.op == "sleep") { std::this_thread::sleep_for(std::chrono::milliseconds(op.a)); continue; }
        vf::point("call");
        std::string o2 = op.op == "psize" ? "size" : op.op;
        tr->add(vf::Ev("Call").str("t", tp.name).str("op", o2).str("k", op.k).i("v", op.v).i("ttl", (op.a > 0 ? op.a : ttl) * 1000LL).b("quiet", op.op == "psize").i("vt", vms()).i("uj", vf::unfairJumps()));
        bool hit = false; long long rv = -1;
        if (op.op == "set") m->set(op.k, op.v, std::chrono::seconds(op.a));
        else if (op.op == "get") { auto r = m->get(op.k); hit = r.has_value(); if (hit) rv = *r; }
        else if (op.op == "remove") m->remove(op.k);
        else rv = (long long)m->size();
        tr->add(vf::Ev("Ret").str("t", tp.name).str("op", o2).b("hit", hit).i("rv", rv).i("vt", vms()).i("uj", vf::unfairJumps()));
      }
    };
    std::vector<std::thread> th;
    const TP *mainProg = nullptr;
    for (auto &tp : prog) {
      if (tp.name == "main") { mainProg = &tp; continue; }
      vf::nameNextChild(tp.name);
      th.emplace_back([&body, &tp]() { body(tp); });
    }
    if (mainProg) body(*mainProg);
    for (auto &t : th) t.join();
    vf::point("call");
    tr->add(vf::Ev("DtorCall").i("vt", vms()));
    c.reset();
    tr->add(vf::Ev("DtorRet").i("vt", vms()));
  });
  vf::Result r = vf::run();
  tr->add(vf::Ev("End").str("outcome", r.outcome == vf::Outcome::Done ? "done" : r.outcome == vf::Outcome::Stuck ? "stuck" : "other"));
  return tr->text();
}
int main(int argc, char **argv)
{
  if (argc < 4 || std::string(argv[1]) != "run") return 2;
  iora::core::Logger::setLevel(iora::core::Logger::Level::Fatal);
  auto lines = vf::readLines(argv[2]);
  struct Case { int ttl = 1; bool cb = true; std::vector<TP> prog; vf::Options opt; };
  std::vector<Case> cases;
  for (auto &ln : lines) {
    auto parts = vf::split(ln, '|'); if (parts.size() < 3) continue;
    Case c; auto hw = vf::words(parts[0]); if (hw.size() < 2) continue;
    c.ttl = atoi(hw[0].c_str()); c.cb = atoi(hw[1].c_str()) != 0;
    std::string p; for (auto &x : vf::words(parts[1])) p += x;
    for (auto &pp : vf::split(p, ';')) { auto eq = pp.find('='); if (eq == std::string::npos) continue; TP tp; tp.name = pp.substr(0, eq);
      for (auto &x : vf::split(pp.substr(eq + 1), ',')) { if (x.empty()) continue; auto f = vf::split(x, ':'); Op o; o.op = f[0];
        if (o.op == "sleep") o.a = f.size() > 1 ? atol(f[1].c_str()) : 0;
        else { if (f.size() > 1) o.k = f[1]; if (f.size() > 2) o.v = atoi(f[2].c_str()); if (f.size() > 3) o.a = atol(f[3].c_str()); }
        tp.ops.push_back(o); }
      c.prog.push_back(tp); }
    auto pw = vf::words(parts[2]);
    if (!pw.empty() && (pw[0] == "random" || pw[0] == "randomt")) {
      c.opt.policy = vf::Policy::Random; c.opt.seed = pw.size() > 1 ? strtoull(pw[1].c_str(), nullptr, 10) : 1;
      if (pw[0] == "randomt") { c.opt.timeoutsOnlyWhenIdle = false; c.opt.timeoutPermille = 100; }
    } else { c.opt.policy = vf::Policy::Replay; if (!pw.empty()) c.opt.plan.assign(pw.begin() + 1, pw.end()); }
    cases.push_back(std::move(c));
  }
  auto res = vf::runMany((int)cases.size(), 8, 30.0, std::string(argv[3]) + ".d", argv[3], [&](int i) { return runOne(cases[i].ttl, cases[i].cb, cases[i].prog, cases[i].opt); });
  printf("executions=%d crashed=%d timedout=%d\n", res.executions, res.crashed, res.timedOut);
  return 0;
}
