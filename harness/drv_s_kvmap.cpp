// C12, concurrent part: iora::storage::KVStore under the deterministic scheduler (vf/sched): readers and writers race each
// other and the store's own threads (timing-wheel tick thread, eviction worker - created by the store from a registered
// thread and therefore scheduled too).  One thread runs at a time; every pthread mutex / rwlock (std::shared_mutex) /
// condition-variable operation is a schedule point, so the window between two critical sections of one API call - e.g.
// "value copied under _mutex, _mutex released, cache filled afterwards" - is a place where any other thread can run a whole
// call.  The store's write() system calls (one per flushed log record) are explicit schedule points as well (defined
// below), so "lock released, record journalled afterwards" is a window too; the rest of the file I/O (compaction's temp
// file + rename) does not block; fsync is a no-op here.
// After all threads joined the main thread reads everything back, CLOSES the store, REOPENS it and reads everything back
// again: the linearization of the concurrent phase fixes the reference map, the reopened store has to agree with it.
//
//   drv_s_kvmap run <cases.txt> <out.ndjson> <scratch dir> [parallel]
//       case line:  cache=<n> | <prog> | random <seed> | randomt <seed> | replay|prefix <threads...>
//       prog:  init=set:1:1,setx:2:1 ; a=get:1,ex:1,ttl:1 ; b=set:1:2,rm:2
//         init ops run on the main thread before the others start; afterwards main joins them, reads everything back,
//         closes + reopens the store and reads everything back again
//         ops: set:k:v  setx:k:v (set with a TTL far in the future)  rm:k  expf:k (expireAt far future)  expp:k (expireAt in
//              the past: the key is dead at once, the wheel fires at its next tick and the worker evicts)  per:k  clear
//              compact | get:k  ex:k  ttl:k  getb  keys  size
//   drv_s_kvmap dfs <cache> <prog> <preemption bound> <max executions> <out.ndjson> <scratch dir> [parallel]
//
// Events: Begin{nk} Call{t,op,k,v} Ret{t,op,rv,rvs} Reopen End{outcome,stuck,steps}.   Values are ids (a value that is not
// byte-identical to a stored one is -1); ttl is logged as a class: -1 none, 1 has a remaining TTL.  The wheel is tiny
// (10 ms tick, 20 ms range) so that with `randomt` every armed timer keeps firing (ReArm / Evict / Stale); virtual time
// drifts by at most a few seconds per execution while the expiries used are -1000 s / +1e6 s.
#include "iora/storage/kvstore.hpp"
#include "vf/exec.hpp"
#include "vf/sched.hpp"
#include "vf/trace.hpp"

#include <algorithm>
#include <cctype>
#include <map>
#include <memory>
#include <random>
#include <set>
#include <thread>

using iora::storage::KVStore;
using iora::storage::KVStoreConfig;

#include <dlfcn.h>
extern "C" int fsync(int) { return 0; }
extern "C" int fdatasync(int) { return 0; }
// every write() of a registered thread to a file is a schedule point of its own (the log record of an operation reaches
// the file in one write at its flush)
extern "C" ssize_t write(int fd, const void *b, size_t n)
{
  static auto real = (ssize_t(*)(int, const void *, size_t))dlsym(RTLD_NEXT, "write");
  if (fd > 2 && vf::self() >= 0) vf::point("write");
  return real(fd, b, n);
}

static const int NKEYS = 3;
static std::string keyName(int k) { return "k" + std::to_string(k); }
static std::vector<std::uint8_t> valueOf(int v)
{
  std::string s = "value-" + std::to_string(v) + std::string((size_t)v * 7, (char)('a' + v));
  return std::vector<std::uint8_t>(s.begin(), s.end());
}
static int idOfValue(const std::vector<std::uint8_t> &b)
{
  for (int v = 1; v <= 4; ++v)
    if (b == valueOf(v)) return v;
  return -1;
}
static int idOfKey(const std::string &s)
{
  for (int k = 1; k <= NKEYS; ++k)
    if (s == keyName(k)) return k;
  return -1;
}

struct OpSpec
{
  std::string op;
  int k = 0, v = 0;
};
struct ThreadProg
{
  std::string name;
  std::vector<OpSpec> ops;
};

static std::vector<ThreadProg> parseProg(const std::string &s)
{
  std::vector<ThreadProg> out;
  for (auto &part : vf::split(s, ';'))
  {
    std::string p;
    for (auto &x : vf::words(part)) p += x;
    if (p.empty()) continue;
    auto eq = p.find('=');
    ThreadProg tp;
    tp.name = p.substr(0, eq);
    if (eq != std::string::npos)
      for (auto &o : vf::split(p.substr(eq + 1), ','))
      {
        if (o.empty()) continue;
        auto f = vf::split(o, ':');
        OpSpec os;
        os.op = f[0];
        if (f.size() > 1) os.k = atoi(f[1].c_str());
        if (f.size() > 2) os.v = atoi(f[2].c_str());
        tp.ops.push_back(os);
      }
    out.push_back(tp);
  }
  return out;
}

struct Shared
{
  vf::Trace tr;
  KVStore *s = nullptr;
};

static void doOp(Shared &sh, const std::string &t, const OpSpec &o)
{
  using namespace std::chrono;
  KVStore *s = sh.s;
  sh.tr.add(vf::Ev("Call").str("t", t).str("op", o.op).i("k", o.k).i("v", o.v));
  int rv = 0;
  std::vector<int> rvs;
  const auto FUTURE = seconds(1000000);
  try
  {
    if (o.op == "set") s->set(keyName(o.k), valueOf(o.v));
    else if (o.op == "setx") s->set(keyName(o.k), valueOf(o.v), FUTURE);
    else if (o.op == "rm") s->remove(keyName(o.k));
    else if (o.op == "expf") s->expireAt(keyName(o.k), system_clock::now() + FUTURE);
    else if (o.op == "expp") s->expireAt(keyName(o.k), system_clock::now() - seconds(1000));
    else if (o.op == "per") s->persist(keyName(o.k));
    else if (o.op == "clear") s->clear();
    else if (o.op == "compact") s->compact();
    else if (o.op == "get")
    {
      auto g = s->get(keyName(o.k));
      rv = g ? idOfValue(*g) : 0;
    }
    else if (o.op == "ex") rv = s->exists(keyName(o.k)) ? 1 : 0;
    else if (o.op == "ttl") rv = s->ttl(keyName(o.k)) ? 1 : -1;
    else if (o.op == "getb")
    {
      std::vector<std::string> all;
      for (int k = 1; k <= NKEYS; ++k) all.push_back(keyName(k));
      rvs.assign(NKEYS, 0);
      for (auto &kv : s->getBatch(all))
      {
        int id = idOfKey(kv.first);
        if (id > 0) rvs[id - 1] = idOfValue(kv.second);
        else rv = -1;
      }
    }
    else if (o.op == "keys")
    {
      for (auto &key : s->keys())
      {
        int id = idOfKey(key);
        if (id > 0) rvs.push_back(id);
        else rv = -1;
      }
      std::sort(rvs.begin(), rvs.end());
    }
    else if (o.op == "size") rv = (int)s->size();
    else rv = -99;
  }
  catch (const std::exception &)
  {
    rv = -98;
  }
  sh.tr.add(vf::Ev("Ret").str("t", t).str("op", o.op).i("rv", rv).ints("rvs", rvs.begin(), rvs.end()));
}

static void rmDir(const std::string &dir)
{
  for (const char *suf : {"/db", "/db.log", "/db.tmp"}) unlink((dir + suf).c_str());
  rmdir(dir.c_str());
}

static std::string runOne(unsigned cache, const std::vector<ThreadProg> &prog, const vf::Options &opt, bool emitSched,
                          const std::string &scratch)
{
  auto sh = std::make_shared<Shared>();
  sh->tr.add(vf::Ev("Begin").i("nk", NKEYS).i("cache", cache));
  vf::Options o = opt;
  o.maxSteps = 30000;
  vf::reset(o);
  std::string dir = scratch + "/k" + std::to_string(getpid());
  rmDir(dir);
  mkdir(scratch.c_str(), 0777);
  mkdir(dir.c_str(), 0777);
  vf::spawn("main",
            [sh, cache, &prog, dir]()
            {
              vf::point("construct");
              KVStoreConfig c;
              c.enableBackgroundCompaction = false;
              c.maxCacheSize = cache;
              c.ttlTickDuration = std::chrono::milliseconds(10);
              c.ttlTicksPerWheel = 2;
              c.ttlNumWheels = 1;
              auto *store = new KVStore(dir + "/db", c);
              sh->s = store;
              for (auto &tp : prog)
                if (tp.name == "init")
                  for (auto &op : tp.ops)
                  {
                    vf::point("call");
                    doOp(*sh, "main", op);
                  }
              vf::point("spawn"); // the DFS branches only between this point and "joined"
              std::vector<std::thread> th;
              for (auto &tp : prog)
              {
                if (tp.name == "init") continue;
                vf::nameNextChild(tp.name);
                th.emplace_back(
                    [sh, &tp]()
                    {
                      for (auto &op : tp.ops)
                      {
                        vf::point("call");
                        doOp(*sh, tp.name, op);
                      }
                    });
              }
              for (auto &t : th) t.join();
              vf::point("joined"); // the DFS does not branch beyond this point
              auto readBack = [&]()
              {
                // sequential read-back: every key through every single-key read path, then the scans
                for (int k = 1; k <= NKEYS; ++k)
                  for (const char *rop : {"get", "ex", "ttl", "get"})
                  {
                    vf::point("call");
                    OpSpec os;
                    os.op = rop;
                    os.k = k;
                    doOp(*sh, "main", os);
                  }
                for (const char *rop : {"getb", "keys", "size"})
                {
                  vf::point("call");
                  OpSpec os;
                  os.op = rop;
                  doOp(*sh, "main", os);
                }
              };
              readBack();
              vf::point("destroy");
              delete store; // orderly shutdown: wheel drained, eviction worker joined, log flushed and closed
              sh->s = nullptr;
              sh->tr.add(vf::Ev("Reopen"));
              store = new KVStore(dir + "/db", c);
              sh->s = store;
              readBack();
              vf::point("destroy");
              delete store;
            });
  vf::Result r = vf::run();
  const char *oc = r.outcome == vf::Outcome::Done        ? "done"
                   : r.outcome == vf::Outcome::Stuck     ? "stuck"
                   : r.outcome == vf::Outcome::StepLimit ? "steplimit"
                                                         : "external";
  sh->tr.add(vf::Ev("End").str("outcome", oc).strs("stuck", r.stuck).b("drift", r.drift).i("steps", (long long)r.steps.size()));
  std::string text = sh->tr.text();
  if (emitSched)
  {
    long joinedAt = -1, spawnAt = -1;
    for (size_t i = 0; i < r.steps.size(); ++i)
    {
      if (r.steps[i].op == "point:spawn" && spawnAt < 0) spawnAt = (long)i;
      if (r.steps[i].op == "point:joined")
      {
        joinedAt = (long)i;
        break;
      }
    }
    text += "#J " + std::to_string(joinedAt) + " " + std::to_string(spawnAt) + "\n";
    std::string s = "#S";
    for (auto &st : r.steps)
    {
      s += " " + st.thread + ":";
      for (size_t i = 0; i < st.enabled.size(); ++i) s += (i ? "," : "") + std::to_string(st.enabled[i]);
      s += ":" + std::to_string(st.tid);
    }
    text += s + "\n";
  }
  if (r.outcome == vf::Outcome::Done) rmDir(dir);
  return text;
}

static vf::Options parsePolicy(const std::vector<std::string> &w)
{
  vf::Options o;
  if (!w.empty() && (w[0] == "random" || w[0] == "randomt"))
  {
    o.policy = vf::Policy::Random;
    o.seed = w.size() > 1 ? strtoull(w[1].c_str(), nullptr, 10) : 1;
    if (w[0] == "randomt")
    {
      // the wheel's tick wait may time out while other threads are runnable: the eviction path interleaves everywhere
      o.timeoutsOnlyWhenIdle = false;
      o.timeoutPermille = 150;
    }
  }
  else if (!w.empty())
  {
    o.policy = w[0] == "prefix" ? vf::Policy::Prefix : vf::Policy::Replay;
    o.plan.assign(w.begin() + 1, w.end());
  }
  return o;
}

static unsigned parseCache(const std::string &s)
{
  for (auto &w : vf::words(s))
    if (w.compare(0, 6, "cache=") == 0) return (unsigned)atoi(w.c_str() + 6);
  return 1;
}

static int cmdRun(int argc, char **argv)
{
  if (argc < 5) return 2;
  auto lines = vf::readLines(argv[2]);
  std::string scratch = argv[4];
  int par = argc > 5 ? atoi(argv[5]) : 8;
  struct Case
  {
    unsigned cache;
    std::vector<ThreadProg> prog;
    vf::Options opt;
  };
  std::vector<Case> cases;
  for (auto &ln : lines)
  {
    auto parts = vf::split(ln, '|');
    if (parts.size() < 3) continue;
    Case c;
    c.cache = parseCache(parts[0]);
    c.prog = parseProg(parts[1]);
    c.opt = parsePolicy(vf::words(parts[2]));
    cases.push_back(std::move(c));
  }
  auto res = vf::runMany((int)cases.size(), par, 60.0, std::string(argv[3]) + ".d", argv[3],
                         [&](int i) { return runOne(cases[i].cache, cases[i].prog, cases[i].opt, false, scratch); });
  printf("executions=%d crashed=%d timedout=%d\n", res.executions, res.crashed, res.timedOut);
  return 0;
}

// stateless DFS with a preemption bound; plans are thread NAMES (the store creates threads dynamically)
static int cmdDfs(int argc, char **argv)
{
  if (argc < 8) return 2;
  unsigned cache = (unsigned)atoi(argv[2]);
  auto prog = parseProg(argv[3]);
  int bound = atoi(argv[4]);
  int maxExec = atoi(argv[5]);
  std::string outPath = argv[6];
  std::string scratch = argv[7];
  int par = argc > 8 ? atoi(argv[8]) : 8;
  struct Node
  {
    std::vector<std::string> prefix;
    int pre;
  };
  std::vector<Node> wave{{{}, 0}};
  std::set<std::vector<std::string>> seen;
  FILE *out = fopen(outPath.c_str(), "w");
  if (!out) return 2;
  int total = 0;
  bool truncated = false;
  while (!wave.empty() && total < maxExec)
  {
    if ((int)wave.size() > maxExec - total)
    {
      std::shuffle(wave.begin(), wave.end(), std::mt19937(12345u + (unsigned)total));
      wave.resize(maxExec - total);
      truncated = true;
    }
    std::string tmp = outPath + ".wave";
    vf::runMany((int)wave.size(), par, 60.0, outPath + ".d", tmp,
                [&](int i)
                {
                  vf::Options o;
                  o.policy = vf::Policy::Prefix;
                  o.plan = wave[i].prefix;
                  return runOne(cache, prog, o, true, scratch);
                });
    auto lines = vf::readLines(tmp);
    unlink(tmp.c_str());
    std::vector<Node> nextWave;
    int idx = 0;
    long joinedAt = -1, spawnAt = -1;
    for (auto &ln : lines)
    {
      if (ln.rfind("#J", 0) == 0)
      {
        sscanf(ln.c_str() + 2, "%ld %ld", &joinedAt, &spawnAt);
        continue;
      }
      if (ln.rfind("#S", 0) == 0)
      {
        auto w = vf::words(ln.substr(2));
        std::vector<std::string> chosen;
        std::vector<int> chosenId;
        std::vector<std::vector<int>> en;
        std::map<int, std::string> nameOf;
        for (auto &e : w)
        {
          auto f = vf::split(e, ':');
          if (f.size() < 3) continue;
          chosen.push_back(f[0]);
          std::vector<int> v;
          for (auto &x : vf::split(f[1], ','))
            if (!x.empty()) v.push_back(atoi(x.c_str()));
          en.push_back(v);
          int id = atoi(f[2].c_str());
          chosenId.push_back(id);
          nameOf[id] = f[0];
        }
        const Node &nd = wave[idx];
        int pre = 0;
        for (size_t k = 0; k < chosen.size(); ++k)
        {
          bool prevEnabled = false;
          if (k > 0)
            for (int x : en[k])
              if (x == chosenId[k - 1]) prevEnabled = true;
          if (joinedAt >= 0 && (long)k > joinedAt) break; // sequential tail: read-back, close, reopen, read-back
          if (k >= nd.prefix.size() && (long)k >= spawnAt)
          {
            for (int alt : en[k])
            {
              if (alt == chosenId[k]) continue;
              if (!nameOf.count(alt)) continue;
              // a deviation costs one unit when it preempts a thread that could go on - and also when it runs one of the
              // store's own threads (w1, w2, ...: wheel tick thread, eviction worker) ahead of the default choice: the tick
              // thread's timed wait can time out again and again, so "free" switches to it would never be exhausted
              const std::string &an = nameOf[alt];
              bool background = an.size() >= 2 && an[0] == 'w' && isdigit((unsigned char)an[1]);
              bool preempts = k > 0 && prevEnabled && alt != chosenId[k - 1];
              int cost = pre + ((preempts || background) ? 1 : 0);
              if (cost > bound) continue;
              std::vector<std::string> p(chosen.begin(), chosen.begin() + k);
              p.push_back(nameOf[alt]);
              if (seen.insert(p).second) nextWave.push_back({p, cost});
            }
          }
          if (k > 0 && prevEnabled && chosenId[k] != chosenId[k - 1]) ++pre;
          if (k + 1 == nd.prefix.size() && nd.pre > pre) pre = nd.pre; // the planned prefix cost what it was charged
        }
        continue;
      }
      fprintf(out, "%s\n", ln.c_str());
      if (ln.find("\"e\":\"Reset\"") != std::string::npos) ++idx;
    }
    total += (int)wave.size();
    wave.swap(nextWave);
  }
  if (!wave.empty()) truncated = true;
  fclose(out);
  printf("executions=%d truncated=%d\n", total, truncated ? 1 : 0);
  return 0;
}

int main(int argc, char **argv)
{
  if (argc < 2) return 2;
  std::string cmd = argv[1];
  if (cmd == "run") return cmdRun(argc, argv);
  if (cmd == "dfs") return cmdDfs(argc, argv);
  return 2;
}
