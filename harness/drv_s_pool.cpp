// C09 conformance driver for iora::core::ThreadPool under the deterministic scheduler (vf/sched).
//
//   drv_s_pool run <cases.txt> <out.ndjson> [parallel]
//       case line:  <initial> <max> <queueCap> <idleMs> | <prog> | replay|prefix <threads...> | random <seed>
//       prog:  main=stop,join ; s1=try:1,fut:2:t,count ; s2=enq:3:s
//         submitter ops:  try:<id>[:kind]  enq:<id>[:kind]  fut:<id>[:kind]  count
//            kind n (plain), t (throws), s (submits task id+50 from inside the task), p (has a schedule point inside),
//                 l (long: sleeps 20 s of virtual time - longer than stop()'s drain and shutdown polling together)
//         main ops (after constructing the pool and starting the submitters; destruction is always last):
//            join (wait for the submitters)  drain  stop  count  idle (sleep 3 idle timeouts)  restart (stop, reset, start)  reset  start (the two halves of a restart as separate operations)
//   drv_s_pool dfs <initial> <max> <queueCap> <idleMs> <prog> <preemption bound> <max executions> <out.ndjson> [parallel]
//
// Events: Begin{init,max,cap} SubmitCall{t,id,api} SubmitRet{t,id,ok} TaskRun{id} TaskEnd{id} Count{t,n,nw}
//         LifeCall{op} LifeRet{op,ok} Future{id,ready,good,exc} End{outcome,stuck,steps}
#include "iora/core/thread_pool.hpp"
#include "vf/exec.hpp"
#include "vf/sched.hpp"
#include "vf/trace.hpp"

#include <future>
#include <algorithm>
#include <memory>
#include <random>
#include <set>

using iora::core::ThreadPool;

struct OpSpec
{
  std::string op;
  int id = 0;
  char kind = 'n';
};
struct ThreadProg
{
  std::string name;
  std::vector<OpSpec> ops;
};
struct Config
{
  int initial = 1, max = 2, cap = 2, idleMs = 30000;
};

static std::vector<ThreadProg> parseProg(const std::string &s)
{
  std::vector<ThreadProg> out;
  for (auto &part : vf::split(s, ';'))
  {
    std::string p;
    for (auto &x : vf::words(part)) p += x;
    if (p.empty()) continue;
    auto eq = p.find('=');
    ThreadProg tp;
    tp.name = p.substr(0, eq);
    if (eq != std::string::npos)
      for (auto &o : vf::split(p.substr(eq + 1), ','))
      {
        if (o.empty()) continue;
        auto f = vf::split(o, ':');
        OpSpec os;
        os.op = f[0];
        if (f.size() > 1) os.id = atoi(f[1].c_str());
        if (f.size() > 2 && !f[2].empty()) os.kind = f[2][0];
        tp.ops.push_back(os);
      }
    out.push_back(tp);
  }
  return out;
}

struct Shared
{
  vf::Trace tr;
  ThreadPool *pool = nullptr;
  std::vector<std::pair<std::pair<int, bool>, std::shared_future<int>>> futures; // guarded by the schedule (one thread runs at a time)
  std::atomic_flag futLock = ATOMIC_FLAG_INIT;
};

static std::function<int()> makeTask(Shared &sh, int id, char kind)
{
  return [&sh, id, kind]() -> int
  {
    sh.tr.add(vf::Ev("TaskRun").i("id", id));
    if (kind == 'p') vf::point("task");
    if (kind == 'l') std::this_thread::sleep_for(std::chrono::seconds(20)); // a long task (virtual time): outlasts stop()'s bounded polling
    if (kind == 's')
    {
      int cid = id + 50;
      sh.tr.add(vf::Ev("SubmitCall").str("t", "task").i("id", cid).str("api", "try"));
      bool ok = sh.pool->tryEnqueue(makeTask(sh, cid, 'n'));
      sh.tr.add(vf::Ev("SubmitRet").str("t", "task").i("id", cid).b("ok", ok));
    }
    sh.tr.add(vf::Ev("TaskEnd").i("id", id));
    if (kind == 't') throw std::runtime_error("task failed");
    return id * 10;
  };
}

static void submitter(Shared &sh, const ThreadProg &tp)
{
  for (auto &o : tp.ops)
  {
    vf::point("call");
    if (o.op == "sleep")
    {
      std::this_thread::sleep_for(std::chrono::milliseconds(o.id));
      continue;
    }
    if (o.op == "count")
    {
      int n = (int)sh.pool->getTotalThreadCount();
      sh.tr.add(vf::Ev("Count").str("t", tp.name).i("n", n).i("nw", vf::liveThreads("w")));
      continue;
    }
    sh.tr.add(vf::Ev("SubmitCall").str("t", tp.name).i("id", o.id).str("api", o.op));
    bool ok = false;
    auto task = makeTask(sh, o.id, o.kind);
    if (o.op == "try")
      ok = sh.pool->tryEnqueue(task);
    else if (o.op == "enq")
    {
      try
      {
        sh.pool->enqueue(task);
        ok = true;
      }
      catch (const std::exception &)
      {
        ok = false;
      }
    }
    else if (o.op == "fut")
    {
      try
      {
        auto f = sh.pool->enqueueWithResult(task).share();
        while (sh.futLock.test_and_set())
        {
        }
        sh.futures.push_back({{o.id, o.kind == 't'}, f});
        sh.futLock.clear();
        ok = true;
      }
      catch (const std::exception &)
      {
        ok = false;
      }
    }
    sh.tr.add(vf::Ev("SubmitRet").str("t", tp.name).i("id", o.id).b("ok", ok));
  }
}

static std::string runOne(const Config &cfg, const std::vector<ThreadProg> &prog, const vf::Options &opt, bool emitSched)
{
  auto sh = std::make_shared<Shared>();
  sh->tr.add(vf::Ev("Begin").i("init", cfg.initial).i("max", cfg.max).i("cap", cfg.cap));
  vf::Options o = opt;
  o.maxSteps = 60000;
  o.pointAfterUnlock = true;
  o.earliestDeadlineFirst = true;
  vf::reset(o);
  const ThreadProg *mainProg = nullptr;
  for (auto &tp : prog)
    if (tp.name == "main") mainProg = &tp;
  vf::spawn("main",
            [sh, cfg, &prog, mainProg]()
            {
              vf::point("construct");
              std::atomic<int> errors{0};
              auto *pool = new ThreadPool((std::size_t)cfg.initial, (std::size_t)cfg.max, std::chrono::milliseconds(cfg.idleMs),
                                          (std::size_t)cfg.cap, [&errors](std::exception_ptr) { ++errors; });
              sh->pool = pool;
              std::vector<std::thread> subs;
              for (auto &tp : prog)
              {
                if (tp.name == "main") continue;
                vf::nameNextChild(tp.name);
                subs.emplace_back([sh, &tp]() { submitter(*sh, tp); });
              }
              bool joined = false;
              auto joinAll = [&]()
              {
                if (joined) return;
                for (auto &t : subs) t.join();
                joined = true;
              };
              if (mainProg)
                for (auto &op : mainProg->ops)
                {
                  vf::point("call");
                  if (op.op == "join")
                    joinAll();
                  else if (op.op == "count")
                    sh->tr.add(vf::Ev("Count").str("t", "main").i("n", (int)pool->getTotalThreadCount()).i("nw", vf::liveThreads("w")));
                  else if (op.op == "idle")
                    std::this_thread::sleep_for(std::chrono::milliseconds(3LL * cfg.idleMs));
                  else if (op.op == "reset")
                  {
                    auto r1 = pool->reset();
                    sh->tr.add(vf::Ev("ResetRet").b("ok", r1.success));
                  }
                  else if (op.op == "start")
                  {
                    sh->tr.add(vf::Ev("Restart").b("ok", true)); // announced before the call, see "restart"
                    auto r2 = pool->start();
                    sh->tr.add(vf::Ev("RestartRet").b("ok", r2.success));
                  }
                  else if (op.op == "restart")
                  {
                    // a full cycle: stop (logged like any stop), reset, start - the pool accepts work again
                    sh->tr.add(vf::Ev("LifeCall").str("op", "stop"));
                    auto r0 = pool->stop();
                    sh->tr.add(vf::Ev("LifeRet").str("op", "stop").b("ok", r0.success));
                    auto r1 = pool->reset();
                    // (announced BEFORE start(): a submitter may be accepted as soon as start() has opened the pool, before
                    // this thread gets to log anything - but not before: a pool that has merely been reset is still stopped)
                    sh->tr.add(vf::Ev("Restart").b("ok", true));
                    auto r2 = pool->start();
                    sh->tr.add(vf::Ev("RestartRet").b("ok", r1.success && r2.success));
                  }
                  else if (op.op == "drain" || op.op == "stop")
                  {
                    sh->tr.add(vf::Ev("LifeCall").str("op", op.op));
                    auto r = op.op == "drain" ? pool->drain(30000) : pool->stop();
                    sh->tr.add(vf::Ev("LifeRet").str("op", op.op).b("ok", r.success));
                  }
                }
              joinAll();
              vf::point("call");
              sh->tr.add(vf::Ev("LifeCall").str("op", "destroy"));
              delete pool;
              sh->tr.add(vf::Ev("LifeRet").str("op", "destroy").b("ok", true));
              for (auto &f : sh->futures)
              {
                bool ready = f.second.wait_for(std::chrono::seconds(0)) == std::future_status::ready;
                bool good = false, exc = false;
                if (ready)
                {
                  try
                  {
                    good = f.second.get() == f.first.first * 10;
                  }
                  catch (...)
                  {
                    exc = true;
                  }
                }
                sh->tr.add(vf::Ev("Future").i("id", f.first.first).b("th", f.first.second).b("ready", ready).b("good", good).b("exc", exc));
              }
            });
  vf::Result r = vf::run();
  const char *oc = r.outcome == vf::Outcome::Done        ? "done"
                   : r.outcome == vf::Outcome::Stuck     ? "stuck"
                   : r.outcome == vf::Outcome::StepLimit ? "steplimit"
                                                         : "external";
  std::vector<std::string> stuck;
  for (auto &s : r.stuck) stuck.push_back(s);
  sh->tr.add(vf::Ev("End").str("outcome", oc).strs("stuck", stuck).b("drift", r.drift).i("steps", (long long)r.steps.size()));
  std::string text = sh->tr.text();
  if (getenv("VF_DEBUG_STEPS"))
  {
    std::string d;
    for (auto &st : r.steps) d += st.thread + ":" + st.op + " ";
    fprintf(stderr, "STEPS %s\n", d.c_str());
  }
  if (emitSched)
  {
    std::string s = "#S";
    for (auto &st : r.steps)
    {
      s += " " + st.thread + ":";
      for (size_t i = 0; i < st.enabled.size(); ++i) s += (i ? "," : "") + std::to_string(st.enabled[i]);
      s += ":" + std::to_string(st.tid);
    }
    text += s + "\n";
  }
  return text;
}

static vf::Options parsePolicy(const std::vector<std::string> &w)
{
  vf::Options o;
  if (!w.empty() && (w[0] == "random" || w[0] == "randomt"))
  {
    o.policy = vf::Policy::Random;
    o.seed = w.size() > 1 ? strtoull(w[1].c_str(), nullptr, 10) : 1;
    if (w[0] == "randomt")
    {
      // timed waits may time out (and sleeps return) while other threads are runnable, not only when everything is idle
      o.timeoutsOnlyWhenIdle = false;
      o.timeoutPermille = 200;
    }
  }
  else if (!w.empty())
  {
    o.policy = w[0] == "prefix" ? vf::Policy::Prefix : vf::Policy::Replay;
    o.plan.assign(w.begin() + 1, w.end());
  }
  return o;
}

static Config parseCfg(const std::string &s)
{
  Config c;
  auto w = vf::words(s);
  if (w.size() > 0) c.initial = atoi(w[0].c_str());
  if (w.size() > 1) c.max = atoi(w[1].c_str());
  if (w.size() > 2) c.cap = atoi(w[2].c_str());
  if (w.size() > 3) c.idleMs = atoi(w[3].c_str());
  return c;
}

static int cmdRun(int argc, char **argv)
{
  if (argc < 4) return 2;
  auto lines = vf::readLines(argv[2]);
  int par = argc > 4 ? atoi(argv[4]) : 8;
  struct Case
  {
    Config cfg;
    std::vector<ThreadProg> prog;
    vf::Options opt;
  };
  std::vector<Case> cases;
  for (auto &ln : lines)
  {
    auto parts = vf::split(ln, '|');
    if (parts.size() < 3) continue;
    Case c;
    c.cfg = parseCfg(parts[0]);
    c.prog = parseProg(parts[1]);
    c.opt = parsePolicy(vf::words(parts[2]));
    cases.push_back(std::move(c));
  }
  auto res = vf::runMany((int)cases.size(), par, 60.0, std::string(argv[3]) + ".d", argv[3],
                         [&](int i) { return runOne(cases[i].cfg, cases[i].prog, cases[i].opt, false); });
  printf("executions=%d crashed=%d timedout=%d\n", res.executions, res.crashed, res.timedOut);
  return 0;
}

// stateless DFS with a preemption bound; plans are thread NAMES (threads are created dynamically)
static int cmdDfs(int argc, char **argv)
{
  if (argc < 10) return 2;
  Config cfg;
  cfg.initial = atoi(argv[2]);
  cfg.max = atoi(argv[3]);
  cfg.cap = atoi(argv[4]);
  cfg.idleMs = atoi(argv[5]);
  auto prog = parseProg(argv[6]);
  int bound = atoi(argv[7]);
  int maxExec = atoi(argv[8]);
  std::string outPath = argv[9];
  int par = argc > 10 ? atoi(argv[10]) : 8;
  struct Node
  {
    std::vector<std::string> prefix;
    int pre;
  };
  std::vector<Node> wave{{{}, 0}};
  std::set<std::vector<std::string>> seen;
  FILE *out = fopen(outPath.c_str(), "w");
  int total = 0;
  bool truncated = false;
  while (!wave.empty() && total < maxExec)
  {
    if ((int)wave.size() > maxExec - total)
    {
      // truncation keeps a seeded random sample of the frontier (not its first entries), so that late preemption points
      // are explored as often as early ones
      std::shuffle(wave.begin(), wave.end(), std::mt19937(12345u + (unsigned)total));
      wave.resize(maxExec - total);
      truncated = true;
    }
    std::string tmp = outPath + ".wave";
    vf::runMany((int)wave.size(), par, 60.0, outPath + ".d", tmp,
                [&](int i)
                {
                  vf::Options o;
                  o.policy = vf::Policy::Prefix;
                  o.plan = wave[i].prefix;
                  return runOne(cfg, prog, o, true);
                });
    auto lines = vf::readLines(tmp);
    unlink(tmp.c_str());
    std::vector<Node> nextWave;
    int idx = 0;
    for (auto &ln : lines)
    {
      if (ln.rfind("#S", 0) == 0)
      {
        auto w = vf::words(ln.substr(2));
        std::vector<std::string> chosen;
        std::vector<int> chosenId;
        std::vector<std::vector<int>> en;
        std::map<int, std::string> nameOf;
        for (auto &e : w)
        {
          auto f = vf::split(e, ':');
          chosen.push_back(f[0]);
          std::vector<int> v;
          for (auto &x : vf::split(f[1], ','))
            if (!x.empty()) v.push_back(atoi(x.c_str()));
          en.push_back(v);
          int id = atoi(f[2].c_str());
          chosenId.push_back(id);
          nameOf[id] = f[0];
        }
        const Node &nd = wave[idx];
        int pre = 0;
        for (size_t k = 0; k < chosen.size(); ++k)
        {
          bool prevEnabled = false;
          if (k > 0)
            for (int x : en[k])
              if (x == chosenId[k - 1]) prevEnabled = true;
          if (k >= nd.prefix.size())
          {
            for (int alt : en[k])
            {
              if (alt == chosenId[k]) continue;
              if (!nameOf.count(alt)) continue; // a thread that never ran in this execution: reachable from another branch
              int cost = pre + ((k > 0 && prevEnabled && alt != chosenId[k - 1]) ? 1 : 0);
              if (cost > bound) continue;
              std::vector<std::string> p(chosen.begin(), chosen.begin() + k);
              p.push_back(nameOf[alt]);
              if (seen.insert(p).second) nextWave.push_back({p, cost});
            }
          }
          if (k > 0 && prevEnabled && chosenId[k] != chosenId[k - 1]) ++pre;
        }
        continue;
      }
      fprintf(out, "%s\n", ln.c_str());
      if (ln.find("\"e\":\"Reset\"") != std::string::npos) ++idx;
    }
    total += (int)wave.size();
    wave.swap(nextWave);
  }
  if (!wave.empty()) truncated = true;
  fclose(out);
  printf("executions=%d truncated=%d\n", total, truncated ? 1 : 0);
  return 0;
}

int main(int argc, char **argv)
{
  iora::core::Logger::setLevel(iora::core::Logger::Level::Fatal);
  if (argc < 2) return 2;
  std::string cmd = argv[1];
  if (cmd == "run") return cmdRun(argc, argv);
  if (cmd == "dfs") return cmdDfs(argc, argv);
  return 2;
}
