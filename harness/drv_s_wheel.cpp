// C08 conformance driver for iora::core::TimingWheel under the deterministic scheduler with VIRTUAL time.
// The wheel's own tick thread is created by start() inside a registered thread, so it is scheduled too; its timed wait
// times out only when the schedule says so and the virtual steady clock then jumps to its deadline.  A driver thread
// that sleeps advances virtual time by the whole sleep at once (the tick thread is then late: drift catch-up).
//
//   drv_s_wheel run <cases.txt> <out.ndjson> [parallel]
//     case:  <tickMs> <ticksPerWheel> <numWheels> | <prog> | random <seed> | replay ...
//     prog:  a=sched:1:30,sleep:70,cancel:1,quiesce ; b=sched:2:5,resched:2:40
//        ops: sched:<key>:<delayMs>  cancel:<key>  resched:<key>:<delayMs>  sleep:<ms>  quiesce (sleep tick by tick
//             for the whole range of the wheel, then log Quiesce)  drain  stop  — thread a ends with stop if not stopped
// Events: Begin{tick,range}  SchedCall{k,d,t} SchedRet{k,id,t}  Fire{k,t}  CancelRet{k,ok,t}  ReschedCall{k,d,t}
//         ReschedRet{k,ok,t}  Quiesce{t}  LifeCall{op,t} LifeRet{op,t}  End{outcome}
//   (k = the driver's key of the timer, t = virtual milliseconds since the start of the execution)
#include "iora/core/timing_wheel.hpp"
#include "vf/exec.hpp"
#include "vf/sched.hpp"
#include "vf/trace.hpp"

#include <map>
#include <memory>

using iora::core::TimingWheel;

struct OpSpec
{
  std::string op;
  int key = 0;
  int arg = 0;
};
struct ThreadProg
{
  std::string name;
  std::vector<OpSpec> ops;
};

static std::vector<ThreadProg> parseProg(const std::string &s)
{
  std::vector<ThreadProg> out;
  for (auto &part : vf::split(s, ';'))
  {
    std::string p;
    for (auto &x : vf::words(part)) p += x;
    if (p.empty()) continue;
    auto eq = p.find('=');
    ThreadProg tp;
    tp.name = p.substr(0, eq);
    if (eq != std::string::npos)
      for (auto &o : vf::split(p.substr(eq + 1), ','))
      {
        if (o.empty()) continue;
        auto f = vf::split(o, ':');
        OpSpec os;
        os.op = f[0];
        if (f[0] == "sleep")
          os.arg = f.size() > 1 ? atoi(f[1].c_str()) : 0;
        else
        {
          if (f.size() > 1) os.key = atoi(f[1].c_str());
          if (f.size() > 2) os.arg = atoi(f[2].c_str());
        }
        tp.ops.push_back(os);
      }
    out.push_back(tp);
  }
  return out;
}

struct Shared
{
  vf::Trace tr;
  TimingWheel *wheel = nullptr;
  std::map<int, iora::core::TimerId> ids; // one thread runs at a time
  long long vms() { return vf::virtualAdvanceNs() / 1000000LL; }
};

static std::string runOne(int tickMs, int tpw, int nw, const std::vector<ThreadProg> &prog, const vf::Options &opt)
{
  auto sh = std::make_shared<Shared>();
  long long range = 1;
  for (int i = 0; i < nw; ++i) range *= tpw;
  sh->tr.add(vf::Ev("Begin").i("tick", tickMs).i("range", range * tickMs));
  vf::Options o = opt;
  o.maxSteps = 40000;
  o.pointAfterUnlock = true;
  vf::reset(o);
  vf::spawn("a",
            [sh, tickMs, tpw, nw, range, &prog]()
            {
              vf::point("construct");
              auto *wheel = new TimingWheel(std::chrono::milliseconds(tickMs), (std::size_t)tpw, (std::size_t)nw);
              sh->wheel = wheel;
              wheel->start();
              std::atomic<bool> stopped{false};
              auto runOps = [sh, tickMs, range, &stopped](const ThreadProg &tp)
              {
                auto *w = sh->wheel;
                for (auto &op : tp.ops)
                {
                  vf::point("call");
                  if (op.op == "sched")
                  {
                    sh->tr.add(vf::Ev("SchedCall").i("k", op.key).i("d", op.arg).i("t", sh->vms()));
                    int key = op.key;
                    auto id = w->schedule(std::chrono::milliseconds(op.arg),
                                          [sh, key]() { sh->tr.add(vf::Ev("Fire").i("k", key).i("t", sh->vms())); });
                    if (id != iora::core::InvalidTimerId) sh->ids[op.key] = id;
                    sh->tr.add(vf::Ev("SchedRet").i("k", op.key).b("ok", id != iora::core::InvalidTimerId).i("t", sh->vms()));
                  }
                  else if (op.op == "cancel")
                  {
                    auto it = sh->ids.find(op.key);
                    if (it == sh->ids.end()) continue;
                    sh->tr.add(vf::Ev("CancelCall").i("k", op.key).i("t", sh->vms()));
                    bool ok = w->cancel(it->second);
                    sh->tr.add(vf::Ev("CancelRet").i("k", op.key).b("ok", ok).i("t", sh->vms()));
                  }
                  else if (op.op == "resched")
                  {
                    auto it = sh->ids.find(op.key);
                    if (it == sh->ids.end()) continue;
                    sh->tr.add(vf::Ev("ReschedCall").i("k", op.key).i("d", op.arg).i("t", sh->vms()));
                    bool ok = w->reschedule(it->second, std::chrono::milliseconds(op.arg));
                    sh->tr.add(vf::Ev("ReschedRet").i("k", op.key).b("ok", ok).i("t", sh->vms()));
                  }
                  else if (op.op == "sleep")
                    std::this_thread::sleep_for(std::chrono::milliseconds(op.arg));
                  else if (op.op == "quiesce")
                  {
                    // let the tick thread keep pace: one tick at a time, for the whole range of the wheel plus slack
                    for (long long i = 0; i < 2 * range + 8; ++i) std::this_thread::sleep_for(std::chrono::milliseconds(tickMs));
                    sh->tr.add(vf::Ev("Quiesce").i("t", sh->vms()));
                  }
                  else if (op.op == "drain" || op.op == "stop")
                  {
                    sh->tr.add(vf::Ev("LifeCall").str("op", op.op).i("t", sh->vms()));
                    if (op.op == "drain")
                      w->drain(std::chrono::milliseconds(30000));
                    else
                      w->stop();
                    stopped = true;
                    sh->tr.add(vf::Ev("LifeRet").str("op", op.op).i("t", sh->vms()));
                  }
                }
              };
              std::vector<std::thread> others;
              for (auto &tp : prog)
              {
                if (tp.name == "a") continue;
                vf::nameNextChild(tp.name);
                others.emplace_back([&runOps, &tp]() { runOps(tp); });
              }
              for (auto &tp : prog)
                if (tp.name == "a") runOps(tp);
              for (auto &t : others) t.join();
              vf::point("call");
              if (!stopped)
              {
                sh->tr.add(vf::Ev("LifeCall").str("op", "stop").i("t", sh->vms()));
                wheel->stop();
                sh->tr.add(vf::Ev("LifeRet").str("op", "stop").i("t", sh->vms()));
              }
              delete wheel;
            });
  vf::Result r = vf::run();
  const char *oc = r.outcome == vf::Outcome::Done        ? "done"
                   : r.outcome == vf::Outcome::Stuck     ? "stuck"
                   : r.outcome == vf::Outcome::StepLimit ? "steplimit"
                                                         : "external";
  sh->tr.add(vf::Ev("End").str("outcome", oc).strs("stuck", r.stuck).i("steps", (long long)r.steps.size()));
  return sh->tr.text();
}

int main(int argc, char **argv)
{
  if (argc < 4 || std::string(argv[1]) != "run") return 2;
  auto lines = vf::readLines(argv[2]);
  int par = argc > 4 ? atoi(argv[4]) : 8;
  struct Case
  {
    int tick, tpw, nw;
    std::vector<ThreadProg> prog;
    vf::Options opt;
  };
  std::vector<Case> cases;
  for (auto &ln : lines)
  {
    auto parts = vf::split(ln, '|');
    if (parts.size() < 3) continue;
    Case c;
    auto w = vf::words(parts[0]);
    c.tick = atoi(w[0].c_str());
    c.tpw = atoi(w[1].c_str());
    c.nw = atoi(w[2].c_str());
    c.prog = parseProg(parts[1]);
    auto pw = vf::words(parts[2]);
    if (pw[0] == "random")
    {
      c.opt.policy = vf::Policy::Random;
      c.opt.seed = pw.size() > 1 ? strtoull(pw[1].c_str(), nullptr, 10) : 1;
    }
    else
    {
      c.opt.policy = vf::Policy::Replay;
      c.opt.plan.assign(pw.begin() + 1, pw.end());
    }
    cases.push_back(std::move(c));
  }
  auto res = vf::runMany((int)cases.size(), par, 60.0, std::string(argv[3]) + ".d", argv[3],
                         [&](int i) { return runOne(cases[i].tick, cases[i].tpw, cases[i].nw, cases[i].prog, cases[i].opt); });
  printf("executions=%d crashed=%d timedout=%d\n", res.executions, res.crashed, res.timedOut);
  return 0;
}
