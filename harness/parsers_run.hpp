// Shared by drv_json.cpp and drv_xml.cpp (C13/C14): run a list of independent cases in forked workers so that a sanitizer
// abort or a hang costs exactly ONE case.  A worker processes a contiguous range, appends the events of each case to its
// own file and then a progress marker; when it dies or stops making progress the parent records {"e":"Crashed"|"Hung",
// "k":<index of the case in progress>} and starts a new worker behind that case.  stderr of the workers goes to
// <out>.d/w<i>.err (sanitizer reports), never to the parent's output.
#pragma once
#include "vf/exec.hpp"
#include <fcntl.h>
#include <functional>
#include <map>
#include <string>
#include <vector>

namespace vfp
{

struct RunStats
{
  int cases = 0, crashed = 0, hung = 0, workers = 0;
};

// body(k) -> ndjson text of case k (may be empty).  Output: concatenation in case order.
inline RunStats runResilient(int nCases, int batch, int parallel, double stallSec, const std::string &outPath,
                             const std::function<std::string(int)> &body)
{
  RunStats st;
  st.cases = nCases;
  std::string dir = outPath + ".d";
  mkdir(dir.c_str(), 0777);
  struct Range
  {
    int from, to, slot;
  };
  std::vector<Range> todo;
  int nslots = 0;
  for (int f = 0; f < nCases; f += batch) todo.push_back({f, std::min(nCases, f + batch), nslots++});
  std::vector<std::string> extra(nslots); // Crashed/Hung events per slot, already positioned by appending to the slot file
  struct Live
  {
    Range r;
    double lastProgress;
    off_t lastSize;
  };
  std::map<pid_t, Live> live;
  auto fileOf = [&](int slot) { return dir + "/s" + std::to_string(slot) + ".ndjson"; };
  auto lastDone = [&](int slot, int from) -> int
  {
    // highest k with a "#k" marker in the slot file, or from-1
    int best = from - 1;
    FILE *f = fopen(fileOf(slot).c_str(), "r");
    if (!f) return best;
    char *line = nullptr;
    size_t cap = 0;
    ssize_t n;
    while ((n = getline(&line, &cap, f)) > 0)
      if (line[0] == '#')
      {
        int k = atoi(line + 1);
        if (k > best) best = k;
      }
    free(line);
    fclose(f);
    return best;
  };
  size_t next = 0;
  while (next < todo.size() || !live.empty())
  {
    while (next < todo.size() && (int)live.size() < parallel)
    {
      Range r = todo[next++];
      fflush(nullptr);
      pid_t p = fork();
      if (p == 0)
      {
        std::string errp = dir + "/w" + std::to_string(r.slot) + ".err";
        int efd = open(errp.c_str(), O_WRONLY | O_CREAT | O_TRUNC, 0666);
        if (efd >= 0)
        {
          dup2(efd, 2);
          close(efd);
        }
        int fd = open(fileOf(r.slot).c_str(), O_WRONLY | O_CREAT | O_APPEND, 0666);
        for (int k = r.from; k < r.to; ++k)
        {
          std::string t = body(k);
          t += "#" + std::to_string(k) + "\n";
          size_t off = 0;
          while (off < t.size())
          {
            ssize_t w = write(fd, t.data() + off, t.size() - off);
            if (w <= 0) _exit(3);
            off += (size_t)w;
          }
        }
        close(fd);
        _exit(0);
      }
      st.workers++;
      live[p] = Live{r, vf::nowSec(), 0};
    }
    int status = 0;
    pid_t w = waitpid(-1, &status, WNOHANG);
    if (w > 0 && live.count(w))
    {
      Live lv = live[w];
      live.erase(w);
      bool ok = WIFEXITED(status) && WEXITSTATUS(status) == 0;
      if (!ok)
      {
        int done = lastDone(lv.r.slot, lv.r.from);
        int bad = done + 1;
        if (bad < lv.r.to)
        {
          FILE *f = fopen(fileOf(lv.r.slot).c_str(), "a");
          fprintf(f, "{\"e\":\"Crashed\",\"k\":%d}\n#%d\n", bad, bad);
          fclose(f);
          st.crashed++;
          if (bad + 1 < lv.r.to) todo.push_back({bad + 1, lv.r.to, lv.r.slot});
        }
      }
      continue;
    }
    double now = vf::nowSec();
    for (auto it = live.begin(); it != live.end();)
    {
      struct stat sb;
      off_t sz = stat(fileOf(it->second.r.slot).c_str(), &sb) == 0 ? sb.st_size : 0;
      if (sz != it->second.lastSize)
      {
        it->second.lastSize = sz;
        it->second.lastProgress = now;
      }
      if (now - it->second.lastProgress > stallSec)
      {
        kill(it->first, SIGKILL);
        int s2;
        waitpid(it->first, &s2, 0);
        Range r = it->second.r;
        int bad = lastDone(r.slot, r.from) + 1;
        if (bad < r.to)
        {
          FILE *f = fopen(fileOf(r.slot).c_str(), "a");
          fprintf(f, "{\"e\":\"Hung\",\"k\":%d}\n#%d\n", bad, bad);
          fclose(f);
          st.hung++;
          if (bad + 1 < r.to) todo.push_back({bad + 1, r.to, r.slot});
        }
        it = live.erase(it);
      }
      else
        ++it;
    }
    usleep(300);
  }
  FILE *out = fopen(outPath.c_str(), "w");
  for (int s = 0; s < nslots; ++s)
  {
    FILE *f = fopen(fileOf(s).c_str(), "r");
    if (!f) continue;
    char *line = nullptr;
    size_t cap = 0;
    ssize_t n;
    while ((n = getline(&line, &cap, f)) > 0)
      if (line[0] != '#') fwrite(line, 1, (size_t)n, out);
    free(line);
    fclose(f);
    unlink(fileOf(s).c_str());
  }
  fclose(out);
  return st;
}

} // namespace vfp
