// C20 conformance driver: iora::web::Assets::getStatic / getTemplate over a real directory tree.
//
//   drv_assets run   <cases> <out.ndjson> <fsroot>   one lookup case of AssetPath.tla per line (JSON)
//   drv_assets probe <fsroot>                        prints the file-system calls of one plain lookup per mode
//
// The tree (built here, under <fsroot>) is the constant FS0 of spec/web/AssetPath.tla: every regular file holds the text
// "TAG:<n>\n" with a unique n; the secret outside every root has tag 99.  A case names the mode, the request as a list
// of segment ids (joined with '/'), and optionally a leaf swap: the node `target` is atomically replaced by a symbolic
// link to the secret right before the k-th call of a family (stat / realpath / open / read) inside round r of the
// lookup ("fam"/"nth" of the case; "pre" = before the round starts) - the model's SwapLeaf step.  stat, lstat, fstatat, statx, open, openat, realpath and read are DEFINED in this
// executable (they interpose libstdc++'s std::filesystem and the header's own ::open/::read) and forward to libc via
// dlsym(RTLD_NEXT).
// Logged per lookup: result class, content tag, tag of the gzip variant, and - second oracle, from the OS - whether a
// regular file (lstat) physically located under the root of the mode held that tag when the lookup started (the root is
// walked without following links before every lookup that follows a change of the tree).
//
// Leaf kinds beyond file / directory / link: the tree holds a named pipe, a unix socket and a link to /dev/null in each
// root.  A helper thread (feeder) polls the write end of the pipes with O_WRONLY|O_NONBLOCK while a lookup runs (ENXIO
// until somebody opened the read end): code that opens a pipe does not hang, it receives "TAG:<tag of the pipe>" and the
// lookup is judged like any other (a pipe's tag is never that of a regular file).  alarm() is the backstop.
//
// Histories: a case may carry "hist", one operation between two consecutive lookups on the SAME Assets object:
// "dirout" (the intermediate directory <root>/dir is moved out of the tree and a symbolic link to the outside directory
// takes its name), "dirback" (undone), "reload" (Assets::reload()), "none".  The event carries dir = "in" | "out".
#include "iora/web/assets.hpp"
#include "vf/exec.hpp"
#include "vf/trace.hpp"

#include <atomic>
#include <dlfcn.h>
#include <fcntl.h>
#include <map>
#include <set>
#include <signal.h>
#include <stdarg.h>
#include <sys/socket.h>
#include <sys/stat.h>
#include <sys/un.h>
#include <thread>

using iora::web::Assets;
using iora::web::GetStaticResult;

// ------------------------------------------------------------------------------------------------ hook
static bool g_armed = false;          // counting calls of the lookup under test
static std::string g_family;          // swap right before the g_nth call of this family ...
static int g_nth = 0;
static std::map<std::string, int> g_count;
static std::string g_calls;           // families in call order (diagnostics, model drift)
static bool g_swapped = false;
static std::string g_swapTarget, g_swapTo;

static bool g_treeDirty = true;       // the tree changed since the inside-tags of the roots were collected
static void doSwap()
{
  g_treeDirty = true;
  std::string tmp = g_swapTarget + ".swap_tmp";
  ::unlink(tmp.c_str());
  if (::symlink(g_swapTo.c_str(), tmp.c_str()) == 0 && ::rename(tmp.c_str(), g_swapTarget.c_str()) == 0) g_swapped = true;
}

static void hook(const char *family)
{
  if (!g_armed) return;
  int n = ++g_count[family];
  if (g_calls.size() < 200) g_calls += std::string(g_calls.empty() ? "" : ",") + family;
  if (!g_swapped && g_nth > 0 && g_family == family && n == g_nth)
  {
    g_armed = false;
    doSwap();
    g_armed = true;
  }
}

template <class F> static F next(const char *name)
{
  return reinterpret_cast<F>(dlsym(RTLD_NEXT, name));
}

extern "C"
{
int stat(const char *p, struct stat *st)
{
  hook("stat");
  static auto f = next<int (*)(const char *, struct stat *)>("stat");
  return f(p, st);
}
int stat64(const char *p, struct stat64 *st)
{
  hook("stat");
  static auto f = next<int (*)(const char *, struct stat64 *)>("stat64");
  return f(p, st);
}
int lstat(const char *p, struct stat *st)
{
  hook("lstat");
  static auto f = next<int (*)(const char *, struct stat *)>("lstat");
  return f(p, st);
}
int lstat64(const char *p, struct stat64 *st)
{
  hook("lstat");
  static auto f = next<int (*)(const char *, struct stat64 *)>("lstat64");
  return f(p, st);
}
int fstatat(int d, const char *p, struct stat *st, int fl)
{
  hook((fl & AT_SYMLINK_NOFOLLOW) ? "lstat" : "stat");
  static auto f = next<int (*)(int, const char *, struct stat *, int)>("fstatat");
  return f(d, p, st, fl);
}
int fstatat64(int d, const char *p, struct stat64 *st, int fl)
{
  hook((fl & AT_SYMLINK_NOFOLLOW) ? "lstat" : "stat");
  static auto f = next<int (*)(int, const char *, struct stat64 *, int)>("fstatat64");
  return f(d, p, st, fl);
}
int statx(int d, const char *p, int fl, unsigned mask, struct statx *sx)
{
  hook((fl & AT_SYMLINK_NOFOLLOW) ? "lstat" : "stat");
  static auto f = next<int (*)(int, const char *, int, unsigned, struct statx *)>("statx");
  return f(d, p, fl, mask, sx);
}
int open(const char *p, int fl, ...)
{
  mode_t m = 0;
  if (fl & (O_CREAT | O_TMPFILE))
  {
    va_list ap;
    va_start(ap, fl);
    m = (mode_t)va_arg(ap, int);
    va_end(ap);
  }
  hook("open");
  static auto f = next<int (*)(const char *, int, ...)>("open");
  return f(p, fl, m);
}
int open64(const char *p, int fl, ...)
{
  mode_t m = 0;
  if (fl & (O_CREAT | O_TMPFILE))
  {
    va_list ap;
    va_start(ap, fl);
    m = (mode_t)va_arg(ap, int);
    va_end(ap);
  }
  hook("open");
  static auto f = next<int (*)(const char *, int, ...)>("open64");
  return f(p, fl, m);
}
int openat(int d, const char *p, int fl, ...)
{
  mode_t m = 0;
  if (fl & (O_CREAT | O_TMPFILE))
  {
    va_list ap;
    va_start(ap, fl);
    m = (mode_t)va_arg(ap, int);
    va_end(ap);
  }
  hook("open");
  static auto f = next<int (*)(int, const char *, int, ...)>("openat");
  return f(d, p, fl, m);
}
int openat64(int d, const char *p, int fl, ...)
{
  mode_t m = 0;
  if (fl & (O_CREAT | O_TMPFILE))
  {
    va_list ap;
    va_start(ap, fl);
    m = (mode_t)va_arg(ap, int);
    va_end(ap);
  }
  hook("open");
  static auto f = next<int (*)(int, const char *, int, ...)>("openat64");
  return f(d, p, fl, m);
}
char *realpath(const char *p, char *out)
{
  hook("realpath");
  static auto f = next<char *(*)(const char *, char *)>("realpath");
  return f(p, out);
}
ssize_t read(int fd, void *buf, size_t n)
{
  hook("read");
  static auto f = next<ssize_t (*)(int, void *, size_t)>("read");
  return f(fd, buf, n);
}
}

// ------------------------------------------------------------------------------------------------ mini JSON (flat)
struct J
{
  enum K { Int, Str, Arr, Obj } k = Int;
  long long i = 0;
  std::string s;
  std::vector<J> a;
  std::map<std::string, J> o;
  const J &operator[](const char *key) const
  {
    static J none;
    auto it = o.find(key);
    return it == o.end() ? none : it->second;
  }
};
struct JP
{
  const std::string &t;
  size_t p = 0;
  explicit JP(const std::string &x) : t(x) {}
  void ws()
  {
    while (p < t.size() && (t[p] == ' ' || t[p] == '\t')) ++p;
  }
  J val()
  {
    ws();
    J j;
    if (p >= t.size()) throw std::runtime_error("json: eof");
    char c = t[p];
    if (c == '{' || c == '[')
    {
      bool obj = c == '{';
      j.k = obj ? J::Obj : J::Arr;
      ++p;
      ws();
      if (t[p] == (obj ? '}' : ']'))
      {
        ++p;
        return j;
      }
      for (;;)
      {
        if (obj)
        {
          J key = val();
          ws();
          ++p; // ':'
          j.o[key.s] = val();
        }
        else
          j.a.push_back(val());
        ws();
        if (t[p] == ',')
        {
          ++p;
          continue;
        }
        ++p;
        break;
      }
    }
    else if (c == '"')
    {
      j.k = J::Str;
      ++p;
      while (p < t.size() && t[p] != '"')
      {
        if (t[p] == '\\') ++p;
        j.s += t[p++];
      }
      ++p;
    }
    else
    {
      size_t q = p;
      if (t[q] == '-') ++q;
      while (q < t.size() && isdigit((unsigned char)t[q])) ++q;
      j.i = atoll(t.substr(p, q - p).c_str());
      p = q == p ? p + 1 : q;
    }
    return j;
  }
};

// ------------------------------------------------------------------------------------------------ the tree (FS0)
namespace fs = std::filesystem;
static std::string g_root; // absolute, canonical

struct Node
{
  const char *path; // relative to g_root
  char kind;        // 'd' dir, 'f' file, 'l' symlink, 'p' named pipe, 's' unix socket, 'L' symlink to /<to> of the machine
  int tag;          // files; pipes: what the feeder writes into them
  const char *to;   // symlinks: target relative to g_root
};
// keep in step with FS0 in spec/web/AssetPath.tla (the check compares the two lists through `drv_assets tree`)
static const Node kTree[] = {
  {"secret", 'f', 99, nullptr},
  {"outdir", 'd', 0, nullptr},
  {"outdir/a", 'f', 98, nullptr},
  {"site", 'd', 0, nullptr},
  {"site/static", 'd', 0, nullptr},
  {"site/static/a", 'f', 1, nullptr},
  {"site/static/a.gz", 'l', 0, "secret"},
  {"site/static/dir", 'd', 0, nullptr},
  {"site/static/dir/a", 'f', 2, nullptr},
  {"site/static/dir/a.gz", 'f', 4, nullptr},
  {"site/static/a%2f..", 'f', 3, nullptr},
  {"site/static/link_in", 'l', 0, "site/static/dir/a"},
  {"site/static/link_out", 'l', 0, "secret"},
  {"site/static/dlink_out", 'l', 0, "outdir"},
  {"site/static/dlink_sib", 'l', 0, "site/static2"},
  {"site/static/link_x", 'l', 0, "site/templates/a"},
  {"site/static/pipe", 'p', 97, nullptr},
  {"site/static/link_pipe", 'l', 0, "site/static/pipe"},
  {"site/static/sock", 's', 0, nullptr},
  {"site/static/link_null", 'L', 0, "dev/null"},
  {"site/static2", 'd', 0, nullptr},
  {"site/static2/a", 'f', 96, nullptr},
  {"site/templates", 'd', 0, nullptr},
  {"site/templates/a", 'f', 11, nullptr},
  {"site/templates/dir", 'd', 0, nullptr},
  {"site/templates/dir/a", 'f', 12, nullptr},
  {"site/templates/a%2f..", 'f', 13, nullptr},
  {"site/templates/link_in", 'l', 0, "site/templates/dir/a"},
  {"site/templates/link_out", 'l', 0, "secret"},
  {"site/templates/dlink_out", 'l', 0, "outdir"},
  {"site/templates/dlink_sib", 'l', 0, "site/templates2"},
  {"site/templates/link_x", 'l', 0, "site/static/a"},
  {"site/templates/pipe", 'p', 94, nullptr},
  {"site/templates/link_pipe", 'l', 0, "site/templates/pipe"},
  {"site/templates/sock", 's', 0, nullptr},
  {"site/templates/link_null", 'L', 0, "dev/null"},
  {"site/templates2", 'd', 0, nullptr},
  {"site/templates2/a", 'f', 95, nullptr},
};

static void makeSocket(const std::string &p)
{
  // sun_path is short: bind relative to the directory
  static auto ropen = next<int (*)(const char *, int, ...)>("open");
  size_t sl = p.rfind('/');
  int cwd = ropen(".", O_RDONLY | O_DIRECTORY);
  if (cwd < 0 || ::chdir(p.substr(0, sl).c_str()) != 0) throw std::runtime_error("socket: chdir " + p);
  int s = ::socket(AF_UNIX, SOCK_STREAM, 0);
  struct sockaddr_un a;
  memset(&a, 0, sizeof a);
  a.sun_family = AF_UNIX;
  snprintf(a.sun_path, sizeof a.sun_path, "%s", p.substr(sl + 1).c_str());
  ::unlink(a.sun_path);
  int rc = s < 0 ? -1 : ::bind(s, (struct sockaddr *)&a, sizeof a);
  if (s >= 0) ::close(s);
  if (::fchdir(cwd) != 0) rc = -1;
  ::close(cwd);
  if (rc != 0) throw std::runtime_error("socket: bind " + p);
}
static void writeFile(const std::string &p, int tag)
{
  FILE *f = fopen(p.c_str(), "w");
  if (!f) throw std::runtime_error("cannot write " + p);
  fprintf(f, "TAG:%d\n", tag);
  fclose(f);
}
static void makeNode(const Node &n)
{
  std::string p = g_root + "/" + n.path;
  if (n.kind == 'd')
    fs::create_directories(p);
  else if (n.kind == 'f')
    writeFile(p, n.tag);
  else if (n.kind == 'p')
  {
    ::unlink(p.c_str());
    if (::mkfifo(p.c_str(), 0644) != 0) throw std::runtime_error("mkfifo " + p);
  }
  else if (n.kind == 's')
    makeSocket(p);
  else
  {
    ::unlink(p.c_str());
    std::string to = n.kind == 'L' ? std::string("/") + n.to : g_root + "/" + n.to;
    if (::symlink(to.c_str(), p.c_str()) != 0) throw std::runtime_error("symlink " + p);
  }
}
static void buildTree(const std::string &root)
{
  std::error_code ec;
  fs::remove_all(root, ec);
  fs::create_directories(root);
  g_root = fs::canonical(root).string();
  for (auto &n : kTree) makeNode(n);
  g_treeDirty = true;
}
static void restoreNode(const std::string &rel)
{
  for (auto &n : kTree)
    if (rel == n.path)
    {
      std::string p = g_root + "/" + rel;
      ::unlink(p.c_str());
      makeNode(n);
      g_treeDirty = true;
    }
}
static int tagOf(std::string_view bytes)
{
  if (bytes.size() < 5 || bytes.substr(0, 4) != "TAG:") return -1;
  return atoi(std::string(bytes.substr(4)).c_str());
}
// second oracle, from the OS: the tags held by regular files (lstat: S_ISREG, nothing followed) physically located under
// each root right now.  Collected before a lookup starts, whenever the tree changed since the last collection.
static std::map<std::string, std::set<int>> g_osInside;
static void walkInside(const std::string &dir, std::set<int> &out)
{
  std::error_code ec;
  for (fs::directory_iterator it(dir, ec), end; !ec && it != end; it.increment(ec))
  {
    fs::file_status st = it->symlink_status(ec);
    if (ec) break;
    if (fs::is_directory(st))
      walkInside(it->path().string(), out);
    else if (fs::is_regular_file(st))
    {
      char buf[64] = {0};
      FILE *f = fopen(it->path().c_str(), "r");
      if (f)
      {
        size_t n = fread(buf, 1, sizeof buf - 1, f);
        fclose(f);
        int t = tagOf(std::string_view(buf, n));
        if (t >= 0) out.insert(t);
      }
    }
  }
}
static void collectOsInside()
{
  if (!g_treeDirty) return;
  for (const char *rootRel : {"site/static", "site/templates"})
  {
    g_osInside[rootRel].clear();
    walkInside(g_root + "/" + rootRel, g_osInside[rootRel]);
  }
  g_treeDirty = false;
}
static bool osInside(int tag, const std::string &rootRel)
{
  if (tag == 21 || tag == 22) return true; // embedded in the binary, not a file
  return g_osInside[rootRel].count(tag) != 0;
}

// ------------------------------------------------------------------------------------------------ pipes: the feeder
static std::atomic<bool> g_inLookup{false}, g_stopFeeder{false};
static std::atomic<int> g_fed{0}; // times a pipe of the tree was found open for reading during the current lookup
static void feeder()
{
  static auto ropen = next<int (*)(const char *, int, ...)>("open");
  std::vector<std::pair<std::string, int>> pipes;
  for (auto &n : kTree)
    if (n.kind == 'p') pipes.emplace_back(g_root + "/" + n.path, n.tag);
  while (!g_stopFeeder.load())
  {
    if (g_inLookup.load() && g_fed.load() < 8)
      for (auto &p : pipes)
      {
        int fd = ropen(p.first.c_str(), O_WRONLY | O_NONBLOCK | O_CLOEXEC); // ENXIO unless a reader holds the pipe open
        if (fd >= 0)
        {
          std::string t = "TAG:" + std::to_string(p.second) + "\n";
          ssize_t w = ::write(fd, t.data(), t.size());
          (void)w;
          ::close(fd);
          ++g_fed;
        }
      }
    ::usleep(300);
  }
}
static void onAlarm(int)
{
  static const char m[] = "drv_assets: a lookup blocked (watchdog)\n";
  ssize_t w = ::write(2, m, sizeof m - 1);
  (void)w;
  _exit(3);
}

static std::string segText(const std::string &id)
{
  if (id == "EMPTY") return "";
  if (id == "DOT") return ".";
  if (id == "DOTDOT") return "..";
  if (id == "NUL") return std::string("a\0", 2) + "z";
  if (id == "BSL") return "a\\b";
  if (id == "PCT") return "a%2f..";
  if (id == "LONG") return std::string(300, 'x');
  if (id == "ABS") return g_root + "/secret";
  return id;
}

// embedded registry: one static and one template compiled in, every requested name is an EXTERNAL path
static std::vector<std::string> g_extNames;
static std::vector<std::string_view> g_extViews;
static std::string g_extDir;
static const iora::web::EmbeddedAsset kStatics[] = {{"emb.txt", "TAG:21\n", "0123456789abcdef0123456789abcdef", std::nullopt, ""}};
static const iora::web::EmbeddedTemplate kTemplates[] = {{"emb.html", "TAG:22\n"}};
static iora::web::EmbeddedAssetRegistry g_reg;

struct Outcome
{
  std::string res;
  int tag = 0, gz = 0;
};
static Outcome lookup(const Assets &a, const std::string &mode, const std::string &name)
{
  Outcome o;
  if (mode == "templates" || mode == "emb_templates")
  {
    auto t = a.getTemplate(name);
    o.res = t ? "found" : "notfound";
    if (t) o.tag = tagOf(*t);
    return o;
  }
  GetStaticResult r = a.getStatic(name);
  o.res = r.status == GetStaticResult::Status::Found ? "found" : r.status == GetStaticResult::Status::Rejected ? "rejected" : "notfound";
  if (r.status == GetStaticResult::Status::Found)
  {
    o.tag = tagOf(r.blob.bytes);
    if (r.blob.gzipBytes) o.gz = tagOf(*r.blob.gzipBytes);
  }
  return o;
}

static std::string runCase(const std::string &line)
{
  J c = JP(line).val();
  const std::string mode = c["mode"].s;
  std::string name;
  std::string segsJson = "[";
  for (size_t i = 0; i < c["segs"].a.size(); ++i)
  {
    name += (i ? "/" : "") + segText(c["segs"].a[i].s);
    segsJson += (i ? ",\"" : "\"") + c["segs"].a[i].s + "\"";
  }
  segsJson += "]";
  const std::string swap = c["swap"].s;
  const int swapRound = (int)c["round"].i;
  const std::string point = c["fam"].s; // "pre" | "stat" | "realpath" | "open" | "read"
  const int nth = (int)c["nth"].i;
  std::string target;
  for (size_t i = 0; i < c["target"].a.size(); ++i) target += (i ? "/" : "") + c["target"].a[i].s;
  const std::string rootRel = (mode == "templates") ? "site/templates" : "site/static";
  int rounds = (int)c["rounds"].i;
  if (rounds < 1) rounds = 1;
  std::vector<std::string> hist;
  for (auto &h : c["hist"].a) hist.push_back(h.s);
  const std::string swapDir = g_root + "/" + rootRel + "/dir", stashDir = g_root + "/stash_dir";
  bool dirOut = false;
  auto dirBack = [&]()
  {
    if (::unlink(swapDir.c_str()) != 0 || ::rename(stashDir.c_str(), swapDir.c_str()) != 0) throw std::runtime_error("dirback failed");
    dirOut = false;
    g_treeDirty = true;
  };
  std::unique_ptr<Assets> a;
  if (mode == "fs_cached" || mode == "templates")
    a.reset(new Assets(Assets::fromDirectory(g_root + "/site", false)));
  else if (mode == "fs_perreq")
    a.reset(new Assets(Assets::fromDirectory(g_root + "/site", true)));
  else
  {
    // embedded + EXTERNAL_DIR: the requested name itself is registered as an external path
    g_extNames = {name};
    g_extViews = {std::string_view(g_extNames[0])};
    g_extDir = g_root + "/site/static";
    g_reg = iora::web::EmbeddedAssetRegistry{};
    g_reg.statics = kStatics;
    g_reg.staticsCount = 1;
    g_reg.templates = kTemplates;
    g_reg.templatesCount = 1;
    g_reg.externalDir = g_extDir;
    g_reg.externalPaths = g_extViews.data();
    g_reg.externalPathsCount = 1;
    a.reset(new Assets(Assets::fromEmbedded(g_reg)));
  }
  std::string out;
  g_swapped = false;
  g_swapTarget = g_root + "/" + target;
  g_swapTo = g_root + "/secret";
  for (int r = 1; r <= rounds; ++r)
  {
    if (r >= 2 && (size_t)(r - 2) < hist.size())
    {
      const std::string &op = hist[r - 2];
      if (op == "dirout" && !dirOut)
      {
        if (::rename(swapDir.c_str(), stashDir.c_str()) != 0 || ::symlink((g_root + "/outdir").c_str(), swapDir.c_str()) != 0)
          throw std::runtime_error("dirout failed");
        dirOut = true;
        g_treeDirty = true;
      }
      else if (op == "dirback" && dirOut)
        dirBack();
      else if (op == "reload")
        a->reload();
      else if (op != "none")
        throw std::runtime_error("history operation not applicable: " + op);
    }
    collectOsInside();
    g_count.clear();
    g_calls.clear();
    g_nth = 0;
    if (swap != "none" && r == swapRound && !g_swapped)
    {
      if (point == "pre")
        doSwap();
      else
      {
        g_family = point;
        g_nth = nth;
      }
    }
    g_fed = 0;
    ::alarm(300);
    g_inLookup = true;
    g_armed = true;
    Outcome o;
    std::string what;
    try
    {
      o = lookup(*a, mode, name);
    }
    catch (const std::exception &ex)
    {
      o.res = "exception";
      what = ex.what();
    }
    g_armed = false;
    g_inLookup = false;
    ::alarm(0);
    bool osIn = o.res == "found" ? osInside(o.tag, rootRel) : true;
    bool gzIn = (o.res == "found" && o.gz != 0) ? osInside(o.gz, rootRel) : true;
    vf::Ev e("Lookup");
    e.str("mode", mode).raw("segs", segsJson).str("swap", swap).i("sround", swapRound).str("fam", point).i("nth", nth);
    e.i("round", r).b("swapped", g_swapped).str("res", o.res).i("tag", o.tag).i("gz", o.gz).b("os_in", osIn && gzIn);
    e.str("dir", dirOut ? "out" : "in").i("fed", g_fed.load()).str("calls", g_calls);
    out += e.done() + "\n";
  }
  if (g_swapped || swap != "none") restoreNode(target);
  if (dirOut) dirBack();
  return out;
}

int main(int argc, char **argv)
{
  if (argc >= 3 && std::string(argv[1]) == "probe")
  {
    buildTree(argv[2]);
    ::signal(SIGALRM, onAlarm);
    for (const char *m : {"fs_cached", "fs_perreq", "embedded_ext", "templates"})
    {
      std::string line = std::string("{\"mode\":\"") + m + "\",\"segs\":[\"dir\",\"a\"],\"swap\":\"none\",\"round\":0,\"fam\":\"pre\",\"nth\":0,\"target\":[],\"rounds\":2}";
      printf("%s", runCase(line).c_str());
    }
    return 0;
  }
  if (argc >= 3 && std::string(argv[1]) == "tree")
  {
    // the tree as the driver builds it, for the comparison with FS0 of the specification
    for (auto &n : kTree) printf("%s %c %d %s\n", n.path, n.kind, n.tag, n.to ? n.to : "-");
    return 0;
  }
  if (argc < 5 || std::string(argv[1]) != "run")
  {
    fprintf(stderr, "usage: drv_assets run <cases> <out.ndjson> <fsroot> | probe <fsroot> | tree x\n");
    return 2;
  }
  buildTree(argv[4]);
  ::signal(SIGALRM, onAlarm);
  std::thread feed(feeder);
  std::vector<std::string> lines = vf::readLines(argv[2]);
  FILE *out = fopen(argv[3], "w");
  long n = 0;
  for (auto &ln : lines)
  {
    std::string ev;
    try
    {
      ev = runCase(ln);
    }
    catch (const std::exception &ex)
    {
      ev = std::string("{\"e\":\"DriverError\",\"what\":\"") + vf::Ev::esc(ex.what()) + "\"}\n";
    }
    fputs(ev.c_str(), out);
    ++n;
  }
  fclose(out);
  g_stopFeeder = true;
  feed.join();
  std::error_code ec;
  fs::remove_all(argv[4], ec);
  printf("cases=%ld\n", n);
  return 0;
}
